#!/venv/bin/python
"""Entry point of every registered check:  check.py <property> [--tier quick|thorough] | --replay <path>

exit 0: property held on everything explored (KNOWN-FINDING lines for listed findings)
exit 1: VIOLATION property=<id> replay=<path> [no-failing-input-found]
exit 2: the check itself could not run (never reported as a violation)
"""
import argparse
import json
import os
import sys
import traceback

sys.path.insert(0, os.path.dirname(os.path.abspath(__file__)))


def main():
    ap = argparse.ArgumentParser()
    ap.add_argument("pid", nargs="?")
    ap.add_argument("--tier", default=os.environ.get("VERIF_TIER", "quick"))
    ap.add_argument("--replay")
    args = ap.parse_args()
    from harness import framework, registry

    if args.replay:
        from harness import replay
        return replay.run(args.replay)
    tier = args.tier if args.tier in ("quick", "thorough") else "quick"
    try:
        seed = int(os.environ.get("VERIF_SEED", "0"))
    except ValueError:
        seed = 0
    if args.pid not in registry.CHECKS:
        print("unknown property", args.pid)
        return 2
    ctx = framework.Ctx(args.pid, tier, seed)
    try:
        ctx.lean_stage()
        registry.CHECKS[args.pid](ctx)
    except Exception:
        ctx.harness_error = traceback.format_exc()
    return ctx.finish()


if __name__ == "__main__":
    sys.exit(main())
