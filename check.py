#!/venv/bin/python
"""Entry point of every registered check:  check.py <property> [--tier quick|thorough] | --replay <path>

exit 0: property held on everything explored (KNOWN-FINDING lines for listed findings)
exit 1: VIOLATION property=<id> replay=<path> [no-failing-input-found]
exit 2: the check itself could not run (never reported as a violation)
"""
import argparse
import json
import os
import sys
import traceback

sys.path.insert(0, os.path.dirname(os.path.abspath(__file__)))


def main():
    ap = argparse.ArgumentParser()
    ap.add_argument("pid", nargs="?")
    ap.add_argument("--tier", default=os.environ.get("VERIF_TIER", "quick"))
    ap.add_argument("--replay")
    args = ap.parse_args()
    from harness import framework, registry

    if args.replay:
        from harness import replay
        return replay.run(args.replay)
    tier = args.tier if args.tier in ("quick", "thorough") else "quick"
    try:
        seed = int(os.environ.get("VERIF_SEED", "0"))
    except ValueError:
        seed = 0
    if args.pid not in registry.CHECKS:
        print("unknown property", args.pid)
        return 2
    ctx = framework.Ctx(args.pid, tier, seed)

    # watchdog: a check that cannot finish is a check that could not run (exit 2), never a verdict
    import multiprocessing
    import signal

    def on_alarm(signum, frame):
        print(f"HARNESS-ERROR: check {args.pid} exceeded its time budget; stopped")
        sys.stdout.flush()
        for ch in multiprocessing.active_children():
            try:
                ch.kill()
            except Exception:  # noqa
                pass
        os._exit(2)

    try:
        budget = int(os.environ.get("VERIF_BUDGET_S", "1800" if tier == "quick" else "21600"))
    except ValueError:
        budget = 1800
    signal.signal(signal.SIGALRM, on_alarm)
    signal.alarm(budget)
    try:
        ctx.lean_stage()
        registry.CHECKS[args.pid](ctx)
    except Exception:
        ctx.harness_error = traceback.format_exc()
    return ctx.finish()


if __name__ == "__main__":
    sys.exit(main())
