#!/venv/bin/python
"""Validate a seeded change produced by an independent sub-agent and run the checks on it.

usage: tools_seeded.py <seed-id> <property> <outdir-with-patch.diff/demo.py/notes.md> [--checks C01,C02,...]

1. confirms in a scratch worktree of /repo HEAD: patch applies, the 110 baseline tests pass with
   it, demo.py exits 1 with it and 0 without it;
2. runs the registered quick checks against the patched scratch worktree (MATHY_REPO=<worktree>;
   the harness imports the repository from that path) and records which of them report a
   VIOLATION;
3. stores patch, demo, notes and meta.json under seeded/<seed-id>/ and removes the worktree.
"""
import json
import os
import shutil
import subprocess
import sys
import time

VERIF = os.path.dirname(os.path.abspath(__file__))
ALL = ["C%02d" % i for i in range(1, 19)]


def sh(cmd, **kw):
    return subprocess.run(cmd, shell=True, stdout=subprocess.PIPE, stderr=subprocess.STDOUT, text=True, **kw)


def main():
    sid, prop, out = sys.argv[1], sys.argv[2], sys.argv[3]
    checks = ALL
    if "--checks" in sys.argv:
        checks = sys.argv[sys.argv.index("--checks") + 1].split(",")
    # the checks rewrite evidence/<id>.json; evidence must describe runs on /repo itself, so the
    # files are put back after the runs against the patched scratch worktree
    ev_backup = f"/tmp/seedcheck_ev_{sid}"
    shutil.rmtree(ev_backup, ignore_errors=True)
    shutil.copytree(os.path.join(VERIF, "evidence"), ev_backup)
    wt = f"/tmp/seedcheck_{sid}"
    sh(f"git -C /repo worktree remove --force {wt}")
    r = sh(f"git -C /repo worktree add --detach {wt} HEAD")
    meta = {"id": sid, "breaks_property": prop, "source": "independent sub-agent given only the property text and a scratch worktree",
            "ran": [], "validated_at": time.strftime("%Y-%m-%d %H:%M:%S")}
    try:
        env = dict(os.environ, PYTHONPATH=wt)
        d0 = sh(f"cd {wt} && /venv/bin/python {out}/demo.py", env=env)
        meta["demo_exit_unchanged"] = d0.returncode
        ap = sh(f"git -C {wt} apply {out}/patch.diff")
        meta["patch_applies"] = ap.returncode == 0
        if ap.returncode != 0:
            meta["patch_error"] = ap.stdout[-500:]
        t = sh(f"cd {wt} && /venv/bin/python -m pytest -q -p no:cacheprovider 2>&1 | tail -1", env=env)
        meta["test_suite_with_change"] = t.stdout.strip()
        d1 = sh(f"cd {wt} && /venv/bin/python {out}/demo.py", env=env)
        meta["demo_exit_changed"] = d1.returncode
        meta["demo_output_changed"] = d1.stdout[-600:]
        meta["confirmed"] = bool(meta["patch_applies"] and "110 passed" in meta["test_suite_with_change"]
                                 and d1.returncode == 1 and d0.returncode == 0)
        meta["ran"].append("scratch worktree of /repo HEAD: demo.py (unchanged), git apply patch.diff, pytest (110 baseline), demo.py (changed)")
        detected, results = [], {}
        if meta["confirmed"]:
            env2 = dict(os.environ, MATHY_REPO=wt)
            from concurrent.futures import ThreadPoolExecutor

            def run(c):
                return c, sh(f"cd {VERIF} && /venv/bin/python check.py {c} --tier quick", env=env2, timeout=3000)

            with ThreadPoolExecutor(int(os.environ.get("SEED_PAR", "6"))) as ex:
                for c, p in ex.map(run, checks):
                    lines = [l for l in p.stdout.splitlines() if l.startswith(("VIOLATION", "OK ", "HARNESS", "KNOWN"))]
                    results[c] = {"exit": p.returncode, "lines": [l[:300] for l in lines[:6]]}
                    if p.returncode == 1:
                        detected.append(c)
            meta["ran"].append("quick checks with MATHY_REPO=<patched scratch worktree>: " + ",".join(checks))
        meta["detected_by"] = detected
        meta["check_results"] = results
        # restore evidence files from the clean tree is done by the caller (re-running checks)
    finally:
        sh(f"git -C /repo worktree remove --force {wt}")
        for fn in os.listdir(ev_backup):
            shutil.copy(os.path.join(ev_backup, fn), os.path.join(VERIF, "evidence", fn))
        shutil.rmtree(ev_backup, ignore_errors=True)
        # the generated Lean files were regenerated from the patched sources: regenerate from /repo
        sh(f"cd {VERIF} && /venv/bin/python -c 'from harness import gen_tables; gen_tables.regenerate_all()'")
    dest = os.path.join(VERIF, "seeded", sid)
    os.makedirs(dest, exist_ok=True)
    for f in ("patch.diff", "demo.py", "notes.md"):
        if os.path.exists(os.path.join(out, f)):
            shutil.copy(os.path.join(out, f), os.path.join(dest, f))
    notes = ""
    try:
        notes = open(os.path.join(out, "notes.md")).read()
    except OSError:
        pass
    meta["needs_to_manifest"] = notes[:1500]
    try:
        prev = json.load(open(os.path.join(dest, "meta.json")))
        for c, r in prev.get("check_results", {}).items():
            if c not in meta.get("check_results", {}):
                meta.setdefault("check_results", {})[c] = dict(r, from_earlier_run=prev.get("validated_at"))
                if r.get("exit") == 1 and not any("no-failing-input-found" in l and "unproved" in l for l in r.get("lines", [])):
                    meta["detected_by"].append(c)
        meta["detected_by"] = sorted(set(meta["detected_by"]))
    except (OSError, ValueError):
        pass
    json.dump(meta, open(os.path.join(dest, "meta.json"), "w"), indent=1)
    print(json.dumps({k: meta[k] for k in ("id", "confirmed", "detected_by", "test_suite_with_change", "demo_exit_changed", "demo_exit_unchanged")}))


if __name__ == "__main__":
    main()
