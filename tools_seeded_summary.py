#!/usr/bin/env python3
"""Writes seeded/SUMMARY.md from seeded/*/meta.json."""
import glob, json, os
V = os.path.dirname(os.path.abspath(__file__))
rows = []
for f in sorted(glob.glob(os.path.join(V, "seeded", "*", "meta.json"))):
    m = json.load(open(f))
    first = (m.get("needs_to_manifest") or "").strip().splitlines()
    need = " ".join(first)[:260]
    rows.append((m["id"], m["breaks_property"], "yes" if m.get("confirmed") else "NO", ", ".join(m.get("detected_by", [])) or "— (missed)", need))
out = ["# Seeded changes", "",
       "Each change was written by an independent sub-agent that saw only the property text and a scratch worktree;",
       "`confirmed` = patch applies to /repo HEAD, the 110 baseline tests pass with it, the demonstration fails with it and passes without it.",
       "`detected by` = quick checks that exit 1 on the patched tree (run by tools_seeded.py, see each meta.json).", "",
       "| id | breaks | confirmed | detected by | what it needs to manifest |", "|---|---|---|---|---|"]
for r in rows:
    out.append("| " + " | ".join(x.replace("|", "/") for x in r) + " |")
open(os.path.join(V, "seeded", "SUMMARY.md"), "w").write("\n".join(out) + "\n")
print("\n".join(out[-len(rows):]))
