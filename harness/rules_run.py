"""Differential execution of the nine rules: real implementation vs Lean model, plus the
property oracles of C01/C02/C06/C07 evaluated on the real results."""
import multiprocessing as mp
import traceback

from . import core
from .core import X


def _retag(t, counter):
    """tags = 1-based in-order positions (what tag_map assigns to the real tree)"""
    k = t[0]
    if k in "CV":
        counter[0] += 1
        return (k, counter[0], t[2])
    if k == "U":
        counter[0] += 1
        me = counter[0]
        c = _retag(t[3], counter)
        return ("U", me, t[2], c)
    l = _retag(t[3], counter)
    counter[0] += 1
    me = counter[0]
    r = _retag(t[4], counter)
    return ("B", me, t[2], l, r)


def retag(t):
    return _retag(t, [0])


def impl_case(tree):
    """Everything the implementation does on one tree: node search for all rules (with purity
    snapshots) and every applicable rewrite, each on a copy cloned from the root."""
    rec = {"tree": tree, "find": {}, "apply": [], "purity": [], "find_meta": []}
    for rn in core.RULE_NAMES:
        rule = core.rule_instance(rn)
        root = core.tuple_to_py(tree)
        nodes_inorder = core.inorder(root)
        before = core.snapshot(root)
        try:
            found = rule.find_nodes(root)
        except Exception as e:  # noqa
            rec["find"][rn] = ("exc", type(e).__name__, str(e)[:200])
            continue
        after = core.snapshot(root)
        if before != after:
            rec["purity"].append((rn, "find_nodes modified the tree"))
        pos = {id(n): i for i, n in enumerate(nodes_inorder)}
        idxs = [pos.get(id(n), -1) for n in found]
        rec["find"][rn] = ("ok", idxs)
        # r_index recorded on every node = in-order index
        bad_r = [i for i, n in enumerate(nodes_inorder) if getattr(n, "r_index", None) != i]
        if bad_r:
            rec["find_meta"].append((rn, "r_index", bad_r[:5]))
        # can_apply_to agrees with find_nodes at every node, twice, and writes nothing
        for i, n in enumerate(nodes_inorder):
            try:
                a1 = bool(rule.can_apply_to(n))
                a2 = bool(rule.can_apply_to(n))
            except Exception as e:  # noqa
                rec["purity"].append((rn, f"can_apply_to raised {type(e).__name__} at {i}"))
                continue
            if a1 != a2:
                rec["purity"].append((rn, f"can_apply_to not deterministic at {i}"))
            if a1 != (i in idxs):
                rec["find_meta"].append((rn, "find_nodes!=can_apply_to", i))
        if core.snapshot(root) != before:
            rec["purity"].append((rn, "can_apply_to modified the tree"))
        try:
            first = rule.find_node(root)
            fi = pos.get(id(first), -1) if first is not None else None
        except Exception as e:  # noqa
            fi = ("exc", type(e).__name__)
        if fi != (idxs[0] if idxs else None):
            rec["find_meta"].append((rn, "find_node", fi))
        # apply at every applicable node
        for i in idxs:
            rec["apply"].append(impl_apply(tree, rn, i))
    return rec


def impl_apply(tree, rn, i):
    rule = core.rule_instance(rn)
    orig = core.tuple_to_py(tree)
    if core.shash(core.tuple_to_wire(tree), rn, "ids") % 3 == 0:
        # node ids are labels, not identities: trees assembled from clones of one fragment (and
        # every result of a rule that clones an operand) carry the same id on several nodes
        seen = {}
        for n in core.inorder(orig):
            try:
                sig = core.tuple_to_wire(core.strip_tags(core.to_tuple(n)))
            except core.Unmodelled:
                continue
            if sig in seen:
                n.id = seen[sig]
            else:
                seen[sig] = n.id
    try:
        str(orig)   # states are routinely rendered before a rule is applied (agents print them)
    except Exception:
        pass
    orig_snap = core.snapshot(orig)
    node = core.inorder(orig)[i]
    out = {"rule": rn, "idx": i}
    try:
        copy_node = node.clone_from_root()
        copy_root = copy_node.get_root()
        tags = core.tag_map(copy_root)
        if tags[id(copy_node)] != i + 1:
            out["clone_pos"] = tags[id(copy_node)]
        copy_snap = core.snapshot(copy_root) if rn == "bm" else None
        slot_parent = copy_node.parent
        if rn == "as" and slot_parent is not None:
            slot_parent = slot_parent.parent      # a rotation: the node takes the place of its PARENT
        change = rule.apply_to(copy_node)
        res = change.result
        if copy_snap is not None and core.snapshot(copy_root) != copy_snap:
            # balanced move returns a NEW tree: the tree it was given must be left alone
            out["orig_modified"] = True
        if res is None:
            out["impl"] = ("exc", "NoResult", "change.result is None")
            return out
        rroot = res.get_root()
        out["audit"] = core.audit_links(rroot)
        # the node the rule hands back takes the place of the rewritten node: its parent is the parent the
        # rewritten node had (none at the root) and that parent points at it; the rewritten node is gone
        # (balanced move returns a node of a NEW tree it built from the root down)
        if rn != "bm" and not out["audit"]:
            if res.parent is not slot_parent:
                out["audit"] = [("result-parent", "change.result.parent is not the parent of the rewritten node"
                                 + (" (the rewrite was at the root: the result must be a root)" if slot_parent is None else ""))]
            elif slot_parent is not None and slot_parent.left is not res and slot_parent.right is not res:
                out["audit"] = [("result-parent", "the parent of the rewritten node does not point at change.result")]
        if not out["audit"]:
            st = core.eval_stale(rroot)
            if st is not None:
                out["eval_stale"] = st
        try:
            res = core.to_tuple(rroot, tags)
            out["impl"] = ("ok", res)
            out["value"] = core.refines(tree, res)   # property oracle, evaluated in the worker
        except core.Unmodelled as u:
            out["impl"] = ("unmodelled", str(u))
        try:
            out["text"] = str(rroot)
        except Exception as e:  # noqa
            out["text"] = None
            out["print_exc"] = type(e).__name__
    except Exception as e:  # noqa
        out["impl"] = ("exc", type(e).__name__, (str(e) or traceback.format_exc())[:200])
    if core.snapshot(orig) != orig_snap:
        out["orig_modified"] = True
    # second step, applied DIRECTLY to the tree the first rewrite returned (no re-cloning): a rule
    # that reports applicable on a rewritten tree must be appliable there (sampled: 1 case in 3)
    if out.get("impl", ("",))[0] == "ok" and (core.shash(core.tuple_to_wire(tree), rn, i) % 3 == 0):
        try:
            cands = []
            searching = None
            for rn2 in core.RULE_NAMES:
                searching = rn2
                r2 = core.rule_instance(rn2)
                for n2 in r2.find_nodes(rroot):
                    cands.append((rn2, n2.r_index))
            searching = None
            cands.sort()
            if cands:
                rn2, idx2 = cands[core.shash(rn, i, len(cands)) % len(cands)]
                n2 = core.inorder(rroot)[idx2]
                try:
                    ch2 = core.rule_instance(rn2).apply_to(n2)
                    if ch2.result is None:
                        out["second_step"] = {"rule": rn2, "idx": idx2, "problem": "no result"}
                    else:
                        probs = core.audit_links(ch2.result.get_root())
                        if probs:
                            out["second_step"] = {"rule": rn2, "idx": idx2, "problem": "malformed tree", "audit": probs[:3]}
                except Exception as e:  # noqa
                    out["second_step"] = {"rule": rn2, "idx": idx2, "problem": f"apply_to raised {type(e).__name__}: {e}"[:200],
                                          "tree_after_first_step": out.get("text")}
        except Exception as e:  # noqa
            out["second_step"] = {"rule": searching, "problem": f"find_nodes of {searching} raised {type(e).__name__} on a rewritten tree",
                                  "tree_after_first_step": out.get("text")}
    return out


def _worker(chunk):
    return [impl_case(t) for t in chunk]


def run_impl(trees, procs=None):
    """trees: list of neutral tuples (any tags). Returns records, tags normalised."""
    trees = [retag(t) for t in trees]
    procs = procs or min(16, mp.cpu_count())
    if len(trees) < 64 or procs == 1:
        return _worker(trees)
    n = max(16, len(trees) // (procs * 8))
    chunks = [trees[i : i + n] for i in range(0, len(trees), n)]
    with mp.Pool(procs) as pool:
        out = []
        for part in pool.imap(_worker, chunks):
            out.extend(part)
    return out


def run_model(driver, recs):
    """Ask the model the same questions; attach answers to the records."""
    lines = []
    for rec in recs:
        w = core.tuple_to_wire(rec["tree"])
        for rn in core.RULE_NAMES:
            lines.append(f"find {rn} {w}")
        for a in rec["apply"]:
            lines.append(f"apply {a['rule']} {a['idx']} {w}")
    ans = driver.ask(lines)
    k = 0
    for rec in recs:
        rec["mfind"] = {}
        for rn in core.RULE_NAMES:
            toks = ans[k].split()
            k += 1
            rec["mfind"][rn] = [int(x) for x in toks[1:]] if toks and toks[0] == "nodes" else ("bad", ans[k - 1])
        for a in rec["apply"]:
            toks = ans[k].split()
            k += 1
            if toks[0] == "ok":
                a["model"] = ("ok", core.wire_to_tuple(toks, 1)[0])
            else:
                a["model"] = ("err", toks[1] if len(toks) > 1 else toks[0])
    return recs


def model_only_applies(driver, recs):
    """Nodes where the model reports applicable but the implementation does not: ask the
    model nothing more; they are find-divergences, reported by compare()."""
    return recs


def compare(recs):
    """Classify every observation.  Returns a dict of lists keyed by observation kind."""
    d = {
        "find": [],          # applicable sets differ (C06)
        "find_meta": [],     # r_index / find_node / can_apply consistency (C06)
        "purity": [],        # classifier wrote to the tree or is non-deterministic (C06)
        "apply_fail": [],    # applicable but apply raised / no result (C06)
        "shape": [],         # result differs from model ignoring identities (C01/C02/C08)
        "ident": [],         # identities differ (C07)
        "audit": [],         # link audit of the real result failed (C07)
        "vars": [],          # variable set changed (C07)
        "orig": [],          # the tree cloned from was modified (C07/C09)
        "value": [],         # oracle: value / solution set not preserved (C01/C02)
        "second_step": [],   # applicable on a rewritten tree but not appliable / malformed result (C06, C07)
        "clone_pos": [],     # clone_from_root returned a node at another position (C13)
        "print": [],         # result could not be printed
        "skipped": 0,        # outside the model's domain (non-finite / fractional power folding)
        "applied": 0,
    }
    for rec in recs:
        tree = rec["tree"]
        for rn in core.RULE_NAMES:
            f = rec["find"].get(rn)
            if f is None or f[0] != "ok":
                d["apply_fail"].append({"tree": tree, "rule": rn, "what": "find_nodes raised", "impl": f})
                continue
            if f[1] != rec["mfind"][rn]:
                d["find"].append({"tree": tree, "rule": rn, "impl": f[1], "model": rec["mfind"][rn]})
        for m in rec["find_meta"]:
            d["find_meta"].append({"tree": tree, "what": m})
        for m in rec["purity"]:
            d["purity"].append({"tree": tree, "what": m})
        for a in rec["apply"]:
            base = {"tree": tree, "rule": a["rule"], "idx": a["idx"]}
            impl, model = a["impl"], a.get("model")
            if a.get("orig_modified"):
                d["orig"].append(dict(base))
            if "clone_pos" in a:
                d["clone_pos"].append(dict(base, got=a["clone_pos"]))
            if "second_step" in a:
                d["second_step"].append(dict(base, first_result=a.get("text"), second=a["second_step"]))
            if impl[0] == "exc":
                d["apply_fail"].append(dict(base, impl=impl, model=model))
                continue
            if impl[0] == "unmodelled":
                # NaN/inf constant produced by folding: the model must say nonFinite/outOfDomain
                if model[0] == "err" and model[1] in ("nonFinite", "outOfDomain"):
                    d["skipped"] += 1
                else:
                    d["shape"].append(dict(base, impl=impl, model=model))
                continue
            d["applied"] += 1
            res = impl[1]
            if a.get("audit"):
                d["audit"].append(dict(base, problems=a["audit"]))
            if a.get("text") is None:
                d["print"].append(dict(base, exc=a.get("print_exc")))
            if core.tuple_vars(res) != core.tuple_vars(tree):
                d["vars"].append(dict(base, result=res))
            bad = a.get("value")
            if bad is not None:
                d["value"].append(dict(base, result=res, witness=bad))
            elif a.get("eval_stale") is not None:
                # the structure is right but the real evaluate() on the result objects is not the
                # value of that structure
                d["value"].append(dict(base, result=res, witness=a["eval_stale"]))
            if model[0] == "err":
                if model[1] == "outOfDomain":
                    d["skipped"] += 1  # real-valued power folded by the implementation
                else:
                    d["shape"].append(dict(base, impl=impl, model=model))
                continue
            if not core.tuples_agree(res, model[1], with_tags=False):
                d["shape"].append(dict(base, impl=impl, model=model))
            elif not core.tuples_agree(res, model[1], with_tags=True):
                d["ident"].append(dict(base, impl=impl, model=model))
    return d
