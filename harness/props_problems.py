"""Check for C17: generated problems are always valid and contain what they promise."""
import random

from . import core
from .props_parse import finish

from mathy_core import problems as PR  # noqa: E402
from mathy_core import util as UT  # noqa: E402


import re

_ITEM = re.compile(r"^(-?)((?:\d+\.?\d*|\.\d+)?)([a-zA-Z]?)(?:\^(\d+))?$")


def _cp(text):
    return "-" if text == "" else ",".join(str(ord(c)) for c in text)


def item_wire(text):
    """`[number]var[^k]` or a bare number -> wire form of the model's PItem; None if not that shape"""
    m = _ITEM.match(text.strip())
    if not m:
        return None
    sign, num, var, power = m.groups()
    if var == "":
        if num == "" or power is not None:
            return None
        return f"N:{'m' if sign else 'p'}{_cp(num)}"
    if num == "" and sign:
        return None
    coef = "-" if num == "" else f"{'m' if sign else 'p'}{_cp(num)}"
    return f"T:{coef}:{var}:{_cp(power) if power is not None else '-'}"


def shape_wire(text):
    """derive the model's problem shape from a generated text (None = not an instance)"""
    t = text.strip()
    m = re.match(r"^\((.+?) \+ (.+?)\)\((.+?) \+ (.+?)\)$", t)
    if m:
        ws = [item_wire(x) for x in m.groups()]
        if None not in ws:
            return "binomial " + " ".join(ws)
    m = re.match(r"^\((.+?) \+ (.+?)\) \* ([^()]+)$", t)
    if m and "(" not in t[1:]:
        ws = [item_wire(x) for x in m.groups()]
        if None not in ws:
            return "monomial " + " ".join(ws)
    # flat chain: items separated by " + ", " - ", " * " with at most one parenthesised group
    parts = re.split(r" ([+\-*]) ", t)
    items, ops = parts[0::2], parts[1::2]
    gs = ge = None
    clean = []
    for i, it in enumerate(items):
        if it.startswith("("):
            if gs is not None:
                return None
            gs = i
            it = it[1:]
        if it.endswith(")"):
            if ge is not None:
                return None
            ge = i
            it = it[:-1]
        clean.append(it)
    if (gs is None) != (ge is None):
        return None
    ws = [item_wire(x) for x in clean]
    if None in ws:
        return None
    grp = "-" if gs is None else f"{gs},{ge}"
    out = ["flatproblem", grp, ws[0]]
    for o, w in zip(ops, ws[1:]):
        out += [o, w]
    return " ".join(out)


class Recorder:
    """records every draw the generators make from the `random` module (the module functions
    problems.py calls are wrapped for the duration of one generator call)"""
    NAMES = ["randint", "randrange", "random", "uniform", "shuffle", "choice", "sample"]

    def __init__(self):
        self.draws = []
        self.saved = {}

    def __enter__(self):
        for n in self.NAMES:
            f = getattr(random, n)
            self.saved[n] = f

            def wrap(*a, _f=f, _n=n, **k):
                if _n == "shuffle":
                    before = list(a[0])
                    r = _f(*a, **k)
                    self.draws.append((_n, [before.index(x) if before.count(x) == 1 else -1 for x in a[0]]))
                    return r
                r = _f(*a, **k)
                self.draws.append((_n, r if not isinstance(r, list) else list(r)))
                return r
            setattr(random, n, wrap)
        return self

    def __exit__(self, *exc):
        for n, f in self.saved.items():
            setattr(random, n, f)


def gen_calls(rng):
    """(name, callable) for every generator with parameters drawn from their documented ranges,
    boundary values included"""
    calls = []
    b = lambda p=0.5: rng.random() < p  # noqa: E731
    prob = lambda: rng.choice([0.0, 0.1, 0.33, 0.5, 0.8, 1.0])  # noqa: E731
    calls.append(("gen_binomial_times_binomial", lambda: PR.gen_binomial_times_binomial(
        min_vars=rng.choice([1, 2]), max_vars=rng.choice([2, 3, 4]), simple_variables=b(),
        powers_probability=prob(), like_variables_probability=prob()), False))
    calls.append(("gen_binomial_times_monomial", lambda: PR.gen_binomial_times_monomial(
        min_vars=rng.choice([1, 2]), max_vars=rng.choice([2, 3]), simple_variables=b(),
        powers_probability=prob(), like_variables_probability=prob()), False))
    # every like term and every noise term needs its own letter: keep the request satisfiable
    # (24 letters); an unsatisfiable request is answered by the documented ValueError
    while True:
        nt = rng.choice([2, 2, 3, 4, 5, 8, 12, 20])
        scaling = rng.choice([0.1, 0.3, 0.6, 1.0])
        noise = rng.choice([None, None, 1, 2, 5])
        like = 1 if nt == 2 else max(2, int(nt * scaling))
        nn = noise if noise is not None else min(5, max(1, nt // 3))
        if like + nn <= len(PR.variables):
            break
    calls.append(("gen_simplify_multiple_terms", lambda: PR.gen_simplify_multiple_terms(
        nt, optional_var=b(0.3), op=rng.choice([None, "+", "-", ["+", "-"], ["+", "-", "*"]]),
        common_variables=b(), inner_terms_scaling=scaling, powers_probability=prob(),
        optional_var_probability=prob(), noise_probability=prob(), shuffle_probability=prob(),
        share_var_probability=prob(), grouping_noise_probability=prob(),
        noise_terms=noise), False))
    lo = rng.choice([2, 3, 5, 16])
    calls.append(("gen_combine_terms_in_place", lambda: PR.gen_combine_terms_in_place(
        min_terms=lo, max_terms=lo + rng.choice([0, 1, 5, 10]), easy=b(), powers=b()), True))
    lo2 = rng.choice([3, 5, 8])
    calls.append(("gen_commute_haystack", lambda: PR.gen_commute_haystack(
        min_terms=lo2, max_terms=lo2 + rng.choice([0, 3, 6]), commute_blockers=rng.choice([1, 1, 2, 3]),
        easy=b(), powers=b()), True))
    nb = rng.choice([1, 2, 3, 5])
    calls.append(("gen_move_around_blockers_one", lambda: PR.gen_move_around_blockers_one(nb, prob()), True))
    calls.append(("gen_move_around_blockers_two", lambda: PR.gen_move_around_blockers_two(nb, prob()), True))
    return calls


def c17(ctx):
    ctx.coverage["rule"] = (
        "every generator (binomial x binomial, binomial x monomial, simplify multiple terms, combine terms in place, "
        "commute haystack, move around blockers one/two) x parameter settings drawn from their ranges incl. boundary "
        "values x both pretty-number modes x 300 (quick) / 8000 (thorough) seeds of the random module: the text must "
        "parse, the complexity be positive, the like-term generators really have like terms; get_rand_vars: distinct, "
        "right count, exclusions respected; split_in_two_random sums to its input; default-parameter calls over many "
        "seeds. Non-trivial: generated text with at least two terms."
    )
    rng = random.Random(ctx.seed * 41 + 7)
    quick = ctx.tier == "quick"
    seeds = 300 if quick else 8000
    bad = []
    n_eval = 0
    nontrivial = 0
    per_gen = {}
    ctx.generated = []   # (generator, text, promises_like)
    state = random.getstate()
    try:
        for pretty in (True, False):
            PR.use_pretty_numbers(pretty)
            for s in range(seeds):
                for name, fn, promises_like in gen_calls(rng):
                    seed = rng.randrange(1 << 30)
                    random.seed(seed)
                    n_eval += 1
                    per_gen[name] = per_gen.get(name, 0) + 1
                    try:
                        text, complexity = fn()
                    except Exception as e:  # noqa
                        bad.append({"generator": name, "seed": seed, "pretty": pretty,
                                    "problem": f"raised {type(e).__name__}: {e}"[:200]})
                        continue
                    if text.count("+") + text.count("-") + text.count("*") >= 1:
                        nontrivial += 1
                    if not (isinstance(complexity, int) and complexity > 0):
                        bad.append({"generator": name, "seed": seed, "pretty": pretty, "text": text,
                                    "problem": f"complexity {complexity!r} is not a positive integer"})
                    ctx.generated.append((name, text, promises_like))
                    try:
                        tree = core.parse_fresh(text)
                    except Exception as e:  # noqa
                        bad.append({"generator": name, "seed": seed, "pretty": pretty, "text": text,
                                    "problem": f"does not parse: {type(e).__name__}"})
                        continue
                    if promises_like:
                        try:
                            if not UT.has_like_terms(tree):
                                bad.append({"generator": name, "seed": seed, "pretty": pretty, "text": text,
                                            "problem": "promised a pair of like terms but has_like_terms is False"})
                        except Exception as e:  # noqa
                            bad.append({"generator": name, "seed": seed, "text": text,
                                        "problem": f"has_like_terms raised {type(e).__name__}"})
            # default parameters over many seeds (the documented way of calling them)
            for s in range(seeds):
                random.seed(s * 7919 + (1 if pretty else 2))
                for name, fn in (("gen_combine_terms_in_place()", PR.gen_combine_terms_in_place),
                                 ("gen_commute_haystack()", PR.gen_commute_haystack),
                                 ("gen_binomial_times_binomial()", PR.gen_binomial_times_binomial),
                                 ("gen_binomial_times_monomial()", PR.gen_binomial_times_monomial)):
                    n_eval += 1
                    try:
                        text, complexity = fn()
                        core.parse_fresh(text)
                        assert complexity > 0
                    except Exception as e:  # noqa
                        bad.append({"generator": name, "seed": s, "pretty": pretty, "problem": f"{type(e).__name__}: {e}"[:200]})
        PR.use_pretty_numbers(True)
        # every pair / triple of NEIGHBOURING pool variables held out, asking for all the others: the answer is forced
        for common_ in (False, True):
            pool_ = list("xyz") if common_ else list(PR.variables)
            for width in (2, 3):
                for i_ in range(0, len(pool_) - width + 1):
                    excl_ = pool_[i_: i_ + width]
                    for order_ in (excl_, excl_[::-1]):
                        n_ = len(pool_) - width
                        if n_ < 1:
                            continue
                        n_eval += 1
                        random.seed(i_ * 7 + width)
                        try:
                            vs_ = PR.get_rand_vars(n_, list(order_), common_)
                        except Exception as e_:  # noqa
                            bad.append({"helper": "get_rand_vars", "n": n_, "exclude": order_, "common": common_,
                                        "problem": "raised " + type(e_).__name__})
                            continue
                        if sorted(vs_) != sorted(v for v in pool_ if v not in excl_):
                            bad.append({"helper": "get_rand_vars", "n": n_, "exclude": order_, "common": common_, "got": vs_,
                                        "problem": "not the variables outside the exclusions"})
        # helpers
        for s in range(seeds * 3):
            random.seed(s)
            n = rng.choice([1, 2, 3, 5, 10, 20, 23])
            common = rng.random() < 0.3
            pool = list("xyz") if common else list(PR.variables)
            excl = rng.sample(pool, rng.randint(0, min(3, len(pool) - 1)))
            n_eval += 1
            feasible = n <= len([v for v in pool if v not in excl])
            try:
                vs = PR.get_rand_vars(n, excl, common)
            except ValueError:
                if feasible and n <= 25:
                    bad.append({"helper": "get_rand_vars", "seed": s, "n": n, "exclude": excl, "common": common,
                                "problem": "raised although the request is satisfiable"})
                continue
            except Exception as e:  # noqa
                bad.append({"helper": "get_rand_vars", "seed": s, "problem": type(e).__name__})
                continue
            if len(vs) != n or len(set(vs)) != n or set(vs) & set(excl) or not set(vs) <= set(pool):
                bad.append({"helper": "get_rand_vars", "seed": s, "n": n, "exclude": excl, "common": common, "got": vs,
                            "problem": "not n distinct variables outside the exclusions"})
            # term templates: distinct (variable, exponent) pairs, none of the excluded ones
            try:
                common2 = rng.random() < 0.5
                nt = rng.choice([1, 2, 3]) if common2 else rng.choice([1, 2, 4, 8])
                excl_t = [PR.MathyTermTemplate(variable=rng.choice("xyz"), exponent=rng.choice([None, 2, 3]))
                          for _ in range(rng.choice([0, 0, 1, 2]))]
                n_eval += 1
                tpls = PR.get_rand_term_templates(nt, exclude_like=excl_t or None, common_variables=common2,
                                                  exponent_probability=rng.choice([0.0, 0.5, 1.0]))
                keys = [(t.variable, t.exponent) for t in tpls]
                if len(keys) != nt or len(set(keys)) != nt or set(keys) & {(t.variable, t.exponent) for t in excl_t} \
                        or any(k[1] == 1 for k in keys):
                    bad.append({"helper": "get_rand_term_templates", "seed": s, "n": nt, "templates": str(keys),
                                "exclude": str([(t.variable, t.exponent) for t in excl_t]),
                                "problem": "templates are not distinct / not the requested number / not outside the exclusions"})
            except EnvironmentError:
                pass  # documented: gives up after 100 failed draws (tiny pools)
            except Exception as e:  # noqa
                bad.append({"helper": "get_rand_term_templates", "seed": s, "problem": type(e).__name__ + ": " + str(e)[:100]})
            v = rng.randint(0, 60)
            try:
                lo, hi = PR.split_in_two_random(v)
                if lo + hi != v or lo > hi or lo < 0:
                    bad.append({"helper": "split_in_two_random", "seed": s, "value": v, "got": [lo, hi]})
            except Exception as e:  # noqa
                bad.append({"helper": "split_in_two_random", "seed": s, "value": v, "problem": type(e).__name__})
    finally:
        PR.use_pretty_numbers(True)
        random.setstate(state)
    ctx.coverage["evaluations"] += n_eval
    ctx.coverage["distinct_nontrivial"] += nontrivial
    ctx.coverage["traces_validated_against_impl"] += n_eval
    ctx.notes["generator"] = per_gen
    random.seed(12345)
    for name, fn, _ in gen_calls(random.Random(1))[:6]:
        try:
            ctx.sample({"generator": name, "text": fn()[0]})
        except Exception:
            pass
    random.setstate(state)
    return bad


class StreamRng:
    """replaces the functions of the `random` module that problems.py uses by implementations
    whose ONLY source of randomness is `randbelow(n)` on a seeded base generator, with exactly the
    draw patterns of lean/Mathy/Model/ProblemGen.lean, and records every draw"""
    NAMES = ["randint", "randrange", "random", "uniform", "shuffle", "sample", "choice"]

    def __init__(self, seed):
        self.base = random.Random(seed)
        self.draws = []
        self.saved = {}
        self.inexact = False

    def rb(self, n):
        d = self.base.randrange(n)
        self.draws.append(d)
        return d

    def __enter__(self):
        for n in self.NAMES:
            self.saved[n] = getattr(random, n)
        random.randint = lambda a, b: a + self.rb(b - a + 1) if b >= a else self.saved["randint"](a, b)
        random.randrange = lambda n: self.rb(n)

        def sample(pop, k):
            rest = list(pop)
            if k < 0 or k > len(rest):
                raise ValueError("Sample larger than population or is negative")
            out = []
            for _ in range(k):
                out.append(rest.pop(self.rb(len(rest))))
            return out

        def shuffle(x):
            for i in range(len(x) - 1, 0, -1):
                j = self.rb(i + 1)
                x[i], x[j] = x[j], x[i]

        def uniform(a, b):
            assert (a, b) == (0, 1)
            return self.rb(2 ** 53) / 2 ** 53

        def unsupported(*a, **k):
            raise RuntimeError("draw pattern not modelled")
        random.sample, random.shuffle, random.uniform = sample, shuffle, uniform
        random.random = unsupported
        random.choice = lambda seq: seq[self.rb(len(seq))]
        return self

    def __exit__(self, *exc):
        for n, f in self.saved.items():
            setattr(random, n, f)
        return False


def replay_generators(ctx, drv):
    """the REAL generators run on a recorded stream of draws; the Lean model of the generator
    (Model/ProblemGen.lean) is fed the same draws and must produce the same tokens and the same
    complexity, a well-formed shape, and the like-term promise"""
    from fractions import Fraction
    from . import parse_run as pr
    quick = ctx.tier == "quick"
    rng = random.Random(ctx.seed * 23 + 5)
    jobs = []
    for k in range(400 if quick else 8000):
        which = rng.choice(["combine", "haystack", "blockers1", "blockers2", "binbin", "binmono", "simplify", "simplify"])
        if which == "combine":
            a = rng.choice([2, 3, 4, 8, 16, 24, 25, 26, 30])
            b = a + rng.choice([0, 1, 3, 10])
            params = [a, b, rng.randint(0, 1), rng.randint(0, 1)]
            call = lambda p=params: PR.gen_combine_terms_in_place(min_terms=p[0], max_terms=p[1], easy=bool(p[2]), powers=bool(p[3]))
        elif which == "haystack":
            a = rng.choice([2, 3, 5, 8, 12, 20, 24])
            b = a + rng.choice([0, 1, 3])
            params = [a, b, rng.choice([1, 1, 2, 3, 7]), rng.randint(0, 1), rng.randint(0, 1)]
            call = lambda p=params: PR.gen_commute_haystack(min_terms=p[0], max_terms=p[1], commute_blockers=p[2],
                                                           easy=bool(p[3]), powers=bool(p[4]))
        elif which in ("binbin", "binmono"):
            top = 4 if which == "binbin" else 3
            a = rng.choice([1, 1, 2, top])
            b = rng.choice([x for x in (1, 2, 3, 4) if a <= x <= top])
            pp, lp = rng.choice([0, 25, 33, 50, 100]), rng.choice([0, 50, 100])
            # only probabilities whose float form times 100 is the integer percentage again
            if (pp / 100) * 100 != pp or (lp / 100) * 100 != lp or ((pp / 100) * 100) * 2 != 2 * pp:
                pp, lp = 50, 100
            params = [a, b, rng.randint(0, 1), pp, lp]
            fn = PR.gen_binomial_times_binomial if which == "binbin" else PR.gen_binomial_times_monomial
            call = lambda p=params, fn=fn: fn(min_vars=p[0], max_vars=p[1], simple_variables=bool(p[2]),
                                             powers_probability=p[3] / 100, like_variables_probability=p[4] / 100)
        elif which == "simplify":
            nt = rng.choice([2, 2, 3, 4, 5, 6, 8, 12, 20])
            scaling = rng.choice([0.3, 0.5, 1.0])
            nl = max(2, int(nt * scaling))
            pcts = [rng.choice([0, 25, 33, 50, 66, 80, 100]) for _ in range(6)]   # pp ovp np sp svp gp
            if any((x / 100) * 100 != x for x in pcts):
                pcts = [50, 50, 100, 50, 50, 100]
            opc = rng.choice([0, 0, 1, 2, 3, 4, 5])
            op = {0: None, 1: "+", 2: "-", 3: "*", 4: ["+", "-"], 5: ["+", "*"]}[opc]
            na = rng.choice([99, 99, 0, 1, 3, 5])
            ov = rng.randint(0, 1)
            params = [nt, nl, ov, opc] + pcts + [na]
            call = lambda p=params, op=op, scaling=scaling: PR.gen_simplify_multiple_terms(
                p[0], optional_var=bool(p[2]), op=op, inner_terms_scaling=scaling, powers_probability=p[4] / 100,
                optional_var_probability=p[5] / 100, noise_probability=p[6] / 100, shuffle_probability=p[7] / 100,
                share_var_probability=p[8] / 100, grouping_noise_probability=p[9] / 100,
                noise_terms=None if p[10] == 99 else p[10])
        elif which == "blockers1":
            params = [rng.choice([1, 2, 3, 5, 10, 22, 23]), rng.choice([0, 50, 100])]
            call = lambda p=params: PR.gen_move_around_blockers_one(p[0], p[1] / 100)
        else:
            params = [rng.choice([1, 2, 3, 5, 10, 20, 21]), rng.choice([0, 50, 100])]
            call = lambda p=params: PR.gen_move_around_blockers_two(p[0], p[1] / 100)
        jobs.append((which, params, call, rng.randrange(1 << 30)))
    PR.use_pretty_numbers(True)
    lines, meta, diffs, bad = [], [], [], []
    for which, params, call, seed in jobs:
        with StreamRng(seed) as sr:
            try:
                out = ("ok",) + tuple(call())
            except ValueError as e:
                out = ("ValueError", str(e)[:80])
            except Exception as e:  # noqa
                out = ("exc", type(e).__name__ + ": " + str(e)[:80])
        lines.append("gen " + which + " " + " ".join(str(x) for x in params) + " | " + " ".join(str(d) for d in sr.draws))
        meta.append((which, params, seed, out))
    ans = drv.ask(lines)
    n_ok = 0
    for (which, params, seed, out), a in zip(meta, ans):
        rec = {"generator": which, "params": params, "stream_seed": seed}
        if out[0] == "exc":
            bad.append(dict(rec, generator=f"{which}{params}", problem="raised " + out[1]))
            continue
        if out[0] == "ValueError":
            if a.strip() != "none":
                diffs.append(dict(rec, impl="ValueError: " + out[1], model=a[:160]))
            continue
        text, cx = out[1], out[2]
        toks = a.split()
        if not toks or not toks[0].startswith("cx="):
            diffs.append(dict(rec, impl=text, model=a[:160]))
            continue
        n_ok += 1
        mt = pr.model_tok_answer(" ".join(toks[3:]))
        rt = pr.impl_tok(text, False)
        real = [x for x in rt[1][:-1]] if rt[0] == "toks" else None
        if real is None or mt[1] != real or toks[0] != f"cx={cx}":
            diffs.append(dict(rec, impl=text, complexity=cx, model=a[:300]))
        elif toks[1] != "ok=true" or (toks[2] != "like=true" and which != "simplify"):
            diffs.append(dict(rec, impl=text, model_flags=toks[1:3], problem="model shape not well formed / no like-term pair"))
        try:
            if not (isinstance(cx, int) and cx > 0):
                bad.append(dict(rec, generator=f"{which}{params}", problem=f"complexity {cx} is not positive", text=text))
            core.parse_fresh(text)
        except Exception as e:  # noqa
            bad.append(dict(rec, generator=f"{which}{params}", problem=f"text does not parse: {type(e).__name__}", text=text))
    ctx.notes["generators_replayed_on_recorded_draws"] = {"runs": len(jobs), "texts": n_ok}
    ctx.coverage["traces_validated_against_impl"] += len(jobs)
    ctx.coverage["evaluations"] += len(jobs)
    return bad, diffs


def run(ctx):
    bad = c17(ctx)
    kinds = {}
    for b in bad:
        k = (b.get("generator") or b.get("helper"), b["problem"].split(":")[0][:60])
        kinds[str(k)] = kinds.get(str(k), 0) + 1
    ctx.notes["problem_kinds"] = kinds
    # one representative per kind
    seen, uniq = set(), []
    for b in bad:
        k = (b.get("generator") or b.get("helper"), b["problem"].split(":")[0][:60])
        if k not in seen:
            uniq.append(b)
            seen.add(k)
    open_f = ctx.open_findings()
    unlisted = []
    for b in uniq:
        f = next((f for f in open_f if f.get("generator") == (b.get("generator") or b.get("helper")) and
                  f.get("problem_prefix", "") in b["problem"]), None)
        if f is None:
            unlisted.append(b)
        else:
            ctx.known_finding(f"{f['id']}: {f['what']} (reproduced, e.g. seed {b.get('seed')})")
    # shape correspondence: every generated text must be an instance of the modelled shapes, the
    # model's tokens for that instance must be the real tokens, the instance must be well formed
    # (and promise like terms where the generator does)
    from . import parse_run as pr
    drv = core.Driver()
    lines, meta, diffs = [], [], []
    for name, text, promises in ctx.generated:
        w = shape_wire(text)
        if w is None:
            diffs.append({"generator": name, "text": text, "problem": "not an instance of the modelled problem shapes"})
            continue
        lines.append(w)
        meta.append((name, text, promises))
    ans = drv.ask(lines)
    for (name, text, promises), a in zip(meta, ans):
        toks = a.split()
        if len(toks) < 3 or not toks[0].startswith("ok="):
            diffs.append({"generator": name, "text": text, "model": a[:200]})
            continue
        ok, like = toks[0] == "ok=true", toks[1] == "like=true"
        mt = pr.model_tok_answer(" ".join(toks[2:]))
        rt = pr.impl_tok(text, False)
        real = [x for x in rt[1][:-1]] if rt[0] == "toks" else None
        if not ok or (promises and not like) or real is None or mt[1] != real:
            diffs.append({"generator": name, "text": text, "model_ok": ok, "model_like": like, "promises": promises,
                          "model_tokens": str(mt)[:200], "real_tokens": str(real)[:200]})
    ctx.coverage["traces_validated_against_impl"] += len(lines)
    ctx.notes["texts_matched_to_model_shapes"] = len(lines)
    rbad, rdiffs = replay_generators(ctx, drv)
    unlisted += rbad[:5]
    finish(ctx, [("problems", unlisted)], [("shape", diffs), ("generator_replay", rdiffs)], "generated problems are valid and contain what they promise")


CHECKS = {"C17": run}
