"""Check for C08: each rule performs its documented transformation on its documented forms.

Schemas are instantiated HERE, independently of the Lean model: instance tree and expected
result are built from the rule documentation, the instance is embedded in a random context, the
real rule is applied at the instance node and the rewritten node is compared with the expected
shape up to order/grouping of + and * operands (and, for factoring, up to the common factor)."""
import random
from fractions import Fraction as F

from . import core, gen
from .props_parse import finish

C = lambda q: ("C", 0, F(q))  # noqa: E731
V = lambda x: ("V", 0, x)  # noqa: E731
B = lambda o, l, r: ("B", 0, o, l, r)  # noqa: E731
U = lambda o, c: ("U", 0, o, c)  # noqa: E731


def strip(t):
    k = t[0]
    if k in "CV":
        return (k, 0, t[2])
    if k == "U":
        return ("U", 0, t[2], strip(t[3]))
    return ("B", 0, t[2], strip(t[3]), strip(t[4]))


def ac_canon(t):
    """canonical form up to associativity/commutativity of + and *"""
    k = t[0]
    if k == "C":
        return ("C", t[2])
    if k == "V":
        return ("V", t[2])
    if k == "U":
        return ("U", t[2], ac_canon(t[3]))
    op = t[2]
    if op in ("add", "mul"):
        items = []

        def flat(x):
            if x[0] == "B" and x[2] == op:
                flat(x[3])
                flat(x[4])
            else:
                items.append(ac_canon(x))
        flat(t)
        return (op, tuple(sorted(items, key=repr)))
    return (op, ac_canon(t[3]), ac_canon(t[4]))


def rnd_coef(rng, nonzero=True, positive=False):
    while True:
        r = rng.random()
        if r < 0.6:
            q = F(rng.randint(1, 24))
        elif r < 0.8:
            q = F(rng.choice([1, 3, 5, 7, 9, 25]), rng.choice([2, 4, 10]))
        else:
            q = F(rng.randint(13, 500))
        if not positive and rng.random() < 0.3:
            q = -q
        if q != 0 or not nonzero:
            return q


def term(c, x, e):
    t = V(x)
    if e is not None:
        t = B("pow", t, C(e))
    if c is not None:
        t = B("mul", C(c), t)
    return t


def rnd_sub(rng, depth=1):
    """an arbitrary sub-expression that no schema looks into"""
    r = rng.random()
    if depth <= 0 or r < 0.4:
        return rng.choice([V("p"), V("q"), V("r"), B("pow", V("p"), C(2)), U("sgn", V("q"))])
    if r < 0.7:
        return B("div", rnd_sub(rng, depth - 1), rnd_sub(rng, depth - 1))
    return U("sgn", B("sub", rnd_sub(rng, depth - 1), rnd_sub(rng, depth - 1)))


def embed(rng, inst, allowed):
    """surround the instance with 0-2 context frames; returns (tree, path) path = list of 3/4 child indexes"""
    t, path = inst, []
    for _ in range(rng.choice([0, 0, 1, 1, 2])):
        f = rng.choice(allowed)
        other = rnd_sub(rng, 1)
        if f == "addL":
            t, path = B("add", t, other), [3] + path
        elif f == "addR":
            t, path = B("add", other, t), [4] + path
        elif f == "subR":
            t, path = B("sub", other, t), [4] + path
        elif f == "divL":
            t, path = B("div", t, other), [3] + path
        elif f == "divR":
            t, path = B("div", other, t), [4] + path
        elif f == "powR":
            t, path = B("pow", other, t), [4] + path
        elif f == "sgn":
            t, path = U("sgn", t), [3] + path
        elif f == "neg":
            t, path = U("neg", t), [3] + path
    return t, path


def at(t, path):
    for i in path:
        t = t[i]
    return t


def inorder_index(t, path):
    """in-order index of the node at path"""
    def size(x):
        return core.tuple_size(x)
    idx = 0
    node = t
    for i in path:
        if node[0] == "U":
            idx += 1  # the unary node itself comes first
            node = node[3]
        elif i == 3:
            node = node[3]
        else:
            idx += size(node[3]) + 1
            node = node[4]
    if node[0] == "B":
        idx += size(node[3])
    return idx


ANY = ["addL", "addR", "subR", "divL", "divR", "powR", "sgn", "neg"]
NO_ADD_PARENT = ["subR", "divL", "divR", "powR", "sgn", "neg"]
RS_CTX = ["addL", "addR"]


def schemas(rng):
    """yields (name, rule, instance, expected or checker, allowed contexts, expect_applicable)"""
    a, b, c = rnd_sub(rng), rnd_sub(rng), rnd_sub(rng)
    x = rng.choice("xyz")
    y = rng.choice([v for v in "xyz" if v != x])
    c1, c2 = rnd_coef(rng), rnd_coef(rng)
    n = rng.choice([None, 2, 3, 4, -1, 0, 1, -3, F(5, 2), F(1, 2)])
    m = rng.choice([None, 2, 3, 5, 0, F(3, 2)])
    out = []
    # commutative
    out.append(("swap a+b", "cs1", B("add", a, b), B("add", b, a), NO_ADD_PARENT, True))
    out.append(("swap a*b", "cs1", B("mul", a, b), B("mul", b, a), ANY, True))
    out.append(("a-b not commutable", "cs1", B("sub", a, b), None, ANY, False))
    out.append(("a/b not commutable", "cs1", B("div", a, b), None, ANY, False))
    out.append(("4x stays (preferred off)", "cs0", term(abs(c1), x, None), None, NO_ADD_PARENT, False))
    # associative
    out.append(("regroup (a+b)+c", "as", B("add", B("add", a, b), c), B("add", a, B("add", b, c)), NO_ADD_PARENT, True, [3]))
    out.append(("regroup a+(b+c)", "as", B("add", a, B("add", b, c)), B("add", B("add", a, b), c), NO_ADD_PARENT, True, [4]))
    out.append(("regroup (a*b)*c", "as", B("mul", B("mul", a, b), c), B("mul", a, B("mul", b, c)), ["addL", "addR", "subR", "sgn"], True, [3]))
    out.append(("regroup a*(b*c)", "as", B("mul", a, B("mul", b, c)), B("mul", B("mul", a, b), c), ["addL", "addR", "subR", "sgn"], True, [4]))
    # constants
    for op, f in (("add", lambda p, q: p + q), ("sub", lambda p, q: p - q), ("mul", lambda p, q: p * q)):
        out.append((f"fold c1 {op} c2", "ca", B(op, C(c1), C(c2)), C(f(c1, c2)), ANY, True))
    out.append(("fold c1 / c2", "ca", B("div", C(c1), C(c2)), C(c1 / c2), ANY, True))
    k = rng.randint(0, 4)
    out.append(("fold c1 ^ k", "ca", B("pow", C(c1), C(k)), C(c1 ** k), ANY, True))
    # factor out like terms
    out.append(("factor ax^n + bx^n", "df0", B("add", term(c1, x, n), term(c2, x, n)), ("factor", c1, c2, x, n), NO_ADD_PARENT, True))
    out.append(("factor x^n + bx^n", "df0", B("add", term(None, x, n), term(c2, x, n)), ("factor", F(1), c2, x, n), NO_ADD_PARENT, True))
    out.append(("unlike variables ax + by", "df0", B("add", term(c1, x, n), term(c2, y, n)), None, NO_ADD_PARENT, False))
    if n != m:
        out.append(("unlike exponents", "df0", B("add", term(c1, x, n), term(c2, x, m)), None, NO_ADD_PARENT, False))
    i1, i2 = rng.randint(2, 40), rng.randint(2, 40)
    out.append(("pure constants, option off", "df0", B("add", C(i1), C(i2)), None, NO_ADD_PARENT, False))
    import math
    g = math.gcd(i1, i2)
    if g > 1:
        out.append(("pure constants, option on", "df1", B("add", C(i1), C(i2)), ("factor", F(i1), F(i2), None, None), NO_ADD_PARENT, True))
    # distribute
    out.append(("distribute a(b+c)", "dm", B("mul", a, B("add", b, c)), B("add", B("mul", a, b), B("mul", a, c)), ANY, True))
    out.append(("distribute (b+c)a", "dm", B("mul", B("add", b, c), a), B("add", B("mul", a, b), B("mul", a, c)), ANY, True))
    # inverse
    out.append(("a/b -> a*(1/b)", "mi", B("div", a, b), B("mul", a, B("div", C(1), b)), ANY, True))
    # restate
    out.append(("a-b -> a+(-b)", "rs", B("sub", a, b), B("add", a, U("neg", b)), RS_CTX, True))
    pc = abs(c1)
    out.append(("a + -c -> a - c", "rs", B("add", a, C(-pc)), B("sub", a, C(pc)), NO_ADD_PARENT, True))
    out.append(("a + -cx -> a - cx", "rs", B("add", a, term(-pc, x, None)), B("sub", a, term(pc, x, None)), NO_ADD_PARENT, True))
    out.append(("a - cx -> a + -cx", "rs", B("sub", a, term(pc, x, None)), B("add", a, term(-pc, x, None)), RS_CTX, True))
    # variable multiply
    e1 = rng.choice([None, 2, 3, -2, 0, 1, F(1, 2)])
    e2 = rng.choice([None, 2, 5, -1, 0, F(5, 2)])
    out.append(("x^a * x^b", "vm", B("mul", term(None, x, e1), term(None, x, e2)), ("vm", None, None, x, e1, e2), ANY, True))
    out.append(("c1x^a * c2x^b", "vm", B("mul", term(c1, x, e1), term(c2, x, e2)), ("vm", c1, c2, x, e1, e2), ANY, True))
    out.append(("x * y not combinable", "vm", B("mul", term(None, x, e1), term(None, y, e2)), None, ANY, False))
    return out


def check_factor(res, c1, c2, x, n):
    """(c1/g + c2/g) * (g x^n) for some common factor g, up to AC"""
    if not (res[0] == "B" and res[2] == "mul"):
        return False
    for s, o in ((res[3], res[4]), (res[4], res[3])):
        if s[0] == "B" and s[2] == "add" and s[3][0] == "C" and s[4][0] == "C":
            p, q = s[3][2], s[4][2]
            # the other factor: g, x^n, g*x^n (AC)
            can = ac_canon(o)
            for g in {abs(c1), abs(c2), F(1), F(math_gcd(c1, c2))} | ({c1 / p} if p != 0 else set()):
                if g == 0:
                    continue
                if x is None:
                    want = C(g)
                else:
                    want = term(None if g == 1 else g, x, n)
                if can == ac_canon(want) and {p * g, q * g} == {c1, c2} and (p * g == c1 or c1 == c2):
                    return True
    return False


def math_gcd(a, b):
    import math
    if a.denominator == 1 and b.denominator == 1:
        return math.gcd(int(a), int(b))
    return 1


def check_vm(res, c1, c2, x, e1, e2):
    """(c1*c2) * x^(e1+e2): coefficient as one product of constants, exponent as a sum of constants"""
    want_e = {F(1 if e1 is None else e1), F(1 if e2 is None else e2)}

    def is_power(t):
        if not (t[0] == "B" and t[2] == "pow" and t[3] == V(x)):
            return False
        s = t[4]
        return s[0] == "B" and s[2] == "add" and s[3][0] == "C" and s[4][0] == "C" and \
            sorted([s[3][2], s[4][2]]) == sorted([F(1 if e1 is None else e1), F(1 if e2 is None else e2)])
    items = []

    def flat(t):
        if t[0] == "B" and t[2] == "mul":
            flat(t[3])
            flat(t[4])
        else:
            items.append(t)
    flat(res)
    powers = [t for t in items if is_power(t)]
    consts = [t[2] for t in items if t[0] == "C"]
    if len(powers) != 1 or len(powers) + len(consts) != len(items):
        return False
    prod = F(1)
    for q in consts:
        prod *= q
    return prod == (c1 if c1 is not None else 1) * (c2 if c2 is not None else 1)


def _term_coef(t):
    """coefficient of a schema term c*v^n / c*v / v^n / v (None when absent)"""
    if t[0] == "B" and t[2] == "mul" and t[3][0] == "C":
        return t[3][2]
    return None


def is_known_equal_fraction(name, inst, applicable):
    """predicate of the open finding C08-factor-out-equal-fractional-coefficients (known_findings.json): the
    factor-out rule accepts UNLIKE terms when both carry the same coefficient strictly between 0 and 1"""
    if applicable or name not in ("unlike variables ax + by", "unlike exponents"):
        return False
    try:
        c1, c2 = _term_coef(inst[3]), _term_coef(inst[4])
    except Exception:  # noqa
        return False
    return c1 is not None and c1 == c2 and 0 < c1 < 1


def probe_known_equal_fraction(ctx, reproduced):
    """re-execute the witness of the open finding; print KNOWN-FINDING while it reproduces"""
    f = [f for f in ctx.open_findings() if f.get("id") == "C08-factor-out-equal-fractional-coefficients"]
    if not f:
        return False
    from mathy_core.rules import DistributiveFactorOutRule
    try:
        hit = bool(DistributiveFactorOutRule().can_apply_to(core.parse_fresh("0.5y + 0.5z")))
    except Exception:  # noqa
        hit = False
    if hit:
        ctx.known_finding(f"{f[0]['id']}: {f[0]['what'][:300]} (reproduced on '0.5y + 0.5z'"
                          + (f" and on {reproduced} generated instances" if reproduced else "") + ")")
    return hit


def c08(ctx):
    ctx.coverage["rule"] = (
        "instances of every documented rule form (swap, regroup both ways, fold c1 op c2, factor ax^n+bx^n, "
        "distribute both orders, a/b, a-b both ways, x^a*x^b with implicit exponents and coefficients) and of the "
        "documented non-applicable forms, with random coefficients (ints, decimals, negatives), variables, exponents "
        "and arbitrary sub-expressions, embedded in random contexts; the real rule is located and applied at the "
        "instance node and the rewritten node compared with a result instantiated independently in the harness, up "
        "to AC of + and * (factoring: up to the common numeric factor). Non-trivial: applicable instance applied."
    )
    rng = random.Random(ctx.seed * 29 + 8)
    quick = ctx.tier == "quick"
    rounds = 400 if quick else 8000
    bad = []
    n_eval = 0
    applied = 0
    skipped = 0
    per_schema = {}
    known_fraction = []
    for _ in range(rounds):
        for sc in schemas(rng):
            name, rn, inst, expected, allowed, applicable = sc[:6]
            inner = sc[6] if len(sc) > 6 else []
            tree, path = embed(rng, inst, allowed)
            text, reach = gen.reachable(tree)
            if reach is None:
                skipped += 1
                continue
            try:
                got_inst = at(reach, path)
            except Exception:
                skipped += 1
                continue
            if strip(got_inst) != strip(inst):
                skipped += 1  # printing/parsing normalised the instance (e.g. -(2) -> -2): not this schema's form
                continue
            n_eval += 1
            per_schema[name] = per_schema.get(name, 0) + 1
            root = core.tuple_to_py(reach)
            target_path = path + inner
            idx = inorder_index(reach, target_path)
            node = core.inorder(root)[idx]
            rule = core.rule_instance(rn)
            can = bool(rule.can_apply_to(node))
            if can != applicable:
                entry = {"schema": name, "text": text, "node": idx,
                         "problem": "rule %s the documented form" % ("rejects" if applicable else "accepts a form documented as not applicable:"),
                         "instance": core.tuple_str(inst)}
                if is_known_equal_fraction(name, inst, applicable):
                    known_fraction.append(entry)
                else:
                    bad.append(entry)
                continue
            if not applicable:
                continue
            try:
                change = rule.apply_to(node)
                new_root = core.to_tuple(change.result.get_root())
            except core.Unmodelled:
                continue
            except Exception as e:  # noqa
                bad.append({"schema": name, "text": text, "problem": "apply raised " + type(e).__name__})
                continue
            applied += 1
            try:
                res = at(new_root, path)
            except Exception:
                bad.append({"schema": name, "text": text, "problem": "context changed", "result": core.tuple_str(new_root)})
                continue
            ok = True
            if isinstance(expected, tuple) and expected and expected[0] == "factor":
                ok = check_factor(res, *expected[1:])
            elif isinstance(expected, tuple) and expected and expected[0] == "vm":
                ok = check_vm(res, *expected[1:])
            else:
                ea, ra = ac_canon(expected), ac_canon(res)
                ok = ea == ra or (expected[0] == "C" and res[0] == "C" and core.close(expected[2], res[2]))
            # context outside the instance untouched
            ctx_ok = True
            t0, t1 = reach, new_root
            for i in path:
                other = 4 if i == 3 else 3
                if t0[0] == "B":
                    if strip(t0[other]) != strip(t1[other]) or t0[2] != t1[2]:
                        ctx_ok = False
                t0, t1 = t0[i], t1[i]
            if not ok or not ctx_ok:
                bad.append({"schema": name, "text": text, "instance": core.tuple_str(inst),
                            "result_node": core.tuple_str(res), "expected": str(expected)[:300],
                            "problem": "result does not have the documented shape" if not ok else "context changed"})
    # balanced move (top level only)
    for _ in range(rounds):
        x = rng.choice("xyz")
        c1, c2 = rnd_coef(rng), rnd_coef(rng)
        L, R, M = rnd_sub(rng), rnd_sub(rng), rnd_sub(rng)
        addend = rng.choice([C(c1), term(c2, x, None), V(x)])
        for name, tree, idx_path, expected, applicable in (
            ("move addend", B("eq", B("add", L, addend), R), [3, 4], B("eq", L, B("sub", R, addend)), True),
            # addends deeper inside a chain of additions, on either side of '='
            ("move addend out of a chain (left side)", B("eq", B("add", B("add", L, addend), M), R), [3, 3, 4],
             B("eq", B("add", L, M), B("sub", R, addend)), True),
            ("move first addend of a chain (right side)", B("eq", L, B("add", B("add", addend, M), R)), [4, 3, 3],
             B("eq", B("sub", L, addend), B("add", M, R)), True),
            ("move middle addend of a chain (right side)", B("eq", L, B("add", B("add", M, addend), R)), [4, 3, 4],
             B("eq", B("sub", L, addend), B("add", M, R)), True),
            ("move addend of a right-nested group (left side)", B("eq", B("add", M, B("add", addend, L)), R), [3, 4, 3],
             B("eq", B("add", M, L), B("sub", R, addend)), True),
            ("divide coefficient", B("eq", B("mul", C(c1), V(x)), R), [3, 3],
             B("eq", B("div", B("mul", C(c1), V(x)), C(c1)), B("div", R, C(c1))), True),
            ("addend inside a product is not movable", B("eq", B("mul", C(c2), B("add", V(x), C(c1))), R), [3, 4, 4], None, False),
            ("zero coefficient is not divisible", B("eq", B("mul", C(0), V(x)), R), [3, 3], None, False),
        ):
            text, reach = gen.reachable(tree)
            if reach is None or strip(reach) != strip(tree):
                skipped += 1
                continue
            n_eval += 1
            per_schema[name] = per_schema.get(name, 0) + 1
            root = core.tuple_to_py(reach)
            idx = inorder_index(reach, idx_path)
            node = core.inorder(root)[idx]
            rule = core.rule_instance("bm")
            can = bool(rule.can_apply_to(node))
            if can != applicable:
                bad.append({"schema": name, "text": text, "problem": "applicability", "got": can})
                continue
            if not applicable:
                continue
            try:
                res = core.to_tuple(rule.apply_to(node).result.get_root())
            except Exception as e:  # noqa
                bad.append({"schema": name, "text": text, "problem": "apply raised " + type(e).__name__})
                continue
            applied += 1
            if ac_canon(res) != ac_canon(expected):
                bad.append({"schema": name, "text": text, "result": core.tuple_str(res), "expected": core.tuple_str(expected)})
    ctx.coverage["evaluations"] += n_eval
    ctx.coverage["distinct_nontrivial"] += applied
    ctx.coverage["traces_validated_against_impl"] += applied
    ctx.notes["generator"] = {"instances": n_eval, "skipped_after_normalisation": skipped, "per_schema": per_schema}
    for name in list(per_schema)[:8]:
        ctx.sample({"schema": name, "instances": per_schema[name]})
    # documented forms reached by IN-PLACE edits of a tree whose nodes the (long-lived) rule objects
    # were already asked about: accepted / rejected and rewritten as a fresh rule object does
    from .props_rules import inplace_family
    iprobs, _walks = inplace_family(ctx, "C08")
    for p_ in iprobs[:5]:
        bad.append(dict(p_, schema="form reached by in-place edits (long-lived rule objects)"))
    # open finding: unlike terms with one and the same coefficient in (0, 1) are accepted by the factor-out rule
    if not probe_known_equal_fraction(ctx, len(known_fraction)):
        bad += known_fraction          # not listed (any more) / does not reproduce: ordinary violations
    finish(ctx, [("schema", bad)], [], "each rule performs its documented transformation")


CHECKS = {"C08": c08}
