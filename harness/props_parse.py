"""Checks for the text-side properties C03, C04, C10, C11, C12."""
import itertools
import random
import re
import sys
from fractions import Fraction

from . import core, gen, parse_run as pr, rules_run
from .core import P, X
from mathy_core import tokenizer as T


# ----------------------------------------------------------------------------- text generators

def grammar_text(rng, depth=3):
    """Random text derived from the documented grammar (with optional padding)."""
    sp = lambda: rng.choice(["", "", " ", "  "])  # noqa: E731

    def num():
        r = rng.random()
        if r < 0.04:
            # integer literals of any length denote exactly their digits (no double in between)
            return rng.choice(["9007199254740993", "10000000000000000001", "12345678901234567891", "18446744073709551617",
                               "1" + "0" * 30 + "7", str(rng.randint(2**53, 2**90) | 1)])
        if r < 0.6:
            return str(rng.randint(0, 20))
        if r < 0.85:
            return rng.choice(["0.5", "2.5", "1.25", ".5", "3.", "10.75"])
        return str(rng.randint(21, 9999))

    def prim(d):
        r = rng.random()
        if d <= 0 or r < 0.55:
            return rng.choice("xyzabn")
        if r < 0.8:
            return rng.choice("([") + add(d - 1) + rng.choice(")]")
        # other spellings / longer letter runs are products of one-letter variables, not a function
        return rng.choice(["sgn", "sgn", "sgn", "Sgn", "SGN", "sGn", "sgns", "xsgn", "abs"]) + "(" + add(d - 1) + ")"

    def factors(d):
        s = "".join(prim(d) for _ in range(rng.choice([1, 1, 1, 2, 2, 3])))
        if rng.random() < 0.3:
            s += "^" + unary(d - 1)
        return s

    def unary(d):
        s = "-" if rng.random() < 0.2 else ""
        r = rng.random()
        if r < 0.3:
            return s + num()
        if r < 0.36:
            return s + str(rng.randint(0, 6)) + "!"
        if r < 0.6:
            return s + num() + factors(d)
        return s + factors(d)

    def exp(d):
        s = unary(d)
        if rng.random() < 0.15:
            s += sp() + "^" + sp() + unary(d - 1)
        return s

    def mult(d):
        s = exp(d)
        for _ in range(rng.choice([0, 0, 0, 1, 1, 2, 3])):
            s += sp() + rng.choice("**/") + sp() + exp(d)
        return s

    def add(d):
        s = mult(d)
        for _ in range(rng.choice([0, 0, 1, 1, 2, 3])):
            s += sp() + rng.choice(["+", "-", "–"]) + sp() + mult(d)
        return s

    s = add(depth)
    for _ in range(rng.choice([0, 0, 0, 1, 1, 2])):
        s += sp() + "=" + sp() + add(depth)
    return s


MALFORMED_PIECES = ["2", "2.5", "1.2.3", ".", "x", "y", "+", "-", "*", "/", "^", "!", "=", "(", ")", "[", "]",
                    "sgn", "abs", " ", "\t", "–", "#", "$", "é", "e", "1e5", "00", "007", "x!", "sgn(", ")(", "^^",
                    "Sgn(", "SGN(", "sgN", "S", "G"]


def malformed_text(rng):
    r = rng.random()
    if r < 0.4:
        return "".join(rng.choice(MALFORMED_PIECES) for _ in range(rng.randint(0, 9)))
    s = grammar_text(rng, 2)
    if r < 0.6 and s:
        return s[: rng.randint(0, len(s))]  # truncation
    if r < 0.8 and s:
        i = rng.randint(0, len(s) - 1)
        return s[:i] + rng.choice(MALFORMED_PIECES) + s[i + 1:]
    if s:
        i = rng.randint(0, len(s) - 1)
        return s[:i] + s[i + 1:]
    return s


def parse_texts(ctx):
    rng = random.Random(ctx.seed * 104729 + 5)
    quick = ctx.tier == "quick"
    texts = list(pr.all_strings(5 if quick else 6))
    stats = {"exhaustive": len(texts)}
    if not quick:
        sp = list(pr.all_strings(4, sep=" "))
        texts += sp
        stats["exhaustive_spaced"] = len(sp)
    # longer strings over a small core alphabet (operator interplay needs 6-8 tokens: `2x^2^2`,
    # `-x^2^2`, `y^x^2^2`, `2^-x!`, `(x)^2^3`): ALL strings of 6-7 (quick) / 6-8 (thorough) tokens over
    # {2, x, ^, -, (, )} minus those starting with a closing parenthesis
    core6 = ["2", "x", "^", "-", "(", ")"]
    longer = ["".join(c) for k in ((6, 7) if quick else (6, 7, 8)) for c in itertools.product(core6, repeat=k) if c[0] != ")"]
    longer += ["".join(c) for c in itertools.product(["2", "x", "y", "^", "!", "*"], repeat=6)]
    texts += longer
    stats["exhaustive_core_alphabet_6_to_8_tokens"] = len(longer)
    g = [grammar_text(rng, rng.choice([1, 2, 2, 3])) for _ in range(4000 if quick else 150000)]
    m = [malformed_text(rng) for _ in range(4000 if quick else 150000)]
    stats["grammar_directed"] = len(g)
    stats["malformed"] = len(m)
    # every character (code points below 0x3100 quick / 0x10000 thorough, plus a few beyond) inside
    # otherwise valid input: alone, in the middle, and at the end after padding.  Unicode has many
    # characters that Python's str methods treat like blanks / digits / letters; each is unsupported
    # and must be rejected at once with the documented ValueError.
    cps = list(range(0, 0x3100 if quick else 0x10000)) + [0x3000, 0xFEFF, 0xFF10, 0xFF21, 0xFF41, 0x1D7CE, 0x1F600, 0x10FFFF]
    cps = [c for c in dict.fromkeys(cps) if not (0xD800 <= c <= 0xDFFF)]
    chars = [c_.format(chr(cp)) for cp in cps for c_ in ("{}", "4x + {}2", "x {}")]
    stats["characters_in_context"] = len(chars)
    extra = gen.PATTERN_TEXTS + gen.rule_test_texts() + chars
    texts = list(dict.fromkeys(texts + g + m + extra))
    stats["distinct"] = len(texts)
    return texts, stats


def run_parse_family(ctx):
    texts, stats = parse_texts(ctx)
    drv = core.Driver()
    diffs, oracle, internal = [], [], []
    kinds = {}
    nontrivial = 0
    # processed in chunks so that the thorough tier (millions of strings) stays within memory
    CH = 400000
    for off in range(0, len(texts), CH):
        chunk = texts[off: off + CH]
        res = pr.run_parse(chunk)
        ans = drv.ask([f"parse {pr.text_wire(t)}" for t in chunk])
        # the TRANSLATED source (Gen/PySrcTokSt + Gen/PySrcParse, regenerated from the live tokenizer.py /
        # parser.py) executed on the same text: validates the translators against the real code
        # (a separate executable; when the translated source no longer builds, that is already a broken
        # obligation of this property and the comparison is skipped)
        src_ok = not any(b.get("kind") == "lake build" for b in ctx.broken)
        try:
            ans_src = core.Driver("srcdriver").ask([f"srcparse {pr.text_wire(t)}" for t in chunk]) if src_ok else None
        except RuntimeError:
            ans_src = None
        stats["translated_source_executed"] = ans_src is not None
        for (t, r, o), a, a2 in zip(res, ans, ans_src or [None] * len(ans)):
            m = pr.model_parse_answer(a)
            m2 = pr.model_parse_answer(a2) if a2 is not None else r
            if a2 is not None and not pr.same_parse(r, m2):
                diffs.append({"text": t, "impl": r if r[0] != "ok" else core.tuple_str(r[1]),
                              "translated_source": m2 if m2[0] != "ok" else core.tuple_str(m2[1])})
            k = r[1] if r[0] == "perr" else r[0]
            kinds[k] = kinds.get(k, 0) + 1
            if r[0] == "ok" and r[1][0] in "UB":
                nontrivial += 1
            elif r[0] in ("perr", "badchar"):
                nontrivial += 1
            if r[0] == "internal" or (r[0] == "perr" and r[1].startswith("internal")):
                internal.append({"text": t, "impl": r})
            if not pr.same_parse(r, m):
                diffs.append({"text": t, "impl": r if r[0] != "ok" else core.tuple_str(r[1]),
                              "model": m if m[0] != "ok" else core.tuple_str(m[1])})
            if o is not None:
                oracle.append({"text": t, "oracle": o, "impl": r if r[0] != "ok" else core.tuple_str(r[1])})
        del res, ans
    res = None
    ctx.notes["generator"] = stats
    ctx.notes["outcome_kinds"] = kinds
    ctx.coverage["evaluations"] += len(texts)
    ctx.coverage["distinct_nontrivial"] += nontrivial
    ctx.coverage["traces_validated_against_impl"] += len(texts)
    for t in texts[1000:: max(1, len(texts) // 8)][:8]:
        ctx.sample({"text": t})
    return texts, res, diffs, oracle, internal


def finish(ctx, found_kinds, corr, what):
    """found_kinds: list of (name, cases) with failing inputs on the real code;
    corr: list of (name, cases) of model/implementation differences."""
    found = False
    for name, cases in found_kinds:
        for c in cases[:5]:
            ctx.violation(name, dict(c, observation=name, what=what))
            found = True
    if found:
        return
    broken = [{"correspondence": n, "count": len(c), "first": c[:3]} for n, c in corr if c]
    if broken or ctx.broken:
        ctx.violation("unproved", {"what": what, "broken_correspondence": broken, "broken_obligations": ctx.broken,
                                   "note": "no input violating the property statement was found on the implementation; "
                                           "the property is no longer shown to hold"}, found_input=False)


def c03(ctx):
    ctx.coverage["rule"] = (
        "ALL strings of up to 5 (quick) / 6 (thorough) tokens over {2, 2.5, x, y, + - * / ^ ! = ( ) sgn}, "
        "grammar-directed random text (padding, brackets, en-dash), a malformed stream and the repo's examples; "
        "each parsed by the real parser, by the Lean model (trees / error kinds compared) and evaluated by an "
        "independent evaluator written from the documented grammar (acceptance and value at two assignments). "
        "Non-trivial: accepted with at least one operator, or rejected with a specific error kind."
    )
    texts, res, diffs, oracle, internal = run_parse_family(ctx)
    finish(ctx, [("grammar", oracle)], [("parse", diffs)], "text is read according to the documented grammar")


# ----------------------------------------------------------------------------- C04


def same_meaning(a, b):
    """exact comparison of two trees at the grid: same value / same kind of failure; for
    equations same truth; same variable set."""
    if core.tuple_vars(a) != core.tuple_vars(b):
        return {"vars": [sorted(core.tuple_vars(a)), sorted(core.tuple_vars(b))]}
    vs = core.tuple_vars(a)
    is_eq = a[0] == "B" and a[2] == "eq"
    for proto in core.ENV_GRID[1:]:
        env = core.env_for(vs, proto)
        try:
            va = core.q_eval(a, env)
            vb = core.q_eval(b, env)
        except (core.FracPow, OverflowError):
            continue
        if isinstance(va, Fraction) != isinstance(vb, Fraction):
            return {"env": {k: str(v) for k, v in env.items()}, "tree": str(va), "reparsed": str(vb)}
        if isinstance(va, Fraction):
            if not is_eq and va != vb:
                return {"env": {k: str(v) for k, v in env.items()}, "tree": str(va), "reparsed": str(vb)}
        elif va != vb:
            return {"env": {k: str(v) for k, v in env.items()}, "tree": va, "reparsed": vb}
    return None


def print_case(t):
    """implementation side of one print/parse round trip on the tree `t` (neutral tuple)"""
    out = {"tree": t}
    try:
        py = core.tuple_to_py(t)
        text = str(py)
    except Exception as e:  # noqa
        out["print_exc"] = type(e).__name__
        return out
    out["text"] = text
    toks = pr.impl_tok(text, False)
    out["toks"] = toks
    r = pr.impl_parse(text)
    if r[0] != "ok":
        out["reparse"] = r
        out["bad"] = {"reparse": r}
        return out
    out["reparse"] = ("ok", r[1])
    out["bad"] = same_meaning(t, r[1])
    return out


def _print_worker(chunk):
    return [print_case(t) for t in chunk]


def toks_agree(impl, model):
    if impl[0] != "toks" or model[0] != "toks" or len(impl[1]) != len(model[1]):
        return False
    for (ta, va), (tb, vb) in zip(impl[1], model[1]):
        if ta != tb:
            return False
        if ta == "Constant":
            try:
                if not core.close(Fraction(va if not va.endswith(".") else va + "0"), Fraction(vb)):
                    return False
            except Exception:
                if va != vb:
                    return False
        elif va != vb:
            return False
    return True


_NUMRUN = re.compile(r"[0-9.]+")


def text_agrees(impl_text, model_answer):
    """character-level comparison of `str(tree)` with the model's `strChars`: everything outside
    the digit/dot runs must be identical, the runs must denote the same number"""
    parts = model_answer.split()
    if len(parts) != 2 or parts[0] != "text":
        return False
    try:
        mtext = "" if parts[1] == "-" else "".join(chr(int(n)) for n in parts[1].split(","))
    except ValueError:
        return False
    if _NUMRUN.sub("#", impl_text) != _NUMRUN.sub("#", mtext):
        return False
    for a, b in zip(_NUMRUN.findall(impl_text), _NUMRUN.findall(mtext)):
        if a == b:
            continue
        try:
            if not core.close(Fraction(a if not a.endswith(".") else a + "0"), Fraction(b)):
                return False
        except Exception:
            return False
    return True


def has_paren_or_compact(t):
    k = t[0]
    if k in "CV":
        return False
    if k == "U":
        return True
    return True


def c04(ctx):
    ctx.coverage["rule"] = (
        "trees: parser images of all trees up to 5/6 nodes over {2,-1,1/2,x,y} x {+ - * / ^ neg} plus sgn / "
        "factorial-of-literal variants, every equation of two small sides, random trees, AND every result of every "
        "applicable rewrite on them (rewrites leave the parser's image); each is printed by the real code, the text "
        "tokenized and compared with the model printer's tokens, re-parsed by the real parser and compared by exact "
        "evaluation and variable set. Non-trivial: the tree has at least one operator."
    )
    import multiprocessing as mp
    rng = random.Random(ctx.seed * 31337 + 3)
    quick = ctx.tier == "quick"
    n = 5 if quick else 6
    base = []
    seen = set()

    def add(t):
        w = core.tuple_to_wire(t)
        if w not in seen:
            seen.add(w)
            base.append(t)

    # constructor-built trees: printing must be right for every tree a rewrite can produce
    for t in gen.enum_upto(n):
        add(t)
    for t in gen.enum_upto(n - 1, leaves=[("C", 0, Fraction(3)), ("C", 0, Fraction(-2)), ("V", 0, "x"),
                                            ("U", 0, "fact", ("C", 0, Fraction(3))),
                                            ("U", 0, "sgn", ("V", 0, "y"))]):
        add(t)
    # every two-level operator nest with function / factorial / negated operands in every slot
    rich = [("C", 0, Fraction(3)), ("C", 0, Fraction(-2)), ("V", 0, "x"), ("U", 0, "sgn", ("V", 0, "y")),
            ("U", 0, "fact", ("C", 0, Fraction(3))), ("U", 0, "neg", ("V", 0, "x")), ("C", 0, Fraction(5, 2))]
    bops = ["add", "sub", "mul", "div", "pow"]
    for o1 in bops:
        for o2 in bops:
            for a in rich:
                for b in rich:
                    inner = ("B", 0, o2, a, b)
                    for c in rich:
                        add(("B", 0, o1, inner, c))
                        add(("B", 0, o1, c, inner))
                    add(("U", 0, "neg", inner))
                    add(("U", 0, "sgn", inner))
    sides = list(gen.enum_upto(3))
    for a in sides:
        for b in sides:
            add(("B", 0, "eq", a, b))
    # constants at the edges of the number formatter: tiny, huge, many digits, integral floats
    odd = [Fraction("0.00002"), Fraction("0.000075"), Fraction("1e-10"), Fraction("-0.00001"), Fraction("123456789.125"),
           Fraction(10**16), Fraction(10**21), Fraction("1234567.000001"), Fraction("0.1"), Fraction("-2.5e-7"),
           Fraction(2**53 + 1), Fraction("1e22")]
    for t in gen.enum_upto(3, leaves=[("C", 0, q) for q in odd] + [("V", 0, "x")]):
        add(t)
    for _ in range(1500 if quick else 40000):
        t = gen.rand_tree(rng, rng.choice([2, 3, 3, 4]), allow_eq=rng.random() < 0.2)
        if core.tuple_size(t) <= 60:
            add(t)
    # rewrite results
    start = []
    def small_consts(t):
        # the library's factor() loops up to sqrt(value): keep huge constants away from the rules
        if t[0] == "C":
            return abs(t[2]) <= 10**6
        return all(small_consts(c) for c in t[3:] if isinstance(c, tuple))

    for t in base[:: 7 if quick else 2]:
        if not small_consts(t):
            continue
        _, r = gen.reachable(t)
        if r is not None:
            start.append(r)
    recs = rules_run.run_impl(start)
    nres = 0
    stale = []
    for rec in recs:
        for a in rec["apply"]:
            if a["impl"][0] == "ok":
                add(a["impl"][1])
                nres += 1
                # the text of the REAL result object (the tree had been rendered before the rewrite):
                # it must re-parse to the meaning of the result tree
                txt = a.get("text")
                if txt is not None:
                    rp = pr.impl_parse(txt)
                    if rp[0] != "ok":
                        stale.append({"tree": core.tuple_str(a["impl"][1]), "text": txt, "rule": a["rule"],
                                      "start": core.tuple_str(rec["tree"]), "problem": {"reparse": rp}})
                    else:
                        sm = same_meaning(core.strip_tags(a["impl"][1]), rp[1])
                        if sm is not None:
                            stale.append({"tree": core.tuple_str(a["impl"][1]), "text": txt, "rule": a["rule"],
                                          "start": core.tuple_str(rec["tree"]), "problem": sm})
    ctx.notes["generator"] = {"trees": len(base), "of_which_rewrite_results": nres}
    procs = 16
    chunks = [base[i: i + 400] for i in range(0, len(base), 400)]
    with mp.Pool(procs) as pool:
        out = [x for part in pool.imap(_print_worker, chunks) for x in part]
    drv = core.Driver()
    ans = drv.ask([f"print {core.tuple_to_wire(o['tree'])}" for o in out])
    ans2 = drv.ask([f"reparse {core.tuple_to_wire(o['tree'])}" for o in out])
    ans3 = drv.ask([f"str {core.tuple_to_wire(o['tree'])}" for o in out])
    bad, tokdiff, rediff, strdiff = list(stale), [], [], []
    for o, a, a2, a3 in zip(out, ans, ans2, ans3):
        if "print_exc" in o:
            bad.append({"tree": core.tuple_str(o["tree"]), "print_exception": o["print_exc"]})
            continue
        if o["bad"] is not None:
            bad.append({"tree": core.tuple_str(o["tree"]), "text": o["text"], "problem": o["bad"]})
        m = pr.model_tok_answer(a)
        if not toks_agree(o["toks"], m):
            tokdiff.append({"tree": core.tuple_str(o["tree"]), "text": o["text"], "impl": o["toks"], "model": m})
        if not text_agrees(o["text"], a3):
            strdiff.append({"tree": core.tuple_str(o["tree"]), "text": o["text"], "model": a3})
        m2 = pr.model_parse_answer(a2)
        if not pr.same_parse(o["reparse"], m2):
            rediff.append({"tree": core.tuple_str(o["tree"]), "text": o["text"],
                           "impl": o["reparse"] if o["reparse"][0] != "ok" else core.tuple_str(o["reparse"][1]),
                           "model": m2 if m2[0] != "ok" else core.tuple_str(m2[1])})
    ctx.coverage["evaluations"] += len(out)
    ctx.coverage["distinct_nontrivial"] += sum(1 for o in out if o["tree"][0] in "UB")
    ctx.coverage["traces_validated_against_impl"] += len(out)
    for o in out[:: max(1, len(out) // 8)][:8]:
        ctx.sample({"tree": core.tuple_str(o["tree"]), "text": o.get("text")})
    finish(ctx, [("roundtrip", bad)], [("print_tokens", tokdiff), ("print_text", strdiff), ("reparse", rediff)],
           "printing then parsing preserves meaning")


# ----------------------------------------------------------------------------- C11


def lossless_oracle(text, pad, impl):
    """C11 oracle on the real tokenizer output."""
    supported = set("+-*/^!()[]= \t\r\n.–") | set("0123456789") | set(
        "abcdefghijklmnopqrstuvwxyzABCDEFGHIJKLMNOPQRSTUVWXYZ")
    first_bad = next((c for c in text if c not in supported), None)
    if impl[0] == "badchar":
        if first_bad is None or ord(first_bad) != impl[1]:
            return {"problem": "ValueError for a supported string / wrong character", "impl": impl}
        return None
    if impl[0] != "toks":
        return {"problem": "internal error", "impl": impl}
    if first_bad is not None:
        return {"problem": "unsupported character accepted", "char": first_bad}
    toks = impl[1]
    if not toks or toks[-1][0] != "EOF" or any(t[0] == "EOF" for t in toks[:-1]):
        return {"problem": "end marker", "toks": toks}
    norm = text.replace("–", "-").replace("[", "(").replace("]", ")")
    if not pad:
        norm = "".join(c for c in norm if c not in " \t\r\n")
    joined = "".join(v for _, v in toks[:-1])
    if joined != norm:
        return {"problem": "token values do not reproduce the input", "joined": joined, "expected": norm}
    # classes: maximal digit/dot runs, letters, function names
    for i, (ty, v) in enumerate(toks[:-1]):
        if ty == "Constant":
            if not v or any(c not in "0123456789." for c in v):
                return {"problem": "constant token content", "tok": v}
            if i + 1 < len(toks) - 1 and toks[i + 1][0] == "Constant" and pad:
                return {"problem": "digit run not maximal", "tok": v}
        elif ty == "Variable":
            if len(v) != 1 or not v.isalpha():
                return {"problem": "variable token content", "tok": v}
        elif ty == "Function":
            if v != "sgn":
                return {"problem": "function token", "tok": v}
        elif ty == "Pad":
            if not pad or v not in " \t\r\n":
                return {"problem": "pad token", "tok": v}
    return None


def letter_runs_oracle(text, impl):
    """each letter its own variable unless the WHOLE maximal letter run is a function name"""
    if impl[0] != "toks":
        return None
    import re
    want = []
    for run in re.findall(r"[A-Za-z]+", text):
        if run == "sgn":
            want.append(("Function", "sgn"))
        else:
            want.extend(("Variable", c) for c in run)
    got = [(ty, v) for ty, v in impl[1] if ty in ("Variable", "Function")]
    if want != got:
        return {"problem": "letters", "want": want[:8], "got": got[:8]}
    return None


TOK_SYMS = ["2", "7", ".", "x", "y", "s", "g", "n", "sgn", "+", "-", "*", "/", "^", "!", "=", "(", ")", "[", "]",
            " ", "\t", "\n", "–", "#", "S", "N", "Sgn", "SGN"]


def c11(ctx):
    ctx.coverage["rule"] = (
        "ALL strings of up to 3 (quick) / 4 (thorough) symbols over a 29-symbol alphabet (digits, dot, letters in "
        "both cases, sgn/Sgn/SGN, operators, both bracket kinds, space/tab/newline, en-dash, an unsupported "
        "character) and of exactly 4 / 5 symbols over a 16-symbol core alphabet, random longer "
        "strings, both padding modes; real tokenizer vs model token by token, plus the losslessness / class oracle "
        "on the real output. Non-trivial: at least two tokens before the end marker."
    )
    rng = random.Random(ctx.seed * 7 + 11)
    quick = ctx.tier == "quick"
    texts = []
    core_syms = ["2", ".", "x", "s", "sgn", "+", "-", "(", "]", " ", "\t", "–", "#", "S", "SGN", "!"]
    if quick:
        for k in range(0, 4):
            for combo in itertools.product(TOK_SYMS, repeat=k):
                texts.append("".join(combo))
        for combo in itertools.product(core_syms, repeat=4):
            texts.append("".join(combo))
    else:
        for k in range(0, 5):
            for combo in itertools.product(TOK_SYMS, repeat=k):
                texts.append("".join(combo))
        for combo in itertools.product(core_syms, repeat=5):
            texts.append("".join(combo))
    for _ in range(5000 if quick else 200000):
        texts.append("".join(rng.choice(TOK_SYMS + ["12.5", "abc", "sgnx", "xsgn", "0", "9", "A", "Z", "é", "\r", "sGn", "G", "abs", "Abs"])
                             for _ in range(rng.randint(5, 14))))
    # every character (not only the alphabet above) in contexts where the neighbouring token could
    # swallow it: after a supported blank, after a digit, after a letter, before a blank, alone.
    # Unicode has many characters that Python's str methods treat like blanks / digits / letters
    # (NBSP, form feed, U+2000.., fullwidth and Arabic-Indic digits, ...): each is unsupported.
    cps = list(range(0, 0x3100 if quick else 0x10000))
    cps += [0x3000, 0xFEFF, 0xFF10, 0xFF21, 0xFF41, 0x1D7CE, 0x1F600, 0x10FFFF, 0xE0020]
    cps = [c for c in dict.fromkeys(cps) if not (0xD800 <= c <= 0xDFFF)]
    ctxs = ["{}", "4x + {}2", " {}", "\t{}x", "2{}3", "x{} "] + ([] if quick else ["{} ", "  {}  ", "sgn{}(x)", "({})", "\n{}\n"])
    n_before = len(texts)
    for cp in cps:
        ch = chr(cp)
        for c_ in ctxs:
            texts.append(c_.format(ch))
    # long runs (a tokenizer that scans a bounded window would cut them): digit / letter runs of
    # 31..1025 characters at the start, after another token and in the middle of the input
    for n_ in (31, 32, 33, 40, 63, 64, 65, 100, 257, 1025) if quick else (31, 32, 33, 40, 63, 64, 65, 100, 127, 128, 129,
                                                                             255, 256, 257, 1023, 1024, 1025, 4097):
        digits = ("1234567890" * (n_ // 10 + 1))[:n_]
        letters = ("abcdefghijklmnopqrtuvwxyz" * (n_ // 25 + 1))[:n_]
        for run in (digits, digits[: n_ // 2] + "." + digits[n_ // 2 + 1:], letters, letters[:-3] + "sgn", "sgn" + letters[3:]):
            for c_ in ("{}", "x + {}", "4 + {} - 2", "({})", " {}", "sgn({})"):
                texts.append(c_.format(run))
    texts = list(dict.fromkeys(texts))
    ctx.notes["characters_in_context"] = {"code_points": len(cps), "contexts": len(ctxs), "texts": len(texts) - n_before}
    items = [(t, p) for t in texts for p in (False, True)]
    res = pr.run_tok(items)
    drv = core.Driver()
    ans = drv.ask([f"tok {1 if p else 0} {pr.text_wire(t)}" for t, p in items])
    diffs, bad = [], []
    nontrivial = 0
    for (t, p, r), a in zip(res, ans):
        m = pr.model_tok_answer(a)
        if r != m:
            diffs.append({"text": t, "pad": p, "impl": r, "model": m})
        o = lossless_oracle(t, p, r) or letter_runs_oracle(t, r)
        if o is not None:
            bad.append({"text": t, "pad": p, "oracle": o})
        if r[0] == "toks" and len(r[1]) >= 3:
            nontrivial += 1
    # dropping padding only removes the whitespace tokens
    by = {}
    for (t, p, r) in res:
        by.setdefault(t, {})[p] = r
    for t, d in by.items():
        a, b = d.get(False), d.get(True)
        if a and b and a[0] == "toks" and b[0] == "toks":
            if [x for x in b[1] if x[0] != "Pad"] != a[1]:
                bad.append({"text": t, "oracle": {"problem": "padding mode changes non-pad tokens"}})
        elif a and b and a[0] != b[0]:
            bad.append({"text": t, "oracle": {"problem": "padding mode changes the outcome kind"}})
    # a tokenizer object is long-lived (the parser keeps one): a call's answer must not depend on
    # the calls made before it on the same object, in particular not on a call that was rejected.
    # ALL sequences of 2 and 3 calls over a small text set (with rejected inputs that have a valid
    # prefix) and random longer ones, on ONE Tokenizer per sequence and mode; every answer
    # compared with the model's answer for that text alone.
    seq_texts = ["7y*#", "x^2", "#", "2.5+", "sgn(x)$", "", "4 + 2", "é1"]
    seqs = [list(c) for k in (2, 3) for c in itertools.product(seq_texts, repeat=k)]
    pool_txt = [t for t in texts if 0 < len(t) <= 6]
    for _ in range(300 if quick else 20000):
        seqs.append([rng.choice(seq_texts + [rng.choice(pool_txt)]) for _ in range(rng.randint(4, 10))])
    uniq = sorted({(t, p) for sq in seqs for t in sq for p in (False, True)})
    single = dict(zip(uniq, (pr.model_tok_answer(a) for a in
                             drv.ask([f"tok {1 if p else 0} {pr.text_wire(t)}" for t, p in uniq]))))
    n_seq = 0
    for sq in seqs:
        for pmode in (False, True):
            tk = pr.T.Tokenizer(exclude_padding=not pmode)
            n_seq += 1
            for k, t in enumerate(sq):
                try:
                    with pr.time_limit(pr._limit_for(t)):
                        r = ("toks", [(pr.TT_NAMES.get(x.type, str(x.type)), x.value) for x in tk.tokenize(t)])
                except pr._TimeUp:
                    pr._TIMEOUTS[0] += 1
                    r = ("internal", "Timeout")
                except ValueError as e:
                    r = pr.classify_value_error(e)
                except Exception as e:  # noqa
                    r = ("internal", type(e).__name__)
                if r != single[(t, pmode)]:
                    bad.append({"text": t, "pad": pmode, "calls_before_on_same_tokenizer": sq[:k],
                                "oracle": {"problem": "answer depends on earlier calls on the same Tokenizer",
                                           "got": r, "alone": single[(t, pmode)]}})
                    break
    ctx.notes["call_sequences_on_one_tokenizer"] = n_seq
    ctx.coverage["evaluations"] += len(items) + n_seq
    ctx.coverage["distinct_nontrivial"] += nontrivial
    ctx.coverage["traces_validated_against_impl"] += len(items) + n_seq
    ctx.notes["generator"] = {"strings": len(texts), "modes": 2}
    for t in texts[3000:: max(1, len(texts) // 8)][:8]:
        ctx.sample({"text": t})
    finish(ctx, [("tokenizer", bad)], [("tok", diffs)], "tokenizing is lossless, total, faithful to character classes")


# ----------------------------------------------------------------------------- C10 / C12 histories

HIST_TEXTS = ["2+", "2+#", "4x$", "2x+1", "(", "4x^2", "1.2.3", "#", "", "x=1", "sgn(x)", "2 + 3", "12", "1 2", "s gn(x)", "2x + 1",
              "2 x+1", "4 + * 3", "2x)", "(x", " 2+", "x = 1", "1 . 5", "1.5", "2+ ", "SGN(x)",
              "-3x + 2", "2x^-3 = y * -1.5", "-3 *", "(-12 + a) / b", "-x", "4!", "x - 3"]


def run_history(ops):
    """ops: list of ('p',text) ('t',text) ('c',) ('x',i,n) on ONE real parser; returns outputs"""
    parser = P.ExpressionParser()
    handed = []
    out = []
    for op in ops:
        if op[0] == "p":
            try:
                with pr.time_limit(pr._limit_for(op[1])):
                    tree = parser.parse(op[1])
                out.append(("ok", core.to_tuple(tree)))
            except pr._TimeUp:
                pr._TIMEOUTS[0] += 1
                out.append(("internal", "Timeout"))
            except P.ParserException as e:
                out.append(("perr", type(e).__name__))
            except ValueError as e:
                out.append(pr.classify_value_error(e))
            except Exception as e:  # noqa
                out.append(("internal", type(e).__name__))
        elif op[0] == "t":
            try:
                with pr.time_limit(pr._limit_for(op[1])):
                    toks = parser.tokenize(op[1])
                handed.append(toks)
                out.append(("toks", [(pr.TT_NAMES.get(t.type, str(t.type)), t.value) for t in toks]))
            except pr._TimeUp:
                pr._TIMEOUTS[0] += 1
                out.append(("internal", "Timeout"))
            except ValueError as e:
                out.append(pr.classify_value_error(e))
            except Exception as e:  # noqa
                out.append(("internal", type(e).__name__))
        elif op[0] == "c":
            parser.clear_cache()
            out.append(("unit",))
        else:
            if op[1] < len(handed):
                for _ in range(op[2]):
                    if handed[op[1]]:
                        handed[op[1]].pop(0)
            out.append(("unit",))
    return out


def fresh_answer(op):
    if op[0] == "p":
        return pr.impl_parse(op[1])
    if op[0] == "t":
        r = pr.impl_tok(op[1], False)
        return r
    return ("unit",)


def hist_wire(ops):
    parts = []
    for op in ops:
        if op[0] in "pt":
            parts.append(f"{op[0]}:{pr.text_wire(op[1])}")
        elif op[0] == "c":
            parts.append("c")
        else:
            parts.append(f"x:{op[1]}:{op[2]}")
    return "hist " + " ".join(parts)


def model_hist(ans):
    out = []
    for part in ans.split(" ; "):
        toks = part.split()
        if toks[0] == "unit":
            out.append(("unit",))
        elif toks[0] == "toks" or toks[0] == "badchar" and False:
            out.append(pr.model_tok_answer(part))
        elif toks[0] == "toks":
            out.append(pr.model_tok_answer(part))
        else:
            out.append(pr.model_parse_answer(part))
    return out


def same_out(a, b):
    if a[0] != b[0]:
        return False
    if a[0] == "ok":
        return core.tuples_agree(a[1], b[1], with_tags=False)
    return a == b or (a[0] == "toks" and a[1] == b[1])


def histories(ctx, lengths, texts, nrandom, rng):
    alphabet = [("p", t) for t in texts] + [("t", t) for t in texts] + [("c",), ("x", 0, 1), ("x", 1, 5)]
    hs = []
    for k in lengths:
        for combo in itertools.product(alphabet, repeat=k):
            hs.append(list(combo))
    for _ in range(nrandom):
        hs.append([rng.choice(alphabet + [("p", rng.choice(HIST_TEXTS)), ("t", rng.choice(HIST_TEXTS))])
                   for _ in range(rng.randint(4, 14))])
    return hs


FAIL_IN_GROUP = ["(4 +", "(3 + 4 5)", "()", "sgn(2x", "((x", "(1 + (2 * ", "sgn((", "(x))", "2 * (", "(((((x", "-(", "(x + (y"]
VALID_GROUPS = ["(x + 1) * 2", "sgn(2)", "((x))", "2(x + y)", "(a + b)(c + d)", "-(x^2)", "sgn((x))", "x"]


def soak_histories(rng, n, with_tokenize=True):
    """long lives of ONE parser: hundreds of failing parses (most of them failing inside an open
    group or function call, where a parser might be tempted to keep book of nesting), cache
    clearing, tokenize calls, and valid inputs with groups asked again and again in between"""
    hs = []
    for i in range(n):
        h = []
        length = rng.choice([120, 200, 320])
        style = i % 4
        for j in range(length):
            r = rng.random()
            if style == 0:
                f = FAIL_IN_GROUP[0] if r < 0.9 else rng.choice(FAIL_IN_GROUP)
            elif style == 1:
                f = "(((((x" if r < 0.8 else rng.choice(FAIL_IN_GROUP)
            else:
                f = rng.choice(FAIL_IN_GROUP)
            h.append(("p", f))
            if rng.random() < 0.08:
                h.append(("p", rng.choice(VALID_GROUPS)))
            if with_tokenize and rng.random() < 0.04:
                h.append(("t", rng.choice(VALID_GROUPS + FAIL_IN_GROUP)))
            if rng.random() < 0.03:
                h.append(("c",))
        if style == 3:
            h.insert(rng.randrange(len(h)), ("p", "(" * 150 + "x"))
        for v in VALID_GROUPS:
            h.append(("p", v))
        h.append(("c",))
        for v in VALID_GROUPS:
            h.append(("p", v))
        hs.append(h)
    # MANY DISTINCT inputs on one parser (a cache that is bounded or trimmed behaves differently
    # only after hundreds of distinct keys): distinct failing inputs, then valid ones never seen
    # before; distinct valid inputs with a clear_cache in between
    for i in range(max(2, n // 4)):
        h = []
        if i % 2 == 0:
            for j in range(rng.choice([520, 700, 1100])):
                h.append(("p", f"{j}+") if with_tokenize or rng.random() < 0.9 else ("p", f"({j}"))
                if with_tokenize and rng.random() < 0.05:
                    h.append(("t", f"{j} *"))
            for j in range(6):
                h.append(("p", f"{j}x + {j + 1}"))
            h.append(("p", "(x + 1) * 2"))
        else:
            for j in range(5):
                h.append(("p", f"{j}y + 1"))
                if with_tokenize:
                    h.append(("t", f"{j}y + 1"))
            h.append(("c",))
            for j in range(rng.choice([1040, 1100, 1300])):
                h.append(("p", f"{j}x + {j % 7}"))
                if with_tokenize and rng.random() < 0.03:
                    h.append(("t", f"{j}z"))
            for j in range(5):
                h.append(("p", f"{j}y + 1"))
        hs.append(h)
    return hs


def check_histories(ctx, hs):
    drv = core.Driver()
    ans = drv.ask([hist_wire(h) for h in hs])
    bad, diffs = [], []
    hits = 0
    for h, a in zip(hs, ans):
        got = run_history(h)
        want = [fresh_answer(op) for op in h]
        seen_p, seen_t = set(), set()
        hit = False
        for op in h:
            if op[0] == "p":
                hit = hit or op[1] in seen_p
                seen_p.add(op[1])
            if op[0] == "t":
                hit = hit or op[1] in seen_t or op[1] in seen_p
                seen_t.add(op[1])
            if op[0] == "c":
                seen_p, seen_t = set(), set()
        hits += 1 if hit else 0
        for i, (g, w) in enumerate(zip(got, want)):
            if not same_out(g, w):
                bad.append({"history": [list(o) for o in h], "at": i, "long_lived": str(g)[:300], "fresh": str(w)[:300]})
                break
        m = model_hist(a)
        if len(m) != len(got) or any(not same_out(g, mm) for g, mm in zip(got, m)):
            diffs.append({"history": [list(o) for o in h], "impl": str(got)[:300], "model": str(m)[:300]})
    return bad, diffs, hits


def c12(ctx):
    ctx.coverage["rule"] = (
        "ALL histories of length <= 3 (quick) / 4 (thorough) over {parse, tokenize} x {2 valid, 2 failing texts} + "
        "clear_cache + popping tokens off returned lists, plus random histories of length 4-14 over 10 texts; every "
        "answer of the long-lived parser compared with a fresh parser and with the Lean state-machine model. "
        "Non-trivial: the history contains at least one cache hit."
    )
    rng = random.Random(ctx.seed * 13 + 1)
    quick = ctx.tier == "quick"
    hs = histories(ctx, [1, 2, 3] if quick else [1, 2, 3, 4], ["2x+1", "2+", "(", "x=1"], 1500 if quick else 30000, rng)
    # every ordered pair of texts, through both entry points (same text up to spacing, same failing text twice, ...)
    for a in HIST_TEXTS:
        for b in HIST_TEXTS:
            for k1 in "pt":
                for k2 in "pt":
                    hs.append([(k1, a), (k2, b)])
                    hs.append([(k1, a), (k2, b), (k1, a)])
    soak = soak_histories(rng, 8 if quick else 120)
    ctx.notes["soak_histories"] = {"histories": len(soak), "operations": sum(len(h) for h in soak)}
    hs += soak
    bad, diffs, hits = check_histories(ctx, hs)
    ctx.coverage["evaluations"] += len(hs)
    ctx.coverage["distinct_nontrivial"] += hits
    ctx.coverage["traces_validated_against_impl"] += len(hs)
    for h in hs[:: max(1, len(hs) // 6)][:6]:
        ctx.sample({"history": [list(o) for o in h]})
    finish(ctx, [("history", bad)], [("hist", diffs)], "parser results do not depend on call history")


def deep_inputs():
    out = []
    for n in (10, 50, 64, 65, 66, 100, 101, 128, 150):
        out.append(("nest%d" % n, "(" * n + "x" + ")" * n))
        out.append(("negnest%d" % n, "-(" * n + "x" + ")" * n))
        out.append(("fn%d" % n, "sgn(" * n + "x" + ")" * n))
    for n in (500, 2000):
        out.append(("sum%d" % n, "+".join(["1"] * n)))
        out.append(("eqs%d" % n, "=".join(["1"] * n)))
        out.append(("juxt%d" % n, "x" * n))
        out.append(("div%d" % n, "/".join(["2"] * n)))
        out.append(("digits%d" % n, "1" * n))
    for n in (100, 400, 800, 1200, 2000):
        out.append(("prod%d" % n, "*".join(["1"] * n)))
    return out


def c10(ctx):
    ctx.coverage["rule"] = (
        "every string of the C03 streams (exhaustive short token strings, grammar-directed, malformed/truncated/"
        "token soups): outcome must be a tree or one of the documented exceptions (anything else is recorded as "
        "internal:<type>); returned trees are audited for link consistency; histories interleaving failing and "
        "succeeding parses on one parser vs a fresh parser; deep-input probes (nesting <= 100, flat chains of up to "
        "2000 operands). Non-trivial: a specific documented error kind or a tree with an operator."
    )
    texts, res, diffs, oracle, internal = run_parse_family(ctx)
    rng = random.Random(ctx.seed * 17 + 2)
    quick = ctx.tier == "quick"
    # returned trees are well formed
    audit = []
    for t in texts[:: 50 if quick else 10]:
        try:
            with pr.time_limit(pr._limit_for(t)):
                tree = P.ExpressionParser().parse(t)
        except pr._TimeUp:
            pr._TIMEOUTS[0] += 1
            continue
        except Exception:
            continue
        probs = core.audit_links(tree)
        if probs:
            audit.append({"text": t, "problems": probs})
    hs = histories(ctx, [2], ["2x+1", "2+", "(", "1.2.3", "#", ")", "x^"], 1500 if quick else 20000, rng)
    hs = [h for h in hs if all(op[0] in "pc" for op in h)]
    soak = soak_histories(rng, 8 if quick else 120, with_tokenize=False)
    ctx.notes["soak_histories"] = {"histories": len(soak), "operations": sum(len(h) for h in soak)}
    hs += soak
    bad, hdiffs, hits = check_histories(ctx, hs)
    ctx.coverage["evaluations"] += len(hs)
    # deep inputs
    deep_bad = []
    drv_deep = core.Driver()
    nest_probes = [(n_, t_) for n_, t_ in deep_inputs() if n_.startswith(("nest", "negnest", "fn"))]
    nest_model = dict(zip([n_ for n_, _ in nest_probes],
                          drv_deep.ask([f"parse {pr.text_wire(t_)}" for _, t_ in nest_probes])))
    for name, text in deep_inputs():
        r = pr.impl_parse(text)
        if r[0] == "internal" or (r[0] == "perr" and str(r[1]).startswith("internal")):
            deep_bad.append({"probe": name, "length": len(text), "impl": r})
        elif name in nest_model:
            # bounded nesting (<= 150 levels): the outcome is the model's (a tree)
            m = pr.model_parse_answer(nest_model[name])
            if not pr.same_parse(r, m):
                deep_bad.append({"probe": name, "length": len(text), "impl": str(r)[:200], "model": str(m)[:200],
                                 "problem": "valid nested input not parsed to the grammar's tree"})
    ctx.notes["deep_probes"] = len(deep_inputs())
    # known finding: RecursionError on long flat products (parse_mult recurses for '*')
    known = [f for f in ctx.open_findings() if f.get("id") == "C10-flat-product-recursion"]
    still = []
    unlisted = []
    for d in deep_bad:
        if known and d["probe"].startswith("prod") and d["impl"] == ("internal", "RecursionError"):
            still.append(d)
        else:
            unlisted.append(d)
    if known and still:
        ctx.known_finding(f"{known[0]['id']}: {known[0]['what']} (reproduced on {[d['probe'] for d in still]})")
    finish(ctx, [("internal_error", internal), ("malformed_tree", audit), ("sticky_state", bad), ("deep_input", unlisted)],
           [("parse", diffs), ("hist", hdiffs)], "parsing is total with a closed error contract and no sticky state")


CHECKS = {"C03": c03, "C04": c04, "C10": c10, "C11": c11, "C12": c12}
