"""Checks for the tree-API properties C13 (clone), C14 (traversals, look-ups), C15 (rotation)."""
import itertools
import random
from fractions import Fraction

from . import core, gen
from .core import X
from .props_parse import finish

from mathy_core.tree import BinaryTreeNode, STOP  # noqa: E402

# shapes: None | (id, left, right)


def shapes(n):
    """all shapes with exactly n nodes (ids assigned later)"""
    if n == 0:
        return [None]
    out = []
    for k in range(n):
        for l in shapes(k):
            for r in shapes(n - 1 - k):
                out.append((0, l, r))
    return out


_memo = {}


def shapes_memo(n):
    if n not in _memo:
        _memo[n] = shapes(n)
    return _memo[n]


def label(s, counter=None):
    """ids 1..n in pre-order"""
    counter = counter if counter is not None else [0]
    if s is None:
        return None
    counter[0] += 1
    me = counter[0]
    l = label(s[1], counter)
    r = label(s[2], counter)
    return (me, l, r)


def shape_wire(s):
    return "." if s is None else f"N {s[0]} {shape_wire(s[1])} {shape_wire(s[2])}"


def wire_shape(toks, i=0):
    if toks[i] == ".":
        return None, i + 1
    l, j = wire_shape(toks, i + 2)
    r, j = wire_shape(toks, j)
    return (int(toks[i + 1]), l, r), j


def build(s, nodes=None):
    """real BinaryTreeNode objects for a shape; nodes: id -> object"""
    if s is None:
        return None
    l = build(s[1], nodes)
    r = build(s[2], nodes)
    n = BinaryTreeNode(l, r, None, str(s[0]))
    if nodes is not None:
        nodes[s[0]] = n
    return n


def build_expression(s, nodes, pick):
    """real EXPRESSION objects for a shape: two children -> a binary operator, one child -> a unary
    operator holding its operand on that side, no child -> a leaf; pick(k) chooses among k kinds"""
    if s is None:
        return None
    l = build_expression(s[1], nodes, pick)
    r = build_expression(s[2], nodes, pick)
    if l is not None and r is not None:
        cls = [X.AddExpression, X.MultiplyExpression, X.SubtractExpression, X.DivideExpression, X.PowerExpression,
               X.EqualExpression][pick(6)]
        n = cls(l, r)
    elif r is not None:
        n = [X.NegateExpression, X.SgnExpression, X.FactorialExpression][pick(3)](r)
    elif l is not None:
        n = [X.NegateExpression, X.FactorialExpression][pick(2)](l, child_on_left=True)
    else:
        n = X.VariableExpression("xyz"[pick(3)]) if pick(2) else X.ConstantExpression(pick(9) + 1)
    nodes[s[0]] = n
    return n


def order(s, kind, d=0):
    if s is None:
        return []
    me = [(s[0], d)]
    l = order(s[1], kind, d + 1)
    r = order(s[2], kind, d + 1)
    return {"pre": me + l + r, "in": l + me + r, "post": l + r + me}[kind]


def cells_of(root, nodes):
    """the real object graph as id -> (left,right,parent) ids"""
    rev = {id(o): i for i, o in nodes.items()}
    out = {}
    for i, o in nodes.items():
        out[i] = tuple(rev.get(id(x)) if x is not None else None for x in (o.left, o.right, o.parent))
    return out


def shape_of(obj, rev):
    if obj is None:
        return None
    return (rev[id(obj)], shape_of(obj.left, rev), shape_of(obj.right, rev))


def all_shapes(max_n):
    out = []
    for n in range(1, max_n + 1):
        for s in shapes_memo(n):
            out.append(label(s))
    return out


def ids_of(s):
    return [] if s is None else [s[0]] + ids_of(s[1]) + ids_of(s[2])


# ----------------------------------------------------------------------------- C14


def expr_link_problem(py):
    """get_children / is_leaf / get_root / get_side / get_sibling / get_root_side of every node of a
    real expression tree against its links; returns (query, node text) or None"""
    def links_inorder(n):
        return [] if n is None else links_inorder(n.left) + [n] + links_inorder(n.right)
    for o in links_inorder(py):
        problem = None
        try:
            par = o.parent
            kids = [k for k in (o.left, o.right) if k is not None]
            if [id(k) for k in o.get_children()] != [id(k) for k in kids]:
                problem = "get_children"
            elif o.is_leaf() != (not kids):
                problem = "is_leaf"
            elif o.get_root() is not py:
                problem = "get_root"
            elif par is None:
                if o.get_sibling() is not None:
                    problem = "get_sibling of the root"
            else:
                side = "left" if par.left is o else "right"
                other = par.right if side == "left" else par.left
                if par.get_side(o) != side:
                    problem = "get_side"
                elif o.get_sibling() is not other:
                    problem = "get_sibling"
                else:
                    top = o
                    while top.parent is not None and top.parent is not py:
                        top = top.parent
                    want_rs = "left" if py.left is top else "right"
                    if o.get_root_side() != want_rs:
                        problem = "get_root_side"
        except Exception as e:  # noqa
            problem = f"link query raised {type(e).__name__}"
        if problem:
            try:
                txt = str(o)
            except Exception:  # noqa
                txt = type(o).__name__
            return (problem, txt)
    return None


def c14(ctx):
    ctx.coverage["rule"] = (
        "ALL binary shapes (0 / left-only / right-only / 2 children) with up to 6 (quick) / 8 (thorough) nodes x 3 "
        "traversal orders x every stop position (and no stop): callbacks (node, depth) of the real visit_* compared "
        "with the model and with the defining order cut after the first STOP; root, root-side, side, sibling, "
        "children, leaf queries against the shape; to_list / find_id / find_type on expression trees. "
        "Non-trivial: shapes with at least 3 nodes."
    )
    quick = ctx.tier == "quick"
    shs = all_shapes(6 if quick else 8)
    drv = core.Driver()
    lines, meta = [], []
    bad = []
    for s in shs:
        ids = ids_of(s)
        for kind in ("pre", "in", "post"):
            full = order(s, kind)
            for stop in [None] + ids:
                nodes = {}
                root = build(s, nodes)
                trace = []

                def fn(node, depth, data, _stop=stop, _trace=trace):
                    _trace.append((int(node.id), depth))
                    if _stop is not None and int(node.id) == _stop:
                        return STOP
                    return None

                ret = getattr(root, "visit_" + {"pre": "preorder", "in": "inorder", "post": "postorder"}[kind])(fn)
                want = []
                for x in full:
                    want.append(x)
                    if stop is not None and x[0] == stop:
                        break
                if trace != want or (ret == STOP) != (stop is not None):
                    bad.append({"shape": shape_wire(s), "order": kind, "stop": stop, "callbacks": trace, "expected": want,
                                "returned": ret})
                lines.append(f"visit {kind} {stop if stop is not None else '-'} {shape_wire(s)}")
                meta.append((s, kind, stop, trace, ret == STOP))
        # traversals started at a non-root node cover exactly its sub-tree, depths from 0
        if len(ids) <= 5:
            nodes = {}
            root = build(s, nodes)

            def subshape(t, i):
                if t is None:
                    return None
                if t[0] == i:
                    return t
                return subshape(t[1], i) or subshape(t[2], i)

            for i in ids[1:]:
                for kind, meth in (("pre", "visit_preorder"), ("in", "visit_inorder"), ("post", "visit_postorder")):
                    trace = []
                    getattr(nodes[i], meth)(lambda node, depth, data, _t=trace: _t.append((int(node.id), depth)))
                    if trace != order(subshape(s, i), kind):
                        bad.append({"shape": shape_wire(s), "order": kind, "receiver": i, "callbacks": trace,
                                    "expected": order(subshape(s, i), kind)})
        # queries
        nodes = {}
        root = build(s, nodes)
        par = {}

        def walk(t, p, side):
            if t is None:
                return
            par[t[0]] = (p, side, t)
            walk(t[1], t, "left")
            walk(t[2], t, "right")

        walk(s, None, None)
        for i, o in nodes.items():
            p, side, t = par[i]
            try:
                if int(o.get_root().id) != s[0]:
                    bad.append({"shape": shape_wire(s), "query": "get_root", "node": i})
                if o.is_leaf() != (t[1] is None and t[2] is None):
                    bad.append({"shape": shape_wire(s), "query": "is_leaf", "node": i})
                ch = [int(c.id) for c in o.get_children()]
                if ch != [c[0] for c in (t[1], t[2]) if c is not None]:
                    bad.append({"shape": shape_wire(s), "query": "get_children", "node": i, "got": ch})
                sib = o.get_sibling()
                want_sib = None
                if p is not None:
                    other = p[2] if side == "left" else p[1]
                    want_sib = other[0] if other is not None else None
                if (int(sib.id) if sib is not None else None) != want_sib:
                    bad.append({"shape": shape_wire(s), "query": "get_sibling", "node": i})
                if p is not None:
                    if nodes[p[0]].get_side(o) != side:
                        bad.append({"shape": shape_wire(s), "query": "get_side", "node": i})
                    # root side = side of the ancestor that is a child of the root
                    a = i
                    while par[a][0] is not None and par[a][0][0] != s[0]:
                        a = par[a][0][0]
                    if o.get_root_side() != par[a][1]:
                        bad.append({"shape": shape_wire(s), "query": "get_root_side", "node": i})
            except Exception as e:  # noqa
                bad.append({"shape": shape_wire(s), "query": "exception", "node": i, "exc": type(e).__name__})
    # queries stay consistent with the links after the tree is edited (re-parenting a sub-tree,
    # rotating): every node is asked BEFORE the edit as well, so stale answers would show
    def true_root(o):
        while o.parent is not None:
            o = o.parent
        return o

    n_edit = 0
    for s in all_shapes(5 if quick else 6):
        for i in ids_of(s)[1:]:
            for edit in ("move", "rotate", "detach"):
                nodes = {}
                root = build(s, nodes)
                for o in nodes.values():
                    o.get_root()
                    o.get_sibling()
                    o.get_children()
                n = nodes[i]
                par = n.parent
                if edit == "move":
                    if par.left is n:
                        par.set_left(None, clear_old_child_parent=True)
                    else:
                        par.set_right(None, clear_old_child_parent=True)
                    BinaryTreeNode(left=n, id="new-root")
                elif edit == "detach":
                    if par.left is n:
                        par.set_left(None, clear_old_child_parent=True)
                    else:
                        par.set_right(None, clear_old_child_parent=True)
                else:
                    n.rotate()
                n_edit += 1
                for k, o in nodes.items():
                    want = true_root(o)
                    got = o.get_root()
                    if got is not want:
                        bad.append({"shape": shape_wire(s), "edit": edit, "moved": i, "node": k, "query": "get_root after edit",
                                    "got": got.id, "expected": want.id})
                        break
                    sib = o.get_sibling()
                    want_sib = None
                    if o.parent is not None:
                        want_sib = o.parent.right if o.parent.left is o else o.parent.left
                    if sib is not want_sib:
                        bad.append({"shape": shape_wire(s), "edit": edit, "moved": i, "node": k, "query": "get_sibling after edit"})
                        break
                    if [id(c) for c in o.get_children()] != [id(c) for c in (o.left, o.right) if c is not None]:
                        bad.append({"shape": shape_wire(s), "edit": edit, "moved": i, "node": k, "query": "get_children after edit"})
                        break
    ctx.notes["edit_histories"] = n_edit
    ans = drv.ask(lines)
    diffs = []
    for (s, kind, stop, trace, stopped), a in zip(meta, ans):
        left, flag = a[len("trace"):].split("|")
        mt = [tuple(int(x) for x in p.split(":")) for p in left.split()]
        if mt != trace or (flag.strip() == "true") != stopped:
            diffs.append({"shape": shape_wire(s), "order": kind, "stop": stop, "impl": trace, "model": a})
    # expression-level listings
    rng = random.Random(ctx.seed + 5)
    nexpr = 0
    flines, fmeta = [], []
    twins = []
    for txt in ("4 + 4", "(7 + 7) * x", "2 * 2.0", "12 = 12", "y * (5 - 5)", "x * x", "3 / 3 + x^x", "-(2 - 2)",
                "(x + 1) * (x + 1)", "2x + 2x", "5 ^ 5 - y / y"):
        try:
            twins.append(core.to_tuple(core.parse_fresh(txt)))
        except Exception:  # noqa
            pass
    for _k in range(300 if quick else 5000):
        t = twins[_k] if _k < len(twins) else gen.rand_tree(rng, rng.choice([2, 3, 4]), allow_eq=rng.random() < 0.2)
        py = core.tuple_to_py(t)
        nexpr += 1
        want_in = core.inorder(py)
        for kind in ("inorder", "preorder", "postorder"):
            got = py.to_list(kind)
            acc = []
            getattr(py, "visit_" + kind)(lambda n, d, data, acc=acc: acc.append(n))
            if [id(x) for x in got] != [id(x) for x in acc]:
                bad.append({"tree": core.tuple_str(t), "query": "to_list " + kind})
        for n in want_in[:: max(1, len(want_in) // 5)]:
            f = py.find_id(n.id)
            first = next(x for x in want_in if x.id == n.id)
            if f is not first:
                bad.append({"tree": core.tuple_str(t), "query": "find_id"})
        for cls in (X.ConstantExpression, X.AddExpression, X.BinaryExpression, X.VariableExpression,
                    X.UnaryExpression, X.FunctionExpression, X.MathExpression, X.NegateExpression, X.PowerExpression):
            got = py.find_type(cls)
            if [id(x) for x in got] != [id(x) for x in want_in if isinstance(x, cls)]:
                bad.append({"tree": core.tuple_str(t), "query": "find_type " + cls.__name__})
        if py.find_id("no-such-id") is not None:
            bad.append({"tree": core.tuple_str(t), "query": "find_id missing"})
        # the same queries asked of EVERY node (not only the root): they range over the receiver's
        # own sub-tree; ids outside it are not found; with duplicate ids the first in-order wins
        if rng.random() < 0.5 and isinstance(py, X.BinaryExpression):
            py.right.id = py.left.id  # duplicate ids exist in real trees (clone() copies them)

        def links_inorder(n):
            return [] if n is None else links_inorder(n.left) + [n] + links_inorder(n.right)

        want_in = links_inorder(py)
        all_ids = list(dict.fromkeys(n.id for n in want_in))
        lab = {i: k + 1 for k, i in enumerate(all_ids)}

        def lshape(n):
            return None if n is None else (lab[n.id], lshape(n.left), lshape(n.right))

        for recv in want_in[:: 1 if len(want_in) < 8 else 2]:
            rs = shape_wire(lshape(recv))
            sub_l = links_inorder(recv)
            for i in all_ids[:: max(1, len(all_ids) // 4)] + ["absent"]:
                f = recv.find_id(i)
                idx = next((k for k, x in enumerate(sub_l) if x is f), None) if f is not None else None
                flines.append(f"findid {lab.get(i, 999)} {rs}")
                fmeta.append((core.tuple_str(t), str(recv), i, idx, [lab[x.id] for x in recv.to_list("inorder")]))
        for recv in want_in:
            sub = links_inorder(recv)
            if [id(x) for x in recv.to_list("inorder")] != [id(x) for x in sub]:
                bad.append({"tree": core.tuple_str(t), "query": "to_list on a sub-node", "receiver": str(recv)})
                break
            stop = False
            for i in all_ids:
                want = next((x for x in sub if x.id == i), None)
                if recv.find_id(i) is not want:
                    bad.append({"tree": core.tuple_str(t), "query": "find_id on a sub-node", "receiver": str(recv),
                                "id_inside_receiver": want is not None})
                    stop = True
                    break
            if stop:
                break
            got = recv.find_type(X.VariableExpression)
            if [id(x) for x in got] != [id(x) for x in sub if isinstance(x, X.VariableExpression)]:
                bad.append({"tree": core.tuple_str(t), "query": "find_type on a sub-node", "receiver": str(recv)})
                break
        # link queries on the real expression classes, judged by object identity (equal-looking
        # siblings such as `4 + 4` or `x * x` are different nodes) — on the tree as built, and again
        # after the tree was edited (operands replaced / removed and re-set, a rule applied in place,
        # a node rotated): the answers follow the links as they are NOW
        pr_ = expr_link_problem(py)
        if pr_:
            bad.append({"tree": core.tuple_str(t), "query": pr_[0] + " (expression classes)", "node": pr_[1]})
        else:
            edits = []
            cur = py
            for _e in range(rng.choice([1, 2, 3])):
                nodes_ = links_inorder(cur)
                n_ = rng.choice(nodes_)
                kind = rng.choice(["set_child", "replace", "rule", "rotate", "reset"])
                try:
                    if kind == "set_child" and isinstance(n_, X.UnaryExpression):
                        n_.set_child(X.VariableExpression("q"))
                    elif kind == "replace" and n_.parent is not None:
                        n_.parent.set_side(X.ConstantExpression(7), n_.parent.get_side(n_))
                    elif kind == "rule":
                        opts = [(rn, m) for rn in ("ca", "cs1", "dm", "rs", "mi") for m in core.rule_instance(rn).find_nodes(cur)]
                        if not opts:
                            continue
                        rn, m = opts[rng.randrange(len(opts))]
                        cur = core.rule_instance(rn).apply_to(m).result.get_root()
                    elif kind == "rotate" and n_.parent is not None and isinstance(n_, X.BinaryExpression) \
                            and isinstance(n_.parent, X.BinaryExpression):
                        n_.rotate()
                        cur = n_.get_root()
                    elif kind == "reset" and isinstance(n_, X.UnaryExpression):
                        old_ = n_.get_child()
                        n_.set_child(None) if hasattr(n_, "set_child") else None
                        n_.set_child(old_)
                    else:
                        continue
                    edits.append(kind)
                except Exception:  # noqa
                    break
            if edits and not core.audit_links(cur):
                pr_ = expr_link_problem(cur)
                if pr_:
                    bad.append({"tree": core.tuple_str(t), "edits": edits, "query": pr_[0] + " after edits (expression classes)",
                                "node": pr_[1]})
    # find_id / to_list of the real expression classes vs the model's findId / toList
    for (tt, rv, i, idx, lst), a in zip(fmeta, drv.ask(flines)):
        toks = a.split()
        m_idx = None if toks[1] == "none" else int(toks[1])
        m_lst = [int(x) for x in toks[3:]]
        if m_idx != idx or m_lst != lst:
            diffs.append({"tree": tt, "receiver": rv, "id": str(i), "impl_inorder_index": idx, "model": a,
                          "impl_list": lst, "query": "find_id/to_list"})
    ctx.notes["find_id_correspondence"] = len(flines)
    ctx.coverage["evaluations"] += len(lines) + nexpr + len(flines)
    ctx.coverage["distinct_nontrivial"] += sum(1 for s in shs if len(ids_of(s)) >= 3)
    ctx.coverage["traces_validated_against_impl"] += len(lines) + len(flines)
    ctx.coverage["exhaustive"] = True
    ctx.notes["generator"] = {"shapes": len(shs), "visits": len(lines), "expression_trees": nexpr}
    for s in shs[:: max(1, len(shs) // 6)][:6]:
        ctx.sample({"shape": shape_wire(s)})
    finish(ctx, [("traversal", bad)], [("visit", diffs)], "traversals and look-ups")


# ----------------------------------------------------------------------------- C15


def link_problems(cells, root_id):
    probs = []
    for i, (l, r, p) in cells.items():
        for c, side in ((l, "left"), (r, "right")):
            if c is not None and cells[c][2] != i:
                probs.append(f"{side} child {c} of {i} has parent {cells[c][2]}")
        if p is not None and i not in (cells[p][0], cells[p][1]):
            probs.append(f"{i} has parent {p} which does not point back")
        if l is not None and l == r:
            probs.append(f"{i} has the same node on both sides")
    if cells[root_id][2] is not None:
        probs.append("root has a parent")
    return probs


def _is_full(s):
    if s is None:
        return True
    if (s[1] is None) != (s[2] is None):
        return False
    return _is_full(s[1]) and _is_full(s[2])


def _build_expr(s, opmap, nodes):
    """a real expression tree of the given full shape: inner nodes + or *, leaves variables"""
    if s[1] is None:
        n = X.VariableExpression("abcdefghijk"[s[0] % 11])
    else:
        cls = X.AddExpression if opmap[s[0]] == "add" else X.MultiplyExpression
        n = cls(_build_expr(s[1], opmap, nodes), _build_expr(s[2], opmap, nodes))
    nodes[s[0]] = n
    return n


def _links_inorder(n):
    return [] if n is None else _links_inorder(n.left) + [n] + _links_inorder(n.right)


def c15(ctx):
    ctx.coverage["rule"] = (
        "ALL binary shapes with up to 6 (quick) / 8 (thorough) nodes, every node rotated (on a fresh tree each "
        "time): the real object graph after rotate() compared cell by cell (left/right/parent of every node) with "
        "the pointer-level model and with the functional rotation; oracle: in-order sequence unchanged, links "
        "mutually consistent, grandparent points at the rotated node, rotating the root changes nothing. "
        "Non-trivial: shapes with at least 3 nodes."
    )
    quick = ctx.tier == "quick"
    shs = all_shapes(6 if quick else 8)
    drv = core.Driver()
    lines, meta, bad = [], [], []
    pick_rng = random.Random(ctx.seed * 3 + 151)
    variants = [(s, False, False) for s in shs] + [(s, True, False) for s in all_shapes(5 if quick else 7)]
    # the same rotations on trees of the real EXPRESSION classes (unary nodes included: negation,
    # sgn, factorial with the operand on either side), whose setters may be overridden
    variants += [(s, False, True) for s in all_shapes(6 if quick else 7)]
    ctx.notes["rotation_variants"] = {"plain": len(shs), "duplicate_ids": len(all_shapes(5 if quick else 7)),
                                      "expression_classes": len(all_shapes(6 if quick else 7))}
    # deep trees (64 .. 140 levels: long sums and products, nested groups): left / right chains, zig-zags and
    # combs; rotated at the nodes around levels 62-66, around level 100 and at the deepest ones
    def deep_shape(kind, depth):
        s_ = (0, None, None)
        for d_ in range(depth):
            leaf = (0, None, None)
            if kind == "left":
                s_ = (0, s_, None)
            elif kind == "right":
                s_ = (0, None, s_)
            elif kind == "zigzag":
                s_ = (0, s_, None) if d_ % 2 else (0, None, s_)
            elif kind == "comb-left":
                s_ = (0, s_, leaf)
            else:
                s_ = (0, leaf, s_)
        return label(s_)
    deep_nodes = {}
    for kind in ("left", "right", "zigzag", "comb-left", "comb-right"):
        for depth in ((66, 140) if quick else (64, 65, 66, 70, 100, 140, 300)):
            ds = deep_shape(kind, depth)
            by_depth = {}
            for nid, d_ in order(ds, "pre"):
                by_depth.setdefault(d_, []).append(nid)
            picks = []
            for d_ in (1, 2, 31, 32, 33, 62, 63, 64, 65, 66, 99, 100, 101, depth - 1, depth):
                picks += by_depth.get(d_, [])[:2]
            deep_nodes[id(ds)] = picks
            variants.append((ds, False, False))
    ctx.notes["rotation_variants"]["deep_shapes"] = len(deep_nodes)
    for s, dup_ids, as_expr in variants:
        for i in deep_nodes.get(id(s), None) or ids_of(s):
            nodes = {}
            if as_expr:
                try:
                    root = build_expression(s, nodes, lambda k: pick_rng.randrange(k))
                except Exception:  # noqa
                    continue
            else:
                root = build(s, nodes)
            try:
                text_before = str(root) if as_expr else False
            except Exception:  # noqa
                text_before = "?"
            if dup_ids:
                # node ids are not unique in real trees (clone() copies them): identity must decide
                for o in nodes.values():
                    o.id = "same"
            before_in = [x[0] for x in order(s, "in")]
            before_cells = cells_of(root, nodes)
            ret = nodes[i].rotate()
            cells = cells_of(root, nodes)
            rev = {id(o): k for k, o in nodes.items()}
            new_root = nodes[i].get_root()
            after_shape = shape_of(new_root, rev)
            after_in = [x[0] for x in order(after_shape, "in")]
            probs = []
            if dup_ids:
                for k, o in nodes.items():
                    o.id = str(k)
            if ret is not nodes[i]:
                probs.append("rotate did not return the node")
            if after_in != before_in or sorted(ids_of(after_shape)) != sorted(ids_of(s)):
                probs.append(f"in-order changed: {before_in} -> {after_in}")
            probs += link_problems(cells, rev[id(new_root)])
            p = before_cells[i][2]
            if p is None:
                if cells != before_cells:
                    probs.append("rotating the root changed the tree")
            else:
                if cells[p][2] != i:
                    probs.append("old parent is not below the rotated node")
                g = before_cells[p][2]
                if cells[i][2] != g:
                    probs.append("rotated node does not hang under the old grandparent")
                if g is not None and i not in (cells[g][0], cells[g][1]):
                    probs.append("grandparent does not point at the rotated node")
            if probs:
                bad.append({"shape": shape_wire(s), "node": i, "problems": probs, "duplicate_id_strings": dup_ids,
                            "expression_classes": text_before})
            lines.append(f"rotate {i} {shape_wire(s)}")
            meta.append((s, i, after_shape, cells))
    ans = drv.ask(lines)
    diffs = []
    for (s, i, after_shape, cells), a in zip(meta, ans):
        toks = a.split()
        ci = toks.index("cells")
        mshape, _ = wire_shape(toks, 1)
        mcells = {}
        for c in toks[ci + 1:]:
            k, l, r, p = c.split(":")
            mcells[int(k)] = tuple(None if x == "-" else int(x) for x in (l, r, p))
        if mshape != after_shape or mcells != cells:
            diffs.append({"shape": shape_wire(s), "node": i, "impl_shape": shape_wire(after_shape),
                          "model_shape": shape_wire(mshape), "impl_cells": cells, "model_cells": mcells})
    # the associative rule IS a rotation at every position (anchor associative_swap.py): all full
    # binary expression shapes (every node has 0 or 2 children) up to 9 (quick) / 11 (thorough)
    # nodes, all-'+', all-'*' and mixed operators; the rule applied at every node it accepts, on a
    # fresh tree each time; the object graph after the rule compared with the functional rotation
    # of the model and judged by the same oracle (in-order objects unchanged, links consistent)
    from mathy_core.rules import AssociativeSwapRule
    rng = random.Random(ctx.seed * 11 + 15)
    full = [s for s in all_shapes(9 if quick else 11) if _is_full(s) and len(ids_of(s)) >= 5]
    rule = AssociativeSwapRule()
    elines, emeta = [], []
    n_rule = 0
    for s in full:
        for ops in ("add", "mul", "mix"):
            opmap = {i: ("add" if ops == "add" else "mul" if ops == "mul" else rng.choice(["add", "add", "mul"]))
                     for i in ids_of(s)}
            for i in ids_of(s)[1:]:
                nodes = {}
                root = _build_expr(s, opmap, nodes)
                n = nodes[i]
                if not rule.can_apply_to(n):
                    continue
                n_rule += 1
                before = _links_inorder(root)
                gp = n.parent.parent
                try:
                    res = rule.apply_to(n).result
                except Exception as e:  # noqa
                    bad.append({"shape": shape_wire(s), "node": i, "ops": ops, "via": "AssociativeSwapRule",
                                "problems": ["apply_to raised " + type(e).__name__]})
                    continue
                new_root = n
                while new_root.parent is not None:
                    new_root = new_root.parent
                after = _links_inorder(new_root)
                probs = []
                if res is not n:
                    probs.append("result is not the rotated node")
                if [id(x) for x in after] != [id(x) for x in before]:
                    probs.append("in-order sequence of the node objects changed: %s -> %s" % (
                        [x.id for x in before], [x.id for x in after]))
                probs += [str(x) for x in core.audit_links(new_root)]
                if n.parent is not gp:
                    probs.append("rotated node does not hang under the old grandparent")
                if gp is not None and (gp.left is n) == (gp.right is n):
                    probs.append("grandparent does not point at the rotated node exactly once")
                if probs:
                    bad.append({"shape": shape_wire(s), "node": i, "ops": ops, "via": "AssociativeSwapRule",
                                "expression": str(_build_expr(s, opmap, {})), "problems": probs})
                rev = {id(o): k for k, o in nodes.items()}
                try:
                    ashape = shape_of(new_root, rev)
                except KeyError:
                    ashape = None
                elines.append(f"rotate {i} {shape_wire(s)}")
                emeta.append((s, i, ops, ashape))
    for (s, i, ops, ashape), a in zip(emeta, drv.ask(elines)):
        mshape, _ = wire_shape(a.split(), 1)
        if mshape != ashape:
            diffs.append({"shape": shape_wire(s), "node": i, "ops": ops, "via": "AssociativeSwapRule",
                          "impl_shape": shape_wire(ashape) if ashape else None, "model_shape": shape_wire(mshape)})
    ctx.notes["rule_rotations"] = n_rule
    ctx.coverage["evaluations"] += len(lines) + n_rule
    ctx.coverage["distinct_nontrivial"] += sum(len(ids_of(s)) for s in shs if len(ids_of(s)) >= 3)
    ctx.coverage["traces_validated_against_impl"] += len(lines) + len(elines)
    ctx.coverage["exhaustive"] = True
    ctx.notes["generator"] = {"shapes": len(shs), "rotations": len(lines), "full_expression_shapes": len(full)}
    for s in shs[:: max(1, len(shs) // 6)][:6]:
        ctx.sample({"shape": shape_wire(s), "rotate": ids_of(s)[-1]})
    finish(ctx, [("rotation", bad)], [("rotate", diffs)], "rotation preserves in-order sequence and link consistency")


# ----------------------------------------------------------------------------- C13


def _safe_str(n):
    try:
        return str(n)[:200]
    except Exception:  # noqa
        return "?"


def expr_signature(n):
    """shape, kinds, payloads, ids and operand sides of a real expression tree"""
    if n is None:
        return None
    v = getattr(n, "value", None)
    return (type(n).__name__, (type(v).__name__, repr(v)), getattr(n, "identifier", None), n.id,
            getattr(n, "child_on_left", None), expr_signature(n.left), expr_signature(n.right))


def objects(n):
    out = []
    stack = [n]
    while stack:
        x = stack.pop()
        if x is None:
            continue
        out.append(x)
        stack += [x.left, x.right]
    return out


def path_to(node):
    p = []
    while node.parent is not None:
        p.append("L" if node.parent.left is node else "R")
        node = node.parent
    return list(reversed(p))


def follow(root, path):
    n = root
    for d in path:
        n = n.left if d == "L" else n.right
    return n


def make_variants(rng, t):
    """real trees for a neutral tuple, optionally with unary operands on the LEFT side
    (public constructor option child_on_left=True)"""
    def b(t, flip):
        k = t[0]
        if k == "C":
            q = t[2]
            if q.denominator == 1 and rng.random() < 0.25:
                return X.ConstantExpression(float(q))      # 3.0 is not 3: float arithmetic follows
            return X.ConstantExpression(int(q) if q.denominator == 1 else float(q))
        if k == "V":
            return X.VariableExpression(t[2])
        if k == "U":
            c = b(t[3], flip)
            cls = core.UOP_CLS[t[2]]
            if flip and rng.random() < 0.5:
                return cls(c, True) if cls in (X.NegateExpression, X.FactorialExpression) else cls(c)
            return cls(c)
        return core.BOP_CLS[t[2]](b(t[3], flip), b(t[4], flip))
    return [b(t, False), b(t, True)]


def foreign_refs(clone_objs, orig_ids):
    """attributes of the clone's node objects (any attribute, also ones added later by other parts
    of the library such as the layout's `thread`) that refer to a node object of the original"""
    out = []

    def scan(v, depth):
        if depth > 3:
            return False
        if id(v) in orig_ids:
            return True
        if isinstance(v, (list, tuple, set)):
            return any(scan(x, depth + 1) for x in v)
        if isinstance(v, dict):
            return any(scan(x, depth + 1) for x in v.values())
        return False
    for o in clone_objs:
        for k, v in list(vars(o).items()):
            if scan(v, 0):
                out.append(f"{type(o).__name__}.{k}")
    return out


def _outcome_repr(n):
    try:
        v = n.evaluate({})
        return ("v", type(v).__name__, repr(v)) if v == v else ("nan",)
    except Exception as e:  # noqa
        return ("exc", type(e).__name__)


def c13(ctx):
    ctx.coverage["rule"] = (
        "expression trees: all trees up to 5 (quick) / 6 (thorough) nodes over {2,-1,1/2,x,y} and all operators, "
        "random larger trees with repeated kinds on parallel paths, each also with unary operands placed on the "
        "LEFT through the public constructor; generic BinaryTreeNode shapes up to 6 nodes. For each: clone() has the "
        "same signature (shape, kinds, values, names, ids, sides), shares no object, evaluates and prints "
        "identically, and stays unchanged when the original is edited (and vice versa); clone_from_root via every "
        "node, both call styles, returns the copy at the same path inside a complete copy. Non-trivial: >= 3 nodes."
    )
    rng = random.Random(ctx.seed * 3 + 9)
    quick = ctx.tier == "quick"
    trees = list(gen.enum_upto(5 if quick else 6))
    sides = list(gen.enum_upto(2))
    trees += [("B", 0, "eq", a, b) for a in sides for b in sides]
    for _ in range(400 if quick else 8000):
        trees.append(gen.rand_tree(rng, rng.choice([3, 4, 5])))
    bad = []
    n_eval = 0
    nontrivial = 0
    env = {v: 1.5 for v in "xyzabc"}
    # constants whose Python type matters for what the tree evaluates to: whole-valued floats in
    # arithmetic that leaves the exactly-representable range (3.0^40, 7.0^400, 1e16 + 1, ...)
    C_, P_, A_, M_ = X.ConstantExpression, X.PowerExpression, X.AddExpression, X.MultiplyExpression
    for mk in (lambda: P_(C_(3.0), C_(40)), lambda: P_(C_(7.0), C_(400)), lambda: A_(C_(1e16), C_(1)),
               lambda: M_(C_(2.0), P_(C_(10), C_(30))), lambda: P_(C_(3), C_(40.0)), lambda: A_(C_(2 ** 70), C_(1.0)),
               lambda: P_(X.NegateExpression(C_(3.0)), C_(41)), lambda: M_(C_(10 ** 25), C_(10.0 ** 25))):
        root = mk()
        n_eval += 1
        try:
            c = root.clone()
            if expr_signature(c) != expr_signature(root):
                bad.append({"tree": str(root), "problem": "clone signature differs (constant value / type)"})
            a_, b_ = _outcome_repr(root), _outcome_repr(c)
            if a_ != b_:
                bad.append({"tree": str(root), "problem": "evaluates differently", "orig": a_, "clone": b_})
        except Exception as e:  # noqa
            bad.append({"tree": str(root), "problem": "clone raised " + type(e).__name__})
    for t in trees:
        for root in make_variants(rng, t):
            n_eval += 1
            objs = objects(root)
            if len(objs) >= 3:
                nontrivial += 1
            laid_out = False
            if n_eval % 4 == 0:
                # trees are drawn (laid out) before they are copied: the layout leaves attributes
                # on the node objects
                try:
                    from mathy_core.layout import TreeLayout
                    TreeLayout().layout(root, 1.0, 1.0)
                    laid_out = True
                except Exception:  # noqa
                    pass
            decorated = False
            if n_eval % 3 == 0:
                # nodes are decorated (public API: add_class / clear_classes) before the tree is copied
                try:
                    objs[n_eval % len(objs)].add_class("hl")
                    objs[(n_eval // 3) % len(objs)].add_class(["a", "b"])
                    if len(objs) > 2:
                        objs[(n_eval // 7) % len(objs)].clear_classes()
                    decorated = True
                except Exception:  # noqa
                    pass
            sig = expr_signature(root)
            try:
                c = root.clone()
            except Exception as e:  # noqa
                bad.append({"tree": core.tuple_str(t), "problem": "clone raised " + type(e).__name__})
                continue
            # no mutable attribute value (list / dict / set) of a node is shared with its copy, and decorating
            # one tree afterwards leaves the other as it was
            cobjs_ = core.inorder(c)
            if len(cobjs_) == len(objs):
                for o_, c_ in zip(objs, cobjs_):
                    shared = [k_ for k_, v_ in vars(o_).items()
                              if isinstance(v_, (list, dict, set)) and vars(c_).get(k_) is v_]
                    if shared:
                        bad.append({"tree": core.tuple_str(t), "problem": "a node and its copy share a mutable attribute "
                                    "object: changing one changes the other", "attributes": shared, "decorated_before": decorated})
                        break
                try:
                    before_o = [sorted(map(str, getattr(o_, "classes", []))) for o_ in objs]
                    before_c = [sorted(map(str, getattr(c_, "classes", []))) for c_ in cobjs_]
                    ml_o = root.to_math_ml()
                    for c_ in cobjs_:
                        c_.add_class("after-clone")
                    if [sorted(map(str, getattr(o_, "classes", []))) for o_ in objs] != before_o or root.to_math_ml() != ml_o:
                        bad.append({"tree": core.tuple_str(t), "problem": "add_class on the clone changed the original",
                                    "decorated_before": decorated})
                    after_c = [sorted(map(str, getattr(c_, "classes", []))) for c_ in cobjs_]
                    for o_ in objs:
                        o_.add_class("after-clone-2")
                    if [sorted(map(str, getattr(c_, "classes", []))) for c_ in cobjs_] != after_c:
                        bad.append({"tree": core.tuple_str(t), "problem": "add_class on the original changed the clone",
                                    "decorated_before": decorated})
                    del before_c
                except Exception:  # noqa
                    pass
            fr = foreign_refs(objects(c), {id(o) for o in objs})
            if fr:
                bad.append({"tree": core.tuple_str(t), "problem": "the clone refers to node objects of the original",
                            "attributes": sorted(set(fr))[:5], "laid_out_before_cloning": laid_out})
            if expr_signature(c) != sig:
                bad.append({"tree": core.tuple_str(t), "problem": "clone signature differs", "text": str(root)})
                continue
            if {id(o) for o in objs} & {id(o) for o in objects(c)}:
                bad.append({"tree": core.tuple_str(t), "problem": "clone shares an object with the original"})
            if c.parent is not None or core.audit_links(c):
                bad.append({"tree": core.tuple_str(t), "problem": "clone links", "audit": core.audit_links(c)})
            try:
                s1, s2 = str(root), str(c)
                if s1 != s2:
                    bad.append({"tree": core.tuple_str(t), "problem": "prints differently", "orig": s1, "clone": s2})
            except Exception:
                pass
            def ev(n):
                try:
                    v = n.evaluate(env)
                    return ("v", repr(v)) if v == v else ("nan",)
                except Exception as e:  # noqa
                    return ("exc", type(e).__name__)
            if ev(root) != ev(c):
                bad.append({"tree": core.tuple_str(t), "problem": "evaluates differently", "orig": ev(root), "clone": ev(c)})
            # independence: edit the original, the clone must not change (and vice versa)
            csig = expr_signature(c)
            leaf = next((o for o in objs if isinstance(o, X.ConstantExpression)), None)
            if leaf is not None:
                leaf.value = 987654
            inner = next((o for o in objs if isinstance(o, X.BinaryExpression)), None)
            if inner is not None:
                inner.set_left(X.VariableExpression("q"))
            if expr_signature(c) != csig:
                bad.append({"tree": core.tuple_str(t), "problem": "editing the original changed the clone"})
            osig = expr_signature(root)
            cl = next((o for o in objects(c) if isinstance(o, X.VariableExpression)), None)
            if cl is not None:
                cl.identifier = "w"
            if expr_signature(root) != osig:
                bad.append({"tree": core.tuple_str(t), "problem": "editing the clone changed the original"})
        # clone_from_root through every node, both call styles
        root = core.tuple_to_py(t)
        objs = core.inorder(root)
        sig = expr_signature(root)
        for k, node in enumerate(objs):
            for style in ("self", "other"):
                try:
                    if style == "self":
                        got = node.clone_from_root()
                    else:
                        other = objs[(k + 1) % len(objs)]
                        got = other.clone_from_root(node)
                except Exception as e:  # noqa
                    bad.append({"tree": core.tuple_str(t), "node": k, "style": style,
                                "problem": "clone_from_root raised " + type(e).__name__})
                    continue
                n_eval += 1
                newroot = got.get_root()
                if expr_signature(newroot) != sig:
                    bad.append({"tree": core.tuple_str(t), "node": k, "style": style, "problem": "copy is not complete"})
                elif path_to(got) != path_to(node) or follow(newroot, path_to(node)) is not got:
                    bad.append({"tree": core.tuple_str(t), "node": k, "style": style,
                                "problem": "returned node is not the copy of the given node",
                                "want_path": path_to(node), "got_path": path_to(got)})
                elif {id(o) for o in objects(newroot)} & {id(o) for o in objs}:
                    bad.append({"tree": core.tuple_str(t), "node": k, "style": style, "problem": "copy shares objects"})
                if expr_signature(root) != sig:
                    bad.append({"tree": core.tuple_str(t), "node": k, "style": style, "problem": "original modified"})
    # trees whose node ids are NOT unique: rewrites clone operands (ids are copied), constructors
    # can reuse x.clone(); clone_from_root must still return the copy of THE node it was given
    from mathy_core.rules import DistributiveMultiplyRule, BalancedMoveRule
    dup_roots = []
    for t in trees[:: 25 if quick else 3]:
        root = core.tuple_to_py(t)
        for node in core.inorder(root):
            for rn in core.RULE_NAMES:
                rule = core.rule_instance(rn)
                try:
                    if rule.can_apply_to(node):
                        dup_roots.append(rule.apply_to(node.clone_from_root()).result.get_root())
                except Exception:
                    pass
        if rng.random() < 0.3:
            a = core.tuple_to_py(t)
            dup_roots.append(X.AddExpression(X.MultiplyExpression(a, a.clone()), a.clone()))
    for root in dup_roots[: 1200 if quick else 60000]:
        objs = core.inorder(root)
        sig = expr_signature(root)
        # a tree produced by a rewrite clones like any other
        try:
            c = root.clone()
            if expr_signature(c) != sig:
                bad.append({"tree": str(root), "problem": "clone of a rewritten tree differs from it", "clone": str(c),
                            "after_rewrite": True})
                continue
            if {id(o) for o in objs} & {id(o) for o in objects(c)}:
                bad.append({"tree": str(root), "problem": "clone of a rewritten tree shares objects", "after_rewrite": True})
        except Exception as e:  # noqa
            bad.append({"tree": str(root), "problem": "clone raised " + type(e).__name__, "after_rewrite": True})
            continue
        for k, node in enumerate(objs):
            try:
                got = node.clone_from_root()
            except Exception as e:  # noqa
                bad.append({"tree": str(root), "node": k, "problem": "clone_from_root raised " + type(e).__name__,
                            "duplicate_ids": True})
                continue
            n_eval += 1
            newroot = got.get_root()
            if expr_signature(newroot) != sig:
                bad.append({"tree": str(root), "node": k, "problem": "copy is not complete", "duplicate_ids": True})
            elif path_to(got) != path_to(node):
                bad.append({"tree": str(root), "node": k, "duplicate_ids": True,
                            "problem": "returned node is not the copy of the given node",
                            "want_path": path_to(node), "got_path": path_to(got)})
                break
    ctx.notes["trees_with_duplicate_ids"] = len(dup_roots)
    # clone_from_root of nodes that have been through in-place rewrites (same node objects, changed
    # ancestors): random in-place rule walks, see props_rules.inplace_walk_case
    from .props_rules import inplace_family
    iprobs, _ = inplace_family(ctx, "C13")
    for pr_ in iprobs[:5]:
        bad.append({"tree": pr_.get("state"), "problem": pr_["what"], "start": pr_["start"], "sequence": pr_["sequence"],
                    "node": pr_.get("node"), "after_in_place_rewrites": True})
    # generic shapes: also against the pointer-level clone model (cells of the copy, by pre-order)
    drv = core.Driver()
    gshapes = all_shapes(5 if quick else 7)
    gans = drv.ask([f"cloneheap {shape_wire(s)}" for s in gshapes])
    gdiffs = []
    for s, a in zip(gshapes, gans):
        nodes = {}
        root = build(s, nodes)
        c = root.clone()
        # pre-order numbering of the copy's objects from base = max id + 1, as the model allocates
        base = max(ids_of(s)) + 1
        order_objs = []

        def pre(o):
            if o is None:
                return
            order_objs.append(o)
            pre(o.left)
            pre(o.right)
        pre(c)
        addr = {id(o): base + k for k, o in enumerate(order_objs)}
        real_cells = {addr[id(o)]: tuple(addr.get(id(x)) if x is not None else None for x in (o.left, o.right, o.parent))
                      for o in order_objs}
        toks = a.split()
        try:
            ci, oi = toks.index("cells"), toks.index("orig")
            mcells = {}
            for cc in toks[ci + 1: oi]:
                k, l, r, p = cc.split(":")
                mcells[int(k)] = tuple(None if x == "-" else int(x) for x in (l, r, p))
            if mcells != real_cells:
                gdiffs.append({"shape": shape_wire(s), "impl_cells": str(real_cells), "model_cells": str(mcells)})
        except ValueError:
            gdiffs.append({"shape": shape_wire(s), "model": a[:200]})
        rev_ids = lambda n: None if n is None else (n.id, rev_ids(n.left), rev_ids(n.right))  # noqa: E731
        if rev_ids(c) != rev_ids(root):
            bad.append({"shape": shape_wire(s), "problem": "generic clone differs"})
        if {id(o) for o in objects(c)} & {id(o) for o in nodes.values()}:
            bad.append({"shape": shape_wire(s), "problem": "generic clone shares objects"})
        n_eval += 1
    # trees of the real expression classes over every shape, unary nodes holding their operand on EITHER side
    # (`child_on_left` both ways; the parser only builds the right-handed kind): clone() and clone_from_root
    # through every node keep shape, classes, sides and ids, and return the copy of the node asked for
    erng = random.Random(ctx.seed * 5 + 131)
    n_expr = 0
    for s in all_shapes(5 if quick else 6):
        for _rep in range(2):
            nodes = {}
            try:
                root = build_expression(s, nodes, lambda k: erng.randrange(k))
            except Exception:  # noqa
                continue
            sig = expr_signature(root)
            n_expr += 1
            try:
                if expr_signature(root.clone()) != sig:
                    bad.append({"shape": shape_wire(s), "expression": _safe_str(root), "problem": "clone signature differs "
                                "(expression classes, operands on either side)"})
            except Exception as e:  # noqa
                bad.append({"shape": shape_wire(s), "problem": "clone raised " + type(e).__name__})
                continue
            for k, node in nodes.items():
                try:
                    got = node.clone_from_root()
                except Exception as e:  # noqa
                    bad.append({"shape": shape_wire(s), "node": k, "problem": "clone_from_root raised " + type(e).__name__})
                    continue
                n_eval += 1
                newroot = got.get_root()
                if expr_signature(newroot) != sig:
                    bad.append({"shape": shape_wire(s), "node": k, "expression": _safe_str(root),
                                "problem": "clone_from_root: the copy is not the tree (shape / class / operand side / id)"})
                elif path_to(got) != path_to(node):
                    bad.append({"shape": shape_wire(s), "node": k, "problem": "clone_from_root: returned node is not the "
                                "copy of the given node", "want_path": path_to(node), "got_path": path_to(got)})
                if expr_signature(root) != sig:
                    bad.append({"shape": shape_wire(s), "node": k, "problem": "clone_from_root changed the original"})
                    break
    ctx.notes["expression_class_shapes_cloned"] = n_expr
    ctx.coverage["evaluations"] += n_eval
    ctx.coverage["distinct_nontrivial"] += nontrivial
    ctx.coverage["traces_validated_against_impl"] += n_eval
    ctx.notes["generator"] = {"expression_trees": len(trees)}
    for t in trees[:: max(1, len(trees) // 6)][:6]:
        ctx.sample({"tree": core.tuple_str(t)})
    finish(ctx, [("clone", bad)], [("cloneheap", gdiffs)], "cloning yields an identical independent tree and locates the cloned node")


CHECKS = {"C13": c13, "C14": c14, "C15": c15}
