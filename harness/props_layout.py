"""Check for C18 (tidy-tree layout): exhaustive coordinates vs the Lean model, invariants on the
real output, known-findings table."""
import json
import os
from fractions import Fraction

from . import core
from .props_parse import finish
from .props_tree import all_shapes, build, ids_of, shape_wire

from mathy_core.layout import TreeLayout  # noqa: E402

UNITS = [(Fraction(1), Fraction(1)), (Fraction(2), Fraction(3)), (Fraction(1, 2), Fraction(3, 2))]
TABLE = os.path.join(core.VERIF, "findings_layout.json")


def mirror(s):
    return None if s is None else (s[0], mirror(s[2]), mirror(s[1]))


def preorder_ids(s):
    return [] if s is None else [s[0]] + preorder_ids(s[1]) + preorder_ids(s[2])


def measurement_problem(m):
    """width / height / centre of the returned measurement against its own bounds"""
    try:
        if (Fraction(m.width) != abs(Fraction(m.minX) - Fraction(m.maxX))
                or Fraction(m.height) != abs(Fraction(m.minY) - Fraction(m.maxY))
                or Fraction(m.centerX) != Fraction(m.minX) + Fraction(m.width) / 2
                or Fraction(m.centerY) != Fraction(m.minY) + Fraction(m.height) / 2):
            return (f"measurement inconsistent: width={m.width} height={m.height} centre=({m.centerX},{m.centerY}) "
                    f"bounds=({m.minX},{m.maxX},{m.minY},{m.maxY})")
    except Exception as e:  # noqa
        return f"measurement fields: {type(e).__name__}"
    return None


def real_layout(s, ux, uy, repeat, under_parent=False):
    nodes = {}
    root = build(s, nodes)
    if under_parent:
        # the tree being laid out may be a sub-tree of a larger one (its root has a parent)
        from mathy_core.tree import BinaryTreeNode
        BinaryTreeNode(root, None, None, "holder")
    tl = TreeLayout()
    m = tl.layout(root, float(ux), float(uy))
    real_layout.last_measurement_problem = measurement_problem(m)
    if repeat:
        # alternately the same layout object and a fresh one: both are "laying out the same tree again"
        m = (tl if (len(nodes) + int(ux * 2)) % 2 == 0 else TreeLayout()).layout(root, float(ux), float(uy))
    order = preorder_ids(s)
    xs = [Fraction(nodes[i].x) for i in order]
    ys = [Fraction(nodes[i].y) for i in order]
    return xs, ys, tuple(Fraction(v) for v in (m.minX, m.maxX, m.minY, m.maxY))


def invariants(s, xs, ys, bounds, ux, uy):
    """names of the tidy-tree invariants violated by these coordinates"""
    order = preorder_ids(s)
    pos = {i: (x, y) for i, x, y in zip(order, xs, ys)}
    bad = set()
    levels = {}

    def walk(t, d, key):
        if t is None:
            return
        x, y = pos[t[0]]
        if y != d * uy:
            bad.add("y_is_depth")
        levels.setdefault(d, []).append((key, x))
        if t[1] is not None and not pos[t[1][0]][0] < x:
            bad.add("left_child_left")
        if t[2] is not None and not pos[t[2][0]][0] > x:
            bad.add("right_child_right")
        if t[1] is not None and t[2] is not None and (pos[t[1][0]][0] + pos[t[2][0]][0]) / 2 != x:
            bad.add("parent_centred")
        walk(t[1], d + 1, key + "L")
        walk(t[2], d + 1, key + "R")

    walk(s, 0, "")
    for d, l in levels.items():
        l.sort()
        for (k1, x1), (k2, x2) in zip(l, l[1:]):
            if not x2 - x1 >= ux:
                bad.add("level_separation")
    if bounds != (min(xs), max(xs), min(ys), max(ys)):
        bad.add("bounds_are_bbox")
    return bad


def shape_findings(s):
    """all invariants the REAL layout violates on this shape (units 1,1 decide shape-dependent
    ones; repeat / mirror included)"""
    ux, uy = UNITS[0]
    xs, ys, b = real_layout(s, ux, uy, False)
    bad = invariants(s, xs, ys, b, ux, uy)
    xs2, ys2, b2 = real_layout(s, ux, uy, True)
    if (xs2, ys2) != (xs, ys):
        bad.add("repeatable")
    ms = mirror(s)
    mxs, mys, mb = real_layout(ms, ux, uy, False)
    mpos = dict(zip(preorder_ids(ms), zip(mxs, mys)))
    for i, x, y in zip(preorder_ids(s), xs, ys):
        if mpos[i] != (-x, y):
            bad.add("mirror_symmetric")
            break
    return bad


def parse_model(ans):
    if ans == "loop-guard":
        return None
    parts = ans.split("|")
    f = lambda seg: [Fraction(x) for x in seg.split()[1:]]  # noqa: E731
    return f(parts[0]), f(parts[1]), tuple(f(parts[2]))


def c18(ctx):
    ctx.coverage["rule"] = (
        "ALL binary shapes (0/left-only/right-only/2 children) with up to 7 (quick) / 9 (thorough) nodes x 3 unit "
        "multipliers x {single call, repeated call}: every x, y and the reported bounds of the real layout compared "
        "EXACTLY (doubles are dyadic rationals) with the Lean model; the tidy-tree invariants evaluated on the real "
        "coordinates; every violated (shape, invariant) must be listed in findings_layout.json (known findings). "
        "Non-trivial: shapes with at least 3 nodes."
    )
    quick = ctx.tier == "quick"
    N = 7 if quick else 9
    shs = all_shapes(N)
    table = json.load(open(TABLE))
    table_n = table["max_nodes"]
    listed = table["violations"]
    drv = core.Driver()
    lines, meta = [], []
    for s in shs:
        for ux, uy in UNITS:
            for rep in (False, True):
                lines.append(f"layout {ux.numerator}/{ux.denominator} {uy.numerator}/{uy.denominator} "
                             f"{1 if rep else 0} {shape_wire(s)}")
                meta.append((s, ux, uy, rep))
    ans = drv.ask(lines)
    diffs, unlisted = [], []
    reproduced = {}
    for (s, ux, uy, rep), a in zip(meta, ans):
        try:
            got = real_layout(s, ux, uy, rep)
        except Exception as e:  # noqa
            unlisted.append({"shape": shape_wire(s), "problem": "layout raised " + type(e).__name__})
            continue
        if real_layout.last_measurement_problem:
            unlisted.append({"shape": shape_wire(s), "units": [str(ux), str(uy)], "problem": real_layout.last_measurement_problem})
        # the same shape laid out as a SUB-tree (its root hangs under another node): same coordinates,
        # same bounds, consistent measurement
        if not rep and (len(ids_of(s)) + int(ux)) % 3 == 0:
            try:
                got2 = real_layout(s, ux, uy, False, under_parent=True)
                if got2 != got or real_layout.last_measurement_problem:
                    unlisted.append({"shape": shape_wire(s), "units": [str(ux), str(uy)],
                                     "problem": "layout of a sub-tree (root with a parent) differs from the layout of the "
                                                "same shape as a whole tree" if got2 != got else real_layout.last_measurement_problem})
            except Exception as e:  # noqa
                unlisted.append({"shape": shape_wire(s), "problem": "layout of a sub-tree raised " + type(e).__name__})
        # a COPY of a tree that has been laid out is a tree of the same shape: laid out in turn it gets the
        # coordinates of a fresh tree of that shape (coordinates depend on the shape only)
        if not rep and (len(ids_of(s)) + int(ux * 2)) % 2 == 0:
            try:
                nodes_c = {}
                root_c = build(s, nodes_c)
                TreeLayout().layout(root_c, float(ux), float(uy))
                copy_c = root_c.clone()
                mc = TreeLayout().layout(copy_c, float(ux), float(uy))
                pre = []

                def _pre(n_):
                    if n_ is not None:
                        pre.append(n_)
                        _pre(n_.left)
                        _pre(n_.right)
                _pre(copy_c)
                got3 = ([Fraction(n_.x) for n_ in pre], [Fraction(n_.y) for n_ in pre],
                        tuple(Fraction(v) for v in (mc.minX, mc.maxX, mc.minY, mc.maxY)))
                if got3 != got:
                    unlisted.append({"shape": shape_wire(s), "units": [str(ux), str(uy)],
                                     "problem": "the layout of a clone of a laid-out tree differs from the layout of a fresh "
                                                "tree of the same shape",
                                     "clone_xs": [str(v) for v in got3[0]], "fresh_xs": [str(v) for v in got[0]]})
            except Exception as e:  # noqa
                unlisted.append({"shape": shape_wire(s), "problem": "layout of a clone raised " + type(e).__name__})
        m = parse_model(a)
        if m is None or (list(got[0]), list(got[1]), got[2]) != (m[0], m[1], m[2]):
            diffs.append({"shape": shape_wire(s), "units": [str(ux), str(uy)], "repeat": rep,
                          "impl": [[str(v) for v in got[0]], [str(v) for v in got[1]], [str(v) for v in got[2]]],
                          "model": a})
        if rep:
            # a repeated call must at least keep y = depth * unit and honest bounds (x of repeated
            # calls is a known finding of the unchanged code)
            for inv in sorted(invariants(s, got[0], got[1], got[2], ux, uy) & {"y_is_depth", "bounds_are_bbox"}):
                unlisted.append({"shape": shape_wire(s), "units": [str(ux), str(uy)], "invariant": inv, "repeated_call": True,
                                 "ys": [str(v) for v in got[1]], "bounds": [str(v) for v in got[2]]})
        # invariants that do not depend on the unit choice are judged at every unit
        if not rep:
            bad = invariants(s, got[0], got[1], got[2], ux, uy)
            w = shape_wire(s)
            known = set(listed.get(w, [])) if len(ids_of(s)) <= table_n else None
            for inv in sorted(bad):
                if known is not None and inv in known:
                    reproduced[inv] = reproduced.get(inv, 0) + 1
                elif known is None:
                    pass  # beyond the table bound: judged by the thorough tier's own table bound
                else:
                    unlisted.append({"shape": w, "units": [str(ux), str(uy)], "invariant": inv,
                                     "xs": [str(v) for v in got[0]], "ys": [str(v) for v in got[1]]})
    # larger shapes (beyond the findings table): random shapes with up to 13 nodes; coordinates
    # vs the model, and the violated invariants of the real layout vs those of the model's own
    # coordinates (the model IS the recorded behaviour of the unchanged code)
    import random as _random
    rng = _random.Random(ctx.seed * 53 + 3)

    def rand_shape(n):
        if n == 0:
            return None
        k = rng.randint(0, n - 1)
        return (0, rand_shape(k), rand_shape(n - 1 - k))

    from .props_tree import label
    big = [label(rand_shape(rng.randint(8, 13))) for _ in range(150 if quick else 3000)]
    big += [label(x) for x in (
        (0, (0, (0, None, None), (0, (0, None, None), (0, None, None))), (0, (0, None, None), (0, (0, None, None), (0, None, None)))),
    )]
    blines = []
    for s in big:
        for rep in (False, True):
            blines.append((s, rep, f"layout 1/1 1/1 {1 if rep else 0} {shape_wire(s)}"))
        blines.append((mirror(s), False, f"layout 1/1 1/1 0 {shape_wire(mirror(s))}"))
    bans = drv.ask([l for _, _, l in blines])
    for (s, rep, _), a in zip(blines, bans):
        try:
            got = real_layout(s, UNITS[0][0], UNITS[0][1], rep)
        except Exception as e:  # noqa
            unlisted.append({"shape": shape_wire(s), "problem": "layout raised " + type(e).__name__})
            continue
        m = parse_model(a)
        if m is None or (list(got[0]), list(got[1]), got[2]) != (m[0], m[1], m[2]):
            diffs.append({"shape": shape_wire(s), "repeat": rep, "impl": [[str(v) for v in got[0]]], "model": a[:300]})
            if m is not None and not rep:
                new_bad = invariants(s, got[0], got[1], got[2], UNITS[0][0], UNITS[0][1]) - \
                    invariants(s, m[0], m[1], m[2], UNITS[0][0], UNITS[0][1])
                for inv in sorted(new_bad):
                    unlisted.append({"shape": shape_wire(s), "invariant": inv, "nodes": len(ids_of(s)),
                                     "note": "violated by the real layout but not by the recorded behaviour (model)"})
    # mirror symmetry on the larger shapes, relative to the model
    for s in big:
        w = shape_wire(s)
        mi = dict(zip(preorder_ids(mirror(s)), zip(*real_layout(mirror(s), UNITS[0][0], UNITS[0][1], False)[:2])))
        xs, ys, _ = real_layout(s, UNITS[0][0], UNITS[0][1], False)
        real_sym = all(mi[i] == (-x, y) for i, x, y in zip(preorder_ids(s), xs, ys))
        a1 = parse_model(drv.ask([f"layout 1/1 1/1 0 {w}"])[0])
        a2 = parse_model(drv.ask([f"layout 1/1 1/1 0 {shape_wire(mirror(s))}"])[0])
        if a1 and a2:
            mm = dict(zip(preorder_ids(mirror(s)), zip(a2[0], a2[1])))
            model_sym = all(mm[i] == (-x, y) for i, x, y in zip(preorder_ids(s), a1[0], a1[1]))
            if model_sym and not real_sym:
                unlisted.append({"shape": w, "invariant": "mirror_symmetric", "nodes": len(ids_of(s)),
                                 "note": "mirror symmetry lost relative to the recorded behaviour (model)"})
    ctx.notes["larger_random_shapes"] = len(big)
    # repeat / mirror on the real code
    for s in shs:
        if len(ids_of(s)) > table_n:
            continue
        w = shape_wire(s)
        bad = shape_findings(s)
        for inv in sorted(bad & {"repeatable", "mirror_symmetric"}):
            if inv in listed.get(w, []):
                reproduced[inv] = reproduced.get(inv, 0) + 1
            else:
                unlisted.append({"shape": w, "invariant": inv})
    open_f = {f["invariant"]: f for f in ctx.open_findings()}
    for inv, n in sorted(reproduced.items()):
        f = open_f.get(inv)
        if f:
            ctx.known_finding(f"{f['id']}: {f['what']} (reproduced on {n} listed (shape, units) cases)")
        else:
            unlisted.append({"invariant": inv, "problem": "table lists it but known_findings.json has no open entry"})
    ctx.coverage["evaluations"] += len(lines)
    ctx.coverage["distinct_nontrivial"] += sum(1 for s in shs if len(ids_of(s)) >= 3)
    ctx.coverage["traces_validated_against_impl"] += len(lines)
    ctx.coverage["exhaustive"] = True
    ctx.notes["generator"] = {"shapes": len(shs), "max_nodes": N, "layout_calls": len(lines)}
    ctx.notes["known_violations_reproduced"] = reproduced
    for s in shs[:: max(1, len(shs) // 6)][:6]:
        ctx.sample({"shape": shape_wire(s)})
    finish(ctx, [("layout", unlisted)], [("coordinates", diffs)], "tidy-tree invariants and repeatability")


def make_table(max_nodes):
    out = {}
    for s in all_shapes(max_nodes):
        bad = set()
        for ux, uy in UNITS:
            xs, ys, b = real_layout(s, ux, uy, False)
            bad |= invariants(s, xs, ys, b, ux, uy)
        bad |= shape_findings(s)
        if bad:
            out[shape_wire(s)] = sorted(bad)
    return {"max_nodes": max_nodes, "violations": out}


CHECKS = {"C18": c18}
