"""Python → Lean translation (by template) of the three traversal methods of tree.py and of the two search
methods of rule.py built on them.

`BinaryTreeNode.visit_preorder / visit_inorder / visit_postorder` and `BaseRule.find_node / find_nodes` must be,
statement for statement, the code quoted in TEMPLATES (compared as syntax trees; docstrings, annotations and
`# type:` comments aside).  The emitted Lean is the translation of exactly that code:

  * a traversal is a function over tree shapes that returns the sequence of visitor calls `(node, depth)` and
    whether STOP came back; `if self.left and self.left.visit_*(…) == STOP` is the recursive call on the left
    child (an absent child = `None` = no call);
  * `find_nodes` is the in-order traversal with the closure the method defines (number every node with
    `r_index`, collect those `can_apply_to` accepts, never STOP); `find_node` the same with STOP at the first
    accepted node.

A recursion turned into a loop, a depth passed differently, a type filter in front of `can_apply_to` are outside
the fragment = `Untranslatable` = a broken obligation of C14 / C06.
"""
import ast
import os

from . import core
from .py2lean import Untranslatable
from .py2lean_st import class_def, method

TEMPLATES = {
    ("tree.py", "BinaryTreeNode", "visit_preorder"): """
def visit_preorder(self, visit_fn, depth=0, data=None):
    if visit_fn and visit_fn(self, depth, data) == STOP:
        return STOP
    if self.left and self.left.visit_preorder(visit_fn, depth + 1, data) == STOP:
        return STOP
    if self.right and self.right.visit_preorder(visit_fn, depth + 1, data) == STOP:
        return STOP
    return None
""",
    ("tree.py", "BinaryTreeNode", "visit_inorder"): """
def visit_inorder(self, visit_fn, depth=0, data=None):
    if self.left and self.left.visit_inorder(visit_fn, depth + 1, data) == STOP:
        return STOP
    if visit_fn and visit_fn(self, depth, data) == STOP:
        return STOP
    if self.right and self.right.visit_inorder(visit_fn, depth + 1, data) == STOP:
        return STOP
    return None
""",
    ("tree.py", "BinaryTreeNode", "visit_postorder"): """
def visit_postorder(self, visit_fn, depth=0, data=None):
    if self.left and self.left.visit_postorder(visit_fn, depth + 1, data) == STOP:
        return STOP
    if self.right and self.right.visit_postorder(visit_fn, depth + 1, data) == STOP:
        return STOP
    if visit_fn and visit_fn(self, depth, data) == STOP:
        return STOP
    return None
""",
    ("rule.py", "BaseRule", "find_node"): """
def find_node(self, expression):
    result = None

    def visit_fn(node, depth, data):
        nonlocal result
        if self.can_apply_to(node):
            result = node
        if result is not None:
            return STOP
        return None
    expression.visit_inorder(visit_fn)
    return result
""",
    ("rule.py", "BaseRule", "find_nodes"): """
def find_nodes(self, expression):
    nodes = []
    index = 0

    def visit_fn(node, depth, data):
        nonlocal nodes, index
        node.r_index = index
        if self.can_apply_to(node):
            nodes.append(node)
        index += 1
        return None
    expression.visit_inorder(visit_fn)
    return nodes
""",
}

LEAN = """/-- `tree.py`: `BinaryTreeNode.visit_preorder` — the visitor calls made, and whether STOP came back -/
def BinaryTreeNode_visit_preorder (stop : Nat → Nat → Bool) (depth : Nat) : BT → List (Nat × Nat) × Bool
  | .nil => ([], false)
  | .node i l r =>
    if stop i depth then ([(i, depth)], true)
    else
      let rl := BinaryTreeNode_visit_preorder stop (depth + 1) l;
      if rl.2 then ((i, depth) :: rl.1, true)
      else
        let rr := BinaryTreeNode_visit_preorder stop (depth + 1) r;
        if rr.2 then ((i, depth) :: (rl.1 ++ rr.1), true) else ((i, depth) :: (rl.1 ++ rr.1), false)

/-- `tree.py`: `BinaryTreeNode.visit_inorder` -/
def BinaryTreeNode_visit_inorder (stop : Nat → Nat → Bool) (depth : Nat) : BT → List (Nat × Nat) × Bool
  | .nil => ([], false)
  | .node i l r =>
    let rl := BinaryTreeNode_visit_inorder stop (depth + 1) l;
    if rl.2 then (rl.1, true)
    else if stop i depth then (rl.1 ++ [(i, depth)], true)
    else
      let rr := BinaryTreeNode_visit_inorder stop (depth + 1) r;
      if rr.2 then (rl.1 ++ (i, depth) :: rr.1, true) else (rl.1 ++ (i, depth) :: rr.1, false)

/-- `tree.py`: `BinaryTreeNode.visit_postorder` -/
def BinaryTreeNode_visit_postorder (stop : Nat → Nat → Bool) (depth : Nat) : BT → List (Nat × Nat) × Bool
  | .nil => ([], false)
  | .node i l r =>
    let rl := BinaryTreeNode_visit_postorder stop (depth + 1) l;
    if rl.2 then (rl.1, true)
    else
      let rr := BinaryTreeNode_visit_postorder stop (depth + 1) r;
      if rr.2 then (rl.1 ++ rr.1, true)
      else if stop i depth then (rl.1 ++ (rr.1 ++ [(i, depth)]), true)
      else (rl.1 ++ (rr.1 ++ [(i, depth)]), false)

/-- `rule.py`: `BaseRule.find_nodes` on a tree shape whose nodes are named by their ids: the closure numbers
every visited node (`r_index`, in visiting order from 0) and collects the accepted ones; it never returns STOP.
Result: the accepted node ids in order, and the `(node, r_index)` numbering written. -/
def BaseRule_find_nodes (can : Nat → Bool) (t : BT) : List Nat × List (Nat × Nat) :=
  let visited := (BinaryTreeNode_visit_inorder (fun _ _ => false) 0 t).1.map (·.1);
  (visited.filter can, visited.zipIdx)

/-- `rule.py`: `BaseRule.find_node`: STOP at the first accepted node; the result is that node (or None) -/
def BaseRule_find_node (can : Nat → Bool) (t : BT) : Option Nat :=
  let r := BinaryTreeNode_visit_inorder (fun i _ => can i) 0 t;
  if r.2 then (r.1.getLast?).map (·.1) else none
"""


def _dump(fn):
    body = [s for s in fn.body if not (isinstance(s, ast.Expr) and isinstance(s.value, ast.Constant))]

    def strip(n):
        # nested function definitions: drop annotations / docstrings as well
        for m in ast.walk(n):
            if isinstance(m, ast.FunctionDef):
                m.returns = None
                for a in m.args.args + m.args.kwonlyargs:
                    a.annotation = None
                m.body = [s for s in m.body if not (isinstance(s, ast.Expr) and isinstance(s.value, ast.Constant))]
        return n
    args = [a.arg for a in fn.args.args]
    defaults = [ast.dump(d) for d in fn.args.defaults]
    return [ast.dump(strip(s)) for s in body], args, defaults


def translate_visit(repo=None):
    repo = repo or core.REPO
    problems = []
    trees = {}
    for (file, cls, name), src in TEMPLATES.items():
        try:
            if file not in trees:
                trees[file] = ast.parse(open(os.path.join(repo, "mathy_core", file)).read())
            fn = method(class_def(trees[file], cls), name)
            if fn.decorator_list:
                raise Untranslatable("decorated")
            want = ast.parse(src.strip()).body[0]
            if _dump(fn) != _dump(want):
                raise Untranslatable("not the expected code")
        except (Untranslatable, OSError, SyntaxError) as e:
            problems.append(f"{file}:{cls}.{name}: {type(e).__name__}: {e}")
    if problems:
        return "".join(f"/- UNTRANSLATABLE {p} -/\n" for p in problems), problems
    return LEAN, problems


if __name__ == "__main__":
    t, p = translate_visit()
    print(t[:300])
    print(p)
