"""Shared machinery of the correspondence / oracle harness.

Runs under /venv/bin/python; imports the *current working tree* of the repository
(MATHY_REPO, default /repo) and talks to the Lean model through the line-protocol driver.
"""
import fcntl
import hashlib
import json
import math
import os
import random
import subprocess
import sys
import time
import warnings
from fractions import Fraction

VERIF = os.path.dirname(os.path.dirname(os.path.abspath(__file__)))
REPO = os.environ.get("MATHY_REPO", "/repo")
LEAN_DIR = os.path.join(VERIF, "lean")
if REPO not in sys.path:
    sys.path.insert(0, REPO)
os.environ.setdefault("MATHY_CORE_VERIF", "1")
warnings.filterwarnings("ignore")

import numpy as np  # noqa: E402

np.seterr(all="ignore")

from mathy_core import expressions as X  # noqa: E402
from mathy_core import rules as R  # noqa: E402
from mathy_core.parser import ExpressionParser  # noqa: E402
from mathy_core import parser as P  # noqa: E402

# --------------------------------------------------------------------------- build / driver


def lake_build(targets=("Mathy", "driver"), timeout=3000):
    """Build the Lean development (idempotent; serialised across concurrent checks)."""
    lock = open(os.path.join(LEAN_DIR, ".build.lock"), "w")
    fcntl.flock(lock, fcntl.LOCK_EX)
    try:
        p = subprocess.run(
            ["lake", "build", *targets],
            cwd=LEAN_DIR,
            stdout=subprocess.PIPE,
            stderr=subprocess.STDOUT,
            text=True,
            timeout=timeout,
        )
        return p.returncode == 0, p.stdout
    finally:
        fcntl.flock(lock, fcntl.LOCK_UN)
        lock.close()


class Driver:
    """The compiled model driver; requests are batched."""

    def __init__(self, name="driver"):
        exe = os.path.join(LEAN_DIR, ".lake", "build", "bin", name)
        if not os.path.exists(exe):
            raise RuntimeError("model driver is not built: " + exe)
        self.exe = exe

    def ask(self, lines):
        if not lines:
            return []
        data = "\n".join(lines) + "\n"
        p = subprocess.run(
            [self.exe], input=data, stdout=subprocess.PIPE, stderr=subprocess.PIPE, text=True
        )
        if p.returncode != 0:
            raise RuntimeError("driver failed: " + p.stderr[:2000])
        out = p.stdout.split("\n")
        if out and out[-1] == "":
            out.pop()
        if len(out) != len(lines):
            raise RuntimeError(f"driver answered {len(out)} lines for {len(lines)} requests")
        return out


# --------------------------------------------------------------------------- numbers


def to_frac(v):
    """Exact rational the model is given for an implementation constant: ints exactly,
    floats as the decimal of their shortest repr (0.1 -> 1/10)."""
    if isinstance(v, bool):
        raise TypeError("bool constant")
    if isinstance(v, (int, np.integer)):
        return Fraction(int(v))
    f = float(v)
    if not math.isfinite(f):
        return None
    if f == int(f):
        # an integral double IS that integer (and prints as it: `f"{int(value)}"`); its shortest repr
        # (3.9999999999999995e+18) is a different number from 2^53 on
        return Fraction(int(f))
    return Fraction(repr(f))


def close(a, b, rel=1e-9, floor=1.0):
    """Equality of constants up to the floating-point rounding of folded constants: relative `rel`, and
    absolute `rel * floor` near zero (floor = the magnitude of the quantities the value was computed
    from, 1.0 unless the caller knows they are all smaller)."""
    if a is None or b is None:
        return a is None and b is None
    if a == b:
        return True
    fa, fb = float(a), float(b)
    return abs(fa - fb) <= rel * max(floor, abs(fa), abs(fb))


def magnitude(t, env):
    """largest magnitude among the values of ALL subterms of the tree at this assignment (leaves included):
    the rounding error of a float computation is relative to the intermediate values, not to the final one
    (4e18 + x - 4e18 carries an absolute error of hundreds).  Subterms without a value are skipped."""
    m = 0.0
    stack = [t]
    n = 0
    while stack:
        x = stack.pop()
        n += 1
        if n > 400:
            break
        try:
            v = q_eval(x, env)
            if isinstance(v, Fraction):
                m = max(m, abs(float(v)))
        except Exception:  # noqa
            pass
        if x[0] in ("U", "B"):
            stack += [c for c in x[3:] if isinstance(c, tuple)]
    return max(m, 1e-300)


def close_at(a, b, scale, rel=1e-9):
    """equality up to the floating-point rounding of folded constants: relative `rel` to the values compared,
    or absolute 1e-12 times the largest intermediate magnitude (`scale`: a number, or a function computing it
    — only called when the relative test fails)"""
    if a is None or b is None:
        return a is None and b is None
    if a == b:
        return True
    fa, fb = float(a), float(b)
    d = abs(fa - fb)
    if d <= rel * max(abs(fa), abs(fb)):
        return True
    sc = scale() if callable(scale) else scale
    return d <= 1e-12 * sc * (rel / 1e-9)


# --------------------------------------------------------------------------- trees

BOPS = {
    X.AddExpression: "add",
    X.SubtractExpression: "sub",
    X.MultiplyExpression: "mul",
    X.DivideExpression: "div",
    X.PowerExpression: "pow",
    X.EqualExpression: "eq",
}
UOPS = {
    X.NegateExpression: "neg",
    X.FactorialExpression: "fact",
    X.SgnExpression: "sgn",
    X.AbsExpression: "abs",
}
BOP_CLS = {v: k for k, v in BOPS.items()}
UOP_CLS = {v: k for k, v in UOPS.items()}


class Unmodelled(Exception):
    """The tree is outside what the model represents (e.g. NaN constant)."""


def inorder(node):
    out = []
    node.visit_inorder(lambda n, d, data: out.append(n))
    return out


def tag_map(root):
    """object identity -> tag (1-based in-order position)"""
    return {id(n): i + 1 for i, n in enumerate(inorder(root))}


def to_tuple(node, tags=None):
    """Neutral form: ('C',tag,Fraction) ('V',tag,ch) ('U',tag,op,c) ('B',tag,op,l,r)"""
    t = 0 if tags is None else tags.get(id(node), 0)
    ty = type(node)
    if ty is X.ConstantExpression:
        q = to_frac(node.value)
        if q is None:
            raise Unmodelled("non-finite constant")
        return ("C", t, q)
    if ty is X.VariableExpression:
        if node.identifier is None or len(node.identifier) != 1:
            raise Unmodelled("identifier")
        return ("V", t, node.identifier)
    if ty in UOPS:
        if node.child_on_left or node.left is not None or node.right is None:
            raise Unmodelled("unary shape")
        return ("U", t, UOPS[ty], to_tuple(node.right, tags))
    if ty in BOPS:
        if node.left is None or node.right is None:
            raise Unmodelled("binary shape")
        return ("B", t, BOPS[ty], to_tuple(node.left, tags), to_tuple(node.right, tags))
    raise Unmodelled("node class " + ty.__name__)


def tuple_to_wire(t):
    k = t[0]
    if k == "C":
        return f"C {t[1]} {t[2].numerator} {t[2].denominator}"
    if k == "V":
        return f"V {t[1]} {t[2]}"
    if k == "U":
        return f"U {t[1]} {t[2]} {tuple_to_wire(t[3])}"
    return f"B {t[1]} {t[2]} {tuple_to_wire(t[3])} {tuple_to_wire(t[4])}"


def wire_to_tuple(toks, i=0):
    k = toks[i]
    if k == "C":
        return ("C", int(toks[i + 1]), Fraction(int(toks[i + 2]), int(toks[i + 3]))), i + 4
    if k == "V":
        return ("V", int(toks[i + 1]), toks[i + 2]), i + 3
    if k == "U":
        c, j = wire_to_tuple(toks, i + 3)
        return ("U", int(toks[i + 1]), toks[i + 2], c), j
    if k == "B":
        l, j = wire_to_tuple(toks, i + 3)
        r, j = wire_to_tuple(toks, j)
        return ("B", int(toks[i + 1]), toks[i + 2], l, r), j
    raise ValueError("bad wire: " + " ".join(toks[i : i + 6]))


def tuple_to_py(t):
    """Build a real expression tree from the neutral form (fresh objects)."""
    k = t[0]
    if k == "C":
        q = t[2]
        v = int(q) if q.denominator == 1 else float(q)
        return X.ConstantExpression(v)
    if k == "V":
        return X.VariableExpression(t[2])
    if k == "U":
        return UOP_CLS[t[2]](tuple_to_py(t[3]))
    return BOP_CLS[t[2]](tuple_to_py(t[3]), tuple_to_py(t[4]))


def tuples_agree(a, b, with_tags=True):
    """Structural equality; constants up to rounding; tags optionally."""
    if a[0] != b[0]:
        return False
    if with_tags and a[1] != b[1]:
        return False
    k = a[0]
    if k == "C":
        return close(a[2], b[2])
    if k == "V":
        return a[2] == b[2]
    if k == "U":
        return a[2] == b[2] and tuples_agree(a[3], b[3], with_tags)
    return a[2] == b[2] and tuples_agree(a[3], b[3], with_tags) and tuples_agree(a[4], b[4], with_tags)


def strip_tags(t):
    k = t[0]
    if k in "CV":
        return (k, 0, t[2])
    if k == "U":
        return ("U", 0, t[2], strip_tags(t[3]))
    return ("B", 0, t[2], strip_tags(t[3]), strip_tags(t[4]))


def tuple_str(t):
    """Compact human-readable s-expression."""
    k = t[0]
    if k == "C":
        return str(t[2])
    if k == "V":
        return t[2]
    if k == "U":
        return f"({t[2]} {tuple_str(t[3])})"
    return f"({t[2]} {tuple_str(t[3])} {tuple_str(t[4])})"


def tuple_size(t):
    k = t[0]
    if k in "CV":
        return 1
    if k == "U":
        return 1 + tuple_size(t[3])
    return 1 + tuple_size(t[3]) + tuple_size(t[4])


def tuple_vars(t):
    k = t[0]
    if k == "C":
        return set()
    if k == "V":
        return {t[2]}
    if k == "U":
        return tuple_vars(t[3])
    return tuple_vars(t[3]) | tuple_vars(t[4])


# --------------------------------------------------------------------------- exact evaluation oracle
# Written from the property statements (ordinary arithmetic over Q), independently of the
# Lean model: value | 'undef' | 'unequal' | 'unbound'.  Equations: common value when the sides
# agree.  Integer powers only ('frac-pow' marks assignments outside the rational domain).


class FracPow(Exception):
    pass


def q_eval(t, env):
    k = t[0]
    if k == "C":
        return t[2]
    if k == "V":
        v = env.get(t[2])
        return "unbound" if v is None else v
    if k == "U":
        a = q_eval(t[3], env)
        if isinstance(a, str):
            return a
        op = t[2]
        if op == "neg":
            return -a
        if op == "sgn":
            return Fraction(-1 if a < 0 else (1 if a > 0 else 0))
        if op == "abs":
            return abs(a)
        n = int(a)  # truncation toward zero, as math.factorial(int(v))
        if n < 0:
            return "undef"
        if n > 400:
            raise FracPow("huge factorial")
        return Fraction(math.factorial(n))
    a = q_eval(t[3], env)
    if isinstance(a, str):
        return a
    b = q_eval(t[4], env)
    if isinstance(b, str):
        return b
    op = t[2]
    if op == "add":
        return a + b
    if op == "sub":
        return a - b
    if op == "mul":
        return a * b
    if op == "div":
        return "undef" if b == 0 else a / b
    if op == "eq":
        return a if a == b else "unequal"
    # pow
    if b.denominator != 1:
        raise FracPow("fractional exponent")
    n = b.numerator
    if abs(n) > 64 or (abs(a.numerator) > 10**6 and abs(n) > 8):
        raise FracPow("huge power")
    if n >= 0:
        return a**n
    if a == 0:
        return "undef"
    return Fraction(1) / (a ** (-n))


ENV_GRID = [
    {},
    {"x": 0, "y": 0, "z": 0},
    {"x": 1, "y": 1, "z": 1},
    {"x": 2, "y": 3, "z": 5},
    {"x": -1, "y": 2, "z": -3},
    {"x": Fraction(1, 2), "y": -2, "z": 4},
    {"x": 3, "y": Fraction(-1, 2), "z": 1},
    {"x": -2, "y": -1, "z": 0},
    {"x": 7, "y": 0, "z": 2},
]


def env_for(vars_, proto):
    """Extend a prototype assignment to every variable of the tree."""
    env = {}
    base = [proto.get("x"), proto.get("y"), proto.get("z")]
    for i, v in enumerate(sorted(vars_)):
        if v in proto:
            env[v] = Fraction(proto[v])
        elif proto:
            b = base[(ord(v) + i) % 3]
            env[v] = Fraction(b if b is not None else 1)
    return env


def _side_diff(t, env):
    """L - R of an equation tree at env, or None"""
    try:
        a = q_eval(t[3], env)
        b = q_eval(t[4], env)
    except (FracPow, OverflowError):
        return None
    if isinstance(a, Fraction) and isinstance(b, Fraction):
        return a - b
    return None


def equation_envs(before, after):
    """Assignments at which one of the two equations holds: for every variable, with the others
    fixed from the grid, the root of L - R when that is affine in the variable (exact), plus
    rational roots of quadratics found by interpolation."""
    out = []
    vs = sorted(tuple_vars(before) | tuple_vars(after))
    for eqn in (before, after):
        if not (eqn[0] == "B" and eqn[2] == "eq"):
            continue
        for proto in ENV_GRID[2:6]:
            base = env_for(vs, proto)
            for v in vs:
                pts = []
                for x in (0, 1, 2, 3):
                    e = dict(base)
                    e[v] = Fraction(x)
                    pts.append(_side_diff(eqn, e))
                if any(p is None for p in pts):
                    continue
                f0, f1, f2, f3 = pts
                d1, d2, d3 = f1 - f0, f2 - f1, f3 - f2
                if d1 == d2 == d3:
                    if d1 != 0:
                        e = dict(base)
                        e[v] = -f0 / d1
                        out.append(e)
                elif d2 - d1 == d3 - d2:  # quadratic a x^2 + b x + c
                    a = (d2 - d1) / 2
                    b = d1 - a
                    c = f0
                    disc = b * b - 4 * a * c
                    if disc >= 0:
                        import math as _m
                        n, dd = disc.numerator, disc.denominator
                        rn, rd = _m.isqrt(n), _m.isqrt(dd)
                        if rn * rn == n and rd * rd == dd:
                            r = Fraction(rn, rd)
                            for root in ((-b + r) / (2 * a), (-b - r) / (2 * a)):
                                e = dict(base)
                                e[v] = root
                                out.append(e)
    return out


def eq_sides(t, env):
    """('ok', L, R) | (kind,) for an equation-rooted tree; both sides evaluated exactly"""
    a = q_eval(t[3], env)
    if isinstance(a, str):
        return (a,)
    b = q_eval(t[4], env)
    if isinstance(b, str):
        return (b,)
    return ("ok", a, b)


def refines(before, after, envs=None):
    """The property oracle of C01/C02/C09: wherever `before` has a value `after` has the same
    value (for an equation: wherever it holds `after` holds), and wherever `before` is an
    equation that does not hold `after` does not hold.  Equality is up to the floating-point
    rounding of constants a rule folded (relative 1e-9); an equation counts as 'clearly not
    holding' only when its sides differ by more than 1e-6 relative.
    Returns None if fine, otherwise a dict describing the failing assignment."""
    vs = tuple_vars(before) | tuple_vars(after)
    is_equation = before[0] == "B" and before[2] == "eq"
    big = tuple_size(before) > 40
    protos = (envs or ENV_GRID)
    if big:
        protos = protos[:5]
    all_envs = [env_for(vs, proto) for proto in protos]
    if is_equation and not big:
        all_envs += equation_envs(before, after)
    for env in all_envs:
        envs_s = {k: str(v) for k, v in env.items()}
        try:
            if is_equation and after[0] == "B" and after[2] == "eq":
                sb = eq_sides(before, env)
                sa = eq_sides(after, env)
                if sb[0] != "ok":
                    if sb[0] == "unequal" and sa[0] not in ("unequal",):
                        return {"env": envs_s, "before": "unequal", "after": str(sa)}
                    continue
                _sc = []

                def scale(env=env):
                    if not _sc:
                        _sc.append(max(magnitude(before, env), magnitude(after, env)))
                    return _sc[0]
                holds_b = close_at(sb[1], sb[2], scale)
                clearly_not_b = not close_at(sb[1], sb[2], scale, rel=1e-6)
                if sa[0] != "ok":
                    if holds_b or (clearly_not_b and sa[0] != "unequal"):
                        # a holding equation became undefined / a failing one stopped failing
                        if holds_b and sb[1] == sb[2]:
                            return {"env": envs_s, "before": "holds", "after": sa[0]}
                        if clearly_not_b:
                            return {"env": envs_s, "before": "does not hold", "after": sa[0]}
                    continue
                holds_a = close_at(sa[1], sa[2], scale)
                clearly_not_a = not close_at(sa[1], sa[2], scale, rel=1e-6)
                if sb[1] == sb[2] and clearly_not_a:
                    return {"env": envs_s, "before": "holds", "after": f"{sa[1]} != {sa[2]}"}
                if clearly_not_b and holds_a and sa[1] == sa[2]:
                    return {"env": envs_s, "before": f"{sb[1]} != {sb[2]}", "after": "holds"}
                continue
            a = q_eval(before, env)
            b = q_eval(after, env)
        except (FracPow, OverflowError):
            continue
        if isinstance(a, Fraction):
            if is_equation:
                ok = isinstance(b, Fraction)
            else:
                ok = isinstance(b, Fraction) and close_at(
                    a, b, lambda env=env: max(magnitude(before, env), magnitude(after, env)))
            if not ok:
                return {"env": envs_s, "before": str(a), "after": str(b)}
        elif a == "unequal":
            if b != "unequal":
                return {"env": envs_s, "before": a, "after": str(b)}
    return None


# ------------------------------------------------------- the real evaluator on rewritten objects

def rebuild(node):
    """a brand-new tree with the structure `node` has NOW (as seen through left/right links),
    built with the class constructors only (no clone()); constants keep their Python value"""
    from mathy_core import expressions as E
    if isinstance(node, E.ConstantExpression):
        return E.ConstantExpression(node.value)
    if isinstance(node, E.VariableExpression):
        return E.VariableExpression(node.identifier)
    if isinstance(node, E.UnaryExpression):
        return type(node)(rebuild(node.get_child()))
    return type(node)(rebuild(node.left), rebuild(node.right))


def _outcome(fn):
    try:
        v = fn()
    except Exception as e:  # noqa
        return ("exc", type(e).__name__)
    try:
        if v != v:
            return ("nan",)
    except Exception:  # noqa
        pass
    return ("val", v)


EVAL_PROTOS = [ENV_GRID[3], ENV_GRID[5], ENV_GRID[4]]


def eval_stale(root, nenv=2):
    """`evaluate()` of a tree depends only on its structure: the real evaluator on the (rewritten)
    object graph must give the very same outcome as on a freshly constructed tree of the same
    structure (same operations in the same order, so the comparison is exact).  A difference
    means the object carries state that the links do not show (a stale operand, a memoised
    value, ...), i.e. the value the implementation assigns to the tree is not the value of the
    tree.  Returns None or a description."""
    try:
        fresh = rebuild(root)
        vs = sorted({n.identifier for n in inorder(root) if hasattr(n, "identifier") and n.identifier})
        as_tuple = to_tuple(root)
        fresh_tuple = to_tuple(fresh)
    except Exception:  # noqa
        return None
    for proto in EVAL_PROTOS[:nenv]:
        env = env_for(vs, proto)
        # only where the exact evaluator says the numbers stay small (a tower of powers would keep
        # CPython's big-integer arithmetic busy for hours)
        try:
            q_eval(as_tuple, env)
            q_eval(fresh_tuple, env)
        except (FracPow, OverflowError, ZeroDivisionError, ValueError):
            continue
        ctxd = {k: (int(v) if v.denominator == 1 else float(v)) for k, v in env.items()}
        a = _outcome(lambda: root.evaluate(dict(ctxd)))
        b = _outcome(lambda: fresh.evaluate(dict(ctxd)))
        if a != b:
            return {"env": {k: str(v) for k, v in ctxd.items()}, "evaluate_on_rewritten_objects": str(a),
                    "evaluate_on_fresh_tree_of_same_structure": str(b), "text": str(fresh)}
    return None


# --------------------------------------------------------------------------- rules

RULES = {
    "as": lambda: R.AssociativeSwapRule(),
    "cs1": lambda: R.CommutativeSwapRule(preferred=True),
    "cs0": lambda: R.CommutativeSwapRule(preferred=False),
    "ca": lambda: R.ConstantsSimplifyRule(),
    "df0": lambda: R.DistributiveFactorOutRule(constants=False),
    "df1": lambda: R.DistributiveFactorOutRule(constants=True),
    "dm": lambda: R.DistributiveMultiplyRule(),
    "mi": lambda: R.MultiplicativeInverseRule(),
    "rs": lambda: R.RestateSubtractionRule(),
    "vm": lambda: R.VariableMultiplyRule(),
    "bm": lambda: R.BalancedMoveRule(),
}
RULE_NAMES = list(RULES)

# Rule objects are long-lived in real use (an environment holds one instance per rule and applies
# it step after step), so the harness keeps ONE instance per configuration per process and uses it
# for every search and every application, in whatever order the cases come.
_PERSISTENT = {}


def rule_instance(name):
    if name not in _PERSISTENT:
        _PERSISTENT[name] = RULES[name]()
    return _PERSISTENT[name]


def audit_links(root):
    """C07 structural audit of a real tree; returns a list of problems."""
    problems = []
    seen = set()
    if root.parent is not None:
        problems.append("root has a parent")
    stack = [root]
    while stack:
        n = stack.pop()
        if id(n) in seen:
            problems.append(f"object occurs twice: {type(n).__name__} {n}")
            continue
        seen.add(id(n))
        for side in ("left", "right"):
            c = getattr(n, side)
            if c is not None:
                if c.parent is not n:
                    problems.append(f"{side} child of {type(n).__name__} has parent {c.parent!r}")
                stack.append(c)
        if isinstance(n, X.BinaryExpression) and (n.left is None or n.right is None):
            problems.append(f"binary node {type(n).__name__} lacks an operand")
        if isinstance(n, X.UnaryExpression) and n.get_child() is None:
            problems.append(f"unary node {type(n).__name__} lacks its operand")
        if isinstance(n, (X.ConstantExpression, X.VariableExpression)) and (n.left or n.right):
            problems.append("leaf with children")
    return problems


def snapshot(root):
    """Full structural snapshot of an object graph: (identity, class, payload, links)."""
    out = []
    for n in inorder(root):
        out.append(
            (
                id(n),
                type(n).__name__,
                getattr(n, "value", None),
                getattr(n, "identifier", None),
                id(n.left) if n.left is not None else None,
                id(n.right) if n.right is not None else None,
                id(n.parent) if n.parent is not None else None,
                n.id,
            )
        )
    return out


def parse_fresh(text):
    return ExpressionParser().parse(text)


def shash(*parts):
    """process-independent hash of a tuple of strings/ints (Python's hash() is salted per process)"""
    return int(hashlib.sha1(repr(parts).encode()).hexdigest()[:12], 16)


def stable_hash(s):
    return hashlib.sha1(s.encode()).hexdigest()[:12]
