"""Check framework: Lean build + axiom audit, evidence, violations, known findings."""
import json
import os
import re
import subprocess
import sys
import time

from . import core

VERIF = core.VERIF
ALLOWED_AXIOMS = {"propext", "Classical.choice", "Quot.sound"}
FORBIDDEN = re.compile(
    r"\bsorry\b|\badmit\b|^axiom\s|\bnative_decide\b|\bbv_decide\b|implemented_by|\bunsafe\s|maxHeartbeats\s+0",
    re.M,
)


def strip_comments(src):
    """remove /- -/ (nested) and -- comments and string literals from Lean source"""
    out = []
    i, n, depth = 0, len(src), 0
    while i < n:
        if src.startswith("/-", i):
            depth += 1
            i += 2
        elif depth and src.startswith("-/", i):
            depth -= 1
            i += 2
        elif depth:
            i += 1
        elif src.startswith("--", i):
            while i < n and src[i] != "\n":
                i += 1
        elif src[i] == '"':
            i += 1
            while i < n and src[i] != '"':
                i += 2 if src[i] == "\\" else 1
            i += 1
        else:
            out.append(src[i])
            i += 1
    return "".join(out)


class Ctx:
    def __init__(self, pid, tier, seed):
        self.pid = pid
        self.tier = tier
        self.seed = seed
        self.t0 = time.time()
        self.violations = []          # (replay_path, found_input: bool)
        self.known = []               # KNOWN-FINDING lines
        self.coverage = {
            "evaluations": 0,
            "distinct_nontrivial": 0,
            "rule": "",
            "samples": [],
            "traces_validated_against_impl": 0,
            "obligations": 0,
            "discharged": 0,
            "checker_cmd": "cd lean && lake build && lake env lean Mathy/Audit.lean  (axioms must be within propext, Classical.choice, Quot.sound)",
            "trusted_base": [],
        }
        self.assumptions = []
        self.notes = {}
        self.registry = json.load(open(os.path.join(VERIF, "lean", "theorems.json")))
        self.findings = json.load(open(os.path.join(VERIF, "known_findings.json")))
        self.broken = []              # proof obligations / correspondences that no longer check
        self.harness_error = None

    # ------------------------------------------------------------------ time
    def elapsed(self):
        return time.time() - self.t0

    def budget(self, quick, thorough):
        return quick if self.tier == "quick" else thorough

    # ------------------------------------------------------------------ lean
    def lean_stage(self):
        """Build everything, audit this property's theorems.  A failure here is a broken proof
        obligation: recorded in self.broken, decided after the failing-input search."""
        entry = self.registry["properties"].get(self.pid, {})
        theorems = entry.get("theorems", [])
        self.coverage["obligations"] = len(theorems)
        self.coverage["trusted_base"] = list(self.registry.get("trusted_base", [])) + entry.get("trusted_extra", [])
        self.notes["theorems"] = theorems
        self.notes["partial"] = entry.get("partial", [])
        # checks of several properties may run at the same time: regenerating the tables and building are
        # serialised (an exclusive lock on a file next to the lakefile), so that no build sees a half-written
        # generated file
        import fcntl
        lock = open(os.path.join(VERIF, "lean", ".verif_build.lock"), "w")
        fcntl.flock(lock, fcntl.LOCK_EX)
        try:
            # translators: regenerate the generated Lean tables from the live sources / findings
            try:
                from . import gen_tables
                self.notes["generated_tables_changed"] = gen_tables.regenerate_all()
            except Exception as e:  # noqa
                self.broken.append({"kind": "table generation", "detail": repr(e)})
            # build only what this property depends on (plus the model driver, which imports no generated
            # code), so that a change to some other part of the repository cannot trip this property's
            # obligations; `exes`: further executables this property's check runs (the driver of the
            # translated tokenizer/parser for C03/C10)
            modules = entry.get("modules", [])
            ok, out = core.lake_build(tuple(["driver"] + entry.get("exes", []) + modules))
        finally:
            fcntl.flock(lock, fcntl.LOCK_UN)
            lock.close()
        if not ok:
            self.broken.append({"kind": "lake build", "detail": out[-3000:]})
            # the driver may still exist from the previous build of unchanged model files
            return False
        # forbidden constructs in the sources (comments stripped)
        bad = []
        # every module of the development = every import of the root module Mathy.lean
        # every module this property's theorems depend on: import closure of its modules
        todo, mods = list(modules), []
        while todo:
            mod = todo.pop()
            if mod in mods:
                continue
            mods.append(mod)
            path = os.path.join(VERIF, "lean", *mod.split(".")) + ".lean"
            try:
                src = open(path).read()
            except OSError:
                bad.append(f"missing module {mod}")
                continue
            todo += re.findall(r"^import (Mathy\.[\w.]+)", src, re.M)
            m = FORBIDDEN.search(strip_comments(src))
            if m:
                bad.append(f"{os.path.relpath(path, VERIF)}: {m.group(0).strip()}")
        self.notes["modules_scanned"] = len(mods)
        if bad:
            self.broken.append({"kind": "forbidden construct", "detail": bad})
        if not theorems:
            return ok
        # axiom audit
        audit_src = "".join(f"import {m}\n" for m in modules) + "".join(f"#print axioms {t}\n" for t in theorems)
        audit_path = os.path.join(VERIF, "lean", f".audit_{self.pid}_{os.getpid()}.lean")
        open(audit_path, "w").write(audit_src)
        try:
            p = subprocess.run(
                ["lake", "env", "lean", audit_path], cwd=os.path.join(VERIF, "lean"),
                stdout=subprocess.PIPE, stderr=subprocess.STDOUT, text=True, timeout=1200,
            )
        finally:
            try:
                os.remove(audit_path)
            except OSError:
                pass
        text = p.stdout
        discharged = 0
        audit = {}
        for t in theorems:
            m = re.search(r"'" + re.escape(t) + r"' depends on axioms: \[([^\]]*)\]", text, re.S)
            if m:
                ax = {a.strip() for a in m.group(1).replace("\n", " ").split(",") if a.strip()}
            elif re.search(r"'" + re.escape(t) + r"' does not depend on any axioms", text):
                ax = set()
            else:
                self.broken.append({"kind": "theorem missing", "theorem": t, "detail": text[-1500:]})
                continue
            audit[t] = sorted(ax)
            if ax <= ALLOWED_AXIOMS:
                discharged += 1
            else:
                self.broken.append({"kind": "axioms", "theorem": t, "axioms": sorted(ax)})
        self.coverage["discharged"] = discharged
        self.notes["axioms"] = audit
        if self.tier == "thorough" and entry.get("modules"):
            self.leanchecker(entry["modules"])
        return ok

    def leanchecker(self, modules):
        try:
            p = subprocess.run(
                ["lake", "env", "leanchecker", *modules], cwd=os.path.join(VERIF, "lean"),
                stdout=subprocess.PIPE, stderr=subprocess.STDOUT, text=True, timeout=3000,
            )
            self.notes["leanchecker"] = {"modules": modules, "exit": p.returncode, "tail": p.stdout[-400:]}
            if p.returncode != 0:
                self.broken.append({"kind": "leanchecker", "detail": p.stdout[-1500:]})
        except subprocess.TimeoutExpired:
            self.notes["leanchecker"] = {"modules": modules, "exit": "timeout"}

    # ------------------------------------------------------------------ results
    def sample(self, s):
        if len(self.coverage["samples"]) < 12:
            self.coverage["samples"].append(s)

    def write_replay(self, name, payload):
        d = os.path.join(VERIF, "replays")
        os.makedirs(d, exist_ok=True)
        body = json.dumps(payload, indent=1, default=str, sort_keys=True)
        path = os.path.join(d, f"{self.pid}-{name}-{core.stable_hash(body)}.json")
        open(path, "w").write(body)
        return os.path.relpath(path, VERIF)

    def matches_known(self, finding_key):
        """finding_key: predicate evaluated by the property check: returns the id of an open
        finding that covers the failing case, or None."""
        return None

    def violation(self, name, payload, found_input=True):
        payload = dict(payload)
        payload["property"] = self.pid
        payload["found_failing_input"] = found_input
        path = self.write_replay(name, payload)
        self.violations.append((path, found_input))

    def known_finding(self, text):
        self.known.append(text)

    def open_findings(self):
        return [f for f in self.findings.get("open", []) if f["property"] == self.pid]

    # ------------------------------------------------------------------ finish
    def finish(self):
        cov = self.coverage
        cov["samples"] = cov["samples"] or ["(none)"]
        ev = {
            "property_id": self.pid,
            "tier": self.tier,
            "seed": self.seed,
            "level": "proof",
            "coverage": cov,
            "assumptions": self.assumptions,
            "wall_s": round(self.elapsed(), 2),
            "violations": len(self.violations),
            "notes": self.notes,
            "known_findings_reproduced": self.known,
        }
        os.makedirs(os.path.join(VERIF, "evidence"), exist_ok=True)
        tmp = os.path.join(VERIF, "evidence", f".{self.pid}.json.tmp")
        json.dump(ev, open(tmp, "w"), indent=1, default=str)
        os.replace(tmp, os.path.join(VERIF, "evidence", f"{self.pid}.json"))
        for k in self.known:
            print(f"KNOWN-FINDING: property={self.pid} {k}")
        if self.harness_error:
            print("HARNESS-ERROR:", self.harness_error)
            return 2
        for path, found in self.violations:
            tail = "" if found else " no-failing-input-found"
            print(f"VIOLATION property={self.pid} replay={path}{tail}")
        if self.violations:
            return 1
        print(
            f"OK property={self.pid} tier={self.tier} seed={self.seed} theorems={cov['discharged']}/{cov['obligations']} "
            f"evaluations={cov['evaluations']} distinct_nontrivial={cov['distinct_nontrivial']} wall={self.elapsed():.1f}s"
        )
        return 0
