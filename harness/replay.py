"""check.py --replay <path>: re-execute a stored violation input on the real code and print
what happens (before / after / expected as far as the replay records it)."""
import json
import sys


def run(path):
    d = json.load(open(path))
    print("replay of", path)
    print(json.dumps({k: d[k] for k in d if k not in ("broken_obligations",)}, indent=1, default=str)[:4000])
    if not d.get("found_failing_input", True):
        print("-- no failing input was found: the replay names the theorem / correspondence that no longer checks")
        return 0
    from . import core
    try:
        if d.get("in_place") and "start" in d and "sequence" in d:
            cur = core.parse_fresh(d["start"])
            start = core.to_tuple(cur)
            print("-- re-executing IN PLACE with long-lived rule objects from", repr(d["start"]))
            for rn, idx in d["sequence"]:
                for r2 in core.RULE_NAMES:  # the walk asks every rule for its nodes before every step
                    core.rule_instance(r2).find_nodes(cur)
                node = core.inorder(cur)[int(idx)]
                before = core.to_tuple(cur)
                cur = core.rule_instance(rn).apply_to(node).result.get_root()
                print(f"   {rn}@{idx}: {core.tuple_str(before)}  ->  {cur}")
                print("      links:", core.audit_links(cur) or "consistent",
                      " oracle vs previous state:", core.refines(before, core.to_tuple(cur)))
            print("   oracle vs start:", core.refines(start, core.to_tuple(cur)))
        elif "rule" in d and "text" in d and ("idx" in d or "node" in d):
            idx = d.get("idx", d.get("node"))
            root = core.parse_fresh(d["text"])
            node = core.inorder(root)[int(idx)]
            rule = core.RULES[d["rule"]]()
            print("-- re-executing: rule", d["rule"], "at in-order node", idx, "of", repr(d["text"]))
            print("   can_apply_to:", rule.can_apply_to(node))
            res = rule.apply_to(node.clone_from_root()).result.get_root()
            print("   before:", root, "  after:", res)
            print("   oracle:", core.refines(core.to_tuple(root), core.to_tuple(res)))
        elif "history" in d:
            from .props_parse import run_history, fresh_answer
            h = [tuple(o) for o in d["history"]]
            print("-- long-lived parser:", run_history(h))
            print("-- fresh parser each:", [fresh_answer(o) for o in h])
        elif "text" in d:
            from . import parse_run as pr
            print("-- parse:", pr.impl_parse(d["text"]))
            print("-- tokenize:", pr.impl_tok(d["text"], bool(d.get("pad", False))))
            print("-- grammar oracle:", pr.oracle_check(d["text"], pr.impl_parse(d["text"])))
    except Exception as e:  # noqa
        print("-- re-execution raised", type(e).__name__, e)
    return 0
