"""Input generators: exhaustive small trees, pattern-directed texts, random trees/texts."""
import glob
import itertools
import json
import os
import random
from fractions import Fraction

from . import core

F = Fraction

LEAVES_SMALL = [("C", 0, F(2)), ("C", 0, F(-1)), ("C", 0, F(1, 2)), ("V", 0, "x"), ("V", 0, "y")]
LEAVES_WIDE = [
    ("C", 0, F(0)), ("C", 0, F(1)), ("C", 0, F(2)), ("C", 0, F(3)), ("C", 0, F(4)), ("C", 0, F(6)),
    ("C", 0, F(-1)), ("C", 0, F(-2)), ("C", 0, F(1, 2)), ("C", 0, F(5, 2)), ("C", 0, F(12)),
    ("V", 0, "x"), ("V", 0, "y"), ("V", 0, "z"),
]
BOPS = ["add", "sub", "mul", "div", "pow"]


def enum_trees(n, leaves=LEAVES_SMALL, bops=BOPS, uops=("neg",), _memo=None):
    """All trees with exactly n nodes (no equations, no factorial)."""
    if _memo is None:
        _memo = {}
    key = n
    if key in _memo:
        return _memo[key]
    out = []
    if n == 1:
        out = list(leaves)
    else:
        for u in uops:
            for c in enum_trees(n - 1, leaves, bops, uops, _memo):
                out.append(("U", 0, u, c))
        for k in range(1, n - 1):
            for a in enum_trees(k, leaves, bops, uops, _memo):
                for b in enum_trees(n - 1 - k, leaves, bops, uops, _memo):
                    for o in bops:
                        out.append(("B", 0, o, a, b))
    _memo[key] = out
    return out


def enum_upto(n, **kw):
    memo = {}
    for k in range(1, n + 1):
        yield from enum_trees(k, _memo=memo, **kw)


def rule_test_texts():
    """Inputs and outputs of the repository's own rule examples."""
    texts = []
    for f in sorted(glob.glob(os.path.join(core.REPO, "mathy_core", "rules", "*.test.json"))):
        try:
            d = json.load(open(f))
        except Exception:
            continue
        for ex in d.get("valid", []) + d.get("invalid", []):
            for k in ("input", "output"):
                if isinstance(ex.get(k), str):
                    texts.append(ex[k])
    return texts


# hand-written forms: one or more per get_type arrangement of every rule, plus near misses
PATTERN_TEXTS = [
    # constants simplify
    "2 + 3", "2 * 3", "7 - 4", "8 / 4", "2 ^ 3", "-(3 + 2)", "-(2 * 5)", "4x * 2", "(4x * 2) + 3",
    "5 * (8h * t)", "2 + (3 + x)", "2 * (3 * x)", "2 + ((3 + x) + y)", "2 * ((3 * x) * y)",
    "(7q * 10y^3) * x", "7q * 10y^3", "7 * (10y^3 * x)", "792z^4 * (490f * q^3)", "(7q * z) * ((10y * z) * x)",
    "(u^3 * 36c^6) * 7u^3", "(u * (36 * c)) * (7 * u)", "2 = 3", "2 + 3 = 5", "1 / 0", "0 ^ -1", "x + 2 / 0",
    "(x + 2) / 1", "4y^2 / 1", "x / 1", "(x + 2) / -1", "z / 1 + 2", "1 / 1", "-(3 + 2)", "-(4 - 3)", "-(2 * 3)", "-(x + 2) / 1",
    "0.00002 * (0.00003 * x)", "x + (0.0000000004 + 0.0000000003) * 10000000000", "0.00002 * 0.00003 * y",
    "0.00001x + 0.00002x", "0.000001 * 0.000002", "y * 0.00005 * 0.00007", "0.0000000004 + 0.0000000003",
    "2 - (3 - x)", "2 * (3 + x)", "2 + (3 * x)", "4 ^ 0.5", "2 ^ -1", "0 ^ 0", "-(2 = 2)",
    # factor out
    "4x + 2x", "4x + -3x", "x + x", "x^2 + x^2", "4x^2 + 6x^2", "x^0 + x", "x^0 + x^0", "0.5x^2 + 0.5x^2",
    "6 + 4", "4 + 84", "x + 2", "2 + x", "4x + 2y", "4x + 6y", "4x + 6", "(4 + p) + p", "p + (p + 2x)",
    "(4 + 2p) + (6p + 2x)", "(a + (b + 4x)) + 2x", "2x + ((4x + b) + c)", "x^2 + x^3", "4x^2 + 2x",
    "-x + x", "-x^2 + 3x^2", "2x + -x", "12x + 18x", "12x^3 + 18x^3", "9y + 6y", "7x + 7x", "1x + 1x",
    "-4x + 6x", "4x + 0x", "0x + 0x", "2.5x + 5x", "(z * 4 + z * 84x) + 1", "4 + (z + 4)", "12 + 18",
    # distribute
    "a(b + c)", "(b + c)a", "2(x + 3)", "(x + 3) * 2", "x(2 + y)", "x^2 * (3 + y)", "(2 + k^2) * w^4",
    "(4 + v) * (12 + r)", "(x + 1)(x + 2)", "xy * (2 + z)", "(x + 2) * (y * z)", "-x * (2 + y)",
    # inverse
    "4 / 2", "x / y", "4 / -(2 + 3)", "(2 + 3z) / -z", "x / -y", "(21x^3 - 35x^2) / 7x", "1 / x", "x / (y / z)", "x / -2",
    # restate
    "4 - 3", "x - y", "4 - -x", "4 - -1", "4x - -1x", "4 - 3x", "12 - -2x^2", "4x - 2x", "4 - (3 - x)", "4 - 2^x",
    "x - (2 + y)", "4 + -2", "x + -2x", "x + -2x^3", "x + -2y^z", "x + -2(y)", "m - 3 = 3", "(x - y) * 2", "2 - x + 3",
    "3 - -y + -u^2", "4 - 2 / x", "4 - 2 * (x + 1)", "x + 2", "x + 2x", "4 - 0", "x - 0.5", "x + -0.5",
    # variable multiply
    "x * x", "x * x^3", "x^2 * x^3", "2x * 4x", "2x^2 * 4x", "x * 4x^2", "(36c^6 * u^3) * 7u^3", "4x * (2x * y)",
    "x * (x * y)", "x^2 * (x^3 * y)", "2x * 3x", "(y * x) * 3x", "(y * 2x) * 3x", "x * y", "x * y^2", "324u * u",
    "x^-1 * x", "x^-2 * x^2", "x^0.5 * x^0.5", "-x * x", "x * -x", "-x^2 * x", "x^y * x", "2 * x",
    # commutative / associative
    "a + b", "a * b", "a - b", "a / b", "(a + b) + c", "a + (b + c)", "(a * b) * c", "a * (b * c)", "4x", "8y^4",
    "x * 4", "4x * y", "y * 4x", "(2x * y) * z", "2x * (y * z)", "(a * b) * 4x", "4x * (a * b)", "a + b = c",
    "2x + 1y^3 + 7j + -2q + 93m + 6x", "a + b - c", "(a - b) + c", "a + b + c + d", "a * b * c * d",
    # balanced move
    "x + 2 = 3", "3x + 7 = 2 + 4x", "8 = 2x", "2x = 8", "3x + 1 = 4", "2(x + 3) = 8", "0x = 0", "a + 1 = b = c",
    "a = b = c + 1", "2x - 3 = 5", "(a + b) + c = d", "x - (2 + y) = 3", "-(x + 1) = 2", "2x = 4 = y",
    "3x / 15 + 3 = 3", "x + y = 2 + z", "2x * 3 = 6", "3(2x) = 6", "5 ^ (2x) = 25", "x = 2 + 3", "4 = x + -2",
    "2x + 0 = 4", "x * 2 = 4", "-2x = 4", "0.5x = 4", "x + y + z = 0", "2 + x = y - 1", "2x = 4y", "x = y",
    # constants at the edge of the number formatter (tiny / many digits), also as folding results
    "0.01 * 0.002 + x", "x * 0.0001 * 0.1", "0.00002x + 1", "x - 0.000075", "0.001 * 0.001 * x", "1234567.5 * 8 + x",
    "x / 0.00001", "0.0001x + 0.0002x", "100000 * 100000 * x",
]

def template_texts():
    """Systematic near-misses of the chained arrangements: every operator position of every
    arrangement template varied over all five binary operators (and unary minus contexts)."""
    import itertools
    ops = ["+", "-", "*", "/", "^"]
    out = []
    for o1, o2, o3 in itertools.product(ops, repeat=3):
        out.append(f"2 {o1} ((3 {o2} x) {o3} y)")          # constants: chained right deep
        out.append(f"(2 {o1} x) {o2} (3 {o3} y)")          # constants: chained right left / variable multiply
        out.append(f"(z {o1} (4 {o2} x)) {o3} (3 * y)")    # constants: chained left left right
        out.append(f"2x {o1} ((3x {o2} y) {o3} z)")        # factor out: chained right left
        out.append(f"((y {o1} z) {o2} 2x) {o3} 3x")        # factor out: chained left
        out.append(f"(y {o1} 2x) {o2} (3x {o3} z)")        # factor out: chained both
        out.append(f"x^2 {o1} (x^3 {o2} y) {o3} z")        # variable multiply chained
        out.append(f"2 {o1} (x {o2} 1 {o3} 3) = 12")       # balanced move: addend below another operator
        out.append(f"(x {o1} 1 {o2} 3) {o3} 2 = 12")
    for o1, o2 in itertools.product(ops, repeat=2):
        out.append(f"2 {o1} (3 {o2} x)")
        out.append(f"(2 {o1} x) {o2} 3")
        out.append(f"4 {o1} (3x {o2} y)")
        out.append(f"2x^0 {o1} x^3 {o2} y")
        out.append(f"x^0 {o1} (x^2 {o2} y)")
        out.append(f"-(x {o1} 1 {o2} 2) = 3")
        out.append(f"y - (x {o1} 1 {o2} 2) = 0")
        out.append(f"2 {o1} x {o2} 3 = 4 {o1} y")
    for o in ops:
        out += [f"x^0 {o} x^3", f"4x^0 {o} x", f"(2y * x^0) {o} 3x^2", f"x^-1 {o} x", f"0x {o} 2x", f"0 {o} x = 0"]
    return out


VARS = list("xyzabc")


def rand_const(rng):
    r = rng.random()
    if r < 0.04:
        # very small magnitudes: folding two of them must not lose the result (6e-10 is not 0)
        return F(rng.choice([2, 3, 5, -4]), rng.choice([10**5, 10**5, 10**6, 10**10]))
    if r < 0.55:
        return F(rng.randint(0, 12))
    if r < 0.7:
        return F(-rng.randint(1, 12))
    if r < 0.85:
        return F(rng.choice([1, 3, 5, 7, 9, -1, -3, 25]), 2)
    if r < 0.95:
        return F(rng.choice([1, 3, -1, 5]), 4)
    return F(rng.randint(13, 400))


def rand_term(rng):
    """A natural-order term: coefficient? variable (^ exponent)?"""
    c = rand_const(rng) if rng.random() < 0.7 else None
    v = rng.choice(VARS[:3] if rng.random() < 0.8 else VARS)
    e = None
    if rng.random() < 0.4:
        e = F(rng.choice([0, 1, 2, 3, 4, -1, -2, 2, 3]))
    t = ("V", 0, v)
    if e is not None:
        t = ("B", 0, "pow", t, ("C", 0, e))
    if c is not None:
        t = ("B", 0, "mul", ("C", 0, c), t)
    elif rng.random() < 0.15:
        t = ("U", 0, "neg", t)
    return t


def rand_tree(rng, depth, allow_eq=False):
    if allow_eq:
        return ("B", 0, "eq", rand_tree(rng, depth), rand_tree(rng, depth))
    r = rng.random()
    if depth <= 0 or r < 0.12:
        k = rng.random()
        if k < 0.4:
            return ("C", 0, rand_const(rng))
        if k < 0.7:
            return ("V", 0, rng.choice(VARS[:3] if rng.random() < 0.8 else VARS))
        return rand_term(rng)
    if r < 0.2:
        return ("U", 0, "neg", rand_tree(rng, depth - 1))
    if r < 0.23:
        return ("U", 0, "sgn", rand_tree(rng, depth - 1))
    if r < 0.25:
        return ("U", 0, "fact", ("C", 0, F(rng.randint(0, 6))))
    op = rng.choices(["add", "sub", "mul", "div", "pow"], weights=[34, 12, 34, 10, 10])[0]
    if op == "pow" and rng.random() < 0.7:
        return ("B", 0, "pow", rand_tree(rng, depth - 1), ("C", 0, F(rng.choice([0, 1, 2, 3, -1, -2]))))
    # favour same-operator chains, which is where the chained arrangements live
    l = rand_tree(rng, depth - 1)
    r_ = rand_tree(rng, depth - 1)
    if rng.random() < 0.35:
        l = ("B", 0, op if op in ("add", "mul") else "add", rand_tree(rng, depth - 2), rand_tree(rng, depth - 2))
    if rng.random() < 0.35:
        r_ = ("B", 0, op if op in ("add", "mul") else "mul", rand_tree(rng, depth - 2), rand_tree(rng, depth - 2))
    return ("B", 0, op, l, r_)


def reachable(t):
    """The tree the parser returns for the printed form of `t` (None if it does not parse).
    This is how every generated tree is turned into one that lies inside the quantifier
    'obtainable from the parser'."""
    try:
        py = core.tuple_to_py(t)
        text = str(py)
        return text, core.to_tuple(core.parse_fresh(text))
    except Exception:
        return None, None
