from . import (props_rules, props_parse, props_tree, props_layout, props_eval, props_schema, props_terms,
               props_problems)

CHECKS = {}
for m in (props_rules, props_parse, props_tree, props_layout, props_eval, props_schema, props_terms, props_problems):
    CHECKS.update(m.CHECKS)
