from . import props_rules, props_parse, props_tree

CHECKS = {}
CHECKS.update(props_rules.CHECKS)
CHECKS.update(props_parse.CHECKS)
CHECKS.update(props_tree.CHECKS)
