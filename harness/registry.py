from . import props_rules

CHECKS = {}
CHECKS.update(props_rules.CHECKS)
