from . import props_rules, props_parse, props_tree, props_layout, props_eval

CHECKS = {}
for m in (props_rules, props_parse, props_tree, props_layout, props_eval):
    CHECKS.update(m.CHECKS)
