"""Python → Lean translator for the numeric semantics of expressions.py: the `operate` methods of
every expression class and the `evaluate` methods that drive them.

`operate` methods are translated expression by expression over `Mathy/Model/PyRtNum.lean` (Python's
arithmetic and comparisons on int/float values; `math.factorial(int(v))` and `float(np.power(..))`
are externals).  The four `evaluate` methods (Constant, Variable, Unary, Binary) are recursion
scaffolding: each must be, statement for statement, the code quoted in EVALUATE_TEMPLATES (compared
as syntax trees, docstrings and type annotations aside); the generated `evaluate` is the structural
recursion those four methods spell out (left operand first, the first exception wins, a missing or
`None` variable raises), dispatching `self.operate` on the class of the node.  A decorator on any of
these methods (a cache, say), a changed guard or an extra branch is outside the fragment =
`Untranslatable` = a broken obligation of C05.
"""
import ast
import os

from . import core
from .py2lean import Untranslatable
from .py2lean_st import class_def, method

UNARY = {"NegateExpression": ".neg", "FactorialExpression": ".fact", "SgnExpression": ".sgn", "AbsExpression": ".abs"}
BINARY = {"AddExpression": ".add", "SubtractExpression": ".sub", "MultiplyExpression": ".mul",
          "DivideExpression": ".div", "PowerExpression": ".pow", "EqualExpression": ".eq"}

EVALUATE_TEMPLATES = {
    "ConstantExpression": """
def evaluate(self, context=None):
    assert self.value is not None
    return self.value
""",
    "VariableExpression": """
def evaluate(self, context=None):
    self._check()
    id = cast(str, self.identifier)
    if context and context.get(id, None) is not None:
        return context[id]
    raise ValueError("cannot evaluate statement with None variable: {}".format(self.identifier))
""",
    "UnaryExpression": """
def evaluate(self, context=None):
    child = self.get_child()
    if child is None:
        raise ValueError("cannot evaluate unary expression without a valid child")
    return self.operate(child.evaluate(context))
""",
    "BinaryExpression": """
def evaluate(self, context=None):
    left, right = self._check()
    return self.operate(left.evaluate(context), right.evaluate(context))
""",
}


def body_dump(fn):
    """the statements of a function without docstring, annotations and argument annotations"""
    body = [s for s in fn.body if not (isinstance(s, ast.Expr) and isinstance(s.value, ast.Constant))]
    return [ast.dump(s) for s in body]


class OpTranslator:
    def __init__(self, params):
        self.params = params

    def val(self, e):
        """a PyVal-valued expression"""
        if isinstance(e, ast.Name) and e.id in self.params:
            return e.id
        if isinstance(e, ast.Constant) and isinstance(e.value, int) and not isinstance(e.value, bool):
            return f"(pvInt ({e.value}))"
        if isinstance(e, ast.UnaryOp) and isinstance(e.op, ast.USub):
            if isinstance(e.operand, ast.Constant) and isinstance(e.operand.value, int):
                return f"(pvInt (-{e.operand.value}))"
            return f"(pvNeg {self.val(e.operand)})"
        if isinstance(e, ast.BinOp):
            a, b = self.val(e.left), self.val(e.right)
            op = {ast.Add: "pvAdd", ast.Sub: "pvSub", ast.Mult: "pvMul", ast.Div: "pvTrueDiv"}.get(type(e.op))
            if op:
                return f"({op} {a} {b})"
            raise Untranslatable(f"operator {type(e.op).__name__}")
        if isinstance(e, ast.Call) and isinstance(e.func, ast.Name):
            if e.func.id == "float" and len(e.args) == 1 and isinstance(e.args[0], ast.Constant) and e.args[0].value == "nan":
                return "pvNan"
            if e.func.id == "abs" and len(e.args) == 1:
                return f"(pvAbs {self.val(e.args[0])})"
        raise Untranslatable("value expression " + ast.dump(e)[:80])

    def res(self, e):
        """a PyRes-valued expression (may raise)"""
        # one ** two
        if isinstance(e, ast.BinOp) and isinstance(e.op, ast.Pow):
            return f"(pvIntPow {self.val(e.left)} {self.val(e.right)})"
        # math.factorial(int(value))
        if (isinstance(e, ast.Call) and isinstance(e.func, ast.Attribute) and e.func.attr == "factorial"
                and isinstance(e.func.value, ast.Name) and e.func.value.id == "math" and len(e.args) == 1):
            a = e.args[0]
            if isinstance(a, ast.Call) and isinstance(a.func, ast.Name) and a.func.id == "int" and len(a.args) == 1:
                return f"(pvFactorialInt {self.val(a.args[0])})"
            raise Untranslatable("math.factorial argument")
        # float(np.power(float(one), float(two)))
        if isinstance(e, ast.Call) and isinstance(e.func, ast.Name) and e.func.id == "float" and len(e.args) == 1:
            inner = e.args[0]
            if (isinstance(inner, ast.Call) and isinstance(inner.func, ast.Attribute) and inner.func.attr == "power"
                    and isinstance(inner.func.value, ast.Name) and inner.func.value.id == "np" and len(inner.args) == 2):
                args = []
                for a in inner.args:
                    if not (isinstance(a, ast.Call) and isinstance(a.func, ast.Name) and a.func.id == "float" and len(a.args) == 1):
                        raise Untranslatable("np.power argument")
                    args.append(self.val(a.args[0]))
                return f"(pvNpPower {args[0]} {args[1]})"
        return f"(.ok {self.val(e)} : PyRes)"

    def cond(self, e):
        if isinstance(e, ast.BoolOp):
            op = " && " if isinstance(e.op, ast.And) else " || "
            return "(" + op.join(self.cond(v) for v in e.values) + ")"
        if isinstance(e, ast.UnaryOp) and isinstance(e.op, ast.Not):
            return f"(!{self.cond(e.operand)})"
        if isinstance(e, ast.Call) and isinstance(e.func, ast.Name) and e.func.id == "isinstance" and len(e.args) == 2 \
                and isinstance(e.args[1], ast.Name) and e.args[1].id == "int":
            return f"(pvIsInt {self.val(e.args[0])})"
        if isinstance(e, ast.Compare) and len(e.ops) == 1:
            a, b = self.val(e.left), self.val(e.comparators[0])
            op = {ast.Eq: "pvEq", ast.NotEq: "pvNe", ast.Lt: "pvLt", ast.Gt: "pvGt", ast.GtE: "pvGe"}.get(type(e.ops[0]))
            if op:
                return f"({op} {a} {b})"
        raise Untranslatable("condition " + ast.dump(e)[:80])

    def block(self, stmts, ind):
        pad = "  " * ind
        if not stmts:
            raise Untranslatable("falling off the end of operate")
        s, rest = stmts[0], stmts[1:]
        if isinstance(s, ast.Expr) and isinstance(s.value, ast.Constant):
            return self.block(rest, ind)
        if isinstance(s, ast.Return) and s.value is not None:
            return pad + self.res(s.value)
        if isinstance(s, ast.Raise):
            exc = s.exc
            if isinstance(exc, ast.Call) and isinstance(exc.func, ast.Name) and exc.func.id == "ValueError":
                return pad + "(.error .equationDidNotHold : PyRes)"
            raise Untranslatable("raise form")
        if isinstance(s, ast.If):
            a = self.block(list(s.body) + ([] if self.terminal(s.body) else rest), ind + 1)
            b = self.block(list(s.orelse) + ([] if (s.orelse and self.terminal(s.orelse)) else rest), ind + 1)
            return f"{pad}if {self.cond(s.test)} then (\n{a})\n{pad}else (\n{b})"
        raise Untranslatable(type(s).__name__)

    def terminal(self, stmts):
        for s in stmts:
            if isinstance(s, (ast.Return, ast.Raise)):
                return True
            if isinstance(s, ast.If) and s.orelse and self.terminal(s.body) and self.terminal(s.orelse):
                return True
        return False


def translate_eval(repo=None):
    repo = repo or core.REPO
    out, problems = [], []
    try:
        tree = ast.parse(open(os.path.join(repo, "mathy_core", "expressions.py")).read())
    except (OSError, SyntaxError) as e:
        return f"/- UNTRANSLATABLE expressions.py: {e} -/\n", [f"expressions.py: {type(e).__name__}: {e}"]
    ok = True
    for cls, op in list(UNARY.items()) + list(BINARY.items()):
        try:
            c = class_def(tree, cls)
            fn = method(c, "operate")
            if fn.decorator_list:
                raise Untranslatable("decorated operate")
            params = [a.arg for a in fn.args.args[1:]]
            want = ["value"] if cls in UNARY else ["one", "two"]
            if params != want:
                raise Untranslatable(f"parameters {params}")
            # only EqualExpression may raise (the ValueError of an equation that does not hold)
            raises = any(isinstance(n, ast.Raise) for n in ast.walk(fn))
            if raises and cls != "EqualExpression":
                raise Untranslatable("raise in operate")
            body = OpTranslator(params).block(list(fn.body), 1)
            sig = " ".join(f"({p} : PyVal)" for p in params)
            out.append(f"/-- `expressions.py`: `{cls}.operate` -/\ndef {cls}_operate {sig} : PyRes :=\n{body}\n")
        except Untranslatable as e:
            ok = False
            problems.append(f"expressions.py:{cls}.operate: {e}")
            out.append(f"/- UNTRANSLATABLE expressions.py: {cls}.operate: {e} -/\n")
    # the evaluate methods: exactly the quoted code
    for cls, src in EVALUATE_TEMPLATES.items():
        try:
            c = class_def(tree, cls)
            fn = method(c, "evaluate")
            if fn.decorator_list:
                raise Untranslatable("decorated evaluate")
            want = body_dump(ast.parse(src.strip()).body[0])
            got = body_dump(fn)
            if got != want:
                raise Untranslatable("evaluate is not the expected code")
            if [a.arg for a in fn.args.args] != ["self", "context"]:
                raise Untranslatable("evaluate parameters")
        except Untranslatable as e:
            ok = False
            problems.append(f"expressions.py:{cls}.evaluate: {e}")
            out.append(f"/- UNTRANSLATABLE expressions.py: {cls}.evaluate: {e} -/\n")
    # no subclass overrides evaluate
    for s in tree.body:
        if isinstance(s, ast.ClassDef) and s.name not in EVALUATE_TEMPLATES and s.name != "MathExpression":
            if any(isinstance(m, ast.FunctionDef) and m.name == "evaluate" for m in s.body):
                ok = False
                problems.append(f"expressions.py:{s.name}.evaluate: an override the translator does not know")
                out.append(f"/- UNTRANSLATABLE expressions.py: {s.name}.evaluate overrides evaluate -/\n")
    if ok:
        un = "\n".join(f"      | {op} => {cls}_operate v" for cls, op in UNARY.items())
        bi = "\n".join(f"        | {op} => {cls}_operate a b" for cls, op in BINARY.items())
        out.append(
            "/-- `expressions.py`: `ConstantExpression.evaluate` (the stored value), `VariableExpression.evaluate`\n"
            "(the context entry, ValueError when missing or None), `UnaryExpression.evaluate`, `BinaryExpression.evaluate`\n"
            "(operands left to right, then `self.operate` of the node's class) -/\n"
            "def MathExpression_evaluate (context : PyEnv) : PEx → PyRes\n"
            "  | .cint z => .ok (.int z)\n"
            "  | .cflt q => .ok (.flt q)\n"
            "  | .var x => match context x with\n"
            "    | some v => .ok v\n"
            "    | none => .error .unboundVariable\n"
            "  | .un o c => Except.bind (MathExpression_evaluate context c) (fun v =>\n"
            "      match o with\n" + un + ")\n"
            "  | .bin o l r => Except.bind (MathExpression_evaluate context l) (fun a =>\n"
            "      Except.bind (MathExpression_evaluate context r) (fun b =>\n"
            "        match o with\n" + bi + "))\n")
    return "\n".join(out), problems


if __name__ == "__main__":
    t, p = translate_eval()
    print(t)
    print(p)
