"""Check for C16: term analysis is order-invariant and inverse to term construction."""
import itertools
import math
import random
from fractions import Fraction as F

from . import core, gen
from .core import X
from .props_parse import finish

from mathy_core import util as UT  # noqa: E402


def fmt_num(q):
    if q.denominator == 1:
        return str(q.numerator)
    return repr(float(q))


def term_text(c, v, e):
    s = ""
    if c is not None:
        s += fmt_num(c)
    if v is not None:
        s += v
    if e is not None:
        s += "^" + fmt_num(e)
    return s


def groupings(items, rng, k):
    """k random parenthesisations of a sum of the items (in this order)"""
    outs = []
    for _ in range(k):
        parts = list(items)
        while len(parts) > 1:
            i = rng.randrange(len(parts) - 1)
            parts[i: i + 2] = ["(" + parts[i] + " + " + parts[i + 1] + ")"]
        s = parts[0]
        outs.append(s[1:-1] if s.startswith("(") and s.endswith(")") and len(items) > 1 else s)
    return outs


def call(f, *a):
    try:
        return ("ok", f(*a))
    except Exception as e:  # noqa
        return ("exc", type(e).__name__, str(e)[:120])


def c16(ctx):
    ctx.coverage["rule"] = (
        "(a) sums of 2-4 random natural-order terms and constants: has_like_terms on every permutation and on random "
        "groupings must agree; (b) terms_are_like reflexive/symmetric on all term nodes of random expressions; "
        "(c) get_term_ex(parse(text)) for all natural-order triples (coefficient in ints/decimals/negatives/0/absent, "
        "variable, exponent in ints/decimals/negatives/0/absent); (d) make_term value and round trip; (e) factor(n) = "
        "divisor pairs for every n up to 3000 (quick) / 20000; (f) every term predicate on random non-equation "
        "expressions must return without raising; all compared with the Lean model where it models the function. "
        "Non-trivial: sums with >= 2 terms, triples with >= 2 components."
    )
    rng = random.Random(ctx.seed * 37 + 6)
    quick = ctx.tier == "quick"
    bad = []
    like_obs = []   # (tuple tree, real has_like_terms) for the model comparison
    sub_obs = []    # (tuple tree, encoded real get_sub_terms, text)
    n_eval = 0
    nontrivial = 0
    coefs = [None, F(1), F(2), F(4), F(12), F(-1), F(-3), F(1, 2), F(5, 2), F(-7, 4), F(0), F(100),
             # integers written in full are extracted exactly, whatever their size (no double in between)
             F(2**53 + 1), F(10**17 + 3), F(-(10**20) - 7), F(12345678901234567890123)]
    exps = [None, F(2), F(3), F(1), F(0), F(-1), F(-2), F(1, 2), F(5, 2), F(10)]
    # (c) extraction from parsed text
    for c in coefs:
        for v in [None, "x", "y", "q"]:
            for e in exps:
                if v is None and e is not None:
                    continue
                if c is None and v is None:
                    continue
                text = term_text(c, v, e)
                n_eval += 1
                if sum(x is not None for x in (c, v, e)) >= 2:
                    nontrivial += 1
                try:
                    node = core.parse_fresh(text)
                except Exception as ex:  # noqa
                    bad.append({"clause": "extract", "text": text, "problem": "does not parse: " + type(ex).__name__})
                    continue
                got = call(UT.get_term_ex, node)
                want_c = c
                if got[0] != "ok" or got[1] is None:
                    bad.append({"clause": "extract", "text": text, "got": str(got)})
                    continue
                g = got[1]
                gc = None if g.coefficient is None else core.to_frac(g.coefficient)
                ge = None if g.exponent is None else core.to_frac(g.exponent)
                if (gc, g.variable, ge) != (want_c, v, e):
                    bad.append({"clause": "extract", "text": text, "written": str((c, v, e)), "extracted": str((gc, g.variable, ge))})
    # (d) make_term value and round trip
    for c in [F(1), F(2), F(-3), F(1, 2), F(0), F(-1), F(12), F(5, 2)]:
        for v in [None, "x", "y"]:
            for e in exps:
                if v is None and e is not None:
                    continue
                n_eval += 1
                cv = int(c) if c.denominator == 1 else float(c)
                ev = None if e is None else (int(e) if e.denominator == 1 else float(e))
                made = call(UT.make_term, cv, v, ev)
                if made[0] != "ok":
                    bad.append({"clause": "make_term", "triple": str((c, v, e)), "got": str(made)})
                    continue
                node = made[1]
                t = core.to_tuple(node)
                for val in (F(2), F(3), F(1, 2)):
                    env = {v: val} if v else {}
                    try:
                        got = core.q_eval(t, env)
                        if e is not None and e.denominator != 1:
                            continue
                        want = c * (val ** int(e) if e is not None else (val if v else 1)) if v else c
                    except (core.FracPow, ZeroDivisionError):
                        continue
                    if got != want:
                        bad.append({"clause": "make_term value", "triple": str((c, v, e)), "tree": core.tuple_str(t),
                                    "at": str(val), "value": str(got), "expected": str(want)})
                        break
                back = call(UT.get_term_ex, node)
                if back[0] != "ok" or back[1] is None:
                    bad.append({"clause": "make_term round trip", "triple": str((c, v, e)), "got": str(back)})
                    continue
                b = back[1]
                bc = F(1) if b.coefficient is None else core.to_frac(b.coefficient)
                be = None if b.exponent is None else core.to_frac(b.exponent)
                if (bc, b.variable, be) != (c, v, e):
                    bad.append({"clause": "make_term round trip", "triple": str((c, v, e)), "decomposed": str((bc, b.variable, be))})
    # (e) factor table
    N = 3000 if quick else 20000
    for n in range(1, N + 1):
        n_eval += 1
        got = call(UT.factor, n)
        if got[0] != "ok":
            bad.append({"clause": "factor", "n": n, "got": str(got)})
            continue
        table = {int(k): int(v) for k, v in got[1].items() if float(k) == int(k) and float(v) == int(v)}
        want = {d: n // d for d in range(1, n + 1) if n % d == 0} if n < 400 else \
            {d: n // d for d in set(x for i in range(1, math.isqrt(n) + 1) if n % i == 0 for x in (i, n // i))}
        if table != want or len(table) != len(got[1]):
            bad.append({"clause": "factor", "n": n, "table": str(sorted(got[1].items()))[:200]})
    # (a) order / grouping invariance of has_like_terms
    pool_v = "xyzab"
    for _ in range(250 if quick else 5000):
        k = rng.choice([2, 3, 3, 4])
        items = []
        for _ in range(k):
            r = rng.random()
            if r < 0.2:
                items.append(fmt_num(rng.choice([F(1), F(7), F(12), F(3, 2)])))
            elif r < 0.4:
                # addends get_term cannot analyse (non-constant exponent, two powers, product over a sum, ...)
                items.append(rng.choice(["2^y", "x^2 * y^3", "3(z + 1)", "x^y", "(a + b) * 2", "2 / x", "sgn(x)", "-(x + 1)",
                                         "x * x", "x * y", "2x * y^2", "4!", "-x", "-x^2"]))
            else:
                items.append(term_text(rng.choice([None, F(2), F(5), F(9), F(1, 2)]), rng.choice(pool_v[: rng.choice([1, 2, 3])]),
                                       rng.choice([None, None, F(2), F(3)])))
        answers = {}
        for perm in set(itertools.permutations(items)):
            for text in groupings(list(perm), rng, 2) + [" + ".join(perm)]:
                n_eval += 1
                try:
                    node = core.parse_fresh(text)
                except Exception:
                    continue
                r = call(UT.has_like_terms, node)
                answers.setdefault(str(r), []).append(text)
                if r[0] == "ok":
                    try:
                        like_obs.append((core.to_tuple(node), bool(r[1]), text))
                    except core.Unmodelled:
                        pass
        nontrivial += 1
        if len(answers) > 1:
            bad.append({"clause": "has_like_terms order/grouping", "terms": items,
                        "answers": {k: v[:2] for k, v in answers.items()}})
    # (b) reflexive / symmetric, (f) totality of the predicates on non-equation expressions
    for _ in range(600 if quick else 12000):
        t = gen.rand_tree(rng, rng.choice([1, 2, 3, 4]))
        text, reach = gen.reachable(t)
        if reach is None:
            continue
        n_eval += 1
        node = core.parse_fresh(text)
        for name, f in (("has_like_terms", UT.has_like_terms), ("is_simple_term", UT.is_simple_term),
                        ("is_preferred_term_form", UT.is_preferred_term_form), ("get_terms", UT.get_terms),
                        ("get_sub_terms", UT.get_sub_terms), ("get_term", UT.get_term), ("get_term_ex", UT.get_term_ex)):
            r = call(f, core.parse_fresh(text))
            if r[0] != "ok":
                bad.append({"clause": "predicate raised", "function": name, "text": text, "exception": r[1], "message": r[2]})
        hl = call(UT.has_like_terms, core.parse_fresh(text))
        if hl[0] == "ok":
            like_obs.append((reach, bool(hl[1]), text))
        # get_sub_terms against the model: which node objects (by in-order position) end up as
        # coefficient / variable / exponent of each sub-term, `False`, or a failed assertion
        n2 = core.parse_fresh(text)
        tg = core.tag_map(n2)
        st = call(UT.get_sub_terms, n2)
        try:
            if st[0] == "ok":
                enc = "false" if st[1] is False else "terms " + ";".join(
                    ",".join(str(tg[id(x)]) if x is not None else "0" for x in tr) for tr in st[1])
            else:
                enc = "raised" if st[1] == "AssertionError" else "exc:" + str(st[1])
            sub_obs.append((core.to_tuple(n2, tg), enc, text))
        except (core.Unmodelled, KeyError):
            pass
        terms = call(UT.get_terms, node)
        if terms[0] == "ok":
            ts = terms[1][:5]
            for a in ts:
                ra = call(UT.terms_are_like, a, a)
                ga = call(UT.get_term, a)
                if ga[0] == "ok" and ga[1] is not False and ra != ("ok", True):
                    bad.append({"clause": "terms_are_like reflexive", "text": text, "term": str(a), "got": str(ra)})
                for b in ts:
                    r1, r2 = call(UT.terms_are_like, a, b), call(UT.terms_are_like, b, a)
                    if r1 != r2:
                        bad.append({"clause": "terms_are_like symmetric", "text": text, "a": str(a), "b": str(b),
                                    "ab": str(r1), "ba": str(r2)})
    # products of variables with repeated factors: symmetry needs multiset comparison
    prods = ["x * x", "x * y", "y * x", "x * x * y", "x * y * y", "2x * x", "x * 2y", "x^2 * y", "y * x^2", "x", "y", "2x",
             "3", "x^2", "2x^2", "x * z", "(x * x) * (y * y)", "x * (x * y)"]
    for a_txt in prods:
        for b_txt in prods:
            n_eval += 1
            node = core.parse_fresh(a_txt + " + " + b_txt)
            ts = UT.get_terms(node)
            if len(ts) != 2:
                continue
            r1, r2 = call(UT.terms_are_like, ts[0], ts[1]), call(UT.terms_are_like, ts[1], ts[0])
            if r1 != r2:
                bad.append({"clause": "terms_are_like symmetric", "text": a_txt + " + " + b_txt, "ab": str(r1), "ba": str(r2)})
            if a_txt == b_txt and r1 != ("ok", True):
                bad.append({"clause": "terms_are_like reflexive", "text": a_txt, "got": str(r1)})
            # the same question asked with already-extracted term objects (the signature accepts them), the
            # objects being REUSED for both directions and asked twice: same answers, arguments left as they were
            try:
                ta, tb = UT.get_term(ts[0]), UT.get_term(ts[1])
            except Exception:  # noqa
                ta = tb = False
            if ta is not False and tb is not False:
                def _snap(t_):
                    # plain data by value, node references by identity
                    d_ = getattr(t_, "__dict__", {})
                    return {k_: (list(v_) if isinstance(v_, list) and all(isinstance(i_, (int, float, str)) for i_ in v_)
                                 else [id(i_) for i_ in v_] if isinstance(v_, list) else
                                 v_ if isinstance(v_, (int, float, str, type(None))) else id(v_)) for k_, v_ in d_.items()}
                snap = (_snap(ta), _snap(tb))
                o1, o2, o3 = call(UT.terms_are_like, ta, tb), call(UT.terms_are_like, tb, ta), call(UT.terms_are_like, ta, tb)
                if not (o1 == o2 == o3 == r1):
                    bad.append({"clause": "terms_are_like symmetric", "text": a_txt + " + " + b_txt,
                                "with_extracted_terms": [str(o1), str(o2), str(o3)], "with_nodes": str(r1)})
                if snap != (_snap(ta), _snap(tb)):
                    bad.append({"clause": "terms_are_like symmetric", "text": a_txt + " + " + b_txt,
                                "problem": "terms_are_like modified the term object passed to it"})
    # dedupe by (clause, function, exception) to keep reports small but complete in kinds
    seen, uniq = set(), []
    for b in bad:
        key = (b.get("clause"), b.get("function"), b.get("exception"), b.get("message", "")[:40])
        if key not in seen or b.get("clause") not in ("predicate raised",):
            uniq.append(b)
        seen.add(key)
    ctx.coverage["evaluations"] += n_eval
    ctx.coverage["distinct_nontrivial"] += nontrivial
    ctx.coverage["traces_validated_against_impl"] += n_eval
    ctx.notes["problem_kinds"] = {}
    for b in bad:
        k = b.get("clause") + (":" + b.get("function", "") if b.get("function") else "")
        ctx.notes["problem_kinds"][k] = ctx.notes["problem_kinds"].get(k, 0) + 1
    ctx.like_obs = like_obs
    ctx.sub_obs = sub_obs
    ctx.sample({"term text": "4x^2", "triple": "(4, x, 2)"})
    ctx.sample({"sum": "2x + 7 + y^2 + 5x (all permutations and groupings)"})
    return uniq


def run(ctx):
    bad = c16(ctx)
    # known findings (matched by clause / function / exception)
    open_f = ctx.open_findings()
    unlisted = []
    hits = {}
    for b in bad:
        f = next((f for f in open_f if f.get("clause") == b.get("clause") and
                  (f.get("function") in (None, b.get("function"))) and
                  (f.get("exception") in (None, b.get("exception"))) and
                  (f.get("message_prefix") is None or str(b.get("message", "")).startswith(f["message_prefix"]))), None)
        if f is None:
            unlisted.append(b)
        else:
            hits[f["id"]] = hits.get(f["id"], 0) + 1
    for f in open_f:
        if f["id"] in hits:
            ctx.known_finding(f"{f['id']}: {f['what']} (reproduced {hits[f['id']]} times)")
    # model correspondence: has_like_terms
    drv = core.Driver()
    obs = ctx.like_obs
    ans = drv.ask([f"like {core.tuple_to_wire(t)}" for t, _, _ in obs])
    diffs = [{"text": txt, "impl": r, "model": a} for (t, r, txt), a in zip(obs, ans) if (a == "true") != r]
    sobs = ctx.sub_obs
    sans = drv.ask([f"subterms {core.tuple_to_wire(t)}" for t, _, _ in sobs])
    sdiffs = [{"text": txt, "impl": r, "model": a.strip()} for (t, r, txt), a in zip(sobs, sans) if a.strip() != r.strip()]
    ctx.notes["get_sub_terms_compared_with_model"] = len(sobs)
    ctx.coverage["traces_validated_against_impl"] += len(sobs)
    ctx.coverage["traces_validated_against_impl"] += len(obs)
    ctx.notes["has_like_terms_compared_with_model"] = len(obs)
    finish(ctx, [("terms", unlisted)], [("has_like_terms", diffs), ("get_sub_terms", sdiffs)],
           "term analysis is order-invariant and inverse to term construction")


CHECKS = {"C16": run}
