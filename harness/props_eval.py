"""Check for C05 (evaluation computes the mathematically correct number)."""
import math
import random
from fractions import Fraction

from . import core
from .core import X
from .props_parse import finish

import sys

# results of several hundred thousand bits are exchanged as decimal strings with the model driver
sys.set_int_max_str_digits(0)

# typed trees: ('I', int) ('F', Fraction) ('V', ch) ('U', op, c) ('B', op, l, r)


def p_wire(t):
    k = t[0]
    if k == "I":
        return f"I {t[1]}"
    if k == "F":
        return f"F {t[1].numerator} {t[1].denominator}"
    if k == "V":
        return f"V {t[1]}"
    if k == "U":
        return f"U {t[1]} {p_wire(t[2])}"
    return f"B {t[1]} {p_wire(t[2])} {p_wire(t[3])}"


def p_build(t):
    k = t[0]
    if k == "I":
        return X.ConstantExpression(int(t[1]))
    if k == "F":
        return X.ConstantExpression(float(t[1]))
    if k == "V":
        return X.VariableExpression(t[1])
    if k == "U":
        return core.UOP_CLS[t[1]](p_build(t[2]))
    return core.BOP_CLS[t[1]](p_build(t[2]), p_build(t[3]))


def p_str(t):
    k = t[0]
    if k in "IF":
        return str(t[1])
    if k == "V":
        return t[1]
    if k == "U":
        return f"({t[1]} {p_str(t[2])})"
    return f"({t[1]} {p_str(t[2])} {p_str(t[3])})"


def n_ops(t):
    k = t[0]
    if k in "IFV":
        return 0
    if k == "U":
        return 1 + n_ops(t[2])
    return 1 + n_ops(t[2]) + n_ops(t[3])


def rand_int_tree(rng, depth, big):
    """+ - * ^(non-negative int) ! neg sgn over integer literals and variables"""
    r = rng.random()
    if depth <= 0 or r < 0.2:
        if rng.random() < 0.25:
            return ("V", rng.choice("xyz"))
        if big and rng.random() < 0.4:
            return ("I", rng.choice([1, -1]) * rng.randint(10**15, 10**40))
        return ("I", rng.randint(-20, 20))
    if r < 0.3:
        return ("U", "neg", rand_int_tree(rng, depth - 1, big))
    if r < 0.33:
        return ("U", "sgn", rand_int_tree(rng, depth - 1, big))
    if r < 0.36:
        # AbsExpression is an exported node class (not reachable from text)
        return ("U", "abs", rand_int_tree(rng, depth - 1, big))
    if r < 0.42:
        return ("U", "fact", ("I", rng.randint(0, 60 if big else 12)))
    if r < 0.55:
        return ("B", "pow", rand_int_tree(rng, depth - 1, big), ("I", rng.randint(0, 200 if big else 6)))
    op = rng.choice(["add", "sub", "mul"])
    return ("B", op, rand_int_tree(rng, depth - 1, big), rand_int_tree(rng, depth - 1, big))


def rand_mixed_tree(rng, depth):
    r = rng.random()
    if depth <= 0 or r < 0.2:
        k = rng.random()
        if k < 0.3:
            # variable names are case-sensitive: `x` and `X` are different variables
            return ("V", rng.choice("xyzxyzXYZ"))
        if k < 0.6:
            return ("I", rng.randint(-12, 12))
        return ("F", Fraction(rng.choice([1, 3, 5, 7, -1, -5, 25, 1]), rng.choice([2, 4, 8, 10, 5])))
    if r < 0.3:
        return ("U", rng.choice(["neg", "sgn", "neg", "abs"]), rand_mixed_tree(rng, depth - 1))
    if r < 0.34:
        return ("U", "fact", ("I", rng.randint(-2, 10)))
    if r < 0.44:
        return ("B", "pow", rand_mixed_tree(rng, depth - 1), ("I", rng.randint(-3, 5)))
    if r < 0.5:
        return ("B", "eq", rand_mixed_tree(rng, depth - 1), rand_mixed_tree(rng, depth - 1))
    op = rng.choice(["add", "sub", "mul", "div", "div"])
    return ("B", op, rand_mixed_tree(rng, depth - 1), rand_mixed_tree(rng, depth - 1))


def real_eval(t, env):
    """outcome of the real evaluate(): ('int', z) ('flt', float) ('nan',) ('inf',) ('exc', kind)"""
    try:
        v = p_build(t).evaluate(env)
    except ValueError as e:
        msg = str(e)
        if "None variable" in msg:
            return ("exc", "unboundVariable")
        if "did not hold" in msg:
            return ("exc", "equationDidNotHold")
        if "factorial" in msg or "convert float NaN" in msg:
            return ("exc", "factorialDomain")
        return ("exc", "ValueError:" + msg[:40])
    except OverflowError:
        return ("exc", "OverflowError")
    except Exception as e:  # noqa
        return ("exc", "internal:" + type(e).__name__)
    if isinstance(v, bool):
        return ("exc", "bool")
    if isinstance(v, int):
        return ("int", v)
    try:
        import numpy as np
        if isinstance(v, np.integer):
            return ("npint", int(v))  # a wrapped numpy integer is never acceptable
    except Exception:
        pass
    f = float(v)
    if f != f:
        return ("nan",)
    if f in (float("inf"), float("-inf")):
        return ("inf",)
    return ("flt", f)


def env_wire(env):
    parts = []
    for k, v in env.items():
        if v is None:
            continue
        if isinstance(v, int):
            parts.append(f"{k}=i:{v}")
        else:
            q = Fraction(repr(float(v)))
            parts.append(f"{k}=f:{q.numerator}/{q.denominator}")
    return " ".join(parts)


def agree(real, model, ops):
    """model answer string vs real outcome"""
    toks = model.split()
    if toks[0] == "exc":
        if toks[1] == "unmodelled":
            return True  # real power / inf: outside the model
        return real == ("exc", toks[1])
    if toks[0] == "nan":
        return real == ("nan",)
    if toks[0] == "int":
        return real == ("int", int(toks[1]))
    q = Fraction(int(toks[1]), int(toks[2]))
    if real[0] != "flt":
        # a float too large for a double overflows in Python; the idealised model does not
        return real in (("inf",), ("exc", "OverflowError")) and abs(q) > Fraction(10) ** 300
    # a few ulps per operation, with head-room for cancellation in small random trees (a wrong
    # integer path, a wrapped value or a tolerance-based equation is caught exactly elsewhere)
    tol = 1e-12 * (ops + 1)
    return abs(Fraction(real[1]) - q) <= tol * max(1, abs(q))


def float_equation_ambiguity(t, env):
    """is there an equation node in the tree whose two sides, evaluated by the real code, are floats (at least one)
    that agree to 1e-12 relative — equal or one rounding apart?"""
    stack = [t]
    while stack:
        x = stack.pop()
        if x[0] == "B":
            if x[1] == "eq":
                l_, r_ = real_eval(x[2], env), real_eval(x[3], env)
                if l_[0] in ("flt", "int") and r_[0] in ("flt", "int") and "flt" in (l_[0], r_[0]):
                    a_, b_ = float(l_[1]), float(r_[1])
                    if abs(a_ - b_) <= 1e-12 * max(abs(a_), abs(b_), 1e-300):
                        return True
            stack += [x[2], x[3]]
        elif x[0] == "U":
            stack.append(x[2])
    return False


def z_denote(t, env):
    """the obvious integer denotation (oracle of the exactness clause)"""
    k = t[0]
    if k == "I":
        return t[1]
    if k == "V":
        return env[t[1]]
    if k == "U":
        a = z_denote(t[2], env)
        if t[1] == "neg":
            return -a
        if t[1] == "sgn":
            return (a > 0) - (a < 0)
        if t[1] == "abs":
            return -a if a < 0 else a
        if a < 0:
            raise ArithmeticError
        return math.factorial(a)
    a = z_denote(t[2], env)
    b = z_denote(t[3], env)
    if t[1] == "add":
        return a + b
    if t[1] == "sub":
        return a - b
    if t[1] == "mul":
        return a * b
    if b < 0:
        raise ArithmeticError
    if abs(a) > 1 and b > 0 and b * max(1, abs(a)).bit_length() > 400000:
        raise OverflowError
    return a**b


class _Skip(Exception):
    pass


def nan_oracle(t, env):
    """exact evaluation for the clause 'division by zero yields NaN': returns 'nan' when a division
    by exactly zero occurs and only + - * / and negation sit above it, a Fraction when everything is
    defined, and raises _Skip for anything else (powers, functions of NaN, equations, unbound)"""
    k = t[0]
    if k == "I":
        return Fraction(t[1])
    if k == "F":
        return t[1]
    if k == "V":
        v = env.get(t[1])
        if v is None:
            raise _Skip
        return Fraction(int(v)) if isinstance(v, int) else Fraction(repr(float(v)))
    if k == "U":
        a = nan_oracle(t[2], env)
        if t[1] == "neg":
            return a if a == "nan" else -a
        if a == "nan":
            raise _Skip
        if t[1] == "abs":
            return abs(a)
        if t[1] == "sgn":
            return Fraction((a > 0) - (a < 0))
        raise _Skip
    a = nan_oracle(t[2], env)
    b = nan_oracle(t[3], env)
    if t[1] not in ("add", "sub", "mul", "div"):
        raise _Skip
    if a == "nan" or b == "nan":
        return "nan"
    if t[1] == "add":
        return a + b
    if t[1] == "sub":
        return a - b
    if t[1] == "mul":
        return a * b
    return "nan" if b == 0 else a / b


def z_size(t, env):
    """upper bound (bits) of the integer value; raises OverflowError beyond 400 kbit"""
    k = t[0]
    if k == "I":
        return max(1, abs(t[1]).bit_length())
    if k == "V":
        return max(1, abs(env[t[1]]).bit_length())
    if k == "U":
        a = z_size(t[2], env)
        if t[1] == "fact":
            return 300
        return a
    a = z_size(t[2], env)
    b = z_size(t[3], env)
    if t[1] in ("add", "sub"):
        r = max(a, b) + 1
    elif t[1] == "mul":
        r = a + b
    else:
        try:
            e = z_denote(t[3], env)
        except Exception:
            e = 1
        r = a * max(1, e)
    if r > 400000:
        raise OverflowError
    return r


def c05(ctx):
    ctx.coverage["rule"] = (
        "random typed trees evaluated by the real evaluate() and by the Lean model pyEval: (a) integer trees over "
        "+ - * ^(non-negative int) ! neg sgn with operands up to 10^40, exponents up to 200, factorials up to 60 — "
        "exact comparison, plus an independent big-integer oracle; (b) mixed int/float trees with division, "
        "negative powers, equations, unbound / None variables, division by zero — ints exact, floats within a few "
        "ulps per operation of the exact rational. Non-trivial: at least two operators."
    )
    rng = random.Random(ctx.seed * 19 + 4)
    quick = ctx.tier == "quick"
    cases = []
    for _ in range(3000 if quick else 20000):
        big = rng.random() < 0.5
        t = rand_int_tree(rng, rng.choice([2, 3, 4]), big)
        env = {v: rng.choice([0, 1, -1, 2, 7, -13, 10**20, -(10**30)]) for v in "xyz"}
        cases.append((t, env, "int"))
    for _ in range(3000 if quick else 20000):
        t = rand_mixed_tree(rng, rng.choice([2, 3, 4]))
        env = {}
        for v in "xyzXYZ":
            r = rng.random()
            if r < (0.08 if v in "xyz" else 0.5):
                continue  # missing
            if r < 0.12:
                env[v] = None
            elif r < 0.6:
                env[v] = rng.randint(-9, 9)
            else:
                env[v] = rng.choice([0.5, -1.5, 2.25, 0.0, 3.75, 1e3, -0.125])
                if rng.random() < 0.15:
                    # values computed with numpy are floats too (numpy.float64 subclasses float)
                    import numpy as _np
                    env[v] = _np.float64(env[v])
        cases.append((t, env, "mixed"))
    # equations whose sides differ by very little (relative 1e-10 .. 1e-18) or not at all:
    # "raises when the sides differ" must not depend on a tolerance
    for _ in range(400 if quick else 3000):
        big = rng.random() < 0.7
        t = rand_int_tree(rng, rng.choice([1, 2, 3]), big)
        env = {v: rng.choice([1, 2, 7, 10**12, 10**20, -(10**30)]) for v in "xyz"}
        delta = rng.choice([1, -1, 0, 2])
        cases.append((("B", "eq", t, ("B", "add", t, ("I", delta))), env, "eq"))
        q = Fraction(rng.randint(1, 10**6), rng.choice([1, 2, 4, 8]))
        eps = rng.choice([Fraction(1, 10**10), Fraction(1, 10**12), Fraction(0), Fraction(1, 2**40)])
        cases.append((("B", "eq", ("F", q), ("F", q * (1 + eps))), {}, "mixed"))
    # fixed probes of every clause
    probes = [
        (("B", "pow", ("I", 2), ("I", 64)), {}), (("B", "pow", ("I", 3), ("I", 41)), {}),
        (("B", "pow", ("I", -7), ("I", 133)), {}), (("U", "fact", ("I", 60)), {}),
        (("B", "mul", ("I", 10**40), ("I", 10**40)), {}), (("B", "div", ("I", 1), ("I", 0)), {}),
        (("B", "add", ("B", "div", ("V", "x"), ("I", 0)), ("I", 1)), {"x": 3}),
        (("V", "x"), {}), (("V", "x"), {"x": None}), (("B", "eq", ("I", 2), ("I", 3)), {}),
        (("B", "eq", ("B", "add", ("I", 1), ("I", 1)), ("F", Fraction(2))), {}),
        (("B", "pow", ("I", 2), ("I", -1)), {}), (("B", "sub", ("I", 2**63), ("I", 1)), {}),
        (("B", "mul", ("I", 2**32), ("I", 2**32)), {}), (("B", "add", ("I", 2**63 - 1), ("I", 1)), {}),
    ]
    cases += [(t, env, "probe") for t, env in probes]

    def feasible(t, env):
        """keep integer results below ~400 kbit so that the real evaluation terminates quickly"""
        try:
            e = {k: (v if isinstance(v, int) else 7) for k, v in env.items() if v is not None}
            for v in "xyz":
                e.setdefault(v, 7)
            z_size(t, e)
            return True
        except OverflowError:
            return False
        except Exception:
            return True

    cases = [c for c in cases if c[2] not in ("int", "eq") or feasible(c[0][2] if c[2] == "eq" else c[0], c[1])]
    drv = core.Driver()
    ans = drv.ask([f"pyeval {p_wire(t)} {env_wire(env)}" for t, env, _ in cases])
    bad, diffs = [], []
    nontrivial = set()
    kinds = {}
    for (t, env, kind), a in zip(cases, ans):
        real = real_eval(t, env)
        kinds[real[0]] = kinds.get(real[0], 0) + 1
        ops = n_ops(t)
        if ops >= 2:
            nontrivial.add(p_wire(t) + "|" + env_wire(env))
        try:
            if nan_oracle(t, env) == "nan" and real != ("nan",):
                bad.append({"tree": p_str(t), "env": str(env), "real": str(real)[:200],
                            "problem": "a division by zero did not yield NaN"})
        except (_Skip, OverflowError, ZeroDivisionError):
            pass
        if real[0] == "npint" or (real[0] == "exc" and real[1].startswith("internal")):
            bad.append({"tree": p_str(t), "env": str(env), "real": str(real), "problem": "wrapped integer / internal error"})
        if kind in ("int", "probe") and all(isinstance(v, int) for v in env.values()):
            try:
                want = z_denote(t, {k: v for k, v in env.items()})
                if real != ("int", want) and kind == "int":
                    bad.append({"tree": p_str(t), "env": str(env), "real": str(real)[:200], "exact": str(want)[:200]})
            except (ArithmeticError, OverflowError, KeyError, TypeError, IndexError):
                pass
        # oracle for the equation clause: common value when the sides are equal, an error when
        # they differ — by ANY amount
        if t[0] == "B" and t[1] == "eq" and kind in ("eq", "mixed") and real[0] != "exc" or \
                (t[0] == "B" and t[1] == "eq" and kind == "eq"):
            try:
                if kind == "eq":
                    l_v, r_v = z_denote(t[2], dict(env)), z_denote(t[3], dict(env))
                elif t[2][0] == "F" and t[3][0] == "F":
                    l_v, r_v = float(t[2][1]), float(t[3][1])
                else:
                    l_v = r_v = None
                if l_v is not None:
                    if l_v != r_v and real[0] != "exc":
                        bad.append({"tree": p_str(t)[:300], "env": str(env)[:200], "real": str(real)[:200],
                                    "problem": f"the sides differ ({str(l_v)[:60]} vs {str(r_v)[:60]}) but evaluate() did not raise"})
                    if l_v == r_v and real[0] == "exc":
                        bad.append({"tree": p_str(t)[:300], "env": str(env)[:200], "real": str(real)[:200],
                                    "problem": "the sides are equal but evaluate() raised"})
            except (ArithmeticError, OverflowError, KeyError, TypeError, IndexError):
                pass
        if not agree(real, a, ops):
            # float equality of two sides that are mathematically equal (or differ by rounding only) is decided by
            # the last bit of two different computations: the idealised model (exact rationals) cannot predict
            # whether `one != two` holds there.  Not a disagreement, counted in the notes.
            eq_involved = real == ("exc", "equationDidNotHold") or a.split()[:2] == ["exc", "equationDidNotHold"]
            if eq_involved and float_equation_ambiguity(t, env):
                ctx.notes["float_equality_ambiguous"] = ctx.notes.get("float_equality_ambiguous", 0) + 1
            else:
                diffs.append({"tree": p_str(t), "env": str(env), "real": str(real)[:200], "model": a[:200]})
    # division by a divisor that is exactly zero yields NaN also when the zero was computed through the float
    # branch of a power (fractional / negative exponent, float base): 4^0.5 - 2, 2^-1 - 0.5, 0^1.5 are exactly 0.0
    F_ = Fraction
    divzero = [
        (("B", "div", ("I", 1), ("B", "sub", ("B", "pow", ("V", "x"), ("F", F_(1, 2))), ("I", 2))), {"x": 4}),
        (("B", "div", ("I", 3), ("B", "sub", ("B", "pow", ("V", "x"), ("I", -1)), ("F", F_(1, 2)))), {"x": 2}),
        (("B", "div", ("I", 5), ("B", "pow", ("V", "y"), ("F", F_(3, 2)))), {"y": 0}),
        (("B", "div", ("I", -1), ("B", "sub", ("B", "pow", ("V", "x"), ("F", F_(1, 2))), ("I", 3))), {"x": 9}),
        (("B", "div", ("V", "y"), ("B", "sub", ("B", "pow", ("F", F_(4)), ("F", F_(1, 2))), ("I", 2))), {"y": 7}),
        (("B", "add", ("I", 1), ("B", "div", ("I", 2), ("B", "mul", ("I", 0), ("B", "pow", ("V", "x"), ("F", F_(1, 2)))))), {"x": 4}),
        (("B", "div", ("I", 1), ("B", "sub", ("V", "x"), ("V", "x"))), {"x": 2.5}),
    ]
    for t_, env_ in divzero:
        got = real_eval(t_, env_)
        if got != ("nan",):
            bad.append({"tree": p_str(t_), "env": str(env_), "real": str(got)[:200],
                        "problem": "a division by zero did not yield NaN (divisor computed through a float power)"})
    # the value of an expression does not depend on what was evaluated before in the same process:
    # every operator first with float operands, then with the numerically equal int operands (which must
    # give the exact integer), then with floats again; and the other way round
    n_hist = 0
    for op in ("pow", "mul", "add", "sub"):
        for b_ in (2, 3, 7, 10, 13, -7, 10**20 + 1):
            for e_ in ((30, 41, 64, 70, 133, 400) if op == "pow" else (10**18 + 3, 2**62 + 1, 3**40)):
                if op == "pow" and abs(b_) > 13:
                    continue
                tv = ("B", op, ("V", "x"), ("V", "y"))
                tl = ("B", op, ("I", b_), ("I", e_))
                for order_ in (("f", "i", "f"), ("i", "f", "i")):
                    for k_ in order_:
                        n_hist += 1
                        if k_ == "f":
                            try:
                                real_eval(tv, {"x": float(b_), "y": float(e_)})
                            except Exception:  # noqa
                                pass
                            continue
                        try:
                            want = z_denote(tl, {})
                        except (ArithmeticError, OverflowError):
                            continue
                        for t_, env_ in ((tv, {"x": b_, "y": e_}), (tl, {})):
                            got = real_eval(t_, env_)
                            if got != ("int", want):
                                bad.append({"tree": p_str(t_), "env": str(env_), "real": str(got)[:200], "exact": str(want)[:200],
                                            "problem": "integer evaluation differs after the same operation was evaluated "
                                                       "with float operands in this process", "order": "".join(order_)})
    ctx.notes["evaluation_histories"] = n_hist
    ctx.coverage["evaluations"] += len(cases) + n_hist
    ctx.coverage["distinct_nontrivial"] += len(nontrivial)
    ctx.coverage["traces_validated_against_impl"] += len(cases)
    ctx.notes["outcome_kinds"] = kinds
    for t, env, _ in cases[:: max(1, len(cases) // 6)][:6]:
        ctx.sample({"tree": p_str(t)[:200], "env": {k: str(v)[:30] for k, v in env.items()}})
    # the value of a tree is the value of its CURRENT structure: trees edited after construction
    # (operands replaced, children swapped, nodes rotated, rules applied in place) must evaluate
    # exactly like a freshly constructed tree of the same structure
    from . import gen as _gen
    from .props_rules import inplace_family
    nedit = 0
    for _ in range(600 if quick else 4000):
        t0 = _gen.rand_tree(rng, rng.choice([2, 3, 3, 4]), allow_eq=False)
        try:
            root = core.tuple_to_py(t0)
        except Exception:  # noqa
            continue
        edits = []
        for _k in range(rng.choice([1, 1, 2, 3])):
            nodes = core.inorder(root)
            n = rng.choice(nodes)
            kind = rng.choice(["swap", "rotate", "replace", "set_child"])
            try:
                from mathy_core import expressions as _E
                if kind == "swap" and isinstance(n, _E.BinaryExpression):
                    l_, r_ = n.left, n.right
                    n.set_left(r_)
                    n.set_right(l_)
                elif kind == "rotate" and n.parent is not None and isinstance(n, _E.BinaryExpression) \
                        and isinstance(n.parent, _E.BinaryExpression):
                    n.rotate()
                    root = n.get_root()
                elif kind == "replace" and n.parent is not None:
                    new = _E.ConstantExpression(rng.choice([3, -2, 5]))
                    n.parent.set_side(new, n.parent.get_side(n))
                elif kind == "set_child" and isinstance(n, _E.UnaryExpression):
                    n.set_child(_E.VariableExpression(rng.choice("xy")))
                else:
                    continue
                edits.append(kind)
            except Exception:  # noqa
                break
        if not edits or core.audit_links(root):
            continue
        nedit += 1
        st = core.eval_stale(root, nenv=2)
        if st is not None:
            bad.append({"start": core.tuple_str(t0), "edits": edits, "problem": "evaluate() of an edited tree is not the "
                        "value of its structure", "witness": st})
    ctx.notes["edited_trees_evaluated"] = nedit
    ctx.coverage["evaluations"] += nedit
    iprobs, _walks = inplace_family(ctx, "C05")
    for p_ in iprobs[:5]:
        bad.append(dict(p_, problem="evaluate() after in-place rewrites is not the value of the structure"))
    finish(ctx, [("evaluate", bad)], [("pyeval", diffs)], "evaluation computes the mathematically correct number")


CHECKS = {"C05": c05}
