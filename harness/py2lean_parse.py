"""Python → Lean translator for mathy_core/parser.py (the recursive-descent parser).

Same target conventions as `py2lean_st.py` (state-passing, `Except PyErr`, Python evaluation
order), extended for what parser.py uses:

  * the parser object `self` is the record `ParserState`; a method that mutates it returns the
    new record next to its result (`MUTATES`), one that only reads it returns the result alone;
  * the mutually recursive `parse_*` methods become ONE `mutual` block of functions recursive on
    a fuel argument: a function called with fuel `n + 1` calls the others (and the loops in its
    body) with fuel `n`; fuel 0 is the distinguished result `PyErr.OutOfFuel`.  `_parse` supplies
    `8 * len(tokens) + 16`; the agreement theorem shows this is never exhausted;
  * a `while` loop whose body has no `return` becomes a function that returns the loop-carried
    variables (direct style); an `if` without `return`/`raise`-only branches is a join: the
    variables assigned in its branches are returned as a tuple and re-bound after it;
  * `Optional[MathExpression]` locals are `Option Ex`; using one where an expression object is
    required is `optUse` (`PyErr.NoneUsed` if it is `None`);
  * `List[MathExpression]` locals with `append`, `pop(0)`, `l[-1]`, `l[-1] = e`, `l[0]`, `len`;
  * expression constructors build `Ex` nodes with tag 0; `self.tokenizer.functions[name]` is a
    lookup in the table translated from `Tokenizer.__init__`;
  * `raise <ParserException subclass>(...)` is `.error .<name>`: the message argument is dropped
    (no property speaks about message texts of parser exceptions), and so are `assert`s,
    assignments to the attribute `_all_tokens` and locals that are only read inside `raise`
    arguments (`input_str`), after checking exactly that syntactically;
  * module-level `TokenSet` constants and the methods `TokenSet.add/contains` (bit masks).

Anything else raises `Untranslatable`.
"""
import ast
import os

from . import core
from .py2lean import Untranslatable
from .py2lean_st import lean_chars, class_def, method, const_int

TY_LEAN = {"str": "List Char", "char": "Char", "int": "Int", "nat": "Nat", "bool": "Bool", "token": "Token",
           "toklist": "List Token", "pstate": "ParserState", "expr": "Ex", "optexpr": "Option Ex",
           "exprlist": "List Ex", "num": "Rat", "uop": "Uop"}
RECORDS = {
    "pstate": {"tokens": "toklist", "current_token": "token"},
    "token": {"value": "str", "type": "nat"},
}
GHOST_FIELDS = {("pstate", "_all_tokens")}
PARSER_EXC = {"InvalidExpression", "OutOfTokens", "InvalidSyntax", "UnexpectedBehavior", "TrailingTokens"}
BIN_CTORS = {"EqualExpression": ".eq", "AddExpression": ".add", "SubtractExpression": ".sub",
             "MultiplyExpression": ".mul", "DivideExpression": ".div", "PowerExpression": ".pow"}
UN_CTORS = {"NegateExpression": ".neg", "FactorialExpression": ".fact", "SgnExpression": ".sgn", "AbsExpression": ".abs"}

# (function, lean name, parameters after self [(py name, type, default or None)], result type, mutates self, fuelled)
P_FUNCTIONS = [
    ("next", "ExpressionParser_next", [], "bool", True, False),
    ("eat", "ExpressionParser_eat", [("type", "nat", None)], "bool", True, False),
    ("check", "ExpressionParser_check", [("tokens", "nat", None), ("do_assert", "bool", "false")], "bool", False, False),
    ("parse_equal", "ExpressionParser_parse_equal", [], "expr", True, True),
    ("parse_add", "ExpressionParser_parse_add", [], "expr", True, True),
    ("parse_mult", "ExpressionParser_parse_mult", [], "expr", True, True),
    ("parse_exponent", "ExpressionParser_parse_exponent", [], "expr", True, True),
    ("parse_unary", "ExpressionParser_parse_unary", [], "expr", True, True),
    ("parse_factors", "ExpressionParser_parse_factors", [], "expr", True, True),
    ("parse_function", "ExpressionParser_parse_function", [], "expr", True, True),
    ("_parse", "ExpressionParser__parse", [("tokens", "toklist", None)], "expr", True, False),
]
# fuel for loops that call nothing fuelled: (function, loop ordinal) -> expression over python names
LOCAL_FUEL = {("parse_factors", 2): "(List.length {factors}) + 1", ("_parse", 1): "(List.length {self}.tokens) + 2"}
# fuel a non-fuelled function supplies when it calls into the mutual block
ENTRY_FUEL = {"_parse": "(8 * (List.length {tokens}) + 17)"}


class PTranslator:
    def __init__(self, spec, sigs, consts):
        self.fn, self.lean, self.extra, self.ret, self.mutates, self.fuelled = spec
        self.sigs = sigs
        self.consts = consts          # {"tokensets": {...}, "token_types": {...}, "function_table": lean name}
        self.env = {"self": ("self_", "pstate")}
        for py, ty, _d in self.extra:
            self.env[py] = (py + "_", ty)
        self.fresh = 0
        self.loops = 0
        self.binds = []
        self.aux_mutual = []
        self.aux_before = []
        self.in_shortcircuit = 0
        self.fuel_var = "fuel" if self.fuelled else None
        self.ret_override = None      # inside a direct-style loop / join: what `.ok` must carry

    # ------------------------------------------------------------------ helpers
    def new(self, base):
        self.fresh += 1
        return f"{base.strip('_')}_{self.fresh}"

    def fn_ret_lean(self):
        r = TY_LEAN[self.ret]
        return f"Except PyErr ({r} × ParserState)" if self.mutates else f"Except PyErr ({r})"

    def ok_return(self, code):
        if self.mutates:
            return f".ok ({code}, {self.env['self'][0]})"
        return f".ok {code}"

    def wrap(self, binds, inner, pad):
        for var, mcode, lets in reversed(binds):
            letcode = "".join(f"{pad}let {a} := {b};\n" for a, b in lets)
            inner = f"{pad}Except.bind ({mcode}) (fun {var} =>\n{letcode}{inner})"
        return inner

    def push_bind(self, var, mcode, lets=()):
        if self.in_shortcircuit:
            raise Untranslatable("an operand that may raise or mutate inside a short-circuit operator")
        self.binds.append((var, mcode, list(lets)))

    @staticmethod
    def is_str(ty):
        return ty == "str" or ty.startswith("strlit:")

    # ------------------------------------------------------------------ expressions
    def expr(self, e):
        if isinstance(e, ast.Constant):
            v = e.value
            if v is True or v is False:
                return ("true" if v else "false"), "bool"
            if v is None:
                return "none", "none"
            if isinstance(v, str):
                return lean_chars(v), ("strlit:" + v)
            if isinstance(v, int):
                return f"({v} : Int)", "int"
            raise Untranslatable(f"constant {v!r}")
        if isinstance(e, ast.Name):
            if e.id in self.env:
                return self.env[e.id]
            if e.id in self.consts["tokensets"]:
                return self.consts["tokensets"][e.id], "nat"
            raise Untranslatable(f"name {e.id}")
        if isinstance(e, ast.Attribute):
            if isinstance(e.value, ast.Name) and e.value.id == "TOKEN_TYPES":
                if e.attr in self.consts["token_types"]:
                    return self.consts["token_types"][e.attr], "nat"
                raise Untranslatable(f"TOKEN_TYPES.{e.attr}")
            c, ty = self.expr(e.value)
            if ty in RECORDS and e.attr in RECORDS[ty]:
                return f"{c}.{e.attr}", RECORDS[ty][e.attr]
            raise Untranslatable(f"attribute .{e.attr} of {ty}")
        if isinstance(e, ast.Subscript):
            # self.tokenizer.functions[name]
            v = e.value
            if (isinstance(v, ast.Attribute) and v.attr == "functions" and isinstance(v.value, ast.Attribute)
                    and v.value.attr == "tokenizer" and isinstance(v.value.value, ast.Name) and v.value.value.id == "self"):
                k, kty = self.expr(e.slice)
                if not self.is_str(kty):
                    raise Untranslatable("function table key")
                r = self.new("fn")
                self.push_bind(r, f"dictGet {self.consts['function_table']} {k}")
                return r, "uop"
            c, ty = self.expr(v)
            if isinstance(e.slice, ast.Slice):
                if ty == "toklist" and e.slice.lower is None and e.slice.upper is None and e.slice.step is None:
                    return c, "toklist"          # l[:] : a copy (lists are values here)
                raise Untranslatable("slice form")
            i, ity = self.expr(e.slice)
            if isinstance(e.slice, ast.UnaryOp) and isinstance(e.slice.op, ast.USub) and isinstance(e.slice.operand, ast.Constant):
                i, ity = f"(-{e.slice.operand.value} : Int)", "int"
            if ty == "exprlist" and ity == "int":
                r = self.new("item")
                self.push_bind(r, f"listIdx {c} {i}")
                return r, "expr"
            raise Untranslatable(f"subscript of {ty}")
        if isinstance(e, ast.UnaryOp) and isinstance(e.op, ast.USub):
            c, ty = self.expr(e.operand)
            if ty == "num":
                return f"(-{c})", "num"
            if ty == "int":
                return f"(-{c})", "int"
            raise Untranslatable(f"negation of {ty}")
        if isinstance(e, ast.UnaryOp) and isinstance(e.op, ast.Not):
            return f"(!{self.truth(e.operand)})", "bool"
        if isinstance(e, ast.BoolOp):
            first = self.truth(e.values[0])
            self.in_shortcircuit += 1
            try:
                rest = [self.truth(v) for v in e.values[1:]]
            finally:
                self.in_shortcircuit -= 1
            op = " && " if isinstance(e.op, ast.And) else " || "
            return "(" + op.join([first] + rest) + ")", "bool"
        if isinstance(e, ast.Compare) and len(e.ops) == 1:
            return self.compare(e.ops[0], e.left, e.comparators[0])
        if isinstance(e, ast.JoinedStr):
            parts = []
            for v in e.values:
                if isinstance(v, ast.Constant) and isinstance(v.value, str):
                    parts.append(lean_chars(v.value))
                elif isinstance(v, ast.FormattedValue) and v.conversion == -1 and v.format_spec is None:
                    c, ty = self.expr(v.value)
                    if not self.is_str(ty):
                        raise Untranslatable(f"formatting a {ty}")
                    parts.append(c)
                else:
                    raise Untranslatable("f-string part")
            return "(" + " ++ ".join(parts or ["[]"]) + ")", "str"
        if isinstance(e, ast.Call):
            return self.call(e)
        raise Untranslatable(type(e).__name__)

    def compare(self, op, l, r):
        a, aty = self.expr(l)
        b, bty = self.expr(r)
        if isinstance(op, (ast.Is, ast.IsNot)):
            pos = isinstance(op, ast.Is)
            if aty == "bool" and bty == "bool":
                return (f"({a} == {b})" if pos else f"({a} != {b})"), "bool"
            if bty == "none" and aty == "optexpr":
                return (f"(Option.isNone {a})" if pos else f"(Option.isSome {a})"), "bool"
            if bty == "none" and aty in ("expr", "uop", "toklist"):
                return ("false" if pos else "true"), "bool"     # an object is never None
            raise Untranslatable(f"`is` on {aty}, {bty}")
        sym = {ast.Eq: "==", ast.NotEq: "!=", ast.Gt: ">", ast.GtE: "≥", ast.Lt: "<", ast.LtE: "≤"}.get(type(op))
        if sym is None:
            raise Untranslatable(f"comparison {type(op).__name__}")
        if sym in ("==", "!="):
            if aty == bty and aty in ("nat", "int", "bool", "char"):
                return f"({a} {sym} {b})", "bool"
            if self.is_str(aty) and self.is_str(bty):
                return f"({a} {sym} {b})", "bool"
        elif aty == "int" and bty == "int":
            return f"(decide ({a} {sym} {b}))", "bool"
        raise Untranslatable(f"comparison {sym} on {aty}, {bty}")

    def truth(self, e):
        c, ty = self.expr(e)
        if ty == "bool":
            return c
        if ty == "optexpr":
            return f"(Option.isSome {c})"        # an expression object is truthy, None is not
        if ty == "expr":
            return "true"
        if self.is_str(ty) or ty in ("toklist", "exprlist"):
            return f"(strTruthy {c})"
        if ty == "int":
            return f"(intTruthy {c})"
        raise Untranslatable(f"truth value of {ty}")

    def as_expr(self, c, ty):
        """an argument position that needs an expression object"""
        if ty == "expr":
            return c
        if ty == "optexpr":
            r = self.new("e")
            self.push_bind(r, f"optUse {c}")
            return r
        raise Untranslatable(f"{ty} used as an expression")

    def call(self, e):
        f = e.func
        if isinstance(f, ast.Name):
            if f.id == "str" and len(e.args) == 1 and not e.keywords:
                c, ty = self.expr(e.args[0])
                if self.is_str(ty):
                    return c, "str"
                raise Untranslatable(f"str() of {ty}")
            if f.id == "len" and len(e.args) == 1:
                c, ty = self.expr(e.args[0])
                if self.is_str(ty) or ty in ("toklist", "exprlist"):
                    return f"(strLen {c})", "int"
                raise Untranslatable(f"len of {ty}")
            if f.id == "Token" and len(e.args) == 2 and not e.keywords:
                a, aty = self.expr(e.args[0])
                b, bty = self.expr(e.args[1])
                if not self.is_str(aty) or bty != "nat":
                    raise Untranslatable("Token arguments")
                return f"(Token.mk {a} {b})", "token"
            if f.id == "coerce_to_number" and len(e.args) == 1:
                a, aty = self.expr(e.args[0])
                if not self.is_str(aty):
                    raise Untranslatable("coerce_to_number argument")
                r = self.new("num")
                self.push_bind(r, f"pyCoerceToNumber {a}")
                return r, "num"
            if f.id in BIN_CTORS and len(e.args) == 2 and not e.keywords:
                a, aty = self.expr(e.args[0])
                a = self.as_expr(a, aty)
                b, bty = self.expr(e.args[1])
                b = self.as_expr(b, bty)
                return f"(Ex.bin 0 {BIN_CTORS[f.id]} {a} {b})", "expr"
            if f.id in UN_CTORS and len(e.args) == 1 and not e.keywords:
                a, aty = self.expr(e.args[0])
                a = self.as_expr(a, aty)
                return f"(Ex.un 0 {UN_CTORS[f.id]} {a})", "expr"
            if f.id == "ConstantExpression" and len(e.args) == 1:
                a, aty = self.expr(e.args[0])
                if aty != "num":
                    raise Untranslatable(f"ConstantExpression({aty})")
                return f"(Ex.const 0 {a})", "expr"
            if f.id == "VariableExpression" and len(e.args) == 1:
                a, aty = self.expr(e.args[0])
                if not self.is_str(aty):
                    raise Untranslatable("VariableExpression argument")
                return f"(pyVariable {a})", "expr"
            if f.id in self.env and self.env[f.id][1] == "uop" and len(e.args) == 1:
                a, aty = self.expr(e.args[0])
                a = self.as_expr(a, aty)
                return f"(Ex.un 0 {self.env[f.id][0]} {a})", "expr"
            raise Untranslatable(f"call of {f.id}")
        if isinstance(f, ast.Attribute):
            # tokens.contains(type) on a TokenSet-valued parameter
            if f.attr == "contains" and len(e.args) == 1:
                c, ty = self.expr(f.value)
                a, aty = self.expr(e.args[0])
                if ty == "nat" and aty == "nat":
                    return f"(TokenSet_contains {c} {a})", "bool"
                raise Untranslatable("contains")
            # <list local or field>.pop(0)
            if f.attr == "pop" and len(e.args) == 1 and isinstance(e.args[0], ast.Constant) and e.args[0].value == 0:
                return self.pop0(f.value)
            if isinstance(f.value, ast.Name) and f.value.id == "self" and f.attr in self.sigs:
                return self.self_call(f.attr, e)
        raise Untranslatable("call form")

    def pop0(self, target):
        r = self.new("p")
        if isinstance(target, ast.Name) and target.id in self.env and self.env[target.id][1] == "exprlist":
            old, ty = self.env[target.id]
            new = self.new(target.id)
            item = self.new("item")
            self.push_bind(r, f"listPop0 {old}", [(item, f"{r}.1"), (new, f"{r}.2")])
            self.env[target.id] = (new, ty)
            return item, "expr"
        if (isinstance(target, ast.Attribute) and isinstance(target.value, ast.Name) and target.value.id in self.env
                and self.env[target.value.id][1] in RECORDS):
            obj = target.value.id
            old, oty = self.env[obj]
            fty = RECORDS[oty].get(target.attr)
            if fty != "toklist":
                raise Untranslatable("pop(0) of a non-list field")
            new = self.new(obj)
            item = self.new("item")
            self.push_bind(r, f"listPop0 {old}.{target.attr}",
                           [(item, f"{r}.1"), (new, f"{{ {old} with {target.attr} := {r}.2 }}")])
            self.env[obj] = (new, oty)
            return item, "token"
        raise Untranslatable("pop(0) target")

    def self_call(self, name, e):
        fn, lean, extra, rty, mutates, fuelled = self.sigs[name]
        if e.keywords or len(e.args) > len(extra):
            raise Untranslatable(f"arguments of {name}")
        args = []
        if fuelled:
            if self.fuel_var is not None:
                args.append(self.fuel_var)
            elif self.fn in ENTRY_FUEL:
                args.append(ENTRY_FUEL[self.fn].format(**{py: l for py, (l, _t) in self.env.items()}))
            else:
                raise Untranslatable(f"call of the fuelled {name} without fuel")
        self_code = self.env["self"][0]
        rest = []
        for i, (py, ty, default) in enumerate(extra):
            if i < len(e.args):
                c, aty = self.expr(e.args[i])
                if aty != ty:
                    raise Untranslatable(f"argument {py} of {name}: {aty} for {ty}")
                rest.append(c)
            elif default is not None:
                rest.append(default)
            else:
                raise Untranslatable(f"missing argument {py} of {name}")
        self_code = self.env["self"][0]       # arguments are evaluated first; they do not mutate self here
        code = "(" + " ".join([lean] + args + [self_code] + rest) + ")"
        if mutates:
            r = self.new("r")
            v = self.new("v")
            ns = self.new("self")
            self.push_bind(r, code, [(v, f"{r}.1"), (ns, f"{r}.2")])
            self.env["self"] = (ns, "pstate")
            return v, rty
        v = self.new("v")
        self.push_bind(v, code)
        return v, rty

    # ------------------------------------------------------------------ statement analysis
    def assigned_names(self, stmts):
        """python names (locals and record locals) that the statements may re-bind"""
        out = []

        def add(n):
            if n not in out:
                out.append(n)
        for s in stmts:
            for n in ast.walk(s):
                if isinstance(n, (ast.Assign, ast.AnnAssign, ast.AugAssign)):
                    targets = n.targets if isinstance(n, ast.Assign) else [n.target]
                    for t in targets:
                        if isinstance(t, ast.Name):
                            add(t.id)
                        elif isinstance(t, ast.Attribute) and isinstance(t.value, ast.Name):
                            add(t.value.id)
                        elif isinstance(t, ast.Subscript) and isinstance(t.value, ast.Name):
                            add(t.value.id)
                if isinstance(n, ast.Call) and isinstance(n.func, ast.Attribute):
                    fv = n.func.value
                    if n.func.attr in ("append", "pop"):
                        if isinstance(fv, ast.Name):
                            add(fv.id)
                        elif isinstance(fv, ast.Attribute) and isinstance(fv.value, ast.Name):
                            add(fv.value.id)
                    if isinstance(fv, ast.Name) and fv.id == "self" and n.func.attr in self.sigs and self.sigs[n.func.attr][4]:
                        add("self")
        return out

    @staticmethod
    def has_return(stmts):
        return any(isinstance(n, ast.Return) for s in stmts for n in ast.walk(s))

    def terminal(self, stmts):
        """every path through the statements ends in return or raise"""
        for s in stmts:
            if isinstance(s, (ast.Return, ast.Raise)):
                return True
            if isinstance(s, ast.If) and s.orelse and self.terminal(s.body) and self.terminal(s.orelse):
                return True
        return False

    def calls_fuelled(self, nodes):
        for s in nodes:
            for n in ast.walk(s):
                if (isinstance(n, ast.Call) and isinstance(n.func, ast.Attribute) and isinstance(n.func.value, ast.Name)
                        and n.func.value.id == "self" and n.func.attr in self.sigs and self.sigs[n.func.attr][5]):
                    return True
        return False

    def only_in_raise(self, name, body):
        """is the local `name` read only inside the arguments of raise statements?"""
        inside = set()
        for n in ast.walk(ast.Module(body=body, type_ignores=[])):
            if isinstance(n, ast.Raise):
                for m in ast.walk(n):
                    if isinstance(m, ast.Name) and m.id == name:
                        inside.add(id(m))
        for n in ast.walk(ast.Module(body=body, type_ignores=[])):
            if isinstance(n, ast.Name) and n.id == name and isinstance(n.ctx, ast.Load) and id(n) not in inside:
                return False
        return True

    # ------------------------------------------------------------------ statements
    def tuple_of(self, names):
        codes = [self.env[n][0] for n in names]
        return codes[0] if len(codes) == 1 else "(" + ", ".join(codes) + ")"

    def tuple_type(self, names):
        tys = [TY_LEAN[self.env[n][1]] for n in names]
        return tys[0] if len(tys) == 1 else "(" + " × ".join(tys) + ")"

    def rebind_tuple(self, names, r, pad):
        """lets that re-bind `names` from the tuple value r; updates env"""
        lets = ""
        proj = r
        for i, n in enumerate(names):
            new = self.new(n)
            if len(names) == 1:
                code = r
            elif i == len(names) - 1:
                code = proj
            else:
                code = proj + ".1"
                proj = proj + ".2"
            lets += f"{pad}let {new} := {code};\n"
            self.env[n] = (new, self.env[n][1])
        return lets

    def assign_value(self, name, c, ty):
        """value and type stored in local `name` when assigned a value of type ty"""
        if ty.startswith("strlit:"):
            ty = "str"
        if name in self.env:
            old_ty = self.env[name][1]
            if old_ty == ty:
                return c, ty
            if old_ty == "optexpr" and ty == "expr":
                return f"(some {c})", "optexpr"
            if old_ty == "optexpr" and ty == "none":
                return "(none : Option Ex)", "optexpr"
            if old_ty == "num" and ty == "int":
                return f"(({c} : Int) : Rat)", "num"
            raise Untranslatable(f"re-assignment of {name}: {old_ty} := {ty}")
        return c, ty

    def block(self, stmts, k, ind, body_all):
        pad = "  " * ind
        if not stmts:
            return k(ind)
        s, rest = stmts[0], stmts[1:]
        mark = len(self.binds)

        def finish(inner):
            binds = self.binds[mark:]
            del self.binds[mark:]
            return self.wrap(binds, inner, pad)

        if isinstance(s, ast.Expr) and isinstance(s.value, ast.Constant):
            return self.block(rest, k, ind, body_all)
        if isinstance(s, (ast.Pass, ast.Assert)):
            return self.block(rest, k, ind, body_all)
        if isinstance(s, ast.Return):
            if self.ret_override is not None:
                raise Untranslatable("return inside a loop or join")
            c, ty = self.expr(s.value)
            if self.ret == "expr":
                c = self.as_expr(c, ty)
            elif ty != self.ret:
                raise Untranslatable(f"return of {ty} in a function returning {self.ret}")
            return finish(pad + self.ok_return(c))
        if isinstance(s, ast.Raise):
            exc = s.exc
            if isinstance(exc, ast.Call) and isinstance(exc.func, ast.Name) and exc.func.id in PARSER_EXC:
                return f"{pad}.error .{exc.func.id}"
            raise Untranslatable("raise form")
        if isinstance(s, ast.Expr) and isinstance(s.value, ast.Call):
            call = s.value
            f = call.func
            if isinstance(f, ast.Attribute) and f.attr == "append" and len(call.args) == 1 and isinstance(f.value, ast.Name) \
                    and f.value.id in self.env and self.env[f.value.id][1] == "exprlist":
                c, ty = self.expr(call.args[0])
                c = self.as_expr(c, ty)
                old, lty = self.env[f.value.id]
                new = self.new(f.value.id)
                self.env[f.value.id] = (new, lty)
                return finish(f"{pad}let {new} := ({old} ++ [{c}]);\n" + self.block(rest, k, ind, body_all))
            self.expr(call)          # for its effect
            return finish(self.block(rest, k, ind, body_all))
        if isinstance(s, (ast.Assign, ast.AnnAssign)):
            if isinstance(s, ast.Assign):
                if len(s.targets) != 1:
                    raise Untranslatable("multiple targets")
                target, value = s.targets[0], s.value
            else:
                target, value = s.target, s.value
                if value is None:
                    return self.block(rest, k, ind, body_all)
            if isinstance(target, ast.Attribute) and isinstance(target.value, ast.Name) and target.value.id in self.env:
                obj = target.value.id
                old, oty = self.env[obj]
                if (oty, target.attr) in GHOST_FIELDS:
                    return self.block(rest, k, ind, body_all)
                fty = RECORDS.get(oty, {}).get(target.attr)
                if fty is None:
                    raise Untranslatable(f"field {target.attr}")
                c, ty = self.expr(value)
                if ty != fty:
                    raise Untranslatable(f"field of type {fty} assigned a {ty}")
                old = self.env[obj][0]
                new = self.new(obj)
                self.env[obj] = (new, oty)
                return finish(f"{pad}let {new} := {{ {old} with {target.attr} := {c} }};\n" + self.block(rest, k, ind, body_all))
            if isinstance(target, ast.Subscript) and isinstance(target.value, ast.Name) and target.value.id in self.env \
                    and self.env[target.value.id][1] == "exprlist":
                idx = target.slice
                if isinstance(idx, ast.UnaryOp) and isinstance(idx.op, ast.USub) and isinstance(idx.operand, ast.Constant):
                    i = f"(-{idx.operand.value} : Int)"
                else:
                    i, ity = self.expr(idx)
                    if ity != "int":
                        raise Untranslatable("list index")
                c, ty = self.expr(value)
                c = self.as_expr(c, ty)
                old, lty = self.env[target.value.id]
                new = self.new(target.value.id)
                self.push_bind(new, f"listSet {old} {i} {c}")
                self.env[target.value.id] = (new, lty)
                return finish(self.block(rest, k, ind, body_all))
            if not isinstance(target, ast.Name):
                raise Untranslatable("assignment target")
            if target.id not in self.env and self.only_in_raise(target.id, body_all):
                return self.block(rest, k, ind, body_all)     # only used to format an exception message
            if isinstance(value, ast.List) and not value.elts:
                c, ty = "([] : List Ex)", "exprlist"
            else:
                c, ty = self.expr(value)
            if ty == "none" and target.id not in self.env:
                c, ty = "(none : Option Ex)", "optexpr"
            if (isinstance(s, ast.AnnAssign) and isinstance(s.annotation, ast.Name) and s.annotation.id == "NumberType"
                    and ty == "int"):
                c, ty = f"(({c} : Int) : Rat)", "num"
            c, ty = self.assign_value(target.id, c, ty)
            new = self.new(target.id)
            self.env[target.id] = (new, ty)
            return finish(f"{pad}let {new} := {c};\n" + self.block(rest, k, ind, body_all))
        if isinstance(s, ast.If):
            cond = self.truth(s.test)
            if self.terminal(s.body) or (s.orelse and self.terminal(s.orelse)) or self.has_return(list(s.body) + list(s.orelse)):
                saved = dict(self.env)
                a = self.block(list(s.body) + ([] if self.terminal(s.body) else rest), k, ind + 1, body_all)
                self.env = dict(saved)
                b = self.block(list(s.orelse) + ([] if (s.orelse and self.terminal(s.orelse)) else rest), k, ind + 1, body_all)
                self.env = saved
                return finish(f"{pad}if {cond} then (\n{a})\n{pad}else (\n{b})")
            # join: both branches fall through; the variables they assign are returned as a tuple
            names = [n for n in self.assigned_names(list(s.body) + list(s.orelse)) if n in self.env]
            if not names:
                raise Untranslatable("if without effect")
            saved_env = dict(self.env)
            saved_override = self.ret_override
            self.ret_override = names

            def out(ind2):
                return "  " * ind2 + f"(.ok {self.tuple_of(names)} : Except PyErr {self.tuple_type(names)})"
            a = self.block(list(s.body), out, ind + 2, body_all)
            self.env = dict(saved_env)
            b = self.block(list(s.orelse), out, ind + 2, body_all)
            self.env = dict(saved_env)
            self.ret_override = saved_override
            r = self.new("j")
            lets = self.rebind_tuple(names, r, pad)
            inner = self.block(rest, k, ind, body_all)
            return finish(f"{pad}Except.bind (\n{pad}  if {cond} then (\n{a})\n{pad}  else (\n{b})) (fun {r} =>\n{lets}{inner})")
        if isinstance(s, ast.While):
            return self.while_loop(s, rest, k, ind, body_all, finish)
        raise Untranslatable(type(s).__name__)

    def while_loop(self, s, rest, k, ind, body_all, finish_outer):
        pad = "  " * ind
        if s.orelse or self.has_return(s.body):
            raise Untranslatable("while form")
        self.loops += 1
        ordinal = self.loops
        global_fuel = self.calls_fuelled(list(s.body) + [s.test])
        names = list(self.env)
        carried = [n for n in self.assigned_names(list(s.body) + [ast.Expr(value=s.test)]) if n in self.env]
        name = f"{self.lean}_while{ordinal}"
        outer_env = dict(self.env)
        outer_fuel = self.fuel_var
        if global_fuel:
            if self.fuel_var is None:
                raise Untranslatable("a loop calling fuelled functions in a function without fuel")
            fuel_arg = self.fuel_var
        else:
            hint = LOCAL_FUEL.get((self.fn, ordinal))
            if hint is None:
                raise Untranslatable("while loop without a fuel expression")
            fuel_arg = "(" + hint.format(**{py: l for py, (l, _t) in self.env.items()}) + ")"
        call_args = [self.env[n][0] for n in names]
        # inside the loop function: fresh parameter names
        params = []
        for n in names:
            l = self.new(n)
            params.append((l, self.env[n][1]))
            self.env[n] = (l, self.env[n][1])
        fuel = self.new("fuel")
        self.fuel_var = fuel if global_fuel else None
        saved_override = self.ret_override
        self.ret_override = carried
        saved_binds = self.binds
        self.binds = []
        carried_type = self.tuple_type(carried)
        mark_env = dict(self.env)
        cond = self.truth(s.test)
        cond_binds = self.binds
        self.binds = []
        after_cond_env = dict(self.env)

        def again(ind2):
            return "  " * ind2 + "(" + " ".join([name, fuel] + [self.env[n][0] for n in names]) + ")"
        body_code = self.block(list(s.body), again, 3, body_all)
        self.env = dict(after_cond_env)
        exit_code = f"      (.ok {self.tuple_of(carried)} : Except PyErr {carried_type})"
        step = self.wrap(cond_binds, f"    if {cond} then (\n{body_code})\n    else (\n{exit_code})", "    ")
        sig = " → ".join(["Nat"] + [TY_LEAN[t] for _l, t in params] + [f"Except PyErr {carried_type}"])
        pats = ", ".join(l for l, _t in params)
        under = ", ".join("_" for _ in params)
        text = f"def {name} : {sig}\n  | 0, {under} => .error .OutOfFuel\n  | {fuel} + 1, {pats} =>\n{step}\n"
        (self.aux_mutual if global_fuel else self.aux_before).append(text)
        self.binds = saved_binds
        self.ret_override = saved_override
        self.fuel_var = outer_fuel
        self.env = outer_env
        r = self.new("w")
        lets = self.rebind_tuple(carried, r, pad)
        inner = self.block(rest, k, ind, body_all)
        return (f"{pad}Except.bind (" + " ".join([name, fuel_arg] + call_args) + f") (fun {r} =>\n{lets}{inner})")

    def translate(self, node):
        def fall_off(ind):
            raise Untranslatable("falling off the end of the function (returns None)")
        body_all = list(node.body)
        body = self.block(body_all, fall_off, 2 if self.fuelled else 1, body_all)
        tys = [TY_LEAN[t] for _p, t, _d in self.extra]
        if self.fuelled:
            sig = " → ".join(["Nat", "ParserState"] + tys + [self.fn_ret_lean()])
            pats = ", ".join(["self_"] + [p + "_" for p, _t, _d in self.extra])
            under = ", ".join(["_"] * (1 + len(self.extra)))
            text = f"def {self.lean} : {sig}\n  | 0, {under} => .error .OutOfFuel\n  | fuel + 1, {pats} =>\n{body}\n"
        else:
            sig = " ".join(["(self_ : ParserState)"] + [f"({p}_ : {TY_LEAN[t]})" for p, t, _d in self.extra])
            text = f"def {self.lean} {sig} : {self.fn_ret_lean()} :=\n{body}\n"
        return text


UOP_OF_CLASS = {"SgnExpression": ".sgn", "AbsExpression": ".abs"}

# The caching front of the parser: three short methods and the constructor.  They must be, statement for
# statement, the code quoted here (compared as syntax trees; docstrings and annotations aside); the Lean text
# below is the translation of exactly that code (dicts as association lists, `[:]` = handing out a value).
CACHE_TEMPLATES = {
    "__init__": """
def __init__(self):
    self.tokenizer = Tokenizer()
    self.clear_cache()
""",
    "clear_cache": """
def clear_cache(self):
    self._tokens_cache = {}
    self._parse_cache = {}
""",
    "tokenize": """
def tokenize(self, input_text):
    if input_text not in self._tokens_cache:
        self._tokens_cache[input_text] = self.tokenizer.tokenize(input_text)
    return self._tokens_cache[input_text][:]
""",
    "parse": """
def parse(self, input_text):
    if input_text in self._parse_cache:
        return self._parse_cache[input_text]
    self._parse_cache[input_text] = self._parse(self.tokenize(input_text))
    return self._parse_cache[input_text]
""",
}
CACHE_LEAN = """/-- `parser.py`: `ExpressionParser.clear_cache` -/
def ExpressionParser_clear_cache (self_ : ParserObj) : ParserObj :=
  { self_ with tokens_cache := [], parse_cache := [] }

/-- `parser.py`: `ExpressionParser.__init__` (`Tokenizer()` = `exclude_padding=True`; then `clear_cache()`) -/
def ExpressionParser_init : ParserObj :=
  ExpressionParser_clear_cache { core := ⟨[], ⟨[], 0⟩⟩, tokens_cache := [], parse_cache := [] }

/-- `parser.py`: `ExpressionParser.tokenize`.  Result AND object afterwards (an exception leaves the object as it
is at that point: the tokenizer raises before the cache is written) -/
def ExpressionParser_tokenize (self_ : ParserObj) (input_text : List Char) : Except PyErr (List Token) × ParserObj :=
  if (!(pyDictHas self_.tokens_cache input_text)) then (
    match Tokenizer_tokenize true input_text with
    | .error e => (.error e, self_)
    | .ok v_1 =>
      let self_2 := { self_ with tokens_cache := pyDictSet self_.tokens_cache input_text v_1 };
      (dictGet self_2.tokens_cache input_text, self_2))
  else (
    (dictGet self_.tokens_cache input_text, self_))

/-- `parser.py`: `ExpressionParser.parse`.  Result AND object afterwards.  When `_parse` raises, the parsing
fields `tokens` / `current_token` are left wherever the failure occurred: the translation keeps the old ones,
and the history theorem (`Src_history_independent`) lets them be ARBITRARY before every call. -/
def ExpressionParser_parse (self_ : ParserObj) (input_text : List Char) : Except PyErr Ex × ParserObj :=
  if (pyDictHas self_.parse_cache input_text) then (
    (dictGet self_.parse_cache input_text, self_))
  else (
    let r_2 := ExpressionParser_tokenize self_ input_text;
    let self_3 := r_2.2;
    match r_2.1 with
    | .error e => (.error e, self_3)
    | .ok v_4 =>
      match ExpressionParser__parse self_3.core v_4 with
      | .error e => (.error e, self_3)
      | .ok r_5 =>
        let self_6 := { self_3 with core := r_5.2 };
        let self_7 := { self_6 with parse_cache := pyDictSet self_6.parse_cache input_text r_5.1 };
        (dictGet self_7.parse_cache input_text, self_7))
"""


def _fn_dump(fn):
    body = [s_ for s_ in fn.body if not (isinstance(s_, ast.Expr) and isinstance(s_.value, ast.Constant))]
    return [ast.dump(s_) for s_ in body], [a.arg for a in fn.args.args]


def translate_caches(ptree, ttree):
    """-> (lean text, problems) for clear_cache / __init__ / tokenize / parse of ExpressionParser"""
    problems = []
    try:
        cls = class_def(ptree, "ExpressionParser")
        for name, src in CACHE_TEMPLATES.items():
            fn = method(cls, name)
            if fn.decorator_list:
                raise Untranslatable(f"decorated {name}")
            want = _fn_dump(ast.parse(src.strip()).body[0])
            if _fn_dump(fn) != want:
                raise Untranslatable(f"{name} is not the expected code")
        # Tokenizer() means exclude_padding=True
        tinit = method(class_def(ttree, "Tokenizer"), "__init__")
        args = tinit.args
        if [a.arg for a in args.args] != ["self", "exclude_padding"] or len(args.defaults) != 1 or not (
                isinstance(args.defaults[0], ast.Constant) and args.defaults[0].value is True):
            raise Untranslatable("Tokenizer.__init__ default of exclude_padding")
        return CACHE_LEAN, problems
    except Untranslatable as e:
        problems.append(f"parser.py:caches: {e}")
        return f"/- UNTRANSLATABLE parser.py: caches: {e} -/\n", problems


def translate_parser(repo=None):
    """-> (lean text, problems)"""
    repo = repo or core.REPO
    out, problems = [], []
    try:
        ptree = ast.parse(open(os.path.join(repo, "mathy_core", "parser.py")).read())
        ttree = ast.parse(open(os.path.join(repo, "mathy_core", "tokenizer.py")).read())
    except (OSError, SyntaxError) as e:
        return f"/- UNTRANSLATABLE parser.py: {e} -/\n", [f"parser.py: {type(e).__name__}: {e}"]
    consts = {"tokensets": {}, "token_types": {}, "function_table": "Tokenizer_function_table"}
    try:
        for s in class_def(ttree, "TOKEN_TYPES").body:
            if isinstance(s, ast.AnnAssign) and isinstance(s.target, ast.Name) and s.value is not None:
                consts["token_types"][s.target.id] = f"TOKEN_TYPES_{s.target.id}"
        # Tokenizer.functions : name -> expression class
        init = method(class_def(ttree, "Tokenizer"), "__init__")
        table = None
        for s in init.body:
            if (isinstance(s, ast.Assign) and len(s.targets) == 1 and isinstance(s.targets[0], ast.Attribute)
                    and s.targets[0].attr == "functions" and isinstance(s.value, ast.Dict)):
                table = []
                for kk, vv in zip(s.value.keys, s.value.values):
                    if not (isinstance(kk, ast.Constant) and isinstance(kk.value, str) and isinstance(vv, ast.Name)
                            and vv.id in UOP_OF_CLASS):
                        raise Untranslatable("Tokenizer.functions entry")
                    table.append(f"({lean_chars(kk.value)}, Uop{UOP_OF_CLASS[vv.id]})")
        if table is None:
            raise Untranslatable("Tokenizer.functions not found")
        out.append("/-- `tokenizer.py`: `Tokenizer.functions` (name → expression class) -/\n"
                   "def Tokenizer_function_table : List (List Char × Uop) := [" + ", ".join(table) + "]\n")
    except Untranslatable as e:
        problems.append(f"tokenizer.py:functions: {e}")
        out.append(f"/- UNTRANSLATABLE tokenizer.py: functions: {e} -/\n")
    # --- TokenSet
    try:
        ts = class_def(ptree, "TokenSet")
        add = method(ts, "add")
        cont = method(ts, "contains")
        want_add = ast.dump(ast.parse("return TokenSet(self.tokens | addTokens)").body[0])
        want_cont = ast.dump(ast.parse("return (self.tokens & type) != 0").body[0])
        body_add = [s for s in add.body if not (isinstance(s, ast.Expr) and isinstance(s.value, ast.Constant))]
        body_cont = [s for s in cont.body if not (isinstance(s, ast.Expr) and isinstance(s.value, ast.Constant))]
        init = method(ts, "__init__")
        want_init = ast.dump(ast.parse("self.tokens = source").body[0])
        if len(body_add) != 1 or ast.dump(body_add[0]) != want_add:
            raise Untranslatable("TokenSet.add is not `return TokenSet(self.tokens | addTokens)`")
        if len(body_cont) != 1 or ast.dump(body_cont[0]) != want_cont:
            raise Untranslatable("TokenSet.contains is not `return (self.tokens & type) != 0`")
        if len(init.body) != 1 or ast.dump(init.body[0]) != want_init:
            raise Untranslatable("TokenSet.__init__")
        out.append("/-- `parser.py`: `TokenSet.add` (a TokenSet is its bit mask) -/\n"
                   "def TokenSet_add (self_tokens : Nat) (addTokens : Nat) : Nat := (self_tokens ||| addTokens)\n")
        out.append("/-- `parser.py`: `TokenSet.contains` -/\n"
                   "def TokenSet_contains (self_tokens : Nat) (type : Nat) : Bool := ((self_tokens &&& type) != 0)\n")
    except Untranslatable as e:
        problems.append(f"parser.py:TokenSet: {e}")
        out.append(f"/- UNTRANSLATABLE parser.py: TokenSet: {e} -/\n")
    # --- module-level token sets
    def tokset_expr(e):
        if isinstance(e, ast.Name) and e.id in consts["tokensets"]:
            return consts["tokensets"][e.id]
        if isinstance(e, ast.Call) and isinstance(e.func, ast.Name) and e.func.id == "TokenSet" and len(e.args) == 1:
            return mask_expr(e.args[0])
        if isinstance(e, ast.Call) and isinstance(e.func, ast.Attribute) and e.func.attr == "add" and len(e.args) == 1:
            return f"(TokenSet_add {tokset_expr(e.func.value)} {mask_expr(e.args[0])})"
        raise Untranslatable("token set expression")

    def mask_expr(e):
        if isinstance(e, ast.Attribute) and isinstance(e.value, ast.Name) and e.value.id == "TOKEN_TYPES":
            if e.attr not in consts["token_types"]:
                raise Untranslatable(f"TOKEN_TYPES.{e.attr}")
            return consts["token_types"][e.attr]
        if isinstance(e, ast.BinOp) and isinstance(e.op, ast.BitOr):
            return f"({mask_expr(e.left)} ||| {mask_expr(e.right)})"
        raise Untranslatable("mask expression")
    for s in ptree.body:
        if isinstance(s, ast.AnnAssign) and isinstance(s.target, ast.Name) and s.value is not None \
                and isinstance(s.annotation, ast.Name) and s.annotation.id == "TokenSet":
            nm = s.target.id
            try:
                code = tokset_expr(s.value)
                out.append(f"/-- `parser.py`: `{nm}` -/\ndef parser{nm} : Nat := {code}\n")
                consts["tokensets"][nm] = f"parser{nm}"
            except Untranslatable as e:
                problems.append(f"parser.py:{nm}: {e}")
                out.append(f"/- UNTRANSLATABLE parser.py: {nm}: {e} -/\n")
    # --- the methods
    sigs = {spec[0]: spec for spec in P_FUNCTIONS}
    try:
        cls = class_def(ptree, "ExpressionParser")
    except Untranslatable as e:
        return "\n".join(out) + f"\n/- UNTRANSLATABLE parser.py: {e} -/\n", problems + [f"parser.py: {e}"]
    plain, mutual, before = [], [], []
    for spec in P_FUNCTIONS:
        fn, lean = spec[0], spec[1]
        try:
            node = method(cls, fn)
            # the declared parameters must be the ones the table says
            got = [a.arg for a in node.args.args[1:]]
            if got != [p for p, _t, _d in spec[2]]:
                raise Untranslatable(f"parameters {got}")
            tr = PTranslator(spec, sigs, consts)
            text = tr.translate(node)
            doc = f"/-- `parser.py`: `ExpressionParser.{fn}` -/\n"
            before += tr.aux_before
            if spec[5]:
                mutual += tr.aux_mutual
                mutual.append(doc + text)
            else:
                if tr.aux_mutual:
                    raise Untranslatable("fuelled loop in a function without fuel")
                plain.append((fn, tr.aux_before, doc + text))
        except (Untranslatable, KeyError) as e:
            problems.append(f"parser.py:{fn}: {type(e).__name__}: {e}")
            out.append(f"/- UNTRANSLATABLE parser.py: {fn}: {e} -/\n")
    # order: primitives (next, eat, check), local loops, the mutual block, then _parse
    entry = [p for p in plain if p[0] == "_parse"]
    prims = [p for p in plain if p[0] != "_parse"]
    entry_aux = [a for p in entry for a in p[1]]
    for fn, aux, text in prims:
        out += aux
        out.append(text)
    out += [b for b in before if b not in entry_aux and all(b not in p[1] for p in prims)]
    if mutual:
        out.append("mutual\n\n" + "\n".join(mutual) + "\nend\n")
    for fn, aux, text in entry:
        out += aux
        out.append(text)
    ctext, cproblems = translate_caches(ptree, ttree)
    out.append(ctext)
    problems += cproblems
    return "\n".join(out), problems


if __name__ == "__main__":
    t, p = translate_parser()
    print(t)
    print(p)
