"""Differential execution of tokenizer and parser (implementation vs Lean model) and the
grammar oracle of C03: an independent evaluator written from the documented grammar."""
import itertools
import multiprocessing as mp
from fractions import Fraction

from . import core
from .core import P, X

from mathy_core import tokenizer as T  # noqa: E402

TT_NAMES = {
    T.TOKEN_TYPES.Constant: "Constant", T.TOKEN_TYPES.Variable: "Variable", T.TOKEN_TYPES.Plus: "Plus",
    T.TOKEN_TYPES.Minus: "Minus", T.TOKEN_TYPES.Multiply: "Multiply", T.TOKEN_TYPES.Divide: "Divide",
    T.TOKEN_TYPES.Exponent: "Exponent", T.TOKEN_TYPES.Factorial: "Factorial",
    T.TOKEN_TYPES.OpenParen: "OpenParen", T.TOKEN_TYPES.CloseParen: "CloseParen",
    T.TOKEN_TYPES.Function: "Function", T.TOKEN_TYPES.Equal: "Equal", T.TOKEN_TYPES.Pad: "Pad",
    T.TOKEN_TYPES.EOF: "EOF", T.TOKEN_TYPES.Invalid: "Invalid",
}

PARSE_EXC = ("InvalidExpression", "OutOfTokens", "InvalidSyntax", "UnexpectedBehavior", "TrailingTokens")


def text_wire(s):
    return "-" if s == "" else ",".join(str(ord(c)) for c in s)


def classify_value_error(e):
    msg = str(e)
    if msg.startswith('Invalid token "'):
        return ("badchar", ord(msg[len('Invalid token "')]))
    return ("perr", "ValueError:number")


class _TimeUp(BaseException):
    """the implementation did not return within the per-input time limit"""


class time_limit:
    """per-input watchdog (main thread of the calling process): tokenizing or parsing one short input takes
    microseconds; an input that keeps the implementation busy for seconds OF CPU TIME is reported as
    non-termination (`internal: Timeout`) instead of hanging the check.  The timer counts the CPU time of
    this process (ITIMER_VIRTUAL / SIGVTALRM), not wall-clock time: a machine busy with other work cannot
    make an ordinary input look like a hang, and the check's own wall-clock budget (SIGALRM) is a
    different timer."""

    def __init__(self, seconds):
        self.seconds = seconds

    def __enter__(self):
        import signal
        self.signal = signal

        def on_alarm(signum, frame):
            raise _TimeUp()
        try:
            self.old = signal.signal(signal.SIGVTALRM, on_alarm)
            signal.setitimer(signal.ITIMER_VIRTUAL, self.seconds)
            self.armed = True
        except ValueError:      # not in the main thread: no watchdog
            self.armed = False
        return self

    def __exit__(self, *exc):
        if self.armed:
            self.signal.setitimer(self.signal.ITIMER_VIRTUAL, 0)
            self.signal.signal(self.signal.SIGVTALRM, self.old)
        return False


_TIMEOUTS = [0]


def _limit_for(text):
    # once several inputs of this process have timed out the implementation is already known not to
    # terminate; the remaining inputs get a short limit so that the check still finishes and reports
    if _TIMEOUTS[0] >= 4:
        return 0.25 + len(text) / 5000.0
    return 2.0 + len(text) / 1000.0


def impl_tok(text, pad, _retry=True):
    try:
        with time_limit(_limit_for(text) * (1 if _retry else 5)):
            toks = T.Tokenizer(exclude_padding=not pad).tokenize(text)
    except _TimeUp:
        if _retry and _TIMEOUTS[0] < 4:
            return impl_tok(text, pad, _retry=False)      # confirm with five times the limit
        _TIMEOUTS[0] += 1
        return ("internal", "Timeout")
    except ValueError as e:
        return classify_value_error(e)
    except Exception as e:  # noqa
        return ("internal", type(e).__name__)
    return ("toks", [(TT_NAMES.get(t.type, str(t.type)), t.value) for t in toks])


def impl_parse(text, _retry=True):
    try:
        with time_limit(_limit_for(text) * (1 if _retry else 5)):
            tree = P.ExpressionParser().parse(text)
    except _TimeUp:
        if _retry and _TIMEOUTS[0] < 4:
            return impl_parse(text, _retry=False)      # confirm with five times the limit
        _TIMEOUTS[0] += 1
        return ("internal", "Timeout")
    except P.ParserException as e:
        name = type(e).__name__
        return ("perr", name if name in PARSE_EXC else "internal:" + name)
    except ValueError as e:
        return classify_value_error(e)
    except RecursionError:
        return ("internal", "RecursionError")
    except Exception as e:  # noqa
        return ("internal", type(e).__name__)
    # converting a very deep tree must not be limited by (nor change) the interpreter's
    # recursion limit that the implementation itself ran under
    import sys
    old = sys.getrecursionlimit()
    try:
        sys.setrecursionlimit(1000000)
        return ("ok", core.to_tuple(tree))
    except core.Unmodelled as u:
        return ("unmodelled", str(u))
    finally:
        sys.setrecursionlimit(old)


def model_tok_answer(ans):
    toks = ans.split()
    if toks[0] == "badchar":
        return ("badchar", int(toks[1]))
    out = []
    for t in toks[1:]:
        ty, v = t.split(":")
        out.append((ty, "" if v == "-" else "".join(chr(int(c)) for c in v.split(","))))
    return ("toks", out)


def model_parse_answer(ans):
    toks = ans.split()
    if toks[0] == "ok":
        return ("ok", core.wire_to_tuple(toks, 1)[0])
    if toks[0] == "perr":
        return ("perr", toks[1])
    if toks[0] == "badchar":
        return ("badchar", int(toks[1]))
    return ("bad", ans)


# --------------------------------------------------------------------------- grammar oracle
# Value of a string according to the documented grammar and order of operations, written as a
# direct evaluator (no tree):  '=' < '+ -' < '* /' (left to right) < '^' < unary minus <
# juxtaposition (an exponent after a run of factors binds to the last factor only) < factorial
# of a literal, functions, parentheses; '-' directly before a literal makes a negative literal.
# Returns ('reject',) when the grammar does not derive the string, else ('ok', value|'undef'|'unequal').


class Reject(Exception):
    pass


class Undef(Exception):
    pass


class Unequal(Exception):
    pass


def _lex(text):
    toks = []
    i, n = 0, len(text)
    while i < n:
        c = text[i]
        if c in " \t\r\n":
            i += 1
        elif c == "." or c.isascii() and c.isdigit():
            j = i
            while j < n and (text[j] == "." or (text[j].isascii() and text[j].isdigit())):
                j += 1
            s = text[i:j]
            if s.count(".") > 1 or s == ".":
                raise Reject("number")
            if "." in s:
                # a literal with a decimal point denotes the DOUBLE nearest to it ("anything float() parses"):
                # beyond 15-17 significant digits that is not the decimal itself
                q = core.to_frac(float(s if not s.endswith(".") else s + "0"))
                if q is None:
                    raise OverflowError("literal overflows to inf: outside the oracle")
                toks.append(("num", q))
            else:
                toks.append(("num", Fraction(s)))
            i = j
        elif c.isascii() and c.isalpha():
            j = i
            while j < n and text[j].isascii() and text[j].isalpha():
                j += 1
            run = text[i:j]
            if run == "sgn":
                toks.append(("fn", run))
            else:
                toks.extend(("var", ch) for ch in run)
            i = j
        elif c in "+*/^!=":
            toks.append((c, c))
            i += 1
        elif c in "-–":
            toks.append(("-", "-"))
            i += 1
        elif c in "([":
            toks.append(("(", "("))
            i += 1
        elif c in ")]":
            toks.append((")", ")"))
            i += 1
        else:
            raise Reject("char")
    toks.append(("eof", None))
    return toks


class _G:
    def __init__(self, toks, env):
        self.t = toks
        self.i = 0
        self.env = env
        self.unequal = False

    def peek(self):
        return self.t[self.i][0]

    def take(self, k):
        if self.peek() != k:
            raise Reject(k)
        v = self.t[self.i][1]
        self.i += 1
        return v

    # values are Fractions; undefined -> None (propagates); unequal raises at the top
    def equal(self):
        v = self.add()
        while self.peek() == "=":
            self.take("=")
            w = self.add()
            if v is None or w is None:
                v = None
            elif v != w:
                self.unequal = True  # keep reading: the rest of the string must still derive
        return v

    def add(self):
        v = self.mult()
        while self.peek() in "+-" and self.peek() != "eof":
            op = self.take(self.peek())
            w = self.mult()
            v = None if v is None or w is None else (v + w if op == "+" else v - w)
        return v

    def mult(self):
        v = self.exp()
        while self.peek() in "*/" and self.peek() != "eof":
            op = self.take(self.peek())
            w = self.exp()
            if v is None or w is None:
                v = None
            elif op == "*":
                v = v * w
            else:
                v = None if w == 0 else v / w
        return v

    @staticmethod
    def power(a, b):
        if a is None or b is None:
            return None
        if b.denominator != 1:
            raise core.FracPow("fractional exponent")
        n = b.numerator
        if abs(n) > 64:
            raise core.FracPow("huge")
        if n >= 0:
            return a**n
        return None if a == 0 else Fraction(1) / a ** (-n)

    def exp(self):
        v = self.unary()
        if self.peek() == "^":
            self.take("^")
            w = self.unary()
            v = self.power(v, w)
        return v

    def unary(self):
        neg = False
        if self.peek() == "-":
            self.take("-")
            neg = True
        if self.peek() == "num":
            c = self.take("num")
            if neg:
                c = -c  # negative literal
            if self.peek() == "!":
                self.take("!")
                n = int(c)
                if n < 0:
                    return None
                if n > 300:
                    raise core.FracPow("huge factorial")
                import math
                return Fraction(math.factorial(n))
            if self.peek() in ("var", "fn", "("):
                f = self.factors()
                return None if f is None else c * f
            return c
        if self.peek() in ("var", "fn", "("):
            f = self.factors()
            return None if f is None else (-f if neg else f)
        raise Reject("unary")

    def prim(self):
        k = self.peek()
        if k == "var":
            name = self.take("var")
            return self.env.get(name, Fraction(0))
        if k == "fn":
            self.take("fn")
            self.take("(")
            v = self.add()
            self.take(")")
            return None if v is None else Fraction(-1 if v < 0 else (1 if v > 0 else 0))
        if k == "(":
            self.take("(")
            v = self.add()
            self.take(")")
            return v
        raise Reject("prim")

    def factors(self):
        vals = [self.prim()]
        while self.peek() in ("var", "fn", "("):
            vals.append(self.prim())
        if self.peek() == "!":
            raise Reject("factorial of a non-literal")
        if self.peek() == "^":
            self.take("^")
            e = self.unary()
            vals[-1] = self.power(vals[-1], e)
        out = Fraction(1)
        for v in vals:
            if v is None:
                return None
            out *= v
        return out


def grammar_value(text, env):
    try:
        toks = _lex(text)
    except Reject:
        return ("reject",)
    g = _G(toks, env)
    try:
        if g.peek() == "eof":
            return ("reject",)
        v = g.equal()
        if g.peek() != "eof":
            return ("reject",)
    except Reject:
        return ("reject",)
    if g.unequal:
        return ("ok", "unequal")
    return ("ok", "undef" if v is None else v)


ORACLE_ENVS = [
    {"x": Fraction(2), "y": Fraction(3), "z": Fraction(5), "s": Fraction(7), "g": Fraction(-2), "n": Fraction(1, 2)},
    {"x": Fraction(-3), "y": Fraction(1, 2), "z": Fraction(2), "s": Fraction(1), "g": Fraction(3), "n": Fraction(-1)},
]


def oracle_check(text, impl):
    """C03 oracle: acceptance and value of the real parse result vs the documented grammar.
    Returns None or a description of the disagreement."""
    envs = ORACLE_ENVS
    try:
        first = grammar_value(text, envs[0])
    except (core.FracPow, OverflowError, RecursionError):
        return None
    accepted = impl[0] == "ok"
    if impl[0] in ("internal", "unmodelled"):
        return None  # reported elsewhere (C10)
    if first[0] == "reject":
        return {"grammar": "rejects", "impl": "accepts"} if accepted else None
    if not accepted:
        return {"grammar": "derives", "impl": impl}
    tree = impl[1]
    for env in envs:
        try:
            want = grammar_value(text, env)[1]
            full = {v: env.get(v, Fraction(0)) for v in core.tuple_vars(tree)}
            got = core.q_eval(tree, full)
        except (core.FracPow, OverflowError, RecursionError):
            continue
        if isinstance(want, Fraction):
            if not (isinstance(got, Fraction) and got == want):
                return {"env": {k: str(v) for k, v in env.items()}, "grammar": str(want), "impl": str(got)}
        elif want == "unequal":
            if got not in ("unequal", "undef"):
                return {"env": {k: str(v) for k, v in env.items()}, "grammar": want, "impl": str(got)}
        else:
            if isinstance(got, Fraction):
                return {"env": {k: str(v) for k, v in env.items()}, "grammar": want, "impl": str(got)}
    return None


# --------------------------------------------------------------------------- batch runs


def _parse_worker(texts):
    out = []
    for t in texts:
        r = impl_parse(t)
        out.append((t, r, oracle_check(t, r)))
    return out


def run_parse(texts, procs=None):
    procs = procs or min(16, mp.cpu_count())
    if len(texts) < 2000 or procs == 1:
        return _parse_worker(texts)
    n = max(500, len(texts) // (procs * 8))
    chunks = [texts[i : i + n] for i in range(0, len(texts), n)]
    with mp.Pool(procs) as pool:
        out = []
        for part in pool.imap(_parse_worker, chunks):
            out.extend(part)
    return out


def _tok_worker(items):
    return [(t, pad, impl_tok(t, pad)) for (t, pad) in items]


def run_tok(items, procs=None):
    procs = procs or min(16, mp.cpu_count())
    if len(items) < 5000 or procs == 1:
        return _tok_worker(items)
    n = max(1000, len(items) // (procs * 8))
    chunks = [items[i : i + n] for i in range(0, len(items), n)]
    with mp.Pool(procs) as pool:
        out = []
        for part in pool.imap(_tok_worker, chunks):
            out.extend(part)
    return out


def same_parse(impl, model):
    if impl[0] != model[0]:
        return False
    if impl[0] == "ok":
        return core.tuples_agree(impl[1], model[1], with_tags=False)
    return impl[1] == model[1]


SYMS = ["2", "2.5", "x", "y", "+", "-", "*", "/", "^", "!", "=", "(", ")", "sgn"]


def all_strings(max_tokens, syms=SYMS, sep=""):
    for k in range(0, max_tokens + 1):
        for combo in itertools.product(syms, repeat=k):
            yield sep.join(combo)
