"""Python → Lean translation (by template) of the like-term predicates of util.py (property C16).

`is_add_or_sub`, `make_term`, `get_terms`, `terms_are_like` and `has_like_terms` must be, statement for statement, the code quoted in
TEMPLATES (compared as syntax trees; docstrings, annotations and comments aside).  The emitted Lean is the
translation of exactly that code:

  * `terms_are_like` after the `get_term` coercion of its operands: a `TermResult` is the pair the function reads
    (`variables`, `exponent`) = the model's `TermKey`, Python's `False` is `none`; the chain of early returns is
    kept as written (`len(..) == 0 and ..`, `len != len`, `sorted != sorted`, `exponent != exponent`);
  * `has_like_terms`: the first loop is a scan over the results of `get_term` for the nodes `get_terms` returned,
    carrying the set `seen` (`continue` on a non-TermResult, `return True` when the key was seen, else add it);
    the key `("".join(term.variables), term.exponent)` is the `TermKey` itself (variable names are single
    characters, so the join is injective); the second loop runs over `find_type(ConstantExpression)` in visiting
    order with the flag `const.parent and is_add_or_sub(const.parent)` and the marker "const_term".

A memo, a different key (e.g. dropping the exponent), a `>=` in place of the marker test are outside the
fragment = `Untranslatable` = a broken obligation of C16.  `get_terms` is rendered as the in-order walk with its closure; `get_term` stays the hand-written
`getTermKey` (tied by the node-level correspondence).
"""
import ast
import os

from . import core
from .py2lean import Untranslatable
from .py2lean_visit import _dump

TEMPLATES = {
    "is_add_or_sub": """
def is_add_or_sub(node):
    return isinstance(node, AddExpression) or isinstance(node, SubtractExpression)
""",
    "get_terms": """
def get_terms(expression):
    results: List[MathExpression] = []
    root = expression.get_root()
    if isinstance(root, MultiplyExpression):
        results.append(root)

    def visit_fn(node, depth, data):
        nonlocal results
        if not is_add_or_sub(node):
            return None
        if node.left and not is_add_or_sub(node.left):
            results.append(node.left)
        if node.right and not is_add_or_sub(node.right):
            results.append(node.right)
        return None
    root.visit_inorder(visit_fn)
    return [expression] if len(results) == 0 else results
""",
    "make_term": """
def make_term(coefficient=1, variable=None, exponent=None):
    constExp = ConstantExpression(coefficient)
    if variable is None and exponent is None:
        return constExp
    varExp = VariableExpression(variable)
    if coefficient == 1 and exponent is None:
        return varExp
    if exponent is None:
        return MultiplyExpression(constExp, varExp)
    expConstExp = ConstantExpression(exponent)
    if coefficient == 1:
        return PowerExpression(varExp, expConstExp)
    return MultiplyExpression(constExp, PowerExpression(varExp, expConstExp))
""",
    "terms_are_like": """
def terms_are_like(one, two):
    if isinstance(one, MathExpression):
        one = get_term(one)
    if isinstance(two, MathExpression):
        two = get_term(two)
    if one is False or two is False:
        return False
    assert isinstance(one, TermResult) and isinstance(two, TermResult)
    if len(one.variables) == 0 and len(two.variables) == 0:
        return True
    if len(one.variables) != len(two.variables):
        return False
    if sorted(one.variables) != sorted(two.variables):
        return False
    if one.exponent != two.exponent:
        return False
    return True
""",
    "has_like_terms": """
def has_like_terms(expression):
    seen: Set[Any] = set()
    term_nodes = get_terms(expression)
    for node in term_nodes:
        term = get_term(node)
        if not isinstance(term, TermResult):
            continue
        var_key = ("".join(term.variables), term.exponent)
        if var_key in seen:
            return True
        seen.add(var_key)
    consts = expression.find_type(ConstantExpression)
    for const in consts:
        if const.parent and is_add_or_sub(const.parent):
            if "const_term" in seen:
                return True
            seen.add("const_term")
    return False
""",
}

LEAN = """/-- `util.py`: `terms_are_like` on what `get_term` gave for its two operands (`none` = Python's `False`) -/
def terms_are_like (one two : Option TermKey) : Bool :=
  match one, two with
  | some one, some two =>
    if one.vars.length == 0 && two.vars.length == 0 then true
    else if one.vars.length != two.vars.length then false
    else if sortChars one.vars != sortChars two.vars then false
    else if one.exp != two.exp then false
    else true
  | _, _ => false

/-- `util.py`: `make_term`; every node is a new object (identity 0).  `VariableExpression(None)` — an exponent
without a variable — is not an expression of the model's domain (`none`). -/
def make_term (coefficient : Rat) (variable_ : Option Char) (exponent : Option Rat) : Option Ex :=
  let constExp := Ex.const 0 coefficient;
  if variable_.isNone && exponent.isNone then some constExp
  else
    match variable_ with
    | none => none
    | some x =>
      let varExp := Ex.var 0 x;
      if coefficient == 1 && exponent.isNone then some varExp
      else
        match exponent with
        | none => some (Ex.bin 0 .mul constExp varExp)
        | some e =>
          let expConstExp := Ex.const 0 e;
          if coefficient == 1 then some (Ex.bin 0 .pow varExp expConstExp)
          else some (Ex.bin 0 .mul constExp (Ex.bin 0 .pow varExp expConstExp))

/-- the closure `visit_fn` of `get_terms`: what one visited node appends to `results` (a unary node has its operand
on one side only and is never an addition / subtraction) -/
def get_terms_visit_fn : Ex → List Ex
  | .bin _ o l r =>
    if !(o.isAddSub') then []
    else (if !l.isAddSub then [l] else []) ++ (if !r.isAddSub then [r] else [])
  | _ => []

/-- `root.visit_inorder(visit_fn)`: the appends made, in visiting order (the closure never returns STOP) -/
def get_terms_visit : Ex → List Ex
  | .const t v => get_terms_visit_fn (.const t v)
  | .var t x => get_terms_visit_fn (.var t x)
  | .un t o c => get_terms_visit c ++ get_terms_visit_fn (.un t o c)
  | .bin t o l r => get_terms_visit l ++ get_terms_visit_fn (.bin t o l r) ++ get_terms_visit r

/-- `util.py`: `get_terms` asked of a root (`expression.get_root()` is the expression itself) -/
def get_terms (expression : Ex) : List Ex :=
  let results := (if expression.isOp .mul then [expression] else []) ++ get_terms_visit expression;
  if results.length == 0 then [expression] else results

/-- first loop of `has_like_terms`: `none` = `return True`, `some seen` = fell through with that set -/
def has_like_terms_loop1 (seen : List TermKey) : List (Option TermKey) → Option (List TermKey)
  | [] => some seen
  | none :: ts => has_like_terms_loop1 seen ts
  | some k :: ts => if seen.contains k then none else has_like_terms_loop1 (k :: seen) ts

/-- `expression.find_type(ConstantExpression)` in visiting order, each with the flag
`const.parent and is_add_or_sub(const.parent)` -/
def const_parent_flags (parentAddSub : Bool) : Ex → List Bool
  | .const .. => [parentAddSub]
  | .var .. => []
  | .un _ _ c => const_parent_flags false c
  | .bin _ o l r => const_parent_flags o.isAddSub' l ++ const_parent_flags o.isAddSub' r

/-- second loop of `has_like_terms` (`marker` = `"const_term" in seen`) -/
def has_like_terms_loop2 (marker : Bool) : List Bool → Bool
  | [] => false
  | true :: fs => if marker then true else has_like_terms_loop2 true fs
  | false :: fs => has_like_terms_loop2 marker fs

/-- `util.py`: `has_like_terms` (the root has no parent) -/
def has_like_terms (e : Ex) : Bool :=
  match has_like_terms_loop1 [] ((get_terms e).map getTermKey) with
  | none => true
  | some _ => has_like_terms_loop2 false (const_parent_flags false e)
"""


def translate_like(repo=None):
    repo = repo or core.REPO
    problems = []
    try:
        tree = ast.parse(open(os.path.join(repo, "mathy_core", "util.py")).read())
        fns = {n.name: n for n in tree.body if isinstance(n, ast.FunctionDef)}
    except (OSError, SyntaxError) as e:
        fns = {}
        problems.append(f"util.py: {type(e).__name__}: {e}")
    for name, src in TEMPLATES.items():
        if problems and not fns:
            break
        try:
            fn = fns.get(name)
            if fn is None:
                raise Untranslatable("missing")
            if fn.decorator_list:
                raise Untranslatable("decorated")
            want = ast.parse(src.strip()).body[0]
            if _dump(fn) != _dump(want):
                raise Untranslatable("not the expected code")
        except Untranslatable as e:
            problems.append(f"util.py:{name}: {type(e).__name__}: {e}")
    if problems:
        return "".join(f"/- UNTRANSLATABLE {p} -/\n" for p in problems), problems
    return LEAN, problems


if __name__ == "__main__":
    t, p = translate_like()
    print(t[:300])
    print(p)
