"""Source of MANIFEST.json (tools_manifest.py writes the file)."""

COMMON_NOTE = (
    "Trusted: Lean 4.33 kernel (axioms of each theorem audited per run: subset of propext, Classical.choice, "
    "Quot.sound; no sorry/native_decide/own axioms); the hand-written model's faithfulness is NOT proved, it is "
    "checked by the differential correspondence of each run within the reported generator bounds; CPython/numpy "
    "arithmetic idealised (ints exact, doubles as rationals, constants compared to 1e-9). "
)

CHECKS = {
    "C01": {
        "text": "Theorems (lean/Mathy/Props/C01.lean) over the Lean model of all nine rules x options: any applicable rewrite at any position of any tree refines the value at every assignment (exact rationals, integer powers). Tied to the code by differential execution of every rule at every node of exhaustive small and random reachable trees, plus an exact-rational oracle on the real results.",
        "design_ref": "DESIGN.md 3/C01",
        "note": COMMON_NOTE + "Real (non-integer) powers are outside the model's semantic domain; rounding of folded constants is tolerated, not proved.",
        "technique": "Lean 4 proof over executable model + differential correspondence + exact oracle",
    },
    "C02": {
        "text": "Theorems: every applicable rewrite of an equation-rooted tree preserves holds/does-not-hold at every assignment; balanced move only moves top-level addends and never divides by zero. Correspondence and root-finding oracle on equation trees.",
        "design_ref": "DESIGN.md 3/C02",
        "note": COMMON_NOTE,
        "technique": "Lean 4 proof over executable model + differential correspondence + exact oracle",
    },
    "C06": {
        "text": "Theorems: canApply => apply returns a tree (model apply has the same failure points as apply_to); findNodes = filter of in-order nodes; findNode = head. Correspondence of applicable sets, r_index, first match; purity by object-graph snapshots around can_apply_to (called twice).",
        "design_ref": "DESIGN.md 3/C06",
        "note": COMMON_NOTE + "Absence of writes in can_apply_to cannot be stated about a pure function: it is established by snapshots only (partial).",
        "technique": "Lean 4 proof over executable model + differential correspondence + snapshots",
    },
    "C07": {
        "text": "Theorems on identity-tagged trees: results contain no original object twice, context subtrees are untouched, variable set preserved. Correspondence compares identities node by node and audits links of the real result; the tree cloned from is re-snapshotted.",
        "design_ref": "DESIGN.md 3/C07",
        "note": COMMON_NOTE + "That each apply_to is the composition of pointer primitives written in the model is a correspondence fact, not a theorem.",
        "technique": "Lean 4 proof over executable model + identity-aware differential correspondence",
    },
}

_PENDING = "check not built yet in this revision (model/theorems under construction); will be claimed when its check exists"
NOT_APPLICABLE = {pid: _PENDING for pid in
                  ["C03", "C04", "C05", "C08", "C09", "C10", "C11", "C12", "C13", "C14", "C15", "C16", "C17", "C18"]}

NOTES = (
    "All checks: /venv/bin/python check.py <id> --tier quick|thorough (honours VERIF_SEED, VERIF_TIER); exit 2 = "
    "harness could not run. known_findings.json lists open findings (KNOWN-FINDING lines) and fixed defects. "
    "14 genuine defects were repaired by 'fix:' commits in /repo (see DESIGN.md 2.7)."
)
