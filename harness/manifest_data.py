"""Source of MANIFEST.json (tools_manifest.py writes the file)."""

COMMON_NOTE = (
    "Trusted: Lean 4.33 kernel (axioms of each theorem audited per run: subset of propext, Classical.choice, "
    "Quot.sound; no sorry/native_decide/own axioms); the hand-written model's faithfulness is NOT proved, it is "
    "checked by the differential correspondence of each run within the reported generator bounds; CPython/numpy "
    "arithmetic idealised (ints exact, doubles as rationals, constants compared to 1e-9). "
)
SRC_NOTE = (
    "Source tie: lean/Mathy/Gen/PySrc.lean is regenerated on every run from the live Python source by the translator "
    "harness/py2lean.py (23 decision functions: util.get_term_ex, tree.get_root/get_sibling, tokenizer character classes, printer predicates, classifiers of all 9 "
    "rules); the Src_* theorems (Props/SrcTie*.lean) prove that the model computes what the translated source computes for "
    "all inputs; trusted there: the translator and the run-time library Model/PyRt.lean. "
)

PARSE_NOTE = (
    "Whole-component source tie: lean/Mathy/Gen/PySrcTokSt.lean and Gen/PySrcParse.lean are regenerated on every run from the live "
    "mathy_core/tokenizer.py and parser.py by the stateful translators harness/py2lean_st.py and harness/py2lean_parse.py (every method of "
    "Tokenizer; TokenSet, the token sets, next/eat/check/parse_*/_parse and the caching front parse/tokenize/clear_cache of ExpressionParser; "
    "mutable objects as explicit state, raise as Except, loops and mutual recursion as fuel-indexed functions); Src_tokenize / Src_parse prove "
    "that the model's tokenize / parseText compute what the translated source computes for EVERY string (fuel never exhausted, no "
    "IndexError/KeyError escapes) and Src_history_independent that every answer of every call history on one parser object is the fresh "
    "answer. Trusted there: the two translators, the run-time libraries Model/PyRtTok.lean / PyRtParse.lean, the external coerce_to_number "
    "(= hand-written parseNumber); parser exception message texts are not modelled. The translated code is also executed against the real "
    "parser on every text of the run. "
)

CHECKS = {
    "C01": {
        "text": "Theorems (lean/Mathy/Props/C01.lean) over the Lean model of all nine rules x options: any applicable rewrite at any position of any tree refines the value at every assignment (exact rationals, integer powers). Tied to the code by differential execution of every rule at every node of exhaustive small and random reachable trees, plus an exact-rational oracle on the real results.",
        "design_ref": "DESIGN.md 3/C01",
        "note": COMMON_NOTE + SRC_NOTE + "Real (non-integer) powers are outside the model's semantic domain; rounding of folded constants is tolerated, not proved.",
        "technique": "Lean 4 proof over executable model + differential correspondence + exact oracle",
    },
    "C02": {
        "text": "Theorems: every applicable rewrite of an equation-rooted tree preserves holds/does-not-hold at every assignment; balanced move only moves top-level addends and never divides by zero. Correspondence and root-finding oracle on equation trees.",
        "design_ref": "DESIGN.md 3/C02",
        "note": COMMON_NOTE + SRC_NOTE,
        "technique": "Lean 4 proof over executable model + differential correspondence + exact oracle",
    },
    "C06": {
        "text": "Theorems: canApply => apply returns a tree (model apply has the same failure points as apply_to); findNodes = filter of in-order nodes; findNode = head. Correspondence of applicable sets, r_index, first match; purity by object-graph snapshots around can_apply_to (called twice).",
        "design_ref": "DESIGN.md 3/C06",
        "note": COMMON_NOTE + "Traversals / searches: Gen/PySrcVisit.lean is regenerated from the live visit_preorder/inorder/postorder and BaseRule.find_node/find_nodes (template-checked) and Src_visits / Src_find_nodes prove the model equal to it. " + SRC_NOTE + "Absence of writes in can_apply_to cannot be stated about a pure function: it is established by snapshots only (partial).",
        "technique": "Lean 4 proof over executable model + classifiers translated from source (proved equal to the model) + differential correspondence + snapshots",
    },
    "C07": {
        "text": "Theorems on identity-tagged trees: results contain no original object twice, context subtrees are untouched, variable set preserved. Correspondence compares identities node by node and audits links of the real result; the tree cloned from is re-snapshotted.",
        "design_ref": "DESIGN.md 3/C07",
        "note": COMMON_NOTE + "That each apply_to is the composition of pointer primitives written in the model is a correspondence fact, not a theorem.",
        "technique": "Lean 4 proof over executable model + identity-aware differential correspondence",
    },
}


CHECKS.update({
    "C03": {
        "text": "Theorems: the parser model accepts exactly the token strings the documented grammar derives (soundness + completeness, hence unambiguity) and returns exactly the prescribed tree, for every token list, with the model's fuel proved sufficient. Tied to the code by comparing trees / error kinds of the real parser and the model on ALL strings of up to 5 (6) tokens, grammar-directed and malformed text, plus an independent evaluator written from the documented grammar run against the real parser.",
        "design_ref": "DESIGN.md 3/C03",
        "note": COMMON_NOTE + PARSE_NOTE + SRC_NOTE + "Token level (characters are C11). The grammar relations build the implementation's grouping of '*'; its left-to-right VALUE is checked by the grammar oracle, not proved.",
        "technique": "Lean 4 proof (parser soundness/completeness vs grammar relations) + tokenizer and parser translated from source and proved equal to the model + exhaustive differential correspondence + grammar oracle",
    },
    "C04": {
        "text": "Theorem: for every printable tree (any shape, not only parser outputs) the printed token list is accepted by the parser and the re-parsed tree evaluates identically at every assignment and has the same variables (via parser completeness). Correspondence: real str(tree) tokenized vs model printer tokens, real re-parse vs model, exact evaluation, on all small trees and on every rewrite result.",
        "design_ref": "DESIGN.md 3/C04",
        "note": COMMON_NOTE + PARSE_NOTE + "Printer: Gen/PySrcStr.lean is regenerated from the live __str__ methods (template-checked) and Src_str proves the model equal to it; Src_print_parse_roundtrip is the round trip for the translated printer + tokenizer + parser. " + SRC_NOTE + "Token level; number formatter is a parameter with a round-trip hypothesis; right-nested equation chains: value agreement only (see theorems.json partial).",
        "technique": "Lean 4 proof (print/parse round trip through the grammar; printer, tokenizer and parser translated from source and proved equal to the model) + differential correspondence + re-parse oracle",
    },
    "C05": {
        "text": "Model pyEval of evaluate() with Python's int/float typing; theorems: exactness on the integer fragment at any magnitude, unbound variables are errors, division by zero is NaN and propagates, equations return the common value or raise. Correspondence: real evaluate() vs model on integer trees with operands up to 10^40 / exponents up to 200 / factorials up to 60 (exact) and mixed trees (few ulps).",
        "design_ref": "DESIGN.md 3/C05",
        "note": COMMON_NOTE + "Source tie: Gen/PySrcEval.lean is regenerated on every run from the live expressions.py (operate of every class, the evaluate recursion) by harness/py2lean_eval.py and Src_evaluate proves the model pyEval equal to it; trusted: that translator, Model/PyRtNum.lean and the externals math.factorial / np.power. " + "The 'within a few ulps' clause is NOT a theorem (IEEE rounding is not formalised): doubles are idealised as exact rationals and compared with tolerance. Real powers and float overflow are outside the model.",
        "technique": "Lean 4 proof over typed evaluator model + evaluator translated from source and proved equal to the model + differential correspondence + big-integer oracle",
    },
    "C09": {
        "text": "Theorems by induction over arbitrary finite sequences of applicable rewrites: expressions keep their value (refinement, transitive), equations keep their truth, the variable set is constant, an expression never becomes an equation. Correspondence: random walks of length 8 (40) on the real code, each step on clone_from_root, every state audited, compared with the start exactly, printed and re-parsed, earlier states re-snapshotted, each step replayed on the model.",
        "design_ref": "DESIGN.md 3/C09",
        "note": COMMON_NOTE + SRC_NOTE,
        "technique": "Lean 4 proof (induction over rewrite sequences from C01/C02/C07) + random-walk differential correspondence",
    },
    "C10": {
        "text": "Theorems: the parser model is total with a closed outcome type, never runs out of its fuel, reports exactly the first unsupported character, and a long-lived parser answers like a fresh one after any history (failing parses included). Correspondence of error KINDS with the real exception classes on all short token strings, malformed streams, histories; link audit of returned trees; deep-input probes.",
        "design_ref": "DESIGN.md 3/C10",
        "note": COMMON_NOTE + PARSE_NOTE + "RecursionError is interpreter behaviour outside the model: probes only; one open known finding (flat product of ~1000 factors).",
        "technique": "Lean 4 proof (totality, fuel sufficiency, history independence) + tokenizer, parser and parser caches translated from source and proved equal to the model + exhaustive differential correspondence + deep probes",
    },
    "C11": {
        "text": "Theorems over the tokenizer model for ALL strings and both padding modes: lossless up to the three normalisations, exactly one end marker, padding mode only filters pad tokens, error iff (first) unsupported character, maximal-munch equations for digit/dot runs, letter runs (function name only if the WHOLE run matches) and single-character operators. Exhaustive correspondence on all strings of up to 4 (5) symbols over a 25-symbol alphabet.",
        "design_ref": "DESIGN.md 3/C11",
        "note": COMMON_NOTE + PARSE_NOTE + SRC_NOTE,
        "technique": "Lean 4 proof over tokenizer model + whole tokenizer translated from source and proved equal to the model + exhaustive differential correspondence + losslessness oracle",
    },
    "C12": {
        "text": "Theorem: in the state-machine model of the parser object (two caches, token lists as heap cells handed out by reference, client pops) every answer of every history equals the fresh answer. Exhaustive histories of length <= 3 (4) over parse/tokenize/clear/pop on the real parser vs a fresh parser and vs the model.",
        "design_ref": "DESIGN.md 3/C12",
        "note": COMMON_NOTE + PARSE_NOTE,
        "technique": "Lean 4 proof (invariant over op histories, refinement to stateless spec; history independence of the parser object translated from source) + exhaustive history correspondence",
    },
    "C13": {
        "text": "Theorems on the functional model: a clone has the same structure/payloads, only new identities, evaluates and prints identically; cloning from the root through the node at position i yields the copy at the same position inside a complete copy. Object-level oracle on the real code: signatures (ids, sides, flags), no shared object, independence under edits, both call styles of clone_from_root, generic BinaryTreeNode shapes.",
        "design_ref": "DESIGN.md 3/C13",
        "note": COMMON_NOTE + "id strings, child_on_left and independence under later mutation are object-level facts decided by the oracle, not theorems.",
        "technique": "Lean 4 proof over functional clone model + object-level oracle on the real code",
    },
    "C14": {
        "text": "Theorems for all binary shapes (0/left/right/2 children): each visit_* makes exactly the callbacks of its defining order cut after the first STOP with true depths and reports STOP correctly; the orders are permutations; path look-ups are sound and complete. Exhaustive correspondence on all shapes up to 6 (8) nodes x orders x stop positions; query oracle.",
        "design_ref": "DESIGN.md 3/C14",
        "note": COMMON_NOTE + "Traversals / searches: Gen/PySrcVisit.lean is regenerated from the live visit_preorder/inorder/postorder and BaseRule.find_node/find_nodes (template-checked) and Src_visits / Src_find_nodes prove the model equal to it. ",
        "technique": "Lean 4 proof (structural induction on shapes) + exhaustive differential correspondence",
    },
    "C15": {
        "text": "Theorems: functional rotation preserves the in-order sequence; the literal pointer-level transcription of rotate() on a heap that represents a tree with distinct nodes yields a heap representing the rotated tree (all links consistent, grandparent redirected) for every non-root node; root is a no-op. Exhaustive cell-by-cell correspondence with the real object graph on all shapes up to 6 (8) nodes x nodes.",
        "design_ref": "DESIGN.md 3/C15",
        "note": COMMON_NOTE,
        "technique": "Lean 4 proof (heap representation predicate, frame lemmas) + exhaustive differential correspondence",
    },
    "C18": {
        "text": "The property's quantifier is bounded, so kernel evaluation is a proof at model level: for all 625 shapes up to 7 nodes the set of violated invariants equals a table regenerated each run from the committed findings (decide +kernel). Exhaustive EXACT coordinate correspondence (doubles are dyadic) with the real layout for all shapes up to 7 (9) nodes x 3 unit multipliers x single/repeated call; every violated (shape, invariant) must be a listed known finding.",
        "design_ref": "DESIGN.md 3/C18",
        "note": COMMON_NOTE + "The unchanged code violates the property from 4 nodes on: five open known findings keyed by the exact table findings_layout.json.",
        "technique": "Lean 4 kernel-checked exhaustive table (decide +kernel) over a literal model + exact differential correspondence",
    },
})

_PENDING = "check not built yet in this revision (model/theorems under construction); will be claimed when its check exists"
CHECKS["C08"] = {
    "text": "25 schema theorems, one per documented form (swap, regroup both ways, fold, factor like terms, distribute both orders, a/b, a-b both ways, x^a*x^b incl. implicit exponents, move addend, divide coefficient) and per documented non-applicable form, each universally quantified over sub-expressions, coefficients, variables, exponents, identities and the surrounding context. Correspondence: schema instances with random parameters in random contexts, real rule applied at the instance node, result compared up to AC with a result instantiated independently in the harness.",
    "design_ref": "DESIGN.md 3/C08",
    "note": COMMON_NOTE + SRC_NOTE + "Non-applicability to unlike terms is proved for positive integer coefficients; one open known finding: unlike terms with equal coefficients in (0,1) are accepted by the factor-out rule (C08-factor-out-equal-fractional-coefficients, witness replayed on every run).",
    "technique": "Lean 4 proof (schema theorems over the rule model) + independently instantiated schema correspondence",
}

CHECKS["C16"] = {
    "text": "Theorems: has_like_terms is invariant under the congruence generated by commutativity/associativity of + (any tree) and is true exactly when two positions of the term list carry one key or two constants hang under +/-; terms_are_like is reflexive, symmetric and transitive; make_term round-trips through get_term_ex and has the value c*v^e; get_term_ex of the parsed text of a natural-order term returns what was written (via parser completeness); the factor table of a positive integer has exactly its divisors as keys with k*v = n. Correspondence/oracle: all permutations and random groupings of generated sums, all natural-order triples, factor(n) for n up to 3000 (20000), predicates on random expressions, has_like_terms vs the model.",
    "design_ref": "DESIGN.md 3/C16",
    "note": COMMON_NOTE + "Source tie: Gen/PySrcLike.lean is regenerated on every run from the live util.py (is_add_or_sub / make_term / get_terms / terms_are_like / has_like_terms, template-checked, rendered as the scan loops they spell out) and Src_make_term / Src_get_terms / Src_terms_are_like / Src_has_like_terms prove the model equal to it; Src_get_term_ex does the same for get_term_ex (statement-by-statement translation). get_term stays hand-written (correspondence only). get_sub_terms is modelled and proved never to raise on non-equation trees (C16_getSubTerms_never_raises); is_simple_term / is_preferred_term_form iterate over its result and their not raising is decided by the oracle only.",
    "technique": "Lean 4 proof over term-analysis model (terms_are_like / has_like_terms / get_term_ex regenerated from source and proved equal to the model) + permutation/grouping oracle + differential correspondence",
}
CHECKS["C17"] = {
    "text": "Theorems: get_rand_vars returns distinct variables of the requested number inside the alphabet and outside the exclusions and never fails on a satisfiable request; split_in_two_random sums to its input; every well-formed problem text of the generators' shapes (flat chain with optional parenthesised group, two binomial forms) is accepted by the parser; a sum with two terms of equal variable and power has like terms. Oracle on the real generators: every generator x parameter settings x both number modes x hundreds (thousands) of seeds parses, has positive complexity, has like terms where promised.",
    "design_ref": "DESIGN.md 3/C17",
    "note": COMMON_NOTE + "That real generator outputs are instances of the modelled shapes is checked per generated text, not proved; random-module contracts trusted.",
    "technique": "Lean 4 proof over problem-shape model (via parser completeness) + seed-sweep oracle on the real generators",
}

NOT_APPLICABLE = {}

NOTES = (
    "All checks: /venv/bin/python check.py <id> --tier quick|thorough (honours VERIF_SEED, VERIF_TIER); exit 2 = "
    "harness could not run. known_findings.json lists open findings (KNOWN-FINDING lines) and fixed defects. "
    "16 genuine defects were repaired by 'fix:' commits in /repo and 9 are recorded as open findings (see DESIGN.md 5)."
)
