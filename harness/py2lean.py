"""Python → Lean translator for the decision functions of mathy_core.

Reads the LIVE source files of the repository under test (ast), translates the listed functions
statement by statement into Lean 4 definitions over the run-time library `Mathy/Model/PyRt.lean`,
and writes `lean/Mathy/Gen/PySrc.lean`.  `Proofs/PySrcAgree.lean` proves that the hand-written model
computes exactly what these generated definitions compute, for ALL trees and positions; a change
to one of the translated functions therefore changes the generated file and breaks (or keeps)
those proofs on the next run — the tie between code and model is re-checked, not asserted.

Supported Python (anything else raises `Untranslatable`, reported as a broken obligation):
  statements : if / elif / else, return, (annotated) assignment of a local, assert (ignored: the
               asserts of the translated functions restate an isinstance guard), expression
               statements (docstrings, `self._check()`)
  expressions: isinstance(x, C) / isinstance(x, (C1, C2)), `x is None`, `x is not None`,
               not / and / or, == != < <= > >=, attribute chains .left .right .parent .value,
               x.get_child(), x.get_sibling(), p.get_side(c), x.get_priority(), calls of other
               translated functions, cast(T, e), bool(e), module-level constants, True/False/None,
               numbers, strings, tuples, `self.<flag>` of a rule option.
Types are inferred bottom-up from a small lattice: node, bool, str, int, num (Optional number),
char, tuple; the declared result type of each function drives how `return` is rendered.
"""
import ast
import os

from . import core


class Untranslatable(Exception):
    pass


NODE_ATTRS = {"left", "right", "parent"}
CLASSES = {"MathExpression", "UnaryExpression", "NegateExpression", "FactorialExpression", "FunctionExpression",
           "SgnExpression", "AbsExpression", "BinaryExpression", "EqualExpression", "AddExpression",
           "SubtractExpression", "MultiplyExpression", "DivideExpression", "PowerExpression",
           "ConstantExpression", "VariableExpression"}

# (file, class or None, function, lean name, parameters [(py name, type)], result type)
#   result types: bool | int | optstr | opt3 (Optional[Tuple[str, node, node]])
FUNCTIONS = [
    ("tokenizer.py", "Tokenizer", "is_alpha", "Tokenizer_is_alpha", [("c", "char")], "bool"),
    ("tokenizer.py", "Tokenizer", "is_number", "Tokenizer_is_number", [("c", "char")], "bool"),
    ("tree.py", "BinaryTreeNode", "get_root", "BinaryTreeNode_get_root", [("self", "node")], "node"),
    ("tree.py", "BinaryTreeNode", "get_sibling", "BinaryTreeNode_get_sibling", [("self", "node")], "node"),
    ("util.py", None, "get_term_ex", "get_term_ex", [("node", "node")], "term"),
    ("expressions.py", "BinaryExpression", "get_priority", "BinaryExpression_get_priority", [("self", "node")], "int"),
    ("expressions.py", "BinaryExpression", "self_parens", "BinaryExpression_self_parens", [("self", "node")], "bool"),
    ("expressions.py", None, "_is_compact_product", "is_compact_product", [("node", "node")], "bool"),
    ("expressions.py", None, "_power_base_needs_parens", "power_base_needs_parens", [("base", "node")], "bool"),
    ("expressions.py", None, "_negate_needs_parens", "negate_needs_parens", [("inner", "node")], "bool"),
    ("rules/associative_swap.py", "AssociativeSwapRule", "can_apply_to", "AssociativeSwapRule_can_apply_to",
     [("node", "node")], "bool"),
    ("rules/commutative_swap.py", "CommutativeSwapRule", "can_apply_to", "CommutativeSwapRule_can_apply_to",
     [("self.preferred", "bool"), ("node", "node")], "bool"),
    ("rules/constants_simplify.py", "ConstantsSimplifyRule", "get_type", "ConstantsSimplifyRule_get_type",
     [("node", "node")], "opt3"),
    ("rules/distributive_multiply_across.py", "DistributiveMultiplyRule", "can_apply_to",
     "DistributiveMultiplyRule_can_apply_to", [("node", "node")], "bool"),
    ("rules/multiplicative_inverse.py", "MultiplicativeInverseRule", "get_type", "MultiplicativeInverseRule_get_type",
     [("node", "node")], "optstr"),
    ("rules/restate_subtraction.py", "RestateSubtractionRule", "get_type", "RestateSubtractionRule_get_type",
     [("node", "node")], "optstr"),
    ("rules/distributive_factor_out.py", "DistributiveFactorOutRule", "get_type", "DistributiveFactorOutRule_get_type",
     [("node", "node")], "opt3t"),
    ("rules/distributive_factor_out.py", "DistributiveFactorOutRule", "can_apply_to",
     "DistributiveFactorOutRule_can_apply_to", [("self.constants", "bool"), ("node", "node")], "bool"),
    ("rules/variable_multiply.py", "VariableMultiplyRule", "get_type", "VariableMultiplyRule_get_type",
     [("node", "node")], "opt3t"),
    ("rules/variable_multiply.py", "VariableMultiplyRule", "can_apply_to", "VariableMultiplyRule_can_apply_to",
     [("node", "node")], "bool"),
    ("rules/balanced_move.py", "BalancedMoveRule", "has_add_siblings", "BalancedMoveRule_has_add_siblings",
     [("node", "node")], "bool"),
    ("rules/balanced_move.py", "BalancedMoveRule", "get_type", "BalancedMoveRule_get_type",
     [("node", "node")], "optstr"),
    ("rules/balanced_move.py", "BalancedMoveRule", "can_apply_to", "BalancedMoveRule_can_apply_to",
     [("node", "node")], "bool"),
]
# names imported from mathy_core.tree
GLOBAL_CONSTS = {"LEFT": "left", "RIGHT": "right"}

# self.<method>(node) inside a translated method of the same class
SELF_CALLS = {
    ("DistributiveFactorOutRule", "get_type"): ("DistributiveFactorOutRule_get_type", "opt3t"),
    ("VariableMultiplyRule", "get_type"): ("VariableMultiplyRule_get_type", "opt3t"),
    ("BalancedMoveRule", "get_type"): ("BalancedMoveRule_get_type", "optstr"),
    ("BalancedMoveRule", "has_add_siblings"): ("BalancedMoveRule_has_add_siblings", "bool"),
}
# externals: functions of util.py that are NOT translated (hand-written model, see Model/PyRt.lean)
EXTERNALS = {"factor_add_terms_ex": ("pyFactorAddTermsEx", ["term", "term"], "factres")}
TYPED_ATTRS = {
    ("term", "variable"): ("termVar", "optchar"), ("term", "exponent"): ("termExp", "num"),
    ("term", "coefficient"): ("termCoef", "num"),
    ("factres", "best"): ("frBest", "num"), ("factres", "variable"): ("frVar", "optchar"),
    ("factres", "exponent"): ("frExp", "num"),
}

METHOD_CALLS = {  # method name -> (lean function taking the receiver, result type)
    "get_root": ("Ref.get_root", "node"),
    "get_root_side": ("Ref.get_root_side", "str"),
    "get_child": ("Ref.get_child", "node"),
    "get_sibling": ("Ref.get_sibling", "node"),
    "get_priority": ("BinaryExpression_get_priority", "int"),
}
MODULE_CALLS = {f[2]: (f[3], f[5]) for f in FUNCTIONS if f[1] is None}


def lean_str(s):
    return '"' + s.replace("\\", "\\\\").replace('"', '\\"') + '"'


class FnTranslator:
    def __init__(self, consts, params, ret, cls=None, fn_name="f"):
        self.cls = cls
        self.fn_name = fn_name
        self.aux = []
        self.consts = consts          # module-level NAME -> python constant
        self.ret = ret
        self.env = {}                 # local python name -> (lean name, type)
        for py, ty in params:
            self.env[py] = (py.replace("self.", "self_").replace("self", "self_"), ty)
        self.fresh = 0

    # ------------------------------------------------------------------ expressions
    def expr(self, e):
        """-> (lean code, type)"""
        if isinstance(e, ast.Constant):
            v = e.value
            if v is True or v is False:
                return ("true" if v else "false"), "bool"
            if v is None:
                return "none", "none"
            if isinstance(v, str):
                return lean_str(v), "str"
            if isinstance(v, int):
                return f"({v} : Int)", "int"
            if isinstance(v, float) and v == int(v):
                return f"({int(v)} : Int)", "int"
            raise Untranslatable(f"constant {v!r}")
        if isinstance(e, ast.Name):
            if e.id in self.env:
                return self.env[e.id]
            if e.id in self.consts:
                return self.expr(ast.Constant(self.consts[e.id]))
            if e.id in GLOBAL_CONSTS:
                return self.expr(ast.Constant(GLOBAL_CONSTS[e.id]))
            raise Untranslatable(f"name {e.id}")
        if isinstance(e, ast.Attribute):
            dotted = self.dotted(e)
            if dotted in self.env:          # self.preferred
                return self.env[dotted]
            base, ty = self.expr(e.value)
            if (ty, e.attr) in TYPED_ATTRS:
                fn, rty = TYPED_ATTRS[(ty, e.attr)]
                return f"({fn} {base})", rty
            if ty != "node":
                raise Untranslatable(f"attribute .{e.attr} of {ty}")
            if e.attr in NODE_ATTRS:
                return f"(Ref.{e.attr} {base})", "node"
            if e.attr == "value":
                return f"(Ref.value {base})", "num"
            if e.attr == "identifier":
                return f"(Ref.identifier {base})", "optchar"
            raise Untranslatable(f"attribute .{e.attr}")
        if isinstance(e, ast.UnaryOp) and isinstance(e.op, ast.Not):
            return f"(!{self.truth(e.operand)})", "bool"
        if isinstance(e, ast.UnaryOp) and isinstance(e.op, ast.USub):
            c, ty = self.expr(e.operand)
            if ty == "int":
                return f"(-{c})", "int"
            raise Untranslatable("unary minus")
        if isinstance(e, ast.BoolOp):
            op = " && " if isinstance(e.op, ast.And) else " || "
            return "(" + op.join(self.truth(v) for v in e.values) + ")", "bool"
        if isinstance(e, ast.IfExp):
            c = self.truth(e.test)
            a, ta = self.expr(e.body)
            b, tb = self.expr(e.orelse)
            if ta != tb:
                raise Untranslatable("conditional expression with branches of different types")
            return f"(if {c} then {a} else {b})", ta
        if isinstance(e, ast.Compare):
            return self.compare(e)
        if isinstance(e, ast.Call):
            return self.call(e)
        if isinstance(e, ast.Tuple):
            parts = [self.expr(x) for x in e.elts]
            return "(" + ", ".join(p[0] for p in parts) + ")", "tuple:" + ",".join(p[1] for p in parts)
        raise Untranslatable(ast.dump(e)[:80])

    def dotted(self, e):
        if isinstance(e, ast.Name):
            return e.id
        if isinstance(e, ast.Attribute):
            b = self.dotted(e.value)
            return None if b is None else b + "." + e.attr
        return None

    def truth(self, e):
        c, ty = self.expr(e)
        if ty == "bool":
            return c
        if ty == "node":
            return f"(Ref.truthy {c})"
        if ty in ("term", "factres", "optchar", "opt3t"):
            return f"(Option.isSome {c})"
        if ty == "num":
            return f"(numTruthy {c})"
        raise Untranslatable(f"truth value of {ty}")

    def compare(self, e):
        # chains a < b < c are not used by the translated functions
        if len(e.ops) != 1:
            raise Untranslatable("comparison chain")
        op, l, r = e.ops[0], e.left, e.comparators[0]
        # len(x.find_type(C)) > 0 : some node of class C in the sub-tree of x
        if (isinstance(op, ast.Gt) and isinstance(r, ast.Constant) and r.value == 0 and isinstance(l, ast.Call)
                and isinstance(l.func, ast.Name) and l.func.id == "len" and len(l.args) == 1
                and isinstance(l.args[0], ast.Call) and isinstance(l.args[0].func, ast.Attribute)
                and l.args[0].func.attr == "find_type" and isinstance(l.args[0].args[0], ast.Name)
                and l.args[0].args[0].id in CLASSES):
            recv = self.expr(l.args[0].func.value)
            if recv[1] != "node":
                raise Untranslatable("find_type receiver")
            return f"(Ref.anyOfType {recv[0]} .{l.args[0].args[0].id})", "bool"
        lc, lt = self.expr(l)
        rc, rt = self.expr(r)
        if isinstance(op, (ast.Is, ast.IsNot)):
            if lt == "node" and rt == "node":
                # object identity of two nodes of one tree = same position
                return (f"({lc} == {rc})" if isinstance(op, ast.Is) else f"({lc} != {rc})"), "bool"
            if rt == "none" and lt in ("node", "num", "term", "optchar", "factres", "opt3t", "optstr"):
                return (f"(Option.isNone {lc})" if isinstance(op, ast.Is) else f"(Option.isSome {lc})"), "bool"
            if lt == "bool" and rt == "bool":
                return (f"({lc} == {rc})" if isinstance(op, ast.Is) else f"({lc} != {rc})"), "bool"
            raise Untranslatable("is-comparison")
        if lt == "num" and rt == "int":
            if isinstance(op, ast.Lt):
                return f"(numLt {lc} {rc})", "bool"
            if isinstance(op, ast.Eq):
                return f"(numEq {lc} {rc})", "bool"
            raise Untranslatable("numeric comparison")
        if lt == rt == "node" and isinstance(op, (ast.Eq, ast.NotEq)):
            # BinaryTreeNode defines no __eq__: `==` on nodes is identity = same position
            return (f"({lc} == {rc})" if isinstance(op, ast.Eq) else f"({lc} != {rc})"), "bool"
        if lt == rt == "optchar" and isinstance(op, (ast.Eq, ast.NotEq)):
            return (f"({lc} == {rc})" if isinstance(op, ast.Eq) else f"({lc} != {rc})"), "bool"
        if lt == rt and lt in ("str", "int", "bool"):
            sym = {ast.Eq: "==", ast.NotEq: "!=", ast.Lt: "<", ast.Gt: ">", ast.LtE: "<=", ast.GtE: ">="}.get(type(op))
            if sym is None:
                raise Untranslatable("comparison operator")
            if sym in ("==", "!="):
                return f"({lc} {sym} {rc})", "bool"
            if lt != "int":
                raise Untranslatable("ordering of non-integers")
            return f"(decide ({lc} {sym} {rc}))", "bool"
        if {lt, rt} == {"str", "char"} or (lt == "char" and rt == "char"):
            # one-character string literals compared with a character
            def ch(code, ty, node):
                if ty == "char":
                    return code
                if isinstance(node, ast.Constant) and isinstance(node.value, str) and len(node.value) == 1:
                    return f"(Char.ofNat {ord(node.value)})"
                raise Untranslatable("string/char comparison")
            a, b = ch(lc, lt, l), ch(rc, rt, r)
            if isinstance(op, ast.LtE):
                return f"(chLe {a} {b})", "bool"
            if isinstance(op, ast.Eq):
                return f"({a} == {b})", "bool"
            raise Untranslatable("char comparison operator")
        raise Untranslatable(f"comparison of {lt} and {rt}")

    def call(self, e):
        f = e.func
        if isinstance(f, ast.Name):
            if f.id == "isinstance":
                obj = self.expr(e.args[0])
                if obj[1] != "node":
                    raise Untranslatable("isinstance of non-node")
                cl = e.args[1]
                names = [x.id for x in cl.elts] if isinstance(cl, ast.Tuple) else [cl.id]
                for n in names:
                    if n not in CLASSES:
                        raise Untranslatable(f"class {n}")
                return f"(isinstance {obj[0]} [" + ", ".join(f".{n}" for n in names) + "])", "bool"
            if f.id == "cast":
                return self.expr(e.args[1])
            if f.id == "TermEx" and len(e.args) == 3 and not e.keywords:
                def opt(arg, want):
                    c, ty = self.expr(arg)
                    if ty == "none":
                        return "none"
                    if want == "num" and ty == "int":
                        return f"(some (({c} : Int) : Rat))"
                    if ty == want:
                        return c
                    raise Untranslatable(f"TermEx argument of type {ty}")
                return ("(some (TermEx.mk " + opt(e.args[0], "num") + " " + opt(e.args[1], "optchar") + " "
                        + opt(e.args[2], "num") + "))"), "term"
            if f.id == "bool":
                return self.truth(e.args[0]), "bool"
            if f.id in EXTERNALS:
                name, atys, rty = EXTERNALS[f.id]
                args = [self.expr(a) for a in e.args]
                if [a[1] for a in args] != atys:
                    raise Untranslatable(f"arguments of {f.id}: {[a[1] for a in args]}")
                return f"({name} " + " ".join(a[0] for a in args) + ")", rty
            if f.id in MODULE_CALLS:
                name, ty = MODULE_CALLS[f.id]
                args = [self.expr(a) for a in e.args]
                return f"({name} " + " ".join(a[0] for a in args) + ")", ty
            raise Untranslatable(f"call of {f.id}")
        if isinstance(f, ast.Attribute) and isinstance(f.value, ast.Name) and f.value.id == "self" \
                and (self.cls, f.attr) in SELF_CALLS:
            name, rty = SELF_CALLS[(self.cls, f.attr)]
            args = [self.expr(a) for a in e.args]
            return f"({name} " + " ".join(a[0] for a in args) + ")", rty
        if isinstance(f, ast.Attribute):
            recv = self.expr(f.value)
            if f.attr == "get_side":
                # parent.get_side(child) with child.parent is parent: which link holds the child
                child = self.expr(e.args[0])
                if recv[1] != "node" or child[1] != "node":
                    raise Untranslatable("get_side")
                return f"(Ref.sideOf {child[0]})", "str"
            if f.attr in METHOD_CALLS and recv[1] == "node" and not e.args:
                name, ty = METHOD_CALLS[f.attr]
                return f"({name} {recv[0]})", ty
            raise Untranslatable(f"method {f.attr}")
        raise Untranslatable("call")

    # ------------------------------------------------------------------ statements
    def always_returns(self, stmts):
        for s in stmts:
            if isinstance(s, ast.Return):
                return True
            if isinstance(s, ast.If) and s.orelse and self.always_returns(s.body) and self.always_returns(s.orelse):
                return True
        return False

    def ret_value(self, e):
        if e is None:
            c, ty = "none", "none"
        else:
            c, ty = self.expr(e)
        r = self.ret
        if r == "bool":
            if ty == "bool":
                return c
            if ty == "node":
                return f"(Ref.truthy {c})"
        if r == "int" and ty == "int":
            return c
        if r == "optstr":
            if ty == "none":
                return "none"
            if ty == "str":
                return f"(some {c})"
            if ty == "optstr":
                return c
        if r == "opt3":
            if ty == "none":
                return "none"
            if ty == "tuple:str,node,node":
                return f"(some {c})"
        if r == "node":
            if ty == "none":
                return "none"
            if ty == "node":
                return c
        if r == "term":
            if ty == "none":
                return "none"
            if ty == "term":
                return c
        if r == "opt3t":
            if ty == "none":
                return "none"
            if ty == "tuple:str,term,term":
                return f"(some {c})"
        raise Untranslatable(f"return of {ty} in a function returning {r}")

    def assigned(self, stmts):
        out = []
        for s in stmts:
            if isinstance(s, ast.Assign) and len(s.targets) == 1 and isinstance(s.targets[0], ast.Name):
                out.append(s.targets[0].id)
            elif isinstance(s, ast.AnnAssign) and isinstance(s.target, ast.Name) and s.value is not None:
                out.append(s.target.id)
            else:
                return None
        return out

    def block(self, stmts, ind):
        """translate a statement list (the rest of the function body) into one Lean term"""
        pad = "  " * ind
        if not stmts:
            return pad + self.ret_value(None)   # falling off the end returns None
        s, rest = stmts[0], stmts[1:]
        if isinstance(s, ast.Expr):
            # docstring, or self._check() (raises for a node without children: never in a tree)
            if isinstance(s.value, ast.Constant) or (
                    isinstance(s.value, ast.Call) and isinstance(s.value.func, ast.Attribute)
                    and s.value.func.attr == "_check"):
                return self.block(rest, ind)
            raise Untranslatable("expression statement")
        if isinstance(s, ast.Assert) or isinstance(s, ast.Pass):
            return self.block(rest, ind)
        if isinstance(s, ast.Return):
            return pad + self.ret_value(s.value)
        if isinstance(s, ast.Assign) and len(s.targets) == 1 and isinstance(s.targets[0], ast.Tuple):
            names = [t.id for t in s.targets[0].elts if isinstance(t, ast.Name)]
            c, ty = self.expr(s.value)
            if ty != "opt3t" or len(names) != 3:
                raise Untranslatable("tuple unpacking")
            saved = dict(self.env)
            lets = []
            for nm, (fn, fty) in zip(names, [("tupName", "str"), ("tupLeft", "term"), ("tupRight", "term")]):
                self.fresh += 1
                lean = f"{nm}_{self.fresh}"
                lets.append(f"{pad}let {lean} := ({fn} {c});\n")
                self.env[nm] = (lean, fty)
            body = self.block(rest, ind)
            self.env = saved
            return "".join(lets) + body
        if isinstance(s, (ast.Assign, ast.AnnAssign)):
            if isinstance(s, ast.Assign):
                if len(s.targets) != 1 or not isinstance(s.targets[0], ast.Name):
                    raise Untranslatable("assignment target")
                name, value = s.targets[0].id, s.value
            else:
                if not isinstance(s.target, ast.Name):
                    raise Untranslatable("assignment target")
                name, value = s.target.id, s.value
                if value is None:
                    return self.block(rest, ind)
            c, ty = self.expr(value)
            self.fresh += 1
            lean = f"{name}_{self.fresh}"
            saved = dict(self.env)
            self.env[name] = (lean, ty)
            body = self.block(rest, ind)
            self.env = saved
            return f"{pad}let {lean} := {c};\n{body}"
        if isinstance(s, ast.While):
            # `while cond: v = e` over one node-valued local that moves towards the root: a fuel-indexed
            # recursive function, fuel = depth of the starting node + 1 (adequacy is part of the
            # agreement proof, not assumed)
            names = self.assigned(s.body)
            if s.orelse or names is None or len(names) != 1 or names[0] not in self.env:
                raise Untranslatable("while loop")
            var = names[0]
            old, oty = self.env[var]
            if oty != "node":
                raise Untranslatable("while loop over a non-node variable")
            self.fresh += 1
            loop = f"{self.fn_name}_loop{self.fresh}"
            saved = dict(self.env)
            self.env[var] = ("v", "node")
            cond = self.truth(s.test)
            st = s.body[0]
            step, sty = self.expr(st.value)
            self.env = saved
            if sty != "node":
                raise Untranslatable("while body")
            free = sorted({lean for (lean, _t) in saved.values() if lean != old and
                           (f" {lean})" in cond or f" {lean} " in cond or f" {lean})" in step)})
            if free:
                raise Untranslatable("while loop referring to other locals")
            self.aux.append(f"def {loop} : Nat → Ref → Ref\n  | 0, v => v\n  | fuel + 1, v => if {cond} then {loop} fuel {step} else v\n")
            self.fresh += 1
            lean = f"{var}_{self.fresh}"
            self.env[var] = (lean, "node")
            body = self.block(rest, ind)
            self.env = saved
            return f"{pad}let {lean} := {loop} (Ref.depth {old} + 1) {old};\n{body}"
        if isinstance(s, ast.If):
            cond = self.truth(s.test)
            if self.always_returns(s.body):
                saved = dict(self.env)
                a = self.block(s.body, ind + 1)
                self.env = dict(saved)
                b = self.block(list(s.orelse) + rest, ind + 1)
                self.env = saved
                return f"{pad}if {cond} then (\n{a})\n{pad}else (\n{b})"
            names = self.assigned(s.body)
            if names is not None and not s.orelse and all(n in self.env for n in names):
                # `if c: x = e` re-binds x
                out = []
                saved = dict(self.env)
                for st in s.body:
                    name = st.targets[0].id if isinstance(st, ast.Assign) else st.target.id
                    c, ty = self.expr(st.value)
                    old, oty = self.env[name]
                    if oty != ty:
                        raise Untranslatable(f"re-assignment of {name} changes its type")
                    self.fresh += 1
                    lean = f"{name}_{self.fresh}"
                    out.append(f"{pad}let {lean} := if {cond} then {c} else {old};\n")
                    self.env[name] = (lean, ty)
                body = self.block(rest, ind)
                self.env = saved
                return "".join(out) + body
            # general case: the code after the `if` is duplicated into both branches
            saved = dict(self.env)
            a = self.block(list(s.body) + rest, ind + 1)
            self.env = dict(saved)
            b = self.block(list(s.orelse) + rest, ind + 1)
            self.env = saved
            return f"{pad}if {cond} then (\n{a})\n{pad}else (\n{b})"
        raise Untranslatable(type(s).__name__)


RET_LEAN = {"bool": "Bool", "int": "Int", "optstr": "Option String", "opt3": "Option (String × Ref × Ref)",
            "opt3t": "Option (String × Option TermEx × Option TermEx)", "term": "Option TermEx", "node": "Ref"}
TY_LEAN = {"node": "Ref", "bool": "Bool", "char": "Char"}


def module_consts(tree):
    out = {}
    for s in tree.body:
        tgt = None
        if isinstance(s, ast.Assign) and len(s.targets) == 1 and isinstance(s.targets[0], ast.Name):
            tgt, val = s.targets[0].id, s.value
        elif isinstance(s, ast.AnnAssign) and isinstance(s.target, ast.Name) and s.value is not None:
            tgt, val = s.target.id, s.value
        if tgt and isinstance(val, ast.Constant) and isinstance(val.value, (str, int)) and not isinstance(val.value, bool):
            out[tgt] = val.value
        elif tgt and isinstance(val, ast.UnaryOp) and isinstance(val.op, ast.USub) and isinstance(val.operand, ast.Constant):
            out[tgt] = -val.operand.value
    return out


def find_function(tree, cls, fn):
    scope = tree.body
    if cls is not None:
        for s in tree.body:
            if isinstance(s, ast.ClassDef) and s.name == cls:
                scope = s.body
                break
        else:
            raise Untranslatable(f"class {cls} not found")
    for s in scope:
        if isinstance(s, ast.FunctionDef) and s.name == fn:
            return s
    raise Untranslatable(f"function {fn} not found")


AREAS = {"tokenizer.py": "Tok", "expressions.py": "Print", "util.py": "Util", "tree.py": "Tree"}   # everything else: "Rules"
AREA_IMPORTS = {"Tok": ["Mathy.Model.PyRt"], "Print": ["Mathy.Model.PyRt"], "Util": ["Mathy.Model.PyRt"],
                "Tree": ["Mathy.Model.PyRt"],
                "Rules": ["Mathy.Model.PyRt", "Mathy.Gen.PySrcUtil"]}


def translate_areas(repo=None):
    """one generated file per area of the code base, so that a function that cannot be translated
    any more only breaks the obligations of the properties about that area"""
    repo = repo or core.REPO
    texts, problems = {}, []
    for area in ("Tok", "Print", "Util", "Tree", "Rules"):
        t, pr = translate_all(repo, area)
        texts[area] = t
        problems += pr
    return texts, problems


def translate_all(repo=None, area=None):
    repo = repo or core.REPO
    imports = "".join(f"import {m}\n" for m in AREA_IMPORTS.get(area, ["Mathy.Model.PyRt"]))
    out = [
        "/-\nGENERATED by harness/py2lean.py from the LIVE source files of mathy_core — do not edit.\n"
        "Each definition is the statement-by-statement translation of the Python function named above\n"
        "it, over the run-time library Model/PyRt.lean.  Proofs/PySrcAgree.lean proves that the\n"
        "hand-written model computes the same function.\n-/\n" + imports + "namespace Mathy.Gen.Src\nopen Mathy.Py\n"
    ]
    problems = []
    for file, cls, fn, lean, params, ret in FUNCTIONS:
        if area is not None and AREAS.get(file, "Rules") != area:
            continue
        path = os.path.join(repo, "mathy_core", file)
        try:
            tree = ast.parse(open(path).read())
            node = find_function(tree, cls, fn)
            consts = module_consts(tree)
            if file == "expressions.py":
                pass
            tr = FnTranslator(consts, params, ret, cls, lean)
            body = tr.block(node.body, 1)
            for a in tr.aux:
                out.append(a)
            sig = " ".join(f"({tr.env[p][0]} : {TY_LEAN[t]})" for p, t in params)
            out.append(f"/-- `{file}`: `{(cls + '.') if cls else ''}{fn}` -/\ndef {lean} {sig} : {RET_LEAN[ret]} :=\n{body}\n")
        except (Untranslatable, OSError, SyntaxError) as e:
            problems.append(f"{file}:{fn}: {type(e).__name__}: {e}")
            # keep the build broken in a recognisable way: the agreement theorem cannot be stated
            out.append(f"/- UNTRANSLATABLE {file}: {fn}: {e} -/\n")
    out.append("end Mathy.Gen.Src\n")
    return "\n".join(out), problems


if __name__ == "__main__":
    text, problems = translate_all()
    print(text)
    print(problems)
