"""Checks for the rule-family properties C01, C02, C06, C07 (shared differential run)."""
import random

from . import core, gen, rules_run


def is_eq(t):
    return t[0] == "B" and t[2] == "eq"


def build_cases(ctx, want_equations=None):
    """Reachable input trees for this tier/seed.  want_equations: True / False / None (both)."""
    rng = random.Random(ctx.seed * 7919 + 17)
    quick = ctx.tier == "quick"
    trees, seen = [], set()
    stats = {"pattern": 0, "exhaustive": 0, "random": 0, "unparseable_generated": 0}

    def add(t, kind):
        text, r = gen.reachable(t)
        if r is None:
            stats["unparseable_generated"] += 1
            return
        if want_equations is not None and is_eq(r) != want_equations:
            return
        w = core.tuple_to_wire(r)
        if w not in seen:
            seen.add(w)
            trees.append(r)
            stats[kind] += 1

    for txt in gen.PATTERN_TEXTS + gen.rule_test_texts():
        try:
            t = core.to_tuple(core.parse_fresh(txt))
        except Exception:
            continue
        add(t, "pattern")
    n = 5 if quick else 6
    small = list(gen.enum_upto(n))
    if want_equations is not True:
        for t in small:
            add(t, "exhaustive")
    if want_equations is not False:
        sides = list(gen.enum_upto(n - 2))
        for a in sides:
            for b in sides:
                if core.tuple_size(a) + core.tuple_size(b) + 1 <= n:
                    add(("B", 0, "eq", a, b), "exhaustive")
    nrand = 1200 if quick else 60000
    max_nodes = 45 if quick else 90
    for i in range(nrand):
        depth = rng.choice([2, 3, 3, 4] if quick else [2, 3, 3, 4, 4, 5])
        eq = (want_equations is True) or (want_equations is None and rng.random() < 0.3)
        t = gen.rand_tree(rng, depth - 1 if eq else depth, allow_eq=eq)
        if core.tuple_size(t) <= max_nodes:
            add(t, "random")
    return trees, stats


def describe(case):
    out = {}
    for k, v in case.items():
        if k == "tree" or k == "result":
            out[k] = core.tuple_str(v)
            if k == "tree":
                try:
                    out["text"] = str(core.tuple_to_py(v))
                except Exception:
                    pass
        elif k in ("impl", "model") and isinstance(v, tuple) and v and v[0] == "ok" and isinstance(v[1], tuple):
            out[k] = core.tuple_str(v[1])
            out[k + "_tags"] = core.tuple_to_wire(v[1])
        else:
            out[k] = v
    return out


def family_run(ctx, want_equations=None):
    trees, stats = build_cases(ctx, want_equations)
    recs = rules_run.run_impl(trees)
    drv = core.Driver()
    rules_run.run_model(drv, recs)
    d = rules_run.compare(recs)
    ctx.notes["generator"] = stats
    # arrangement / rule histogram
    hist = {}
    nontrivial = set()
    for rec in recs:
        for a in rec["apply"]:
            hist[a["rule"]] = hist.get(a["rule"], 0) + 1
            if a["impl"][0] == "ok":
                nontrivial.add((core.tuple_to_wire(rec["tree"]), a["rule"], a["idx"]))
    ctx.notes["applied_per_rule"] = hist
    ctx.notes["skipped_outside_model_domain"] = d["skipped"]
    ctx.coverage["evaluations"] += sum(len(r["apply"]) for r in recs) + len(recs) * len(core.RULE_NAMES)
    ctx.coverage["distinct_nontrivial"] += len(nontrivial)
    ctx.coverage["traces_validated_against_impl"] += d["applied"]
    for rec in recs[:: max(1, len(recs) // 6)][:6]:
        for a in rec["apply"][:1]:
            if a["impl"][0] == "ok":
                ctx.sample({"text": str(core.tuple_to_py(rec["tree"])), "rule": a["rule"], "node": a["idx"],
                            "result": a.get("text")})
    return recs, d


def report(ctx, d, violation_kinds, correspondence_kinds, what):
    """violation_kinds: oracle failures on the real code (failing input found).
    correspondence_kinds: model/implementation differences; when there is no oracle failure
    they are reported as 'no-failing-input-found'."""
    found = False
    for k in violation_kinds:
        for case in d[k][:5]:
            ctx.violation(k, dict(describe(case), observation=k, what=what))
            found = True
    if found:
        return
    broken = []
    for k in correspondence_kinds:
        if d[k]:
            broken.append({"correspondence": k, "count": len(d[k]), "first": [describe(c) for c in d[k][:3]]})
    if broken or ctx.broken:
        ctx.violation("unproved", {"what": what, "broken_correspondence": broken, "broken_obligations": ctx.broken,
                                   "note": "no input violating the property statement was found on the implementation; "
                                           "the property is no longer shown to hold"}, found_input=False)


def c01(ctx):
    ctx.coverage["rule"] = (
        "inputs: parser images of (a) hand-written texts covering every get_type arrangement and the repo's rule "
        "examples, (b) ALL trees up to 5 (quick) / 6 (thorough) nodes over leaves {2,-1,1/2,x,y} and + - * / ^ neg, "
        "(c) seeded random trees; every node x 11 rule configurations. A case is non-trivial and distinct when "
        "the rule was applicable and applied at that (tree,node,rule) and the result was compared with the model "
        "and evaluated exactly (Fractions) against the original on an assignment grid."
    )
    recs, d = family_run(ctx, want_equations=False)
    report(ctx, d, ["value"], ["shape"], "value preservation of rewrites (non-equation trees)")


def c02(ctx):
    ctx.coverage["rule"] = (
        "as C01 but equation-rooted trees (every small tree on either side of '=', chained equations, random); "
        "oracle: truth value of the equation before/after at a grid plus exact roots of L-R (affine or quadratic "
        "in one variable) of both equations. Non-trivial: an applicable rewrite on an equation was applied."
    )
    recs, d = family_run(ctx, want_equations=True)
    report(ctx, d, ["value"], ["shape"], "solution-set preservation of rewrites on equations")


def c06(ctx):
    ctx.coverage["rule"] = (
        "same inputs as C01+C02; for every tree and rule: find_nodes vs model, r_index = in-order index, find_node = "
        "first, can_apply_to called twice at every node with a full object-graph snapshot before/after, apply_to at "
        "every applicable node must return a result. Non-trivial: applicable and applied."
    )
    recs, d = family_run(ctx, want_equations=None)
    report(ctx, d, ["apply_fail", "purity", "find_meta"], ["find"], "applicable => appliable; purity; node search")


def c07(ctx):
    ctx.coverage["rule"] = (
        "same inputs as C01+C02; every rewrite is applied to clone_from_root of the node; the real result is audited "
        "(parent/child links, arity, no object twice, parentless root), its variables compared, the tree cloned from "
        "re-snapshotted, and object identities (reused / fresh / cloned) compared node by node with the model."
    )
    recs, d = family_run(ctx, want_equations=None)
    report(ctx, d, ["audit", "vars", "orig"], ["ident", "shape"], "structural soundness and untouched context")


CHECKS = {"C01": c01, "C02": c02, "C06": c06, "C07": c07}
