"""Checks for the rule-family properties C01, C02, C06, C07 (shared differential run)."""
import json
import os
import random
import re

from . import core, gen, rules_run
from mathy_core import rules as R


def is_eq(t):
    return t[0] == "B" and t[2] == "eq"


def build_cases(ctx, want_equations=None):
    """Reachable input trees for this tier/seed.  want_equations: True / False / None (both)."""
    rng = random.Random(ctx.seed * 7919 + 17)
    quick = ctx.tier == "quick"
    trees, seen = [], set()
    stats = {"pattern": 0, "exhaustive": 0, "random": 0, "unparseable_generated": 0}

    def add(t, kind):
        text, r = gen.reachable(t)
        if r is None:
            stats["unparseable_generated"] += 1
            return
        if want_equations is not None and is_eq(r) != want_equations:
            return
        w = core.tuple_to_wire(r)
        if w not in seen:
            seen.add(w)
            trees.append(r)
            stats[kind] += 1

    for txt in gen.PATTERN_TEXTS + gen.rule_test_texts() + gen.template_texts():
        try:
            t = core.to_tuple(core.parse_fresh(txt))
        except Exception:
            continue
        add(t, "pattern")
    n = 5 if quick else 6
    small = list(gen.enum_upto(n))
    if want_equations is not True:
        for t in small:
            add(t, "exhaustive")
    if want_equations is not False:
        sides = list(gen.enum_upto(n - 2))
        for a in sides:
            for b in sides:
                if core.tuple_size(a) + core.tuple_size(b) + 1 <= n:
                    add(("B", 0, "eq", a, b), "exhaustive")
    nrand = 1200 if quick else 12000
    max_nodes = 45 if quick else 60
    for i in range(nrand):
        depth = rng.choice([2, 3, 3, 4] if quick else [2, 3, 3, 4, 4, 5])
        eq = (want_equations is True) or (want_equations is None and rng.random() < 0.3)
        t = gen.rand_tree(rng, depth - 1 if eq else depth, allow_eq=eq)
        if core.tuple_size(t) <= max_nodes:
            add(t, "random")
    return trees, stats


def describe(case):
    out = {}
    for k, v in case.items():
        if k == "tree" or k == "result":
            out[k] = core.tuple_str(v)
            if k == "tree":
                try:
                    out["text"] = str(core.tuple_to_py(v))
                except Exception:
                    pass
        elif k in ("impl", "model") and isinstance(v, tuple) and v and v[0] == "ok" and isinstance(v[1], tuple):
            out[k] = core.tuple_str(v[1])
            out[k + "_tags"] = core.tuple_to_wire(v[1])
        else:
            out[k] = v
    return out


def family_run(ctx, want_equations=None):
    trees, stats = build_cases(ctx, want_equations)
    recs = rules_run.run_impl(trees)
    drv = core.Driver()
    rules_run.run_model(drv, recs)
    d = rules_run.compare(recs)
    ctx.notes["generator"] = stats
    # arrangement / rule histogram
    hist = {}
    nontrivial = set()
    for rec in recs:
        for a in rec["apply"]:
            hist[a["rule"]] = hist.get(a["rule"], 0) + 1
            if a["impl"][0] == "ok":
                nontrivial.add((core.tuple_to_wire(rec["tree"]), a["rule"], a["idx"]))
    ctx.notes["applied_per_rule"] = hist
    ctx.notes["skipped_outside_model_domain"] = d["skipped"]
    ctx.coverage["evaluations"] += sum(len(r["apply"]) for r in recs) + len(recs) * len(core.RULE_NAMES)
    ctx.coverage["distinct_nontrivial"] += len(nontrivial)
    ctx.coverage["traces_validated_against_impl"] += d["applied"]
    for rec in recs[:: max(1, len(recs) // 6)][:6]:
        for a in rec["apply"][:1]:
            if a["impl"][0] == "ok":
                ctx.sample({"text": str(core.tuple_to_py(rec["tree"])), "rule": a["rule"], "node": a["idx"],
                            "result": a.get("text")})
    return recs, d


_HUGE = re.compile(r"\d{20,}")


def is_known_df_huge(problem):
    """predicate of the open finding C06-factor-out-huge-integer (see known_findings.json)"""
    blob = json.dumps(problem, default=str)
    if "TypeError" not in blob or not re.search(r"\bdf[01]?\b|DistributiveFactorOut", blob):
        return False
    return any(int(m) >= 2 ** 64 for m in _HUGE.findall(blob))


def split_known(ctx, problems):
    """(problems not covered by an open finding, number covered)"""
    if not any(f.get("id", "").endswith("factor-out-huge-integer") for f in ctx.findings.get("open", [])):
        return problems, 0
    rest = [p for p in problems if not is_known_df_huge(p)]
    return rest, len(problems) - len(rest)


def probe_known_df_huge(ctx):
    """re-execute the witness of the open finding; print KNOWN-FINDING while it reproduces"""
    f = [f for f in ctx.open_findings() if f.get("id", "").endswith("factor-out-huge-integer")]
    if not f:
        return
    try:
        R.DistributiveFactorOutRule().find_nodes(core.parse_fresh("36893488147419103232x + 2x"))
    except TypeError:
        ctx.known_finding(f"{f[0]['id']}: {f[0]['what'][:260]} (reproduced on '36893488147419103232x + 2x')")
    except Exception as e:  # noqa
        ctx.violation("apply_fail", {"text": "36893488147419103232x + 2x", "rule": "df0",
                                     "what": f"find_nodes raised {type(e).__name__}: {e}"[:300]})


def report(ctx, d, violation_kinds, correspondence_kinds, what):
    """violation_kinds: oracle failures on the real code (failing input found).
    correspondence_kinds: model/implementation differences; when there is no oracle failure
    they are reported as 'no-failing-input-found'."""
    found = False
    for k in violation_kinds:
        d[k], nk = split_known(ctx, d[k])
        if nk:
            ctx.notes.setdefault("covered_by_open_finding", 0)
            ctx.notes["covered_by_open_finding"] += nk
        for case in d[k][:5]:
            ctx.violation(k, dict(describe(case), observation=k, what=what))
            found = True
    if found:
        return
    broken = []
    for k in correspondence_kinds:
        if d[k]:
            broken.append({"correspondence": k, "count": len(d[k]), "first": [describe(c) for c in d[k][:3]]})
    if broken or ctx.broken:
        ctx.violation("unproved", {"what": what, "broken_correspondence": broken, "broken_obligations": ctx.broken,
                                   "note": "no input violating the property statement was found on the implementation; "
                                           "the property is no longer shown to hold"}, found_input=False)


# ----------------------------------------------------------------------------- in-place walks

INPLACE_TEXTS = [
    "4x + (2x + 3x)", "(4x + 2x) + 3x", "4x + 2x + 3x + y", "2x + (3x + (4x + 5x))", "a + 1 = b = c", "x + 2 = y = z + 1",
    "a / b + c / d", "x / 2 + y / 3 - z / 4", "2x - y = 7", "4 - 3x = 2 - y", "(x + 2) * (y + 3)", "2 * (x + 3) * (y + 1)",
    "x * x^2 * x^3", "2x * 3x * 4x", "7 + 2y + 0y", "3x - (2x + y + z)", "4x^2 + 2x^2 + x", "x = 2 + 3 = y",
    "(a + b) + (c + d)", "a * (b * (c * d))", "4 - (3 - x)", "2x + 3 = 7 - x", "1 / x + 2 / x", "6x / 3 + 2",
    # rewritable nodes directly below a unary operator (negation, function, factorial)
    "-((2 + 3) * x) + 5 = 9", "-(x + y + z)", "sgn((2 + 3) * x) + 4x + 2x", "-(2x + 3x) + 4", "(2 + 3)! + x + x",
    "-(4 * (x + 2)) = 8 + 2", "7 - -(2x + y + 3)", "sgn(x * y * z) * 2",
    # distribution of a multiplier that is itself a product / power (its copy must be a copy)
    "7x * (y + 1)", "(a * b) * (c + d)", "4x^2 * (y + z)", "(a * b) * (c + d) + z", "(y + 1) * 7x", "2x * (3y + 4z) = 5",
]


def _guarded_walk(fn, args, seconds=40.0):
    """one walk under a time limit: arithmetic on numbers of millions of digits (towers of powers reached by a
    random rewrite sequence) can keep the exact oracle or the real evaluate() busy for hours; such a walk is
    abandoned (counted in the notes), it is not evidence for or against a property"""
    from .parse_run import time_limit, _TimeUp
    try:
        with time_limit(seconds):
            return fn(args)
    except _TimeUp:
        return {"start": args[0], "steps": [], "problems": [], "abandoned": True}


def inplace_walk_case(args):
    return _guarded_walk(_inplace_walk_case, args)


def _inplace_walk_case(args):
    """a random walk on the real code where every rule is applied IN PLACE to the node objects of
    the current tree (no cloning between steps), with the long-lived rule instances, and every
    rule is asked for its applicable nodes before every step.  Returns steps + problems, each
    problem tagged with the property it concerns."""
    start_text, seed, length = args
    from .props_tree import expr_signature, path_to
    rng = random.Random(seed)
    out = {"start": start_text, "steps": [], "problems": []}
    try:
        current = core.parse_fresh(start_text)
        start_tuple = core.to_tuple(current)
    except Exception:
        return None
    eq = is_eq(start_tuple)
    watched = []      # (rule name, node object): asked directly, again and again, around the edits
    sweep = seed % 3 != 0   # one walk in three never sweeps the tree with find_nodes: it asks single nodes only
    for step in range(length):
        options = []
        if sweep:
            for rn in core.RULE_NAMES:
                try:
                    for n in core.rule_instance(rn).find_nodes(current):
                        options.append((rn, n.r_index))
                except Exception as e:  # noqa
                    out["problems"].append({"prop": "C06", "step": step, "what": f"find_nodes({rn}) raised {type(e).__name__}",
                                            "rule": rn, "state": str(current)})
        else:
            # applicable (rule, node) pairs according to FRESH rule objects (no history)
            live0 = core.inorder(current)
            for rn in core.RULE_NAMES:
                fr = core.RULES[rn]()
                for i_, n_ in enumerate(live0):
                    try:
                        if fr.can_apply_to(n_):
                            options.append((rn, i_))
                    except Exception:  # noqa
                        pass
        # the same question asked of the same node object before and after in-place edits made
        # elsewhere must be answered as a rule object without history answers it (C06: same tree,
        # same answer), and a form that became / stopped being a documented form must be
        # accepted / rejected accordingly (C08)
        live = core.inorder(current)
        live_ids = {id(n) for n in live}
        watched = [(wr, wn) for wr, wn in watched if id(wn) in live_ids][-4:]
        forced = None
        for wr, wn in watched:
            try:
                a_long = bool(core.rule_instance(wr).can_apply_to(wn))
                a_fresh = bool(core.RULES[wr]().can_apply_to(wn))
            except Exception as e:  # noqa
                out["problems"].append({"prop": "C06", "step": step, "rule": wr, "state": str(current),
                                        "what": f"can_apply_to raised {type(e).__name__}"})
                continue
            if a_long != a_fresh:
                for pr_ in ("C06", "C08"):
                    out["problems"].append({"prop": pr_, "step": step, "rule": wr, "node": str(wn), "state": str(current),
                                            "what": f"can_apply_to answers {a_long} on a long-lived rule object but {a_fresh} on a "
                                                    "fresh one for the same node of the same tree (the node was asked about "
                                                    "before an in-place edit elsewhere)"})
            elif a_long and forced is None and rng.random() < 0.5:
                forced = (wr, wn)
        if live and rng.random() < 0.7:
            if options and rng.random() < 0.5:
                # a pair at which the rule currently applies (its answer is the one that matters later)
                wr, wi = rng.choice(options)
                wn = live[wi] if wi < len(live) else rng.choice(live)
            else:
                wn = rng.choice(live)
                wr = rng.choice(core.RULE_NAMES)
            try:
                core.rule_instance(wr).can_apply_to(wn)   # the first question (its answer is checked by the sweep above)
                watched.append((wr, wn))
            except Exception:  # noqa
                pass
        if forced is not None:
            # apply at the watched node WITHOUT asking anything else in between
            rn = forced[0]
            idx = next(i for i, n in enumerate(live) if n is forced[1])
        elif options:
            rn, idx = rng.choice(options)
        else:
            break
        rule = core.rule_instance(rn)
        nodes = core.inorder(current)
        node = nodes[idx]
        # the same step as search agents take it — on a copy cloned from the root of the tree AS IT IS
        # NOW (after the in-place edits so far) — must give what the step gives on a freshly built
        # tree of the current structure: the context of the rewritten node is the current one
        if rng.random() < 0.5:
            try:
                fresh_root = core.rebuild(current)
                want = core.strip_tags(core.to_tuple(core.RULES[rn]().apply_to(core.inorder(fresh_root)[idx]).result.get_root()))
                try:
                    got = core.strip_tags(core.to_tuple(core.RULES[rn]().apply_to(node.clone_from_root()).result.get_root()))
                except Exception as e_:  # noqa  (Unmodelled = a malformed result tree, e.g. a missing operand)
                    got = ("raised", type(e_).__name__, str(e_)[:80])
                if got[0] == "raised" or not core.tuples_agree(got, want, with_tags=False):
                    for pr_ in ("C07", "C13"):
                        out["problems"].append({"prop": pr_, "step": step, "rule": rn, "idx": idx, "state": str(current),
                                                "result_on_clone": str(got) if got[0] == "raised" else core.tuple_str(got),
                                                "result_on_fresh_tree": core.tuple_str(want),
                                                "what": "a rewrite applied to clone_from_root of a tree that was edited in place "
                                                        "does not keep the current context (the copy is not the current tree)"})
            except Exception as e_dbg:  # noqa
                if os.environ.get("VERIF_DEBUG"):
                    import traceback
                    traceback.print_exc()
        fresh_want = None
        try:
            fr_ = core.rebuild(current)
            fresh_want = core.strip_tags(core.to_tuple(core.RULES[rn]().apply_to(core.inorder(fr_)[idx]).result.get_root()))
        except Exception:  # noqa
            fresh_want = None
        expected = None
        if forced is not None:
            # what a rule object without history produces on an identical copy
            try:
                cp = node.clone_from_root()
                expected = core.strip_tags(core.to_tuple(core.RULES[rn]().apply_to(cp).result.get_root()))
            except Exception:  # noqa
                expected = None
        tags = core.tag_map(current)
        try:
            before = core.to_tuple(current, tags)
        except core.Unmodelled:
            break
        rec = {"rule": rn, "idx": idx, "before": before}
        try:
            if not rule.can_apply_to(node):
                out["problems"].append({"prop": "C06", "step": step, "rule": rn, "idx": idx,
                                        "what": "find_nodes listed a node that can_apply_to rejects"})
                break
            change = rule.apply_to(node)
            if change.result is None:
                raise RuntimeError("change.result is None")
            new_root = change.result.get_root()
        except Exception as e:  # noqa
            out["problems"].append({"prop": "C06", "step": step, "rule": rn, "idx": idx,
                                    "state": core.tuple_str(before),
                                    "what": f"reported applicable but apply_to raised {type(e).__name__}: {e}"[:240]})
            break
        probs = core.audit_links(new_root)
        malformed = bool(probs)
        if probs:
            out["problems"].append({"prop": "C07", "step": step, "rule": rn, "idx": idx, "state": core.tuple_str(before),
                                    "what": "malformed tree after an in-place rewrite", "audit": [str(x) for x in probs[:3]]})
            n_malformed = sum(1 for p_ in out["problems"] if p_["what"].startswith("malformed tree"))
            if n_malformed > 2:
                out["steps"].append(rec)
                break
            # the walk goes on (a shared node or a stale parent pointer shows in what the NEXT rule does)
        try:
            after = core.to_tuple(new_root, tags)
        except (core.Unmodelled, KeyError, RecursionError):
            rec["unmodelled"] = True
            out["steps"].append(rec)
            break
        rec["after"] = after
        out["steps"].append(rec)
        # the documented transformation: what the rule does to a freshly built tree of the structure the
        # live tree had before this step
        if fresh_want is not None and not core.tuples_agree(core.strip_tags(after), fresh_want, with_tags=False):
            for pr_ in ("C08", "C06"):
                out["problems"].append({"prop": pr_, "step": step, "rule": rn, "idx": idx, "state": core.tuple_str(before),
                                        "result": core.tuple_str(after), "result_on_fresh_tree": core.tuple_str(fresh_want),
                                        "what": "applied to the live tree (after earlier in-place rewrites) the rule does not "
                                                "produce what it produces on a freshly built tree of the same structure"})
        if expected is not None and not core.tuples_agree(core.strip_tags(after), expected, with_tags=False):
            for pr_ in ("C06", "C08"):
                out["problems"].append({"prop": pr_, "step": step, "rule": rn, "idx": idx, "state": core.tuple_str(before),
                                        "result": core.tuple_str(after), "fresh_rule_result": core.tuple_str(expected),
                                        "what": "a long-lived rule object rewrites this node differently from a fresh rule "
                                                "object (same tree, same node)"})
        if core.tuple_vars(after) != core.tuple_vars(before):
            out["problems"].append({"prop": "C07", "step": step, "rule": rn, "idx": idx, "what": "variable set changed",
                                    "state": core.tuple_str(before), "result": core.tuple_str(after)})
        w = core.refines(before, after)
        if w is not None:
            out["problems"].append({"prop": "C02" if eq else "C01", "step": step, "rule": rn, "idx": idx,
                                    "what": "rewrite changed the value / solution set", "witness": w,
                                    "state": core.tuple_str(before), "result": core.tuple_str(after)})
        w = core.refines(start_tuple, after)
        if w is not None:
            out["problems"].append({"prop": "C09", "step": step, "rule": rn, "idx": idx, "what": "not equivalent to the start",
                                    "witness": w, "state": core.tuple_str(after)})
        current = new_root
        st = core.eval_stale(current)
        if st is not None:
            for pr_ in ("C02" if eq else "C01", "C09", "C05"):
                out["problems"].append({"prop": pr_, "step": step, "rule": rn, "idx": idx,
                                        "what": "evaluate() on the rewritten objects differs from evaluate() on a "
                                                "fresh tree of the same structure", "witness": st,
                                        "state": core.tuple_str(before), "result": core.tuple_str(after)})
        # clone_from_root of nodes of a tree that has been rewritten in place
        objs = core.inorder(current)
        sig = expr_signature(current)
        for k in sorted({rng.randrange(len(objs)) for _ in range(3)}):
            try:
                got = objs[k].clone_from_root()
                if expr_signature(got.get_root()) != sig or path_to(got) != path_to(objs[k]):
                    out["problems"].append({"prop": "C13", "step": step, "node": k, "state": core.tuple_str(after),
                                            "what": "clone_from_root after in-place rewrites: wrong copy / position"})
            except Exception as e:  # noqa
                out["problems"].append({"prop": "C13", "step": step, "node": k, "state": core.tuple_str(after),
                                        "what": f"clone_from_root raised {type(e).__name__} after in-place rewrites: {e}"[:200]})
        # a problem of the copies alone (C13) does not end the walk: the tree itself is fine, and rewrites
        # applied to such copies are what C07 is about (checked at the next steps)
        if any(p["step"] == step and p["prop"] != "C13" and not p["what"].startswith("malformed tree")
               for p in out["problems"]):
            break
        if sum(1 for p in out["problems"] if p["prop"] == "C13") > 12:
            break
    return out


def inplace_family(ctx, prop):
    """problems of the in-place walks that concern `prop`, as (problem, walk) pairs"""
    import multiprocessing as mp
    rng = random.Random(ctx.seed * 31337 + 77)
    quick = ctx.tier == "quick"
    starts = list(dict.fromkeys(INPLACE_TEXTS + gen.PATTERN_TEXTS + gen.rule_test_texts()
                                + gen.template_texts()[:: 9 if quick else 2]))
    for _ in range(100 if quick else 800):
        t = gen.rand_tree(rng, rng.choice([2, 3, 3, 4]), allow_eq=rng.random() < 0.3)
        txt, r = gen.reachable(t)
        if r is not None and core.tuple_size(r) <= 40:
            starts.append(txt)
    length = 6 if quick else 15
    jobs = [(s, rng.randrange(1 << 30), length) for s in starts for _ in range(3 if quick else 4)]
    jobs += [(s, rng.randrange(1 << 30), length) for s in INPLACE_TEXTS for _ in range(30 if quick else 100)]
    # ONE process per chunk of walks keeps its rule instances for all of them (long-lived rules)
    with mp.Pool(16) as pool:
        walks = [w for w in pool.imap(inplace_walk_case, jobs, chunksize=16) if w is not None]
    nsteps = sum(len(w["steps"]) for w in walks)
    ctx.notes["inplace_walks"] = {"walks": len(walks), "steps": nsteps,
                                  "abandoned_after_time_limit": sum(1 for w in walks if w.get("abandoned"))}
    ctx.coverage["evaluations"] += len(walks)
    ctx.coverage["traces_validated_against_impl"] += nsteps
    out = []
    for w in walks:
        w["problems"], _nk = split_known(ctx, w["problems"])
        for p in w["problems"]:
            if p["prop"] == prop:
                out.append(dict(p, start=w["start"], in_place=True,
                                sequence=[(s["rule"], s["idx"]) for s in w["steps"]]))
    return out, walks


def report_inplace(ctx, prop, what):
    probs, walks = inplace_family(ctx, prop)
    for p in probs[:5]:
        ctx.violation("inplace", dict(p, observation="in-place rewrite sequence on the same node objects", what=what))
    return walks


def c01(ctx):
    ctx.coverage["rule"] = (
        "inputs: parser images of (a) hand-written texts covering every get_type arrangement and the repo's rule "
        "examples, (b) ALL trees up to 5 (quick) / 6 (thorough) nodes over leaves {2,-1,1/2,x,y} and + - * / ^ neg, "
        "(c) seeded random trees; every node x 11 rule configurations. A case is non-trivial and distinct when "
        "the rule was applicable and applied at that (tree,node,rule) and the result was compared with the model "
        "and evaluated exactly (Fractions) against the original on an assignment grid."
    )
    recs, d = family_run(ctx, want_equations=False)
    report(ctx, d, ["value"], ["shape"], "value preservation of rewrites (non-equation trees)")
    report_inplace(ctx, "C01", "value preservation of rewrites (in-place sequences, long-lived rule objects)")


def c02(ctx):
    ctx.coverage["rule"] = (
        "as C01 but equation-rooted trees (every small tree on either side of '=', chained equations, random); "
        "oracle: truth value of the equation before/after at a grid plus exact roots of L-R (affine or quadratic "
        "in one variable) of both equations. Non-trivial: an applicable rewrite on an equation was applied."
    )
    recs, d = family_run(ctx, want_equations=True)
    report(ctx, d, ["value"], ["shape"], "solution-set preservation of rewrites on equations")
    report_inplace(ctx, "C02", "solution-set preservation of rewrites on equations (in-place sequences)")


def c06(ctx):
    ctx.coverage["rule"] = (
        "same inputs as C01+C02; for every tree and rule: find_nodes vs model, r_index = in-order index, find_node = "
        "first, can_apply_to called twice at every node with a full object-graph snapshot before/after, apply_to at "
        "every applicable node must return a result. Non-trivial: applicable and applied."
    )
    recs, d = family_run(ctx, want_equations=None)
    report(ctx, d, ["apply_fail", "purity", "find_meta", "second_step"], ["find"], "applicable => appliable; purity; node search")
    report_inplace(ctx, "C06", "applicable => appliable on trees rewritten in place")
    probe_known_df_huge(ctx)


def heap_attach_correspondence(ctx, d):
    """`parent.set_left(new)` / `set_right(new)` on real BinaryTreeNode objects against the heap
    model's `setSide` (the operation `ExpressionChangeRule.done` splices results in with): every
    cell (left, right, parent) of both trees afterwards; every node of every shape up to 4 (quick) /
    5 (thorough) nodes as the parent, both sides, new sub-trees of up to 3 nodes and `None`"""
    from .props_tree import all_shapes, build, shape_wire, ids_of
    quick = ctx.tier == "quick"
    d["heap_attach"] = []
    ts = all_shapes(4 if quick else 5)
    ss = [None] + all_shapes(2 if quick else 3)
    lines, meta = [], []
    for t in ts:
        for s in ss:
            off = max(ids_of(t)) + 1

            def shift(x):
                return None if x is None else (x[0] + off, shift(x[1]), shift(x[2]))
            s2 = shift(s)
            for q in ids_of(t):
                for side in "LR":
                    nodes = {}
                    root = build(t, nodes)
                    sroot = build(s2, nodes) if s2 is not None else None
                    try:
                        (nodes[q].set_left if side == "L" else nodes[q].set_right)(sroot)
                    except Exception as e:  # noqa
                        d["heap_attach"].append({"tree": shape_wire(t), "new": shape_wire(s2), "what": f"set_side raised {type(e).__name__}"})
                        continue
                    rev = {id(o): k for k, o in nodes.items()}
                    cells = {k: tuple(rev.get(id(x)) if x is not None else None for x in (o.left, o.right, o.parent))
                             for k, o in nodes.items()}
                    lines.append(f"attach {q} {side} {shape_wire(t)} | {shape_wire(s2)}")
                    meta.append((t, s2, q, side, cells))
    drv = core.Driver()
    for (t, s2, q, side, cells), a in zip(meta, drv.ask(lines)):
        toks = a.split()
        mcells = {}
        ok = bool(toks) and toks[0] == "cells"
        if ok:
            for c in toks[1:]:
                k, l_, r_, p_ = c.split(":")
                mcells[int(k)] = tuple(None if x == "-" else int(x) for x in (l_, r_, p_))
        if not ok or mcells != cells:
            d["heap_attach"].append({"tree": shape_wire(t), "new": shape_wire(s2) if s2 else None, "parent": q, "side": side,
                                     "impl_cells": str(cells), "model": a[:300]})
    ctx.notes["heap_attach_compared"] = len(lines)
    ctx.coverage["traces_validated_against_impl"] += len(lines)


def c07(ctx):
    ctx.coverage["rule"] = (
        "same inputs as C01+C02; every rewrite is applied to clone_from_root of the node; the real result is audited "
        "(parent/child links, arity, no object twice, parentless root), its variables compared, the tree cloned from "
        "re-snapshotted, and object identities (reused / fresh / cloned) compared node by node with the model."
    )
    recs, d = family_run(ctx, want_equations=None)
    # C07 consumes identities, links, context and variables of the results; whether the result has
    # the SHAPE the model predicts is C01/C02/C08's business (a value-changing rewrite is theirs)
    heap_attach_correspondence(ctx, d)
    report(ctx, d, ["audit", "vars", "orig"], ["ident", "heap_attach"], "structural soundness and untouched context")
    report_inplace(ctx, "C07", "structural soundness after in-place rewrite sequences")


# ----------------------------------------------------------------------------- C09 sequences


def walk_case(args):
    return _guarded_walk(_walk_case, args)


def _walk_case(args):
    """one random walk on the real code, every step on clone_from_root of the chosen node;
    returns the list of steps with everything the checks need"""
    start_text, seed, length = args
    from .props_parse import same_meaning
    from . import parse_run as pr
    rng = random.Random(seed)
    out = {"start": start_text, "steps": [], "problems": []}
    try:
        current = core.parse_fresh(start_text)
    except Exception:
        return None
    try:
        start_tuple = core.to_tuple(current)
    except core.Unmodelled:
        return None
    history = [(current, core.snapshot(current))]
    moves = {}        # state index -> the moves listed when the state was expanded
    backtrack = seed % 2 == 0
    for step in range(length):
        # a search agent lists the moves of a state when it expands it and may take one of them
        # LATER, after having expanded other states with the same long-lived rule objects
        k_state = len(history) - 1
        if backtrack and len(history) > 1 and rng.random() < 0.4:
            k_state = rng.randrange(len(history))
        current = history[k_state][0]
        if k_state not in moves:
            options = []
            for rn in core.RULE_NAMES:
                rule = core.rule_instance(rn)
                try:
                    for n in rule.find_nodes(current):
                        options.append((rn, n.r_index))
                except Exception as e:  # noqa
                    out["problems"].append({"step": step, "what": f"find_nodes({rn}) raised {type(e).__name__}", "rule": rn,
                                        "state": str(current)})
            moves[k_state] = options
        options = moves[k_state]
        if not options:
            if k_state == len(history) - 1:
                break
            continue
        rn, idx = rng.choice(options)
        rule = core.rule_instance(rn)
        node = core.inorder(current)[idx]
        before = core.to_tuple(current, core.tag_map(current))
        try:
            copy_node = node.clone_from_root()
            tags = core.tag_map(copy_node.get_root())
            change = rule.apply_to(copy_node)
            new_root = change.result.get_root()
        except Exception as e:  # noqa
            out["problems"].append({"step": step, "rule": rn, "idx": idx, "what": f"apply raised {type(e).__name__}: {e}"[:200]})
            break
        rec = {"rule": rn, "idx": idx, "before": before}
        try:
            after = core.to_tuple(new_root, tags)
        except core.Unmodelled:
            rec["unmodelled"] = True
            out["steps"].append(rec)
            break  # NaN/inf constant: the sequence ends here (finite constants only)
        rec["after"] = after
        probs = core.audit_links(new_root)
        if probs:
            out["problems"].append({"step": step, "rule": rn, "what": "malformed tree", "audit": probs})
        bad = core.refines(start_tuple, after)
        if bad is not None:
            out["problems"].append({"step": step, "rule": rn, "idx": idx, "what": "not equivalent to the start", "witness": bad,
                                    "state": core.tuple_str(after)})
        if not probs:
            st = core.eval_stale(new_root)
            if st is not None:
                out["problems"].append({"step": step, "rule": rn, "idx": idx, "witness": st, "state": core.tuple_str(after),
                                        "what": "evaluate() on the result objects differs from evaluate() on a fresh "
                                                "tree of the same structure"})
        try:
            text = str(new_root)
            rp = pr.impl_parse(text)
            if rp[0] != "ok":
                out["problems"].append({"step": step, "rule": rn, "what": "does not re-parse", "text": text, "result": str(rp)})
            else:
                sm = same_meaning(after, rp[1])
                if sm is not None:
                    out["problems"].append({"step": step, "rule": rn, "what": "re-parses to another meaning", "text": text, "witness": sm})
            rec["text"] = text
        except Exception as e:  # noqa
            out["problems"].append({"step": step, "rule": rn, "what": f"printing raised {type(e).__name__}"})
        for k, (root_k, snap_k) in enumerate(history):
            if core.snapshot(root_k) != snap_k:
                out["problems"].append({"step": step, "rule": rn, "what": f"earlier state {k} was altered"})
        out["steps"].append(rec)
        current = new_root
        history.append((current, core.snapshot(current)))
    return out


def c09(ctx):
    import multiprocessing as mp
    ctx.coverage["rule"] = (
        "random walks from the repo's rule examples, hand-written pattern texts, generated problems and random "
        "grammar trees: at every step a uniformly chosen (rule, option, applicable node), applied to clone_from_root "
        "as agents do; after every step the state is audited, compared with the START by exact evaluation (value / "
        "solution set), printed and re-parsed, every earlier state is re-snapshotted, and the step is replayed on "
        "the Lean model from the implementation's current tree. Walk length 8 (quick) / 40 (thorough). "
        "Non-trivial: a step that applied a rule."
    )
    rng = random.Random(ctx.seed * 65537 + 9)
    quick = ctx.tier == "quick"
    starts = list(dict.fromkeys(gen.PATTERN_TEXTS + gen.rule_test_texts() + gen.template_texts()[:: 3 if quick else 1]))
    for _ in range(150 if quick else 3000):
        t = gen.rand_tree(rng, rng.choice([2, 3, 3, 4]), allow_eq=rng.random() < 0.3)
        txt, r = gen.reachable(t)
        if r is not None and core.tuple_size(r) <= 40:
            starts.append(txt)
    try:
        from mathy_core import problems as PR
        import random as _r
        st = _r.getstate()
        _r.seed(ctx.seed + 1)
        for _ in range(20 if quick else 400):
            starts.append(PR.gen_simplify_multiple_terms(rng.randint(2, 5))[0])
            starts.append(PR.gen_binomial_times_binomial()[0])
        _r.setstate(st)
    except Exception:
        pass
    length = 8 if quick else 40
    reps = 2 if quick else 6
    jobs = [(s, rng.randrange(1 << 30), length) for s in starts for _ in range(reps)]
    with mp.Pool(16) as pool:
        walks = [w for w in pool.imap(walk_case, jobs, chunksize=8) if w is not None]
    drv = core.Driver()
    lines, where = [], []
    for wi, w in enumerate(walks):
        for si, st in enumerate(w["steps"]):
            lines.append(f"apply {st['rule']} {st['idx']} {core.tuple_to_wire(st['before'])}")
            where.append((wi, si))
    ans = drv.ask(lines)
    diffs, bad = [], []
    nsteps = 0
    hist = {}
    for (wi, si), a in zip(where, ans):
        st = walks[wi]["steps"][si]
        toks = a.split()
        nsteps += 1
        hist[st["rule"]] = hist.get(st["rule"], 0) + 1
        if st.get("unmodelled"):
            if not (toks[0] == "err" and toks[1] in ("nonFinite", "outOfDomain")):
                diffs.append({"start": walks[wi]["start"], "step": si, "rule": st["rule"], "impl": "non-finite constant", "model": a[:200]})
            continue
        if toks[0] == "err":
            if toks[1] != "outOfDomain":
                diffs.append({"start": walks[wi]["start"], "step": si, "rule": st["rule"], "idx": st["idx"],
                              "before": core.tuple_str(st["before"]), "impl": core.tuple_str(st["after"]), "model": a})
            continue
        m = core.wire_to_tuple(toks, 1)[0]
        if not core.tuples_agree(st["after"], m, with_tags=True):
            diffs.append({"start": walks[wi]["start"], "step": si, "rule": st["rule"], "idx": st["idx"],
                          "before": core.tuple_str(st["before"]), "impl": core.tuple_to_wire(st["after"]),
                          "model": core.tuple_to_wire(m)})
    for w in walks:
        w["problems"], _nk = split_known(ctx, w["problems"])
        for p in w["problems"]:
            bad.append({"start": w["start"], "sequence": [(s["rule"], s["idx"]) for s in w["steps"]], **p})
    # in-place sequences (the same node objects rewritten again and again, long-lived rule objects):
    # oracle problems, and every step replayed on the model from the implementation's current tree
    iprobs, iwalks = inplace_family(ctx, "C09")
    bad.extend(iprobs)
    ilines, iwhere = [], []
    for w in iwalks:
        for si, st in enumerate(w["steps"]):
            if "after" in st:
                ilines.append(f"apply {st['rule']} {st['idx']} {core.tuple_to_wire(st['before'])}")
                iwhere.append((w, si, st))
    for (w, si, st), a in zip(iwhere, drv.ask(ilines)):
        toks = a.split()
        nsteps += 1
        if toks[0] == "err":
            if toks[1] != "outOfDomain":
                diffs.append({"start": w["start"], "in_place": True, "step": si, "rule": st["rule"], "idx": st["idx"],
                              "before": core.tuple_str(st["before"]), "impl": core.tuple_str(st["after"]), "model": a})
            continue
        m = core.wire_to_tuple(toks, 1)[0]
        if not core.tuples_agree(st["after"], m, with_tags=False):
            diffs.append({"start": w["start"], "in_place": True, "step": si, "rule": st["rule"], "idx": st["idx"],
                          "before": core.tuple_str(st["before"]), "impl": core.tuple_to_wire(st["after"]),
                          "model": core.tuple_to_wire(m)})
    ctx.coverage["evaluations"] += len(walks)
    ctx.coverage["distinct_nontrivial"] += nsteps
    ctx.coverage["traces_validated_against_impl"] += nsteps
    ctx.notes["generator"] = {"starts": len(starts), "walks": len(walks), "steps": nsteps, "steps_per_rule": hist}
    for w in walks[:: max(1, len(walks) // 6)][:6]:
        ctx.sample({"start": w["start"], "sequence": [(s["rule"], s["idx"]) for s in w["steps"]],
                    "end": w["steps"][-1].get("text") if w["steps"] else None})
    from .props_parse import finish
    probe_known_df_huge(ctx)
    finish(ctx, [("sequence", bad)], [("step", diffs)], "any sequence of rewrites stays equivalent to the start")


CHECKS = {"C01": c01, "C02": c02, "C06": c06, "C07": c07, "C09": c09}
