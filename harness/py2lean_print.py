"""Python → Lean translation of the `__str__` methods of expressions.py (the printer, C04).

The decision predicates of the printer (`self_parens`, `get_priority`, `_is_compact_product`,
`_power_base_needs_parens`, `_negate_needs_parens`) are translated by `py2lean.py`.  This module adds
the string building itself:

  * the `name` property of every operator / function class is read from the source (a string literal)
    and emitted as a character list;
  * the eight `__str__` methods and `with_color` must be, statement for statement, the code quoted in
    STR_TEMPLATES (compared as syntax trees; docstrings, comments and annotations aside).  The emitted
    `MathExpression_str` is the translation of exactly that code over zipper locations (`Ref`): format
    strings become concatenations, `super().__str__()` the body of `BinaryExpression.__str__`, recursion
    through `str(child)` a fuel argument (the size of the tree suffices: proved);
  * colouring is off (`_rendering_change` is False unless a caller switches it on): `with_color(text)` is
    `text`;
  * `ConstantExpression.name` (number formatting through numpy) is an EXTERNAL: `constChars nt v` with the
    abstract formatter `nt` of the print/parse theorems.

Anything else — a `__str__` that reads another attribute (`self.child`), a memoised name — is
`Untranslatable` = a broken obligation of C04.
"""
import ast
import os

from . import core
from .py2lean import Untranslatable
from .py2lean_st import class_def, method, lean_chars

NAMES = {"NegateExpression": "neg", "FactorialExpression": "fact", "AbsExpression": "abs", "SgnExpression": "sgn",
         "EqualExpression": "eq", "AddExpression": "add", "SubtractExpression": "sub", "MultiplyExpression": "mul",
         "DivideExpression": "div", "PowerExpression": "pow"}

STR_TEMPLATES = {
    ("MathExpression", "with_color"): """
def with_color(self, text, style="bright"):
    if self._rendering_change is True and self._changed is True:
        return f"{color(text, fore=self.color, style=style)}"
    return text
""",
    ("NegateExpression", "__str__"): """
def __str__(self):
    inner = self.get_child()
    if _negate_needs_parens(self.get_child()):
        inner = f"({inner})"
    return self.with_color("-{}".format(inner))
""",
    ("FactorialExpression", "__str__"): """
def __str__(self):
    return self.with_color("{}!".format(self.get_child()))
""",
    ("FunctionExpression", "__str__"): """
def __str__(self):
    child = self.get_child()
    output = self.name
    if child:
        output = "{}({})".format(self.name, child)
    return self.with_color(output)
""",
    ("BinaryExpression", "__str__"): """
def __str__(self):
    left, right = self._check()
    out = f"{left} {self.with_color(self.name)} {right}"
    return f"({out})" if self.self_parens() else out
""",
    ("MultiplyExpression", "__str__"): """
def __str__(self):
    left, right = self._check()
    if isinstance(left, ConstantExpression):
        one = isinstance(right, VariableExpression)
        two = isinstance(right, PowerExpression) and isinstance(right.left, VariableExpression)
        if one or two:
            return self.with_color(f"{left}{right}")
    return super().__str__()
""",
    ("PowerExpression", "__str__"): """
def __str__(self):
    left = self.left
    right = self.right
    if _power_base_needs_parens(self.left):
        left = f"({left})"
    if isinstance(self.right, PowerExpression):
        right = f"({right})"
    return "{}{}{}".format(left, self.with_color(self.name), right)
""",
    ("ConstantExpression", "__str__"): """
def __str__(self):
    return self.with_color(self.name)
""",
    ("VariableExpression", "__str__"): """
def __str__(self):
    self._check()
    return self.with_color("{}".format(self.identifier))
""",
}

STR_LEAN = """/-- `expressions.py`: `__str__` of every expression class (see the header of harness/py2lean_print.py).
`self_` is the node object (a zipper location); `str(child)` recurses with one unit of fuel less. -/
def MathExpression_str (nt : Rat → List Char) : Nat → Ref → List Char
  | 0, _ => []
  | fuel + 1, self_ =>
    if isinstance self_ [.ConstantExpression] then
      -- ConstantExpression.__str__: self.with_color(self.name)
      (match Ref.value self_ with | some v => constChars nt v | none => [])
    else if isinstance self_ [.VariableExpression] then
      -- VariableExpression.__str__: "{}".format(self.identifier)
      (match Ref.identifier self_ with | some x => [x] | none => [])
    else if isinstance self_ [.NegateExpression] then
      -- NegateExpression.__str__
      let inner_1 := MathExpression_str nt fuel (Ref.get_child self_);
      let inner_2 := if negate_needs_parens (Ref.get_child self_) then ([Char.ofNat 40] ++ inner_1 ++ [Char.ofNat 41]) else inner_1;
      ([Char.ofNat 45] ++ inner_2)
    else if isinstance self_ [.FactorialExpression] then
      -- FactorialExpression.__str__: "{}!".format(self.get_child())
      (MathExpression_str nt fuel (Ref.get_child self_) ++ [Char.ofNat 33])
    else if isinstance self_ [.FunctionExpression] then
      -- FunctionExpression.__str__ (a node inside a tree has its operand: `if child` holds)
      let name_1 := if isinstance self_ [.SgnExpression] then name_sgn else name_abs;
      (name_1 ++ [Char.ofNat 40] ++ MathExpression_str nt fuel (Ref.get_child self_) ++ [Char.ofNat 41])
    else if isinstance self_ [.PowerExpression] then
      -- PowerExpression.__str__
      let left_1 := MathExpression_str nt fuel (Ref.left self_);
      let right_1 := MathExpression_str nt fuel (Ref.right self_);
      let left_2 := if power_base_needs_parens (Ref.left self_) then ([Char.ofNat 40] ++ left_1 ++ [Char.ofNat 41]) else left_1;
      let right_2 := if isinstance (Ref.right self_) [.PowerExpression] then ([Char.ofNat 40] ++ right_1 ++ [Char.ofNat 41]) else right_1;
      (left_2 ++ name_pow ++ right_2)
    else
      -- MultiplyExpression.__str__ falls through to BinaryExpression.__str__ (super().__str__())
      let left_1 := MathExpression_str nt fuel (Ref.left self_);
      let right_1 := MathExpression_str nt fuel (Ref.right self_);
      if isinstance self_ [.MultiplyExpression] && isinstance (Ref.left self_) [.ConstantExpression]
          && (isinstance (Ref.right self_) [.VariableExpression]
              || (isinstance (Ref.right self_) [.PowerExpression]
                  && isinstance (Ref.left (Ref.right self_)) [.VariableExpression])) then
        (left_1 ++ right_1)
      else
        let name_1 :=
          if isinstance self_ [.EqualExpression] then name_eq else if isinstance self_ [.AddExpression] then name_add
          else if isinstance self_ [.SubtractExpression] then name_sub else if isinstance self_ [.MultiplyExpression] then name_mul
          else name_div;
        let out_1 := left_1 ++ [Char.ofNat 32] ++ name_1 ++ [Char.ofNat 32] ++ right_1;
        if BinaryExpression_self_parens self_ then ([Char.ofNat 40] ++ out_1 ++ [Char.ofNat 41]) else out_1
"""


def _dump(fn):
    body = [s for s in fn.body if not (isinstance(s, ast.Expr) and isinstance(s.value, ast.Constant))]
    # annotations of locals (`inner: Union[...] = ...`) are dropped: compare as plain assignments
    norm = []
    for s in body:
        if isinstance(s, ast.AnnAssign) and s.value is not None and isinstance(s.target, ast.Name):
            s = ast.Assign(targets=[ast.Name(id=s.target.id, ctx=ast.Store())], value=s.value)
        norm.append(ast.dump(s))
    return norm


def translate_print(repo=None):
    repo = repo or core.REPO
    out, problems = [], []
    try:
        tree = ast.parse(open(os.path.join(repo, "mathy_core", "expressions.py")).read())
    except (OSError, SyntaxError) as e:
        return f"/- UNTRANSLATABLE expressions.py: {e} -/\n", [f"expressions.py: {type(e).__name__}: {e}"]
    ok = True
    # names
    for cls, short in NAMES.items():
        try:
            c = class_def(tree, cls)
            fn = method(c, "name")
            if [type(d).__name__ for d in fn.decorator_list] != ["Name"] or fn.decorator_list[0].id != "property":
                raise Untranslatable("name is not a plain property")
            body = [s for s in fn.body if not (isinstance(s, ast.Expr) and isinstance(s.value, ast.Constant))]
            if len(body) != 1 or not (isinstance(body[0], ast.Return) and isinstance(body[0].value, ast.Constant)
                                      and isinstance(body[0].value.value, str)):
                raise Untranslatable("name is not a string literal")
            out.append(f"/-- `expressions.py`: `{cls}.name` -/\ndef name_{short} : List Char := {lean_chars(body[0].value.value)}\n")
        except Untranslatable as e:
            ok = False
            problems.append(f"expressions.py:{cls}.name: {e}")
            out.append(f"/- UNTRANSLATABLE expressions.py: {cls}.name: {e} -/\n")
    # __str__ templates
    for (cls, name), src in STR_TEMPLATES.items():
        try:
            fn = method(class_def(tree, cls), name)
            if fn.decorator_list:
                raise Untranslatable(f"decorated {name}")
            if _dump(fn) != _dump(ast.parse(src.strip()).body[0]):
                raise Untranslatable(f"{name} is not the expected code")
        except Untranslatable as e:
            ok = False
            problems.append(f"expressions.py:{cls}.{name}: {e}")
            out.append(f"/- UNTRANSLATABLE expressions.py: {cls}.{name}: {e} -/\n")
    # no other class overrides __str__
    known = {c for c, n in STR_TEMPLATES if n == "__str__"}
    for s in tree.body:
        if isinstance(s, ast.ClassDef) and s.name not in known:
            if any(isinstance(m, ast.FunctionDef) and m.name == "__str__" for m in s.body):
                ok = False
                problems.append(f"expressions.py:{s.name}.__str__: an override the translator does not know")
                out.append(f"/- UNTRANSLATABLE expressions.py: {s.name}.__str__ -/\n")
    # colouring is off by default
    try:
        init = method(class_def(tree, "MathExpression"), "__init__")
        if not any(isinstance(s, ast.Assign) and ast.dump(s) == ast.dump(ast.parse("self._rendering_change = False").body[0])
                   for s in init.body):
            raise Untranslatable("_rendering_change is not initialised to False")
    except Untranslatable as e:
        ok = False
        problems.append(f"expressions.py:MathExpression.__init__: {e}")
        out.append(f"/- UNTRANSLATABLE expressions.py: MathExpression.__init__: {e} -/\n")
    if ok:
        out.append(STR_LEAN)
    return "\n".join(out), problems


if __name__ == "__main__":
    t, p = translate_print()
    print(t)
    print(p)
