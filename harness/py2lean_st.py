"""Python → Lean translator for the STATEFUL code of mathy_core/tokenizer.py.

`py2lean.py` translates side-effect-free decision functions.  The tokenizer is different: its
methods mutate a `TokenContext` object, loop (`while`, `for` with an early `return`), index and
slice strings, and raise.  This module translates that style, statement by statement, into Lean
functions over `Mathy/Model/PyRtTok.lean`:

  * a function with a parameter of a record class (here `context: TokenContext`) becomes a
    function returning `Except PyErr (result × TokenContext)`; one without becomes
    `Except PyErr result`;
  * `obj.attr = e`, `obj.attr += e`, `obj.list.append(e)` re-bind the record;
  * `raise ValueError(f"...")` is `.error (.ValueError <message text>)`; `s[i]` may raise
    IndexError and is sequenced (Except.bind) before the statement that contains it; the same for
    calls of translated stateful methods, in Python's left-to-right evaluation order;
  * `a and b` / `a or b` whose operands have effects are translated with their short-circuit
    order;
  * `for x in <str>: body` becomes a function recursive on the list of characters, `while c: body`
    a function recursive on a fuel argument (the fuel supplied at the call is given per loop in
    ST_FUNCTIONS; running out of it is the distinguished result `PyErr.OutOfFuel`, and the
    agreement theorem shows it does not occur).  In both cases the statements that FOLLOW the loop
    are placed in the exit case of that function (continuation style), and every local in scope is
    a parameter of it.

Anything outside this subset raises `Untranslatable`: the generated file then lacks the definition
and the agreement theorems stop compiling, which the check reports as a broken obligation.
"""
import ast
import os

from . import core
from .py2lean import Untranslatable

TY_LEAN = {"str": "List Char", "char": "Char", "int": "Int", "nat": "Nat", "bool": "Bool", "token": "Token",
           "toklist": "List Token", "ctx": "TokenContext", "charpred": "(Char → Bool)", "fuel": "Nat"}
RECORDS = {
    "ctx": {"tokens": "toklist", "index": "int", "buffer": "str", "chunk": "str"},
    "token": {"value": "str", "type": "nat"},
}
# (class, function, lean name, parameters [(py name, type)], result type, {loop ordinal: fuel expression over py names})
ST_FUNCTIONS = [
    ("Tokenizer", "eat_token", "Tokenizer_eat_token", [("context", "ctx"), ("typeFn", "charpred")], "str", {}),
    ("Tokenizer", "identify_constants", "Tokenizer_identify_constants", [("context", "ctx")], "int", {}),
    ("Tokenizer", "identify_alphas", "Tokenizer_identify_alphas", [("context", "ctx")], "int", {}),
    ("Tokenizer", "identify_operators", "Tokenizer_identify_operators",
     [("self.exclude_padding", "bool"), ("context", "ctx")], "bool", {}),
    ("Tokenizer", "tokenize", "Tokenizer_tokenize", [("self.exclude_padding", "bool"), ("buffer", "str")], "toklist",
     {1: "(List.length {buffer}) + 1"}),
]
PURE_METHODS = {"is_alpha": ("Tokenizer_is_alpha", ["char"], "bool"), "is_number": ("Tokenizer_is_number", ["char"], "bool")}


def lean_chars(s):
    return "[" + ", ".join(f"Char.ofNat {ord(c)}" for c in s) + "]"


class StTranslator:
    def __init__(self, spec, sigs, class_consts):
        self.cls, self.fn, self.lean, self.params, self.ret, self.fuel_hints = spec
        self.sigs = sigs                  # method name -> spec (already translated)
        self.class_consts = class_consts  # "TOKEN_TYPES" -> {name: lean const}
        self.env = {}                     # ordered: py name -> (lean name, type)
        for py, ty in self.params:
            self.env[py] = (py.replace("self.", "self_"), ty)
        self.state = [py for py, ty in self.params if ty in RECORDS]   # record-typed parameters are returned
        self.fresh = 0
        self.loops = 0
        self.binds = []                   # pending effects of the expression being translated
        self.aux = []
        self.in_shortcircuit = 0

    # ------------------------------------------------------------------ helpers
    def new(self, base):
        self.fresh += 1
        return f"{base}_{self.fresh}"

    def ret_lean(self):
        r = TY_LEAN[self.ret]
        if self.state:
            return "Except PyErr (" + " × ".join([r] + [TY_LEAN[self.env0[s]] for s in self.state]) + ")"
        return f"Except PyErr ({r})"

    def ok(self, code):
        if self.state:
            return ".ok (" + ", ".join([code] + [self.env[s][0] for s in self.state]) + ")"
        return f".ok {code}"

    def wrap(self, binds, inner, pad):
        """sequence the collected effects before `inner`"""
        for var, mcode, lets in reversed(binds):
            letcode = "".join(f"{pad}let {a} := {b};\n" for a, b in lets)
            inner = f"{pad}Except.bind ({mcode}) (fun {var} =>\n{letcode}{inner})"
        return inner

    def push_bind(self, var, mcode, lets=()):
        if self.in_shortcircuit:
            raise Untranslatable("an operand that may raise or mutate inside a short-circuit operator")
        self.binds.append((var, mcode, list(lets)))

    # ------------------------------------------------------------------ expressions
    def expr(self, e):
        """-> (lean code, type); effects are pushed on self.binds in evaluation order"""
        if isinstance(e, ast.Constant):
            v = e.value
            if v is True or v is False:
                return ("true" if v else "false"), "bool"
            if isinstance(v, str):
                return lean_chars(v), ("strlit:" + v)
            if isinstance(v, int):
                return f"({v} : Int)", "int"
            raise Untranslatable(f"constant {v!r}")
        if isinstance(e, ast.Name):
            if e.id in self.env:
                return self.env[e.id]
            raise Untranslatable(f"name {e.id}")
        if isinstance(e, ast.Attribute):
            if isinstance(e.value, ast.Name) and e.value.id == "self":
                key = "self." + e.attr
                if key in self.env:
                    return self.env[key]
                if e.attr in PURE_METHODS:
                    return PURE_METHODS[e.attr][0], "charpred"
                if (self.cls, e.attr) in self.class_consts:
                    return self.class_consts[(self.cls, e.attr)]
                raise Untranslatable(f"self.{e.attr}")
            if isinstance(e.value, ast.Name) and e.value.id in self.class_consts.get("$classes", {}):
                table = self.class_consts["$classes"][e.value.id]
                if e.attr in table:
                    return table[e.attr], "nat"
                raise Untranslatable(f"{e.value.id}.{e.attr}")
            c, ty = self.expr(e.value)
            if ty in RECORDS and e.attr in RECORDS[ty]:
                return f"{c}.{e.attr}", RECORDS[ty][e.attr]
            raise Untranslatable(f"attribute .{e.attr} of {ty}")
        if isinstance(e, ast.Subscript):
            c, ty = self.expr(e.value)
            if not self.is_str(ty):
                raise Untranslatable(f"subscript of {ty}")
            if isinstance(e.slice, ast.Slice):
                if e.slice.upper is not None or e.slice.step is not None or e.slice.lower is None:
                    raise Untranslatable("slice form")
                i, ity = self.expr(e.slice.lower)
                if ity != "int":
                    raise Untranslatable("slice index type")
                return f"(strFrom {c} {i})", "str"
            i, ity = self.expr(e.slice)
            if ity != "int":
                raise Untranslatable("index type")
            v = self.new("ch")
            self.push_bind(v, f"strIdx {c} {i}")
            return v, "char"
        if isinstance(e, ast.BinOp):
            a, aty = self.expr(e.left)
            b, bty = self.expr(e.right)
            if isinstance(e.op, ast.Add):
                if self.is_str(aty) and self.is_str(bty):
                    return f"({a} ++ {b})", "str"
                if aty == "int" and bty == "int":
                    return f"({a} + {b})", "int"
            if isinstance(e.op, ast.Sub) and aty == "int" and bty == "int":
                return f"({a} - {b})", "int"
            raise Untranslatable(f"binary operator on {aty}, {bty}")
        if isinstance(e, ast.Compare) and len(e.ops) == 1:
            return self.compare(e.ops[0], e.left, e.comparators[0])
        if isinstance(e, ast.UnaryOp) and isinstance(e.op, ast.Not):
            return f"(!{self.truth(e.operand)})", "bool"
        if isinstance(e, ast.BoolOp):
            first = self.truth(e.values[0])
            self.in_shortcircuit += 1
            try:
                rest = [self.truth(v) for v in e.values[1:]]
            finally:
                self.in_shortcircuit -= 1
            op = " && " if isinstance(e.op, ast.And) else " || "
            return "(" + op.join([first] + rest) + ")", "bool"
        if isinstance(e, ast.JoinedStr):
            parts = []
            for v in e.values:
                if isinstance(v, ast.Constant) and isinstance(v.value, str):
                    parts.append(lean_chars(v.value))
                elif isinstance(v, ast.FormattedValue) and v.conversion == -1 and v.format_spec is None:
                    c, ty = self.expr(v.value)
                    if ty == "char":
                        parts.append(f"[{c}]")
                    elif self.is_str(ty):
                        parts.append(c)
                    else:
                        raise Untranslatable(f"formatting a {ty}")
                else:
                    raise Untranslatable("f-string part")
            return "(" + " ++ ".join(parts or ["[]"]) + ")", "str"
        if isinstance(e, ast.Call):
            return self.call(e)
        raise Untranslatable(type(e).__name__)

    @staticmethod
    def is_str(ty):
        return ty == "str" or ty.startswith("strlit:")

    def compare(self, op, l, r):
        a, aty = self.expr(l)
        b, bty = self.expr(r)
        if isinstance(op, (ast.Is, ast.IsNot)) and aty == "bool" and bty == "bool":
            return (f"({a} == {b})" if isinstance(op, ast.Is) else f"({a} != {b})"), "bool"
        if isinstance(op, ast.In):
            if self.is_str(aty) and bty == "strset":
                return f"(List.contains {b} {a})", "bool"
            raise Untranslatable(f"`in` on {aty}, {bty}")
        if isinstance(op, (ast.Eq, ast.NotEq)):
            sym = "==" if isinstance(op, ast.Eq) else "!="
            # a character of a string against a literal: Python compares strings of length one
            if aty == "char" and bty.startswith("strlit:"):
                lit = bty[7:]
                if len(lit) != 1:
                    return ("false" if sym == "==" else "true"), "bool"
                return f"({a} {sym} Char.ofNat {ord(lit)})", "bool"
            if bty == "char" and aty.startswith("strlit:"):
                lit = aty[7:]
                if len(lit) != 1:
                    return ("false" if sym == "==" else "true"), "bool"
                return f"(Char.ofNat {ord(lit)} {sym} {b})", "bool"
            if aty == bty and aty in ("char", "int", "nat", "bool"):
                return f"({a} {sym} {b})", "bool"
            if self.is_str(aty) and self.is_str(bty):
                return f"({a} {sym} {b})", "bool"
        raise Untranslatable(f"comparison {type(op).__name__} on {aty}, {bty}")

    def truth(self, e):
        c, ty = self.expr(e)
        if ty == "bool":
            return c
        if self.is_str(ty) or ty == "toklist":
            return f"(strTruthy {c})"
        if ty == "int":
            return f"(intTruthy {c})"
        raise Untranslatable(f"truth value of {ty}")

    def call(self, e):
        f = e.func
        if isinstance(f, ast.Name):
            if f.id in ("str", "list") and len(e.args) == 1 and not e.keywords:
                c, ty = self.expr(e.args[0])
                if ty == "char":
                    return f"[{c}]", "str"
                if self.is_str(ty):
                    return c, "str"
                raise Untranslatable(f"{f.id}() of {ty}")
            if f.id == "len" and len(e.args) == 1:
                c, ty = self.expr(e.args[0])
                if self.is_str(ty) or ty == "toklist":
                    return f"(strLen {c})", "int"
                raise Untranslatable(f"len of {ty}")
            if f.id == "Token" and len(e.args) == 2 and not e.keywords:
                a, aty = self.expr(e.args[0])
                b, bty = self.expr(e.args[1])
                if aty == "char":
                    a = f"[{a}]"
                elif not self.is_str(aty):
                    raise Untranslatable(f"Token value of {aty}")
                if bty != "nat":
                    raise Untranslatable(f"Token type of {bty}")
                return f"(Token.mk {a} {b})", "token"
            if f.id == "TokenContext" and not e.args:
                given = {}
                for kw in e.keywords:
                    c, ty = self.expr(kw.value)
                    want = RECORDS["ctx"].get(kw.arg)
                    if want is None or not (ty == want or (want == "str" and self.is_str(ty))):
                        raise Untranslatable(f"TokenContext({kw.arg}=<{ty}>)")
                    given[kw.arg] = c
                defaults = self.class_consts["$ctx_defaults"]
                fields = []
                for name in RECORDS["ctx"]:
                    if name in given:
                        fields.append(f"{name} := {given[name]}")
                    elif name in defaults:
                        fields.append(f"{name} := {defaults[name]}")
                    else:
                        raise Untranslatable(f"TokenContext without {name}")
                return "({ " + ", ".join(fields) + " } : TokenContext)", "ctx"
            if f.id in self.env and self.env[f.id][1] == "charpred" and len(e.args) == 1:
                a, aty = self.expr(e.args[0])
                if aty != "char":
                    raise Untranslatable("predicate applied to a non-character")
                return f"({self.env[f.id][0]} {a})", "bool"
            raise Untranslatable(f"call of {f.id}")
        if isinstance(f, ast.Attribute) and isinstance(f.value, ast.Name) and f.value.id == "self":
            if f.attr in PURE_METHODS and not e.keywords:
                lean, tys, rty = PURE_METHODS[f.attr]
                args = [self.expr(a) for a in e.args]
                if [t for _c, t in args] != tys:
                    raise Untranslatable(f"argument types of {f.attr}")
                return "(" + " ".join([lean] + [c for c, _t in args]) + ")", rty
            if f.attr in self.sigs and not e.keywords:
                spec = self.sigs[f.attr]
                _cls, _fn, lean, params, rty, _fuel = spec
                explicit = [(p, t) for p, t in params if not p.startswith("self.")]
                if len(explicit) != len(e.args):
                    raise Untranslatable(f"arity of {f.attr}")
                args, state_args = [], []
                it = iter(e.args)
                for p, t in params:
                    if p.startswith("self."):
                        if p not in self.env:
                            raise Untranslatable(f"{f.attr} needs {p}")
                        args.append(self.env[p][0])
                        continue
                    a = next(it)
                    c, ty = self.expr(a)
                    if not (ty == t or (t == "str" and self.is_str(ty))):
                        raise Untranslatable(f"argument of {f.attr}: {ty} for {t}")
                    args.append(c)
                    if t in RECORDS:
                        if not (isinstance(a, ast.Name) and a.id in self.env):
                            raise Untranslatable("a record argument must be a local")
                        state_args.append(a.id)
                r = self.new("r")
                v = self.new("v")
                if state_args:
                    lets = [(v, f"{r}.1")]
                    proj = f"{r}.2"
                    for i, s in enumerate(state_args):
                        nm = self.new(s)
                        last = i == len(state_args) - 1
                        lets.append((nm, (proj if last else proj + ".1")))
                        proj = proj + ".2"
                        self.env[s] = (nm, self.env[s][1])
                    self.push_bind(r, "(" + " ".join([lean] + args) + ")", lets)
                    return v, rty
                self.push_bind(v, "(" + " ".join([lean] + args) + ")")
                return v, rty
        raise Untranslatable("call form")

    # ------------------------------------------------------------------ conditions with effects
    def has_effects(self, e):
        """does evaluating e mutate state or possibly raise (conservatively: calls of translated
        stateful methods, subscripts)"""
        for n in ast.walk(e):
            if isinstance(n, ast.Subscript) and not isinstance(n.slice, ast.Slice):
                return True
            if (isinstance(n, ast.Call) and isinstance(n.func, ast.Attribute) and isinstance(n.func.value, ast.Name)
                    and n.func.value.id == "self" and n.func.attr in self.sigs):
                return True
        return False

    def mcond(self, e, pad):
        """code of type Except PyErr (Bool × <state vars>) evaluating the truth of e with Python's
        short-circuit order; self.env is left as it was (the caller binds the resulting state)"""
        if len(self.state_vars()) != 1:
            raise Untranslatable("effectful condition with other than one record in scope")
        sv = self.state_vars()[0]
        saved = dict(self.env)
        try:
            if isinstance(e, ast.BoolOp) and any(self.has_effects(v) for v in e.values[1:]):
                first = self.mcond(e.values[0], pad + "  ")
                r = self.new("r")
                c = self.new(sv)
                self.env[sv] = (c, self.env[sv][1])
                rest_e = e.values[1] if len(e.values) == 2 else ast.BoolOp(op=e.op, values=e.values[1:])
                rest = self.mcond(rest_e, pad + "  ")
                if isinstance(e.op, ast.And):
                    return (f"Except.bind ({first}) (fun {r} =>\n{pad}  let {c} := {r}.2;\n"
                            f"{pad}  if {r}.1 then ({rest}) else .ok (false, {c}))")
                return (f"Except.bind ({first}) (fun {r} =>\n{pad}  let {c} := {r}.2;\n"
                        f"{pad}  if {r}.1 then .ok (true, {c}) else ({rest}))")
            mark = len(self.binds)
            t = self.truth(e)
            binds = self.binds[mark:]
            del self.binds[mark:]
            inner = f"{pad}  (.ok ({t}, {self.env[sv][0]}) : Except PyErr (Bool × {TY_LEAN[self.env[sv][1]]}))"
            return self.wrap(binds, inner, pad + "  ").strip()
        finally:
            self.env = saved

    def state_vars(self):
        return [py for py, (_l, ty) in self.env.items() if ty in RECORDS]

    # ------------------------------------------------------------------ statements
    def ret_value(self, e):
        if e is None:
            raise Untranslatable("return without a value")
        c, ty = self.expr(e)
        r = self.ret
        if r == ty or (r == "str" and self.is_str(ty)):
            return c
        if r == "int" and ty == "bool" and c in ("true", "false"):
            return "(1 : Int)" if c == "true" else "(0 : Int)"     # Python: True == 1, False == 0
        raise Untranslatable(f"return of {ty} in a function returning {r}")

    def rebind_record(self, target, value_builder):
        """`obj.attr = <value>` where obj is a local of record type"""
        if not (isinstance(target, ast.Attribute) and isinstance(target.value, ast.Name)
                and target.value.id in self.env and self.env[target.value.id][1] in RECORDS):
            raise Untranslatable("assignment target")
        obj = target.value.id
        old, oty = self.env[obj]
        fty = RECORDS[oty].get(target.attr)
        if fty is None:
            raise Untranslatable(f"field {target.attr}")
        c = value_builder(old, fty)
        new = self.new(obj)
        return obj, new, oty, f"{{ {old} with {target.attr} := {c} }}"

    def block(self, stmts, k, ind):
        """translate a statement list; `k(ind)` produces the code that follows it"""
        pad = "  " * ind
        if not stmts:
            return k(ind)
        s, rest = stmts[0], stmts[1:]
        mark = len(self.binds)

        def finish(inner):
            binds = self.binds[mark:]
            del self.binds[mark:]
            return self.wrap(binds, inner, pad)

        if isinstance(s, ast.Expr) and isinstance(s.value, ast.Constant):
            return self.block(rest, k, ind)             # docstring
        if isinstance(s, ast.Pass):
            return self.block(rest, k, ind)
        if isinstance(s, ast.Return):
            c = self.ret_value(s.value)
            return finish(pad + self.ok(c))
        if isinstance(s, ast.Raise):
            exc = s.exc
            if not (isinstance(exc, ast.Call) and isinstance(exc.func, ast.Name) and exc.func.id == "ValueError"
                    and len(exc.args) == 1):
                raise Untranslatable("raise form")
            c, ty = self.expr(exc.args[0])
            if not self.is_str(ty):
                raise Untranslatable("exception message")
            return finish(f"{pad}.error (.ValueError {c})")
        if isinstance(s, ast.Expr) and isinstance(s.value, ast.Call):
            call = s.value
            f = call.func
            # obj.field.append(x)
            if (isinstance(f, ast.Attribute) and f.attr == "append" and isinstance(f.value, ast.Attribute)
                    and len(call.args) == 1):
                def build(old, fty):
                    if fty != "toklist":
                        raise Untranslatable("append to a non-list field")
                    c, ty = self.expr(call.args[0])
                    if ty != "token":
                        raise Untranslatable("append of a non-token")
                    return f"({old}.{f.value.attr} ++ [{c}])"
                obj, new, oty, code = self.rebind_record(f.value, build)
                self.env[obj] = (new, oty)
                inner = f"{pad}let {new} := {code};\n" + self.block(rest, k, ind)
                return finish(inner)
            # a call for its effect only
            c, ty = self.expr(call)
            return finish(self.block(rest, k, ind))
        if isinstance(s, ast.AugAssign) and isinstance(s.op, ast.Add):
            def build(old, fty):
                c, ty = self.expr(s.value)
                if fty != "int" or ty != "int":
                    raise Untranslatable("+= on a non-int")
                return f"({old}.{s.target.attr} + {c})"
            obj, new, oty, code = self.rebind_record(s.target, build)
            self.env[obj] = (new, oty)
            return finish(f"{pad}let {new} := {code};\n" + self.block(rest, k, ind))
        if isinstance(s, (ast.Assign, ast.AnnAssign)):
            if isinstance(s, ast.Assign):
                if len(s.targets) != 1:
                    raise Untranslatable("multiple targets")
                target, value = s.targets[0], s.value
            else:
                target, value = s.target, s.value
                if value is None:
                    return self.block(rest, k, ind)
            if isinstance(target, ast.Attribute):
                def build(old, fty):
                    c, ty = self.expr(value)
                    if not (ty == fty or (fty == "str" and self.is_str(ty))):
                        raise Untranslatable(f"field of type {fty} assigned a {ty}")
                    return c
                obj, new, oty, code = self.rebind_record(target, build)
                self.env[obj] = (new, oty)
                return finish(f"{pad}let {new} := {code};\n" + self.block(rest, k, ind))
            if not isinstance(target, ast.Name):
                raise Untranslatable("assignment target")
            c, ty = self.expr(value)
            if ty.startswith("strlit:"):
                ty = "str"
            if target.id in self.env and self.env[target.id][1] != ty:
                raise Untranslatable(f"re-assignment of {target.id} changes its type")
            new = self.new(target.id)
            self.env[target.id] = (new, ty)
            return finish(f"{pad}let {new} := {c};\n" + self.block(rest, k, ind))
        if isinstance(s, ast.If):
            cond = self.truth(s.test)
            saved = dict(self.env)
            a = self.block(list(s.body) + rest, k, ind + 1)
            self.env = dict(saved)
            b = self.block(list(s.orelse) + rest, k, ind + 1)
            self.env = saved
            return finish(f"{pad}if {cond} then (\n{a})\n{pad}else (\n{b})")
        if isinstance(s, ast.For):
            return self.for_loop(s, rest, k, ind)
        if isinstance(s, ast.While):
            return self.while_loop(s, rest, k, ind)
        raise Untranslatable(type(s).__name__)

    def loop_header(self, extra):
        """all locals in scope become parameters of the loop function (fresh names)"""
        outer = dict(self.env)
        names = list(outer)
        params = []
        for py in names:
            lean = self.new(py.replace("self.", "self_"))
            params.append((lean, outer[py][1]))
            self.env[py] = (lean, outer[py][1])
        return outer, names, params

    def for_loop(self, s, rest, k, ind):
        pad = "  " * ind
        if s.orelse or not isinstance(s.target, ast.Name):
            raise Untranslatable("for form")
        mark = len(self.binds)
        it, ity = self.expr(s.iter)
        if not self.is_str(ity):
            raise Untranslatable(f"for over {ity}")
        if len(self.binds) != mark:
            raise Untranslatable("effects in the iterable")
        self.loops += 1
        name = f"{self.lean}_for{self.loops}"
        call_args_outer = [self.env[py][0] for py in self.env]
        outer, names, params = self.loop_header(None)
        inner_env = dict(self.env)
        # exit case: the statements after the loop
        exit_code = self.block(rest, k, 2)
        self.env = dict(inner_env)
        x = self.new(s.target.id)
        xs = self.new("xs")
        self.env[s.target.id] = (x, "char")

        def again(ind2):
            return "  " * ind2 + "(" + " ".join([name] + [self.env[py][0] for py in names] + [xs]) + ")"
        body_code = self.block(list(s.body), again, 2)
        sig = " → ".join([TY_LEAN[t] for _l, t in params] + ["List Char", self.ret_lean_cached])
        pats = ", ".join(l for l, _t in params)
        sep = ", " if pats else ""
        self.aux.append(f"def {name} : {sig}\n  | {pats}{sep}[] =>\n{exit_code}\n  | {pats}{sep}{x} :: {xs} =>\n{body_code}\n")
        self.env = outer
        return f"{pad}" + "(" + " ".join([name] + call_args_outer + [it]) + ")"

    def while_loop(self, s, rest, k, ind):
        pad = "  " * ind
        if s.orelse:
            raise Untranslatable("while/else")
        self.loops += 1
        ordinal = self.loops
        if ordinal not in self.fuel_hints:
            raise Untranslatable("while loop without a fuel expression")
        fuel_expr = self.fuel_hints[ordinal].format(**{py.replace("self.", "self_"): l for py, (l, _t) in self.env.items()})
        name = f"{self.lean}_while{ordinal}"
        call_args_outer = [self.env[py][0] for py in self.env]
        outer, names, params = self.loop_header(None)
        inner_env = dict(self.env)
        fuel = self.new("fuel")

        def again(ind2):
            return "  " * ind2 + "(" + " ".join([name] + [self.env[py][0] for py in names] + [fuel]) + ")"
        if self.has_effects(s.test):
            cond = self.mcond(s.test, "      ")
            sv = self.state_vars()[0]
            r = self.new("r")
            c = self.new(sv)
            self.env[sv] = (c, self.env[sv][1])
            after_env = dict(self.env)
            body_code = self.block(list(s.body), again, 3)
            self.env = dict(after_env)
            exit_code = self.block(rest, k, 3)
            step = (f"    Except.bind ({cond}) (fun {r} =>\n      let {c} := {r}.2;\n"
                    f"      if {r}.1 then (\n{body_code})\n      else (\n{exit_code}))")
        else:
            cond = self.truth(s.test)
            body_code = self.block(list(s.body), again, 3)
            self.env = dict(inner_env)
            exit_code = self.block(rest, k, 3)
            step = f"    if {cond} then (\n{body_code})\n    else (\n{exit_code})"
        sig = " → ".join([TY_LEAN[t] for _l, t in params] + ["Nat", self.ret_lean_cached])
        pats = ", ".join(l for l, _t in params)
        under = ", ".join("_" for _ in params)
        sep = ", " if pats else ""
        self.aux.append(f"def {name} : {sig}\n  | {under}{sep}0 => .error .OutOfFuel\n  | {pats}{sep}{fuel} + 1 =>\n{step}\n")
        self.env = outer
        return f"{pad}" + "(" + " ".join([name] + call_args_outer + [f"({fuel_expr})"]) + ")"

    def translate(self, node):
        self.env0 = {py: ty for py, ty in self.params}
        self.ret_lean_cached = self.ret_lean()

        def fall_off(ind):
            raise Untranslatable("falling off the end of the function (returns None)")
        body = self.block(list(node.body), fall_off, 1)
        sig = " ".join(f"({self.env0_lean(p)} : {TY_LEAN[t]})" for p, t in self.params)
        return self.aux, f"def {self.lean} {sig} : {self.ret_lean_cached} :=\n{body}\n"

    @staticmethod
    def env0_lean(p):
        return p.replace("self.", "self_")


def class_def(tree, name):
    for s in tree.body:
        if isinstance(s, ast.ClassDef) and s.name == name:
            return s
    raise Untranslatable(f"class {name} not found")


def method(cls, name):
    for s in cls.body:
        if isinstance(s, ast.FunctionDef) and s.name == name:
            return s
    raise Untranslatable(f"method {cls.name}.{name} not found")


def const_int(e):
    """integer constant expressions of the TOKEN_TYPES table: literals, <<, |"""
    if isinstance(e, ast.Constant) and isinstance(e.value, int) and not isinstance(e.value, bool) and e.value >= 0:
        return str(e.value)
    if isinstance(e, ast.BinOp) and isinstance(e.op, ast.LShift):
        return f"({const_int(e.left)} <<< {const_int(e.right)})"
    if isinstance(e, ast.BinOp) and isinstance(e.op, ast.BitOr):
        return f"({const_int(e.left)} ||| {const_int(e.right)})"
    raise Untranslatable("token type constant")


def translate_tokenizer(repo=None):
    """-> (lean text of the definitions, problems)"""
    repo = repo or core.REPO
    out, problems = [], []
    try:
        tree = ast.parse(open(os.path.join(repo, "mathy_core", "tokenizer.py")).read())
    except (OSError, SyntaxError) as e:
        return f"/- UNTRANSLATABLE tokenizer.py: {e} -/\n", [f"tokenizer.py: {type(e).__name__}: {e}"]
    consts = {"$classes": {}, "$ctx_defaults": {}}
    # --- TOKEN_TYPES
    try:
        tt = class_def(tree, "TOKEN_TYPES")
        table = {}
        for s in tt.body:
            if isinstance(s, ast.AnnAssign) and isinstance(s.target, ast.Name) and s.value is not None:
                nm, val = s.target.id, s.value
            elif isinstance(s, ast.Assign) and len(s.targets) == 1 and isinstance(s.targets[0], ast.Name):
                nm, val = s.targets[0].id, s.value
            else:
                continue
            out.append(f"/-- `tokenizer.py`: `TOKEN_TYPES.{nm}` -/\ndef TOKEN_TYPES_{nm} : Nat := {const_int(val)}\n")
            table[nm] = f"TOKEN_TYPES_{nm}"
        consts["$classes"]["TOKEN_TYPES"] = table
    except Untranslatable as e:
        problems.append(f"tokenizer.py:TOKEN_TYPES: {e}")
        out.append(f"/- UNTRANSLATABLE tokenizer.py: TOKEN_TYPES: {e} -/\n")
    # --- TokenContext.__init__ : keyword-only parameters with defaults, stored as given
    try:
        init = method(class_def(tree, "TokenContext"), "__init__")
        if init.args.args[1:] or init.args.vararg or init.args.kwarg:
            raise Untranslatable("TokenContext.__init__ signature")
        defaults = {}
        for a, d in zip(init.args.kwonlyargs, init.args.kw_defaults):
            defaults[a.arg] = d
        want = {}
        for s in init.body:
            if isinstance(s, ast.Expr) and isinstance(s.value, ast.Constant):
                continue
            if not (isinstance(s, ast.Assign) and len(s.targets) == 1 and isinstance(s.targets[0], ast.Attribute)
                    and isinstance(s.targets[0].value, ast.Name) and s.targets[0].value.id == "self"):
                raise Untranslatable("TokenContext.__init__ body")
            want[s.targets[0].attr] = s.value
        if set(want) != set(RECORDS["ctx"]):
            raise Untranslatable("TokenContext fields")
        for fld, val in want.items():
            d = defaults.get(fld)
            plain = isinstance(val, ast.Name) and val.id == fld
            none_to_empty = ast.dump(val) == ast.dump(ast.parse(f"{fld} if {fld} is not None else []", mode="eval").body)
            if d is None:
                continue
            if plain and isinstance(d, ast.Constant) and isinstance(d.value, int) and not isinstance(d.value, bool):
                consts["$ctx_defaults"][fld] = f"({d.value} : Int)"
            elif plain and isinstance(d, ast.Constant) and isinstance(d.value, str):
                consts["$ctx_defaults"][fld] = lean_chars(d.value)
            elif none_to_empty and isinstance(d, ast.Constant) and d.value is None:
                consts["$ctx_defaults"][fld] = "[]"
            else:
                raise Untranslatable(f"TokenContext default of {fld}")
    except Untranslatable as e:
        problems.append(f"tokenizer.py:TokenContext: {e}")
        out.append(f"/- UNTRANSLATABLE tokenizer.py: TokenContext: {e} -/\n")
    # --- Tokenizer.__init__ : the registered function names
    try:
        tk = class_def(tree, "Tokenizer")
        init = method(tk, "__init__")
        names = None
        for s in init.body:
            if (isinstance(s, ast.Assign) and len(s.targets) == 1 and isinstance(s.targets[0], ast.Attribute)
                    and s.targets[0].attr == "functions"):
                if not isinstance(s.value, ast.Dict) or not all(
                        isinstance(kk, ast.Constant) and isinstance(kk.value, str) for kk in s.value.keys):
                    raise Untranslatable("Tokenizer.functions")
                names = [kk.value for kk in s.value.keys]
        if names is None:
            raise Untranslatable("Tokenizer.functions not found")
        out.append("/-- `tokenizer.py`: the keys of `Tokenizer.functions` -/\ndef Tokenizer_functions : List (List Char) := ["
                   + ", ".join(lean_chars(n) for n in names) + "]\n")
        consts[("Tokenizer", "functions")] = ("Tokenizer_functions", "strset")
    except Untranslatable as e:
        problems.append(f"tokenizer.py:Tokenizer.__init__: {e}")
        out.append(f"/- UNTRANSLATABLE tokenizer.py: Tokenizer.__init__: {e} -/\n")
    # --- the methods
    sigs = {}
    for spec in ST_FUNCTIONS:
        cls, fn, lean = spec[0], spec[1], spec[2]
        try:
            node = method(class_def(tree, cls), fn)
            tr = StTranslator(spec, sigs, consts)
            aux, text = tr.translate(node)
            for a in aux:
                out.append(a)
            out.append(f"/-- `tokenizer.py`: `{cls}.{fn}` -/\n{text}")
            sigs[fn] = spec
        except (Untranslatable, KeyError) as e:
            problems.append(f"tokenizer.py:{fn}: {type(e).__name__}: {e}")
            out.append(f"/- UNTRANSLATABLE tokenizer.py: {fn}: {e} -/\n")
    return "\n".join(out), problems


if __name__ == "__main__":
    t, p = translate_tokenizer()
    print(t)
    print(p)
