#!/usr/bin/env python3
"""Regenerates MANIFEST.json from harness/manifest_data.py (kept valid at all times)."""
import json, os, sys
sys.path.insert(0, os.path.dirname(os.path.abspath(__file__)))
from harness import manifest_data as M

checks = []
for pid, c in sorted(M.CHECKS.items()):
    checks.append({
        "property_id": pid,
        "quick_cmd": f"/venv/bin/python check.py {pid} --tier quick",
        "thorough_cmd": f"/venv/bin/python check.py {pid} --tier thorough",
        "evidence_file": f"evidence/{pid}.json",
        "replay_cmd_template": "/venv/bin/python check.py --replay {path}",
        "engine": "lean4-model+correspondence",
        "level_claimed": {"category": "proof", "text": c["text"], "design_ref": c["design_ref"]},
        "level_note": c["note"],
        "technique": c["technique"],
    })
na = [{"property_id": pid, "reason": r} for pid, r in sorted(M.NOT_APPLICABLE.items())]
man = {
    "version": 1,
    "setup_cmd": "cd lean && lake build Mathy driver srcdriver",
    "hooks": {
        "guard": "MATHY_CORE_VERIF",
        "enable": "no source hooks: every observation is made in-process by harness/*.py importing /repo's working tree (the variable is set by the harness but nothing in mathy_core reads it)",
        "baseline_off_cmd": "cd /repo && /venv/bin/python -m pytest -q -p no:cacheprovider",
        "source_commits": [],
        "add_only": True,
    },
    "engines": [{
        "name": "lean4-model+correspondence",
        "path": "lean/ (model, proofs, driver), harness/ (correspondence, oracles), check.py",
        "serves_properties": sorted(M.CHECKS),
        "kind_free_text": "Lean 4 theorems about a hand-written executable model; model tied to the Python code on every run by differential execution through a line protocol; failing-input search by exact-rational oracles on the real code",
    }],
    "checks": checks,
    "not_applicable": na,
    "notes": M.NOTES,
}
json.dump(man, open(os.path.join(os.path.dirname(os.path.abspath(__file__)), "MANIFEST.json"), "w"), indent=1)
print("MANIFEST.json written:", len(checks), "checks,", len(na), "not_applicable")
