/-
Line-protocol driver of the TRANSLATED source (Gen/PySrcTokSt.lean + Gen/PySrcParse.lean, regenerated
from the live tokenizer.py / parser.py on every run): `srcparse <text>` answers with the outcome of
`Tokenizer(exclude_padding=True).tokenize` followed by `ExpressionParser._parse`, as translated, in the
wire format of the model driver's `parse` line.  A separate executable, so that the model driver
(`Main.lean`) does not depend on generated code: a parser change that cannot be translated only
affects the checks that use this driver.
-/
import Mathy.Model.Wire
import Mathy.Gen.PySrcParse
open Mathy

/-- the Python outcome of the TRANSLATED `ExpressionParser().parse(text)` (Gen/PySrcTokSt + Gen/PySrcParse:
tokenize with `exclude_padding = True`, then `_parse`), in the wire format of `ParseOut` -/
def srcParse (cs : List Char) : String :=
  open Mathy.Py Mathy.Gen.Src in
  let perr (e : PyErr) : String :=
    match e with
    | .ValueError msg => match msg[15]? with
      | some c => s!"badchar {c.toNat}"
      | none => "perr ValueError:number"
    | .InvalidExpression => "perr InvalidExpression" | .OutOfTokens => "perr OutOfTokens"
    | .InvalidSyntax => "perr InvalidSyntax" | .UnexpectedBehavior => "perr UnexpectedBehavior"
    | .TrailingTokens => "perr TrailingTokens" | .IndexError => "perr internal:IndexError"
    | .KeyError => "perr internal:KeyError" | .NoneUsed => "perr internal:NoneUsed"
    | .OutOfFuel => "perr MODEL-FUEL"
  match Tokenizer_tokenize true cs with
  | .error e => perr e
  | .ok toks =>
    match ExpressionParser__parse ⟨[], ⟨[], 0⟩⟩ toks with
    | .ok (e, _) => s!"ok {e.toWire}"
    | .error e => perr e

def answer (line : String) : String :=
  match (line.trimAscii.toString.splitOn " ").filter (· ≠ "") with
  | ["srcparse", text] =>
    match textOfWire text with
    | some cs => srcParse cs
    | none => "bad-op"
  | _ => "bad-op"

partial def loop (h : IO.FS.Stream) : IO Unit := do
  let line ← h.getLine
  if line.isEmpty then return ()
  IO.println (answer line)
  loop h

def main : IO Unit := do loop (← IO.getStdin)
