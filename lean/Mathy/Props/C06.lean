/-
Property C06 — a rule that reports it applies can be applied; node search is exact.

(The "applicability check writes nothing" clause is about mutation of Python objects and cannot
be stated about a pure function: it is established by object-graph snapshots in the
correspondence check, see DESIGN.md.)
-/
import Mathy.Proofs.Apply
import Mathy.Proofs.Total
namespace Mathy

/-- `apply` completed: a tree, or (constant arithmetic only) a folded constant that is NaN/inf or
outside the rational domain — Python's `apply_to` returns a change in all these cases. -/
def Completed (x : Except RErr (Ctx × Ex)) : Prop :=
  (∃ res, x = .ok res) ∨ x = .error .nonFinite ∨ x = .error .outOfDomain

/-- **C06 (1).** If the classifier says applicable, `apply` never hits an assertion
(`notApplicable`, `internal`). -/
theorem C06_applicable_implies_appliable (r : Rule) (k : Ctx) (n : Ex)
    (hc : canApply r k n = true) : Completed (applyRule r k n) := by
  by_cases hr : r = .constants
  · subst hr
    exact caApply_completed hc
  · exact Or.inl (applyRule_total hr hc)

/-- outside constant arithmetic the result is always a tree -/
theorem C06_applicable_implies_tree (r : Rule) (hr : r ≠ .constants) (k : Ctx) (n : Ex)
    (hc : canApply r k n = true) : ∃ res, applyRule r k n = .ok res :=
  applyRule_total hr hc

/-- **C06 (3).** `find_nodes` returns exactly the in-order positions at which the rule is
applicable … -/
theorem C06_findNodes_exact (r : Rule) (t : Ex) (i : Nat) :
    i ∈ findNodes r t ↔ ∃ k n, focusAt t i = some (k, n) ∧ canApply r k n = true :=
  mem_findNodes

/-- … in increasing in-order position, without repetition … -/
theorem C06_findNodes_sorted (r : Rule) (t : Ex) : (findNodes r t).Pairwise (· < ·) := by
  unfold findNodes
  have hsub : (((focuses t).zipIdx.filter (fun p => canApply r p.1.1 p.1.2)).map (·.2)).Sublist
      (((focuses t).zipIdx).map (·.2)) := List.filter_sublist.map _
  have hrange : ((focuses t).zipIdx).map (·.2) = List.range' 0 (focuses t).length :=
    List.zipIdx_map_snd 0 (focuses t)
  rw [hrange] at hsub
  exact List.Pairwise.sublist hsub (List.pairwise_lt_range' (s := 0) (n := (focuses t).length))

/-- … and `find_node` is the first of them. -/
theorem C06_findNode_first (r : Rule) (t : Ex) : findNode r t = (findNodes r t).head? := rfl

end Mathy
