/-
Source tie for the tokenizer (see Props/SrcTie.lean for what "translated from the live source" means).

Two layers:
  * `Src_char_classes`: the character classes (`is_alpha`, `is_number`), translated by py2lean.py;
  * `Src_tokenize` and its corollaries: the WHOLE of `Tokenizer.tokenize` with the methods it calls
    (`eat_token`, `identify_constants`, `identify_alphas`, `identify_operators`), translated by
    py2lean_st.py with the mutable `TokenContext` as explicit state.  The corollaries restate the
    clauses of C10/C11 about the tokenizer directly for the translated Python, with no reference
    to the hand-written model.
-/
import Mathy.Proofs.PySrcAgreeTokSt
import Mathy.Props.C11
namespace Mathy
open Mathy.Py Mathy.Gen.Src Mathy.SrcAgree

/-- **Source tie, tokenizer (C11).** The character classes of the model's tokenizer are the Python
predicates as translated from the live source, for every character. -/
theorem Src_char_classes (c : Char) :
    Tokenizer_is_alpha c = isAlpha c ∧ Tokenizer_is_number c = isNumber c :=
  ⟨is_alpha_agree c, is_number_agree c⟩

/-- **Source tie, tokenizer (C03/C10/C11/C12).** `Tokenizer(exclude_padding).tokenize(s)` as translated
from the live source computes exactly what the model's `tokenize` computes: the same tokens
(text and `TOKEN_TYPES` bit of each, end marker included) or the same `ValueError` text, for
every string and both padding modes.  The result is a function of `(exclude_padding, s)` only: the
tokenizer keeps no state between calls (the translated method has no other input). -/
theorem Src_tokenize (excl : Bool) (s : List Char) :
    Tokenizer_tokenize excl s =
      match tokenize (!excl) s with
      | .ok ts => .ok (ts.map tokToPy)
      | .error c => .error (.ValueError (invalidTokenMsg c s)) :=
  tokenize_agree excl s

/-- **(C10, tokenizer part) the translated tokenizer terminates with a token list or the documented
ValueError**: its loop never exhausts the fuel `len(s) + 1`, and no IndexError escapes. -/
theorem Src_tokenize_closed (excl : Bool) (s : List Char) :
    (∃ ts, Tokenizer_tokenize excl s = .ok ts) ∨
    (∃ c, Tokenizer_tokenize excl s = .error (.ValueError (invalidTokenMsg c s))) := by
  rw [Src_tokenize]
  cases tokenize (!excl) s with
  | ok ts => exact .inl ⟨_, rfl⟩
  | error c => exact .inr ⟨c, rfl⟩

/-- **(C11) the translated tokenizer is lossless**: with padding kept, the token texts concatenate
to the input up to the documented normalisations (en-dash, square brackets). -/
theorem Src_tokenize_lossless (s : List Char) (ts : List Token) (h : Tokenizer_tokenize false s = .ok ts) :
    (ts.map (·.value)).flatten = s.map normChar := by
  rw [Src_tokenize] at h
  cases ht : tokenize (!false) s with
  | error c => rw [ht] at h; cases h
  | ok ms =>
    rw [ht] at h
    simp only [Except.ok.injEq] at h
    subst h
    have := C11_lossless s ms ht
    simpa [tokToPy, Function.comp_def] using this

/-- **(C11) it raises exactly on the first unsupported character**, and the message names it. -/
theorem Src_tokenize_error_iff (excl : Bool) (s : List Char) (c : Char) :
    Tokenizer_tokenize excl s = .error (.ValueError (invalidTokenMsg c s)) ↔
      ∃ pre post, s = pre ++ c :: post ∧ (∀ d ∈ pre, supported d = true) ∧ supported c = false := by
  rw [← C11_error_iff (!excl) s c, Src_tokenize]
  cases tokenize (!excl) s with
  | ok ts => simp
  | error d =>
    simp only [Except.error.injEq, PyErr.ValueError.injEq]
    constructor
    · intro h
      exact invalidTokenMsg_inj _ _ _ h
    · rintro rfl; rfl

/-- **(C11) the end marker is the last token and the only one of its type.** -/
theorem Src_tokenize_eof (excl : Bool) (s : List Char) (ts : List Token) (h : Tokenizer_tokenize excl s = .ok ts) :
    ∃ body, ts = body ++ [⟨[], TOKEN_TYPES_EOF⟩] ∧ ∀ t ∈ body, t.type ≠ TOKEN_TYPES_EOF := by
  rw [Src_tokenize] at h
  cases ht : tokenize (!excl) s with
  | error c => rw [ht] at h; cases h
  | ok ms =>
    rw [ht] at h
    simp only [Except.ok.injEq] at h
    subst h
    obtain ⟨body, rfl, hb⟩ := C11_eof_once (!excl) s ms ht
    refine ⟨body.map tokToPy, by simp [tokToPy, TT.bit, TOKEN_TYPES_EOF], ?_⟩
    intro t ht'
    obtain ⟨m, hm, rfl⟩ := List.mem_map.1 ht'
    have := hb m hm
    revert this
    cases hty : m.type <;> simp [tokToPy, TT.bit, TOKEN_TYPES_EOF, hty]

/-! non-vacuity: the translated Python on a concrete input -/
example : Tokenizer_tokenize true "4x + sgn(2)".toList = .ok
    [⟨['4'], 1⟩, ⟨['x'], 2⟩, ⟨['+'], 4⟩, ⟨"sgn".toList, 1024⟩, ⟨['('], 256⟩, ⟨['2'], 1⟩, ⟨[')'], 512⟩, ⟨[], 8192⟩] := by
  decide +kernel
example : Tokenizer_tokenize true "2 # 3".toList = .error (.ValueError (invalidTokenMsg '#' "2 # 3".toList)) := by
  decide +kernel

end Mathy
