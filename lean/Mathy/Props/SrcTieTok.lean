/-
Source tie for the tokenizer (see Props/SrcTie.lean for what "translated from the live source" means).
-/
import Mathy.Proofs.PySrcAgreeTok
namespace Mathy
open Mathy.Py Mathy.Gen.Src Mathy.SrcAgree

/-- **Source tie, tokenizer (C11).** The character classes of the model's tokenizer are the Python
predicates as translated from the live source, for every character. -/
theorem Src_char_classes (c : Char) :
    Tokenizer_is_alpha c = isAlpha c ∧ Tokenizer_is_number c = isNumber c :=
  ⟨is_alpha_agree c, is_number_agree c⟩

end Mathy
