/-
Property C14 — traversals and look-ups visit exactly the right nodes in the right order.
Model: `Model/Tree.lean` (`BT`: every node has 0, left-only, right-only or 2 children).
-/
import Mathy.Model.Tree
import Mathlib.Data.List.Perm.Basic
namespace Mathy
open BT

/-! helper lemmas -/

theorem takeThrough_append {α} (p : α → Bool) (xs ys : List α) :
    takeThrough p (xs ++ ys) = if xs.any p then takeThrough p xs else xs ++ takeThrough p ys := by
  induction xs with
  | nil => simp
  | cons x xs ih =>
    by_cases hx : p x
    · simp [takeThrough, hx]
    · have hx' : p x = false := by simpa using hx
      simp only [List.cons_append, takeThrough, hx', List.any_cons, Bool.false_or, ih]
      by_cases h : xs.any p = true <;> simp [h]

theorem takeThrough_of_not_any {α} (p : α → Bool) (xs : List α) (h : xs.any p = false) :
    takeThrough p xs = xs := by
  induction xs with
  | nil => rfl
  | cons x xs ih =>
    simp only [List.any_cons, Bool.or_eq_false_iff] at h
    simp [takeThrough, h.1, ih h.2]

theorem visitPre_node (stop : Nat → Nat → Bool) (d i : Nat) (l r : BT) :
    (BT.node i l r).visitPre stop d =
      if stop i d then ([(i, d)], true)
      else if (l.visitPre stop (d+1)).2 then ((i, d) :: (l.visitPre stop (d+1)).1, true)
      else ((i, d) :: ((l.visitPre stop (d+1)).1 ++ (r.visitPre stop (d+1)).1), (r.visitPre stop (d+1)).2) := by
  simp only [visitPre]

theorem visitIn_node (stop : Nat → Nat → Bool) (d i : Nat) (l r : BT) :
    (BT.node i l r).visitIn stop d =
      if (l.visitIn stop (d+1)).2 then ((l.visitIn stop (d+1)).1, true)
      else if stop i d then ((l.visitIn stop (d+1)).1 ++ [(i, d)], true)
      else ((l.visitIn stop (d+1)).1 ++ (i, d) :: (r.visitIn stop (d+1)).1, (r.visitIn stop (d+1)).2) := by
  simp only [visitIn]

theorem visitPost_node (stop : Nat → Nat → Bool) (d i : Nat) (l r : BT) :
    (BT.node i l r).visitPost stop d =
      if (l.visitPost stop (d+1)).2 then ((l.visitPost stop (d+1)).1, true)
      else if (r.visitPost stop (d+1)).2 then ((l.visitPost stop (d+1)).1 ++ (r.visitPost stop (d+1)).1, true)
      else if stop i d then ((l.visitPost stop (d+1)).1 ++ ((r.visitPost stop (d+1)).1 ++ [(i, d)]), true)
      else ((l.visitPost stop (d+1)).1 ++ ((r.visitPost stop (d+1)).1 ++ [(i, d)]), false) := by
  simp only [visitPost]


/-- **pre-order**: the callbacks are the defining order cut right after the first STOP, each
with the node's depth; the traversal reports STOP iff some visited node stopped it. -/
theorem C14_visitPre (stop : Nat → Nat → Bool) (d : Nat) (t : BT) :
    (t.visitPre stop d).1 = takeThrough (fun p => stop p.1 p.2) (t.preorder d) ∧
    (t.visitPre stop d).2 = (t.preorder d).any (fun p => stop p.1 p.2) := by
  induction t generalizing d with
  | nil => simp [visitPre, preorder, takeThrough]
  | node i l r ihl ihr =>
    obtain ⟨hl1, hl2⟩ := ihl (d+1)
    obtain ⟨hr1, hr2⟩ := ihr (d+1)
    rw [visitPre_node, hl1, hl2, hr1, hr2]
    simp only [preorder, takeThrough, takeThrough_append, List.any_cons, List.any_append]
    by_cases h1 : stop i d <;> by_cases h2 : (preorder (d+1) l).any (fun p => stop p.1 p.2) <;>
      simp [h1, h2, takeThrough_of_not_any]

theorem C14_visitIn (stop : Nat → Nat → Bool) (d : Nat) (t : BT) :
    (t.visitIn stop d).1 = takeThrough (fun p => stop p.1 p.2) (t.inorder d) ∧
    (t.visitIn stop d).2 = (t.inorder d).any (fun p => stop p.1 p.2) := by
  induction t generalizing d with
  | nil => simp [visitIn, inorder, takeThrough]
  | node i l r ihl ihr =>
    obtain ⟨hl1, hl2⟩ := ihl (d+1)
    obtain ⟨hr1, hr2⟩ := ihr (d+1)
    rw [visitIn_node, hl1, hl2, hr1, hr2]
    simp only [inorder, takeThrough, takeThrough_append, List.any_cons, List.any_append]
    by_cases h1 : stop i d <;> by_cases h2 : (inorder (d+1) l).any (fun p => stop p.1 p.2) <;>
      simp [h1, h2, takeThrough_of_not_any]

theorem C14_visitPost (stop : Nat → Nat → Bool) (d : Nat) (t : BT) :
    (t.visitPost stop d).1 = takeThrough (fun p => stop p.1 p.2) (t.postorder d) ∧
    (t.visitPost stop d).2 = (t.postorder d).any (fun p => stop p.1 p.2) := by
  induction t generalizing d with
  | nil => simp [visitPost, postorder, takeThrough]
  | node i l r ihl ihr =>
    obtain ⟨hl1, hl2⟩ := ihl (d+1)
    obtain ⟨hr1, hr2⟩ := ihr (d+1)
    rw [visitPost_node, hl1, hl2, hr1, hr2]
    simp only [postorder, takeThrough, takeThrough_append, List.any_cons, List.any_append, List.any_nil]
    by_cases h1 : stop i d <;> by_cases h2 : (postorder (d+1) l).any (fun p => stop p.1 p.2) <;>
      by_cases h3 : (postorder (d+1) r).any (fun p => stop p.1 p.2) <;>
      simp [h1, h2, h3, takeThrough_of_not_any]

/-- without STOP every node is called back exactly once: the three orders are permutations of
one another and list each node object once -/
theorem C14_orders_perm (d : Nat) (t : BT) :
    (t.inorder d).Perm (t.preorder d) ∧ (t.postorder d).Perm (t.preorder d) ∧
    (t.inorder d).map (·.1) = t.ids ∧ (t.preorder d).length = t.size := by
  induction t generalizing d with
  | nil => simp [inorder, preorder, postorder, ids, size]
  | node i l r ihl ihr =>
    obtain ⟨a1, a2, a3, a4⟩ := ihl (d+1)
    obtain ⟨b1, b2, b3, b4⟩ := ihr (d+1)
    refine ⟨?_, ?_, ?_, ?_⟩
    · simp only [inorder, preorder]
      exact List.perm_middle.trans (List.Perm.cons _ (a1.append b1))
    · simp only [postorder, preorder]
      rw [← List.append_assoc]
      exact (List.perm_append_singleton _ _).trans (List.Perm.cons _ (a2.append b2))
    · simp [inorder, ids, a3, b3]
    · simp [preorder, size, a4, b4]

/-- the depth passed to the visitor is the node's true depth: the length of its path -/
theorem C14_depth_is_path_length (d : Nat) (t : BT) (i k : Nat) (h : (i, k) ∈ t.preorder d) :
    ∃ p : Path, p.length + d = k ∧ (t.sub p).rootId = some i := by
  induction t generalizing d with
  | nil => simp [preorder] at h
  | node j l r ihl ihr =>
    simp only [preorder, List.mem_cons, List.mem_append, Prod.mk.injEq] at h
    rcases h with ⟨rfl, rfl⟩ | h | h
    · exact ⟨[], by simp, by simp [sub, rootId]⟩
    · obtain ⟨p, hp1, hp2⟩ := ihl (d+1) h
      exact ⟨.L :: p, by simp; omega, by simpa [sub] using hp2⟩
    · obtain ⟨p, hp1, hp2⟩ := ihr (d+1) h
      exact ⟨.R :: p, by simp; omega, by simpa [sub] using hp2⟩

/-- look-ups agree with the link structure: the node found for an identity sits at its path -/
theorem C14_pathOf_sound (t : BT) (i : Nat) (p : Path) (h : t.pathOf i = some p) :
    (t.sub p).rootId = some i := by
  induction t generalizing p with
  | nil => simp [pathOf] at h
  | node j l r ihl ihr =>
    simp only [pathOf] at h
    split_ifs at h with hj
    · simp at h; subst h; simp [sub, rootId, hj]
    · cases hl : pathOf i l with
      | some q =>
        rw [hl] at h; simp at h; subst h
        simpa [sub] using ihl q hl
      | none =>
        rw [hl] at h
        cases hr : pathOf i r with
        | some q =>
          rw [hr] at h; simp at h; subst h
          simpa [sub] using ihr q hr
        | none => rw [hr] at h; simp at h

theorem C14_pathOf_complete (t : BT) (i : Nat) (h : i ∈ t.ids) : ∃ p, t.pathOf i = some p := by
  induction t with
  | nil => simp [ids] at h
  | node j l r ihl ihr =>
    simp only [pathOf]
    by_cases hj : j = i
    · simp [hj]
    · simp only [hj, if_false]
      cases hl : pathOf i l with
      | some q => simp
      | none =>
        cases hr : pathOf i r with
        | some q => simp
        | none =>
          simp only [ids, List.mem_append, List.mem_cons] at h
          rcases h with h | h | h
          · obtain ⟨p, hp⟩ := ihl h; rw [hl] at hp; cases hp
          · exact absurd h.symm hj
          · obtain ⟨p, hp⟩ := ihr h; rw [hr] at hp; cases hp

/-- children are listed left first; a leaf has none -/
theorem C14_children (i : Nat) (l r : BT) :
    (BT.node i l r).children = l.rootId.toList ++ r.rootId.toList ∧
    ((BT.node i l r).isLeaf = true ↔ l = .nil ∧ r = .nil) := by
  refine ⟨rfl, ?_⟩
  cases l <;> cases r <;> simp [isLeaf]

/-! non-vacuity: a one-child-on-the-right node inside, stop at node 4 -/
example : (BT.node 1 (.node 2 .nil (.node 3 .nil .nil)) (.node 4 .nil .nil)).visitIn (fun i _ => i == 4) 0
    = ([(2, 1), (3, 2), (1, 0), (4, 1)], true) := by decide

end Mathy
