/-
Source tie for tree.py (see Props/SrcTie.lean for what "translated from the live source" means):
the two link queries the rule classifiers use.
-/
import Mathy.Proofs.PySrcAgreeTree
namespace Mathy
open Mathy.Py Mathy.Gen.Src Mathy.SrcAgree

/-- **Source tie, link queries (C14; used by the classifiers of commutative swap and balanced
move).** `BinaryTreeNode.get_root` and `get_sibling` as translated from the live source: the root is
the node reached by following `parent` (the loop terminates within depth + 1 steps), the sibling is
the other child of the parent (`none` for the root and for the operand of a unary node). -/
theorem Src_tree_links (k : Ctx) (e : Ex) :
    BinaryTreeNode_get_root (some ⟨k, e⟩) = some ⟨[], plug k e⟩ ∧
    BinaryTreeNode_get_sibling (some ⟨k, e⟩) =
      (match k with
       | .binL t o r :: k' => some ⟨.binR t o e :: k', r⟩
       | .binR t o l :: k' => some ⟨.binL t o e :: k', l⟩
       | _ => none) := by
  refine ⟨get_root_agree _, ?_⟩
  rw [get_sibling_agree]
  cases k with
  | nil => rfl
  | cons f k' => cases f <;> rfl

end Mathy
