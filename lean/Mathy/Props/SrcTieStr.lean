/-
Source tie for the printer's string building (C04), and the print/parse round trip stated for the
TRANSLATED printer, tokenizer and parser together.
-/
import Mathy.Proofs.PySrcAgreeStr
import Mathy.Props.SrcTieParse
import Mathy.Props.C04Str
namespace Mathy
open Mathy.Py Mathy.Gen.Src Mathy.SrcAgree

/-- **Source tie, printer (C04).** `str(node)` as translated from the live `__str__` methods (template-checked,
names read from the source, colouring off, number formatting abstract) is the model's `strChars`, for
every node of every tree — at the root and inside any context. -/
theorem Src_str (nt : Rat → List Char) (e : Ex) (k : Ctx) :
    MathExpression_str nt (e.size + 1) (some ⟨k, e⟩) = strChars nt (ctxParent k) e :=
  str_agree nt e k (e.size + 1) (Nat.lt_succ_self _)

/-- **(C04) the round trip, for the translated code end to end**: printing a tree with the translated
`__str__`, tokenizing the text with the translated tokenizer and parsing the tokens with the translated
parser yields a tree that evaluates identically at every assignment and has the same variables — for
every printable tree (any shape, left-nested equation chains), any parser state. -/
theorem Src_print_parse_roundtrip (nt : Rat → List Char) (st : ParserState) (e : Ex) (hp : PrintableL e = true)
    (hn : NumOk nt e) (hc : CharsOk nt e) :
    ∃ e', srcParseText st (MathExpression_str nt (e.size + 1) (some ⟨[], e⟩)) = .ok e' ∧ EvalEq e e' ∧
      (∀ c, c ∈ e'.vars ↔ c ∈ e.vars) := by
  obtain ⟨e', hparse, hev, hv⟩ := C04_print_parse_text nt e hp hn hc
  refine ⟨e', ?_, hev, hv⟩
  rw [Src_str, Src_parse]
  show outcomeOf _ (parseText (strChars nt none e)) = .ok e'
  rw [hparse]; rfl

end Mathy
