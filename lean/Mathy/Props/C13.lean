/-
Property C13 — cloning yields an identical, independent tree and locates the cloned node.

Functional level: `Ex.clone` (Model/Expr.lean) keeps shape, kinds, constant values, variable
names and operand sides and gives every node a new identity (tag 0 = "object created by this
operation").  Independence ("changing either afterwards never affects the other") is a property
of the object graph: two trees that share no node object cannot influence each other through
the `left/right/parent/value/identifier` fields, which are the only state the tree API writes;
that no object is shared is the statement `clone_fresh` below, and the object-level behaviour
(including the `id` strings and the `child_on_left` flag, which the functional model does not
carry) is compared with the real code by the correspondence run.
-/
import Mathy.Model.Print
import Mathy.Proofs.Eval
import Mathy.Proofs.Apply
namespace Mathy

/-- same shape, kinds, values, names, sides -/
theorem C13_clone_same_structure (e : Ex) : e.clone.erase = e.erase := by
  induction e with
  | const t v => rfl
  | var t x => rfl
  | un t o c ih => simp [Ex.clone, Ex.erase, ih]
  | bin t o l r ihl ihr => simp [Ex.clone, Ex.erase, ihl, ihr]

/-- shares no node object with the original: every identity in the clone is new -/
theorem C13_clone_fresh (e : Ex) : ∀ x ∈ e.clone.tags, x = 0 := by
  induction e with
  | const t v => simp [Ex.clone, Ex.tags]
  | var t x => simp [Ex.clone, Ex.tags]
  | un t o c ih => simpa [Ex.clone, Ex.tags] using ih
  | bin t o l r ihl ihr =>
    intro x hx
    simp only [Ex.clone, Ex.tags, List.mem_append, List.mem_cons] at hx
    rcases hx with hx | rfl | hx
    · exact ihl x hx
    · rfl
    · exact ihr x hx

/-- evaluates identically -/
theorem C13_clone_evaluates (env : Env) (e : Ex) : eval env e.clone = eval env e := eval_clone env e

@[simp] theorem erase_isConst (e : Ex) : e.erase.isConst = e.isConst := by cases e <;> rfl
@[simp] theorem erase_isVar (e : Ex) : e.erase.isVar = e.isVar := by cases e <;> rfl
@[simp] theorem erase_isOp (o : Bop) (e : Ex) : e.erase.isOp o = e.isOp o := by cases e <;> rfl
@[simp] theorem erase_isUn (o : Uop) (e : Ex) : e.erase.isUn o = e.isUn o := by cases e <;> rfl

@[simp] theorem erase_isCompactProduct (e : Ex) : isCompactProduct e.erase = isCompactProduct e := by
  cases e with
  | bin t o l r =>
    cases o <;> cases l <;> cases r <;> try rfl
    rename_i t2 o2 l2 r2
    cases o2 <;> cases l2 <;> rfl
  | _ => rfl

@[simp] theorem erase_powerBaseNeedsParens (e : Ex) :
    powerBaseNeedsParens e.erase = powerBaseNeedsParens e := by
  simp [powerBaseNeedsParens]

@[simp] theorem erase_negateNeedsParens (e : Ex) : negateNeedsParens e.erase = negateNeedsParens e := by
  cases e with
  | const t v => rfl
  | var t x => rfl
  | un t o c => cases o <;> rfl
  | bin t o l r =>
    cases o
    case mul =>
      cases l
      case const t2 v =>
        have := erase_isCompactProduct (.bin t .mul (.const t2 v) r)
        simp only [Ex.erase] at this
        simp [negateNeedsParens, Ex.erase, this]
      all_goals rfl
    case pow => simp [negateNeedsParens, Ex.erase]
    all_goals rfl

/-- printing ignores identities … -/
theorem printToks_erase (nt : Rat → List Char) (p : Option (Bop × Side)) (e : Ex) :
    printToks nt p e.erase = printToks nt p e := by
  induction e generalizing p with
  | const t v => rfl
  | var t x => rfl
  | un t o c ih =>
    cases o <;> simp [Ex.erase, printToks, ih]
  | bin t o l r ihl ihr =>
    have hc := erase_isCompactProduct (.bin t o l r)
    simp only [Ex.erase] at hc
    cases o <;> simp [Ex.erase, printToks, ihl, ihr, hc]

/-- … so a clone prints identically -/
theorem C13_clone_prints (nt : Rat → List Char) (e : Ex) : printRoot nt e.clone = printRoot nt e := by
  unfold printRoot
  rw [← printToks_erase nt none e.clone, C13_clone_same_structure, printToks_erase]

/-- cloning a context frame by frame -/
def Frame.clone : Frame → Frame
  | .binL _ o r => .binL 0 o r.clone
  | .binR _ o l => .binR 0 o l.clone
  | .un _ o => .un 0 o

theorem clone_plug (k : Ctx) (e : Ex) : (plug k e).clone = plug (k.map Frame.clone) e.clone := by
  induction k generalizing e with
  | nil => rfl
  | cons f fs ih =>
    simp only [plug, List.map_cons]
    rw [ih]
    cases f <;> rfl

theorem focusesAux_clone (k : Ctx) (e : Ex) :
    focusesAux (k.map Frame.clone) e.clone
      = (focusesAux k e).map (fun p => (p.1.map Frame.clone, p.2.clone)) := by
  induction e generalizing k with
  | const t v => rfl
  | var t x => rfl
  | un t o c ih =>
    simp only [Ex.clone, focusesAux, List.map_cons]
    have := ih (.un t o :: k)
    simp only [List.map_cons, Frame.clone] at this
    rw [this]
  | bin t o l r ihl ihr =>
    simp only [Ex.clone, focusesAux, List.map_append, List.map_cons]
    have h1 := ihl (.binL t o r :: k)
    have h2 := ihr (.binR t o l :: k)
    simp only [List.map_cons, Frame.clone] at h1 h2
    rw [h1, h2]

/-- **clone_from_root**: cloning the whole tree through the node at in-order position `i` yields
the copy of that same node, at the same position, inside a complete copy of the whole tree -/
theorem C13_clone_from_root (t : Ex) (i : Nat) (k : Ctx) (n : Ex) (h : focusAt t i = some (k, n)) :
    focusAt t.clone i = some (k.map Frame.clone, n.clone) ∧ plug (k.map Frame.clone) n.clone = t.clone := by
  constructor
  · unfold focusAt focuses at *
    have := focusesAux_clone [] t
    simp only [List.map_nil] at this
    rw [this, List.getElem?_map, h]
    rfl
  · rw [← clone_plug, focusAt_plug h]

end Mathy
