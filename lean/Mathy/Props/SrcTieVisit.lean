/-
Source tie for the traversals of tree.py (C14) and the rule searches of rule.py built on them (C06):
`Gen/PySrcVisit.lean` is the template-checked translation of the live methods.
-/
import Mathy.Proofs.PySrcAgreeVisit
namespace Mathy
open Mathy.BT Mathy.Gen.Src Mathy.SrcAgree

/-- **Source tie, traversals (C14).** The three `visit_*` methods as translated from the live source make exactly
the visitor calls the model's traversals make, with the same depths, and report STOP in the same cases — for every
tree shape (one-child nodes included), every start depth and every visitor. -/
theorem Src_visits (stop : Nat → Nat → Bool) (d : Nat) (t : BT) :
    BinaryTreeNode_visit_preorder stop d t = t.visitPre stop d ∧
    BinaryTreeNode_visit_inorder stop d t = t.visitIn stop d ∧
    BinaryTreeNode_visit_postorder stop d t = t.visitPost stop d :=
  ⟨visit_preorder_agree stop d t, visit_inorder_agree stop d t, visit_postorder_agree stop d t⟩

/-- **(C14) the translated pre-order traversal** calls the visitor on the defining order cut right after the first
STOP, once per node, with the node's true depth (`C14_depth_is_path_length`), and reports STOP iff a call did. -/
theorem Src_visit_preorder_spec (stop : Nat → Nat → Bool) (d : Nat) (t : BT) :
    (BinaryTreeNode_visit_preorder stop d t).1 = takeThrough (fun p => stop p.1 p.2) (t.preorder d) ∧
    (BinaryTreeNode_visit_preorder stop d t).2 = (t.preorder d).any (fun p => stop p.1 p.2) := by
  rw [visit_preorder_agree]; exact C14_visitPre stop d t

/-- **(C06, search clause) the translated `find_nodes`** returns exactly the nodes the rule accepts, in in-order,
and writes `r_index` = in-order position on every node; **`find_node`** returns the first of them. -/
theorem Src_find_nodes (can : Nat → Bool) (t : BT) :
    BaseRule_find_nodes can t = (((t.inorder 0).map (·.1)).filter can, ((t.inorder 0).map (·.1)).zipIdx) ∧
    BaseRule_find_node can t = ((t.inorder 0).find? (fun p => can p.1)).map (·.1) :=
  ⟨find_nodes_spec can t, find_node_spec can t⟩

/-! non-vacuity -/
example : BaseRule_find_nodes (fun i => i % 2 == 0) (.node 1 (.node 2 .nil (.node 3 .nil .nil)) (.node 4 .nil .nil)) =
    ([2, 4], [(2, 0), (3, 1), (1, 2), (4, 3)]) := by decide

end Mathy
