/-
Property C08 — each rule performs its documented transformation on its documented forms.

One schema theorem per documented form, universally quantified over the sub-expressions,
coefficients, variables, exponents, node identities and the surrounding context `k`
(`applyRule r k n = .ok (k, n')` says: the node `n` under ANY context `k` is replaced by `n'` and
the context is returned untouched).  Documented non-applicability is stated with `canApply`.
-/
import Mathy.Model.Rules
import Mathy.Proofs.SchemaLemmas
import Mathlib.Tactic.SplitIfs
namespace Mathy

/-! ### commutative swap -/

/-- `a + b ↦ b + a` (when `a` is not itself a sum: otherwise the inner operands are exchanged to
avoid nesting, `C08_swap_add_chain`) -/
theorem C08_swap_add (p : Bool) (k : Ctx) (t : Nat) (a b : Ex) (ha : a.isOp .add = false) :
    canApply (.commutative p) k (.bin t .add a b) = true ∧
    applyRule (.commutative p) k (.bin t .add a b) = .ok (k, .bin t .add b a) := by
  refine ⟨by simp [canApply, csCan], ?_⟩
  rcases a with _ | _ | _ | ⟨_, o, _, _⟩ <;> try (simp [applyRule, csApply]; done)
  cases o <;> simp_all [applyRule, csApply, Ex.isOp]

theorem C08_swap_add_chain (p : Bool) (k : Ctx) (t t' : Nat) (a b c : Ex) :
    applyRule (.commutative p) k (.bin t .add (.bin t' .add a b) c)
      = .ok (k, .bin t .add (.bin t' .add a c) b) := by
  simp [applyRule, csApply]

/-- `a * b ↦ b * a` -/
theorem C08_swap_mul (k : Ctx) (t : Nat) (a b : Ex) (ha : a.isOp .mul = false) :
    canApply (.commutative true) k (.bin t .mul a b) = true ∧
    applyRule (.commutative true) k (.bin t .mul a b) = .ok (k, .bin t .mul b a) := by
  refine ⟨by simp [canApply, csCan], ?_⟩
  rcases a with _ | _ | _ | ⟨_, o, _, _⟩ <;> try (simp [applyRule, csApply]; done)
  cases o <;> simp_all [applyRule, csApply, Ex.isOp]

/-- an equation can always be flipped -/
theorem C08_swap_eq (p : Bool) (k : Ctx) (t : Nat) (a b : Ex) :
    canApply (.commutative p) k (.bin t .eq a b) = true ∧
    applyRule (.commutative p) k (.bin t .eq a b) = .ok (k, .bin t .eq b a) := by
  refine ⟨by simp [canApply, csCan], by simp [applyRule, csApply]⟩

/-- differences and quotients do not commute -/
theorem C08_no_swap_sub_div (p : Bool) (k : Ctx) (t : Nat) (a b : Ex) :
    canApply (.commutative p) k (.bin t .sub a b) = false ∧
    canApply (.commutative p) k (.bin t .div a b) = false ∧
    canApply (.commutative p) k (.bin t .pow a b) = false := by
  simp [canApply, csCan]

/-- with `preferred = False` a term in preferred form `4x` does not commute (unless it is part of
a larger product) -/
theorem C08_preferred_stays (t t1 t2 : Nat) (c : Rat) (x : Char) :
    canApply (.commutative false) [] (.bin t .mul (.const t1 c) (.var t2 x)) = false := by
  simp [canApply, csCan, parentIs, Ex.isConst, Ex.isVar]

/-! ### associative swap -/

/-- `(a + b) + c ↦ a + (b + c)`, applied at the inner sum; the rest of the context is kept -/
theorem C08_regroup_add_left (k : Ctx) (tp tn : Nat) (a b c : Ex) :
    canApply .associative (.binL tp .add c :: k) (.bin tn .add a b) = true ∧
    applyRule .associative (.binL tp .add c :: k) (.bin tn .add a b)
      = .ok (k, .bin tn .add a (.bin tp .add b c)) := by
  simp [canApply, applyRule, asCan, asApply, parentIs, Frame.isOp, Ex.isOp]

/-- `a + (b + c) ↦ (a + b) + c` -/
theorem C08_regroup_add_right (k : Ctx) (tp tn : Nat) (a b c : Ex) :
    canApply .associative (.binR tp .add a :: k) (.bin tn .add b c) = true ∧
    applyRule .associative (.binR tp .add a :: k) (.bin tn .add b c)
      = .ok (k, .bin tn .add (.bin tp .add a b) c) := by
  simp [canApply, applyRule, asCan, asApply, parentIs, Frame.isOp, Ex.isOp]

theorem C08_regroup_mul_left (k : Ctx) (tp tn : Nat) (a b c : Ex) :
    canApply .associative (.binL tp .mul c :: k) (.bin tn .mul a b) = true ∧
    applyRule .associative (.binL tp .mul c :: k) (.bin tn .mul a b)
      = .ok (k, .bin tn .mul a (.bin tp .mul b c)) := by
  simp [canApply, applyRule, asCan, asApply, parentIs, Frame.isOp, Ex.isOp]

theorem C08_regroup_mul_right (k : Ctx) (tp tn : Nat) (a b c : Ex) :
    canApply .associative (.binR tp .mul a :: k) (.bin tn .mul b c) = true ∧
    applyRule .associative (.binR tp .mul a :: k) (.bin tn .mul b c)
      = .ok (k, .bin tn .mul (.bin tp .mul a b) c) := by
  simp [canApply, applyRule, asCan, asApply, parentIs, Frame.isOp, Ex.isOp]

/-- no regrouping across different operators -/
theorem C08_no_regroup_mixed (k : Ctx) (tp tn : Nat) (a b c : Ex) :
    canApply .associative (.binL tp .mul c :: k) (.bin tn .add a b) = false ∧
    canApply .associative (.binL tp .sub c :: k) (.bin tn .add a b) = false := by
  simp [canApply, asCan, parentIs, Frame.isOp, Ex.isOp]

/-! ### constant arithmetic -/

/-- `c1 op c2 ↦` the folded constant, for `+ - *`, for `/` with a non-zero divisor -/
theorem C08_fold (k : Ctx) (t t1 t2 : Nat) (c1 c2 : Rat) :
    applyRule .constants k (.bin t .add (.const t1 c1) (.const t2 c2)) = .ok (k, .const 0 (c1 + c2)) ∧
    applyRule .constants k (.bin t .sub (.const t1 c1) (.const t2 c2)) = .ok (k, .const 0 (c1 - c2)) ∧
    applyRule .constants k (.bin t .mul (.const t1 c1) (.const t2 c2)) = .ok (k, .const 0 (c1 * c2)) ∧
    (c2 ≠ 0 → applyRule .constants k (.bin t .div (.const t1 c1) (.const t2 c2)) = .ok (k, .const 0 (c1 / c2))) := by
  refine ⟨?_, ?_, ?_, ?_⟩
  · simp [applyRule, caApply, caStep, foldConst, evalBop]
  · simp [applyRule, caApply, caStep, foldConst, evalBop]
  · simp [applyRule, caApply, caStep, foldConst, evalBop]
  · intro h
    simp [applyRule, caApply, caStep, foldConst, evalBop, h]

/-! ### distributive factor out -/

/-- `a·x + b·x ↦ (a + b) · x` for positive integer coefficients (with a variable present the
smallest common factor, 1, is the one pulled out) -/
theorem C08_factor_like_terms (k : Ctx) (t t1 t2 t3 t4 t5 t6 : Nat) (a b : Nat) (x : Char)
    (ha : 0 < a) (hb : 0 < b) :
    applyRule (.factorOut false) k
        (.bin t .add (.bin t1 .mul (.const t2 a) (.var t3 x)) (.bin t4 .mul (.const t5 b) (.var t6 x)))
      = .ok (k, .bin 0 .mul (.bin 0 .add (.const 0 a) (.const 0 b)) (.var 0 x)) := by
  have ha' : (1 : Rat) ≤ a := by exact_mod_cast ha
  have hb' : (1 : Rat) ≤ b := by exact_mod_cast hb
  obtain ⟨f, hf, h1, h2, h3⟩ :=
    factorAddTermsEx_best_one ha' hb' (some x) (some x) none none rfl
  have hf' := hf
  unfold factorAddTermsEx at hf'
  simp only [Option.getD_some, Option.isSome_some, Bool.or_self, if_true,
    listMin_common_factor ha' hb', factor_get_one ha', factor_get_one hb'] at hf'
  simp at hf'
  subst hf'
  simp [applyRule, dfApply, dfStep, getTermEx, dfCore, hf, makeTerm]

/-- unlike variables are not factored -/
theorem C08_no_factor_unlike (t t1 t2 t3 t4 t5 t6 : Nat) (a b : Nat) (x y : Char) (hxy : x ≠ y)
    (ha : 0 < a) (hb : 0 < b) :
    canApply (.factorOut false)
        [] (.bin t .add (.bin t1 .mul (.const t2 a) (.var t3 x)) (.bin t4 .mul (.const t5 b) (.var t6 y))) = false := by
  have ha' : (1 : Rat) ≤ a := by exact_mod_cast ha
  have hb' : (1 : Rat) ≤ b := by exact_mod_cast hb
  obtain ⟨f, hf, h1, h2, h3⟩ :=
    factorAddTermsEx_best_one ha' hb' (some x) (some y) none none rfl
  have hf' := hf
  unfold factorAddTermsEx at hf'
  simp only [Option.getD_some, Option.isSome_some, Bool.or_self, if_true,
    listMin_common_factor ha' hb', factor_get_one ha', factor_get_one hb'] at hf'
  simp [hxy] at hf'
  subst hf'
  simp [canApply, dfCan, dfStep, getTermEx, dfFactorOk, hf]

/-- The statement above is for positive INTEGER coefficients, and cannot be extended to all coefficients: for one
and the same coefficient strictly between 0 and 1 the rule (code and model alike) accepts unlike terms, because
the smallest common "factor" of `c` and `c` is then `c`, not `1`.  Witness `0.5y + 0.5z`; recorded as the open
finding C08-factor-out-equal-fractional-coefficients, replayed against the real rule on every run. -/
theorem C08_no_factor_unlike_fails_for_fractions :
    canApply (.factorOut false) []
      (.bin 0 .add (.bin 0 .mul (.const 0 (1/2)) (.var 0 'y')) (.bin 0 .mul (.const 0 (1/2)) (.var 0 'z'))) = true := by
  decide +kernel

/-- pure constants are not factored unless enabled -/
theorem C08_no_factor_constants (k : Ctx) (t t1 t2 : Nat) (a b : Rat) :
    canApply (.factorOut false) k (.bin t .add (.const t1 a) (.const t2 b)) = false := by
  simp [canApply, dfCan, dfStep, getTermEx, dfFactorOk]

/-! ### distributive multiply across -/

/-- `a(b + c) ↦ ab + ac` and `(b + c)a ↦ ab + ac`, each product possibly written constant-first -/
theorem C08_distribute (k : Ctx) (t t' : Nat) (a b c : Ex) (ha : a.isOp .add = false) :
    canApply .distribute k (.bin t .mul a (.bin t' .add b c)) = true ∧
    applyRule .distribute k (.bin t .mul a (.bin t' .add b c)) = .ok (k, dmBuild a b c) ∧
    applyRule .distribute k (.bin t .mul (.bin t' .add b c) a) = .ok (k, dmBuild a b c) ∧
    ∃ ab ac, dmBuild a b c = .bin 0 .add ab ac ∧
      (ab = .bin 0 .mul a.clone b.clone ∨ ab = .bin 0 .mul b.clone a.clone) ∧
      (ac = .bin 0 .mul a.clone c.clone ∨ ac = .bin 0 .mul c.clone a.clone) := by
  refine ⟨by simp [canApply, dmCan, Ex.isOp], ?_, ?_, ?_⟩
  · rcases a with _ | _ | _ | ⟨_, o, _, _⟩ <;> try (simp [applyRule, dmApply]; done)
    cases o <;> simp_all [applyRule, dmApply, Ex.isOp]
  · simp [applyRule, dmApply]
  · unfold dmBuild
    simp only []
    refine ⟨_, _, rfl, ?_, ?_⟩
    · split <;> simp
    · split <;> simp

/-! ### multiplicative inverse -/

/-- `a / b ↦ a * (1 / b)` -/
theorem C08_inverse (k : Ctx) (t : Nat) (a b : Ex) (hb : b.isUn .neg = false) :
    canApply .inverse k (.bin t .div a b) = true ∧
    applyRule .inverse k (.bin t .div a b)
      = .ok (k, .bin 0 .mul a.clone (.bin 0 .div (.const 0 1) b.clone)) := by
  refine ⟨by simp [canApply, miCan, Ex.isOp], ?_⟩
  rcases b with _ | _ | ⟨_, o, _⟩ | _ <;> try (simp [applyRule, miApply]; done)
  cases o <;> simp_all [applyRule, miApply, Ex.isUn]

/-! ### restate subtraction -/

/-- `a - b ↦ a + (-b)` under a sum, an equation or at the root (general case: `b` is neither a
negative constant, a negated variable nor a product with a leading constant) -/
theorem C08_restate_sub (k : Ctx) (t : Nat) (a b : Ex)
    (hk : rsParentOk k = true) (hb1 : b.isConst = false) (hb2 : b.isUn .neg = false) (hb3 : b.isOp .mul = false) :
    applyRule .restate k (.bin t .sub a b) = .ok (k, .bin 0 .add a (.un 0 .neg b)) := by
  rcases b with _ | _ | ⟨_, o, _⟩ | ⟨_, o, _, _⟩
  · simp [Ex.isConst] at hb1
  · simp [applyRule, rsApply, rsStep, hk]
  · cases o <;> simp_all [applyRule, rsApply, rsStep, Ex.isUn]
  · cases o <;> simp_all [applyRule, rsApply, rsStep, Ex.isOp]

/-- `a + (-c) ↦ a - c` for a negative constant -/
theorem C08_restate_add_neg_const (k : Ctx) (t t1 : Nat) (a : Ex) (c : Rat) (hc : c < 0) :
    applyRule .restate k (.bin t .add a (.const t1 c)) = .ok (k, .bin 0 .sub a (.const 0 (-c))) := by
  simp [applyRule, rsApply, rsStep, hc]

/-- `a - c·x ↦ a + (-c)·x` -/
theorem C08_restate_sub_term (k : Ctx) (t t1 t2 : Nat) (a r : Ex) (c : Rat) (hk : rsParentOk k = true) :
    applyRule .restate k (.bin t .sub a (.bin t1 .mul (.const t2 c) r))
      = .ok (k, .bin 0 .add a (.bin 0 .mul (.const 0 (c * -1)) r.clone)) := by
  simp [applyRule, rsApply, rsStep, hk]

/-! ### variable multiply -/

/-- `x^a * x^b ↦ x^(a + b)` -/
theorem C08_variable_multiply (k : Ctx) (t t1 t2 t3 t4 t5 t6 : Nat) (x : Char) (a b : Rat) :
    applyRule .variableMultiply k
        (.bin t .mul (.bin t1 .pow (.var t2 x) (.const t3 a)) (.bin t4 .pow (.var t5 x) (.const t6 b)))
      = .ok (k, .bin 0 .pow (.var 0 x) (.bin 0 .add (.const 0 a) (.const 0 b))) := by
  simp [applyRule, vmApply, vmStep, getTermEx, vmCoefs, vmWrapSimple]

/-- implicit exponents: `x * x^b ↦ x^(1 + b)` -/
theorem C08_variable_multiply_implicit (k : Ctx) (t t1 t2 t3 t4 : Nat) (x : Char) (b : Rat) :
    applyRule .variableMultiply k
        (.bin t .mul (.var t1 x) (.bin t2 .pow (.var t3 x) (.const t4 b)))
      = .ok (k, .bin 0 .pow (.var 0 x) (.bin 0 .add (.const 0 1) (.const 0 b))) := by
  simp [applyRule, vmApply, vmStep, getTermEx, vmCoefs, vmWrapSimple]

/-- different variables are not combined -/
theorem C08_no_variable_multiply (k : Ctx) (t t1 t2 : Nat) (x y : Char) (hxy : x ≠ y) :
    canApply .variableMultiply k (.bin t .mul (.var t1 x) (.var t2 y)) = false := by
  simp [canApply, vmCan, vmStep, getTermEx, hxy]

/-! ### balanced move -/

/-- `L + a = R ↦ L = R - a` for a constant addend at the top level of the left side -/
theorem C08_move_addend (te ta t1 : Nat) (L R : Ex) (c : Rat) (hL : L.isOp .eq = false) (hR : R.isOp .eq = false) :
    canApply .balancedMove [.binR ta .add L, .binL te .eq R] (.const t1 c) = true ∧
    applyRule .balancedMove [.binR ta .add L, .binL te .eq R] (.const t1 c)
      = .ok ([], .bin 0 .eq L.clone (.bin 0 .sub R.clone (.const 0 c))) := by
  have _ := hL
  have h1 : ∀ t o l r, (Ex.bin t o l r).isOp .eq = (Bop.eq == o) := fun _ _ _ _ => rfl
  simp [canApply, applyRule, bmCan, bmApply, bmType, splitRoot, parentIs, Frame.isOp, plug, Frame.fill,
    h1, Ex.isConst, allAdd, removeAddend, Ex.clone, hR]

/-- `c·x = R ↦ c·x / c = R / c` for a non-zero coefficient (no addition left on that side) -/
theorem C08_divide_coefficient (te tm t1 t2 : Nat) (x : Char) (R : Ex) (c : Rat) (hc : c ≠ 0)
    (hR : R.isOp .eq = false) :
    canApply .balancedMove [.binL tm .mul (.var t2 x), .binL te .eq R] (.const t1 c) = true ∧
    applyRule .balancedMove [.binL tm .mul (.var t2 x), .binL te .eq R] (.const t1 c)
      = .ok ([], .bin 0 .eq (.bin 0 .div (.bin 0 .mul (.const 0 c) (.var 0 x)) (.const 0 c))
                            (.bin 0 .div R.clone (.const 0 c))) := by
  have h1 : ∀ t o l r, (Ex.bin t o l r).isOp .eq = (Bop.eq == o) := fun _ _ _ _ => rfl
  simp [canApply, applyRule, bmCan, bmApply, bmType, splitRoot, parentIs, Frame.isOp, plug, Frame.fill,
    h1, Ex.isConst, hasAdd, Ex.clone, hR, hc]

end Mathy
