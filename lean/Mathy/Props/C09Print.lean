/-
Property C09, "every intermediate expression prints and re-parses": rewrites preserve
printability (no `abs`, factorial only of a literal, equations only along the top chain), so C04's
round-trip theorem applies to every state of every sequence.
-/
import Mathy.Props.C04
import Mathy.Props.C09
import Mathy.Proofs.PrintableLemmas
namespace Mathy

/-- an applicable rewrite of a printable tree yields a printable tree -/
theorem C09_rewrite_preserves_printable (r : Rule) (t t' : Ex) (i : Nat)
    (hcan : i ∈ findNodes r t) (happ : applyAt r t i = .ok t') (hp : Printable t = true) :
    Printable t' = true := by
  obtain ⟨k, n, hf, hc⟩ := mem_findNodes.mp hcan
  unfold applyAt at happ
  rw [hf] at happ
  simp only at happ
  split at happ
  · rename_i k' n' happ'
    simp at happ
    subst happ
    rw [← focusAt_plug hf] at hp
    exact applyRule_printable hc happ' hp
  · simp at happ

/-- every state of a sequence that starts from a printable tree (e.g. any parser output) is
printable -/
theorem C09_states_printable (t0 tn : Ex) (h : Steps t0 tn) (hp : Printable t0 = true) :
    Printable tn = true := by
  induction h with
  | refl => exact hp
  | step r i _ hcan happ ih => exact C09_rewrite_preserves_printable r _ _ i hcan happ ih

/-- … and therefore prints to text the parser accepts, re-parsing to a tree with the same value
wherever either has one and the same variables (given a number formatter that round-trips on
the constants of that state) -/
theorem C09_states_reparse (nt : Rat → List Char) (t0 tn : Ex) (h : Steps t0 tn)
    (hp : Printable t0 = true) (hn : NumOk nt tn) :
    ∃ e', parseToks (printRoot nt tn) = .ok e' ∧
      (∀ env v, eval env tn = .ok v ↔ eval env e' = .ok v) ∧ (∀ c, c ∈ e'.vars ↔ c ∈ tn.vars) :=
  C04_print_parse_chain nt tn (C09_states_printable t0 tn h hp) hn

/-- parser outputs are printable -/
theorem C09_parsed_is_printable (body : List Tok) (e : Ex) (h : G.EqualE body e) : Printable e = true :=
  equalE_printable h

end Mathy
