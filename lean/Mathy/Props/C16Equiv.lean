/-
Property C16, second layer — `terms_are_like` is an equivalence relation (the statement asks for
reflexive and symmetric; transitivity is what makes "like" a partition of the terms), and
`has_like_terms` says exactly what its name says: two DIFFERENT positions of the term list carry
the same key, or two constants hang directly under additions/subtractions.
-/
import Mathy.Props.C16
namespace Mathy

/-- `terms_are_like` is transitive, hence (with `C16_termsAreLike_refl/_symm`) an equivalence -/
theorem C16_termsAreLike_trans (a b c : TermKey)
    (hab : termsAreLike a b = true) (hbc : termsAreLike b c = true) : termsAreLike a c = true := by
  unfold termsAreLike at *
  cases ha : a.vars <;> cases hb : b.vars <;> cases hc : c.vars <;>
    simp_all [List.isEmpty]

/-- the duplicate scan of `has_like_terms` is the negation of `Nodup` -/
theorem hasDup_iff_not_nodup (ks : List TermKey) : hasDup ks = true ↔ ¬ ks.Nodup := by
  induction ks with
  | nil => simp [hasDup]
  | cons k ks ih =>
    simp only [hasDup, Bool.or_eq_true, List.contains_iff_mem, List.nodup_cons, ih]
    constructor
    · rintro (h | h) hn
      · exact hn.1 h
      · exact h hn.2
    · intro h
      by_cases hk : k ∈ ks
      · exact Or.inl hk
      · exact Or.inr (fun hn => h ⟨hk, hn⟩)

/-- `has_like_terms` in words: two different positions of the analysable terms carry one key, or at least two
constants are direct operands of additions / subtractions -/
theorem C16_hasLike_iff (e : Ex) :
    hasLikeTerms e = true ↔
      (∃ i j : Nat, ∃ k : TermKey, i < j ∧
          ((getTerms e).filterMap getTermKey)[i]? = some k ∧
          ((getTerms e).filterMap getTermKey)[j]? = some k) ∨ 2 ≤ countFreeConsts e := by
  unfold hasLikeTerms
  rw [Bool.or_eq_true, hasDup_iff_not_nodup, decide_eq_true_eq]
  apply or_congr _ Iff.rfl
  generalize (getTerms e).filterMap getTermKey = ks
  rw [List.nodup_iff_pairwise_ne, List.pairwise_iff_getElem]
  constructor
  · intro h
    by_contra hne
    apply h
    intro i j hi hj hij heq
    exact hne ⟨i, j, ks[i], hij, by simp [hi], by rw [heq]; simp [hj]⟩
  · rintro ⟨i, j, k, hij, hi, hj⟩ h
    rcases List.getElem?_eq_some_iff.mp hi with ⟨hil, hiv⟩
    rcases List.getElem?_eq_some_iff.mp hj with ⟨hjl, hjv⟩
    exact h i j hil hjl hij (hiv.trans hjv.symm)

/-- non-vacuity: `2x + 3x` has like terms through the first disjunct -/
example : hasLikeTerms (.bin 0 .add (.bin 0 .mul (.const 0 2) (.var 0 'x'))
    (.bin 0 .mul (.const 0 3) (.var 0 'x'))) = true := by decide +kernel

end Mathy
