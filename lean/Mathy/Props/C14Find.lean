/-
C14 (look-ups): `find_id`, `find_type` and `to_list` agree with the in-order traversal of the
RECEIVER — for every shape (any node of a larger tree is itself a `BT`, so the statements cover
look-ups asked of a non-root node: they range over that node's own sub-tree only).
-/
import Mathy.Model.Tree
import Mathy.Props.C14

namespace Mathy
open BT

/-! helper lemmas on the trace of a stopped / unstopped in-order visit -/

theorem any_false_eq {α} (xs : List α) : xs.any (fun _ => false) = false := by
  induction xs with
  | nil => rfl
  | cons x xs ih => simp

theorem visitIn_never (t : BT) : (t.visitIn (fun _ _ => false) 0).1 = t.inorder 0 := by
  rw [(C14_visitIn (fun _ _ => false) 0 t).1]
  exact takeThrough_of_not_any _ _ (any_false_eq _)

theorem inorder_map_fst (d : Nat) (t : BT) : (t.inorder d).map (·.1) = t.ids :=
  (C14_orders_perm d t).2.2.1

theorem lastOf_takeThrough_find {α} (q : α → Bool) (xs : List α) :
    (if xs.any q then lastOf (takeThrough q xs) else none) = xs.find? q := by
  induction xs with
  | nil => rfl
  | cons x xs ih =>
    by_cases hx : q x = true
    · simp [takeThrough, hx, lastOf]
    · have hx' : q x = false := by simpa using hx
      simp only [List.any_cons, hx', Bool.false_or, takeThrough, List.find?_cons]
      rw [← ih]
      by_cases ha : xs.any q = true
      · simp only [ha, if_true]
        -- the remaining trace is non-empty
        cases hxs : takeThrough q xs with
        | nil =>
          cases xs with
          | nil => simp at ha
          | cons y ys => simp only [takeThrough] at hxs; split at hxs <;> cases hxs
        | cons y ys => simp [lastOf]
      · simp [ha]

theorem takeThrough_length_idxOf (i : Nat) (xs : List (Nat × Nat))
    (h : xs.any (fun x => x.1 == i) = true) :
    (takeThrough (fun x : Nat × Nat => x.1 == i) xs).length - 1 = (xs.map (·.1)).idxOf i := by
  induction xs with
  | nil => simp at h
  | cons x xs ih =>
    by_cases hx : (x.1 == i) = true
    · have : x.1 = i := by simpa using hx
      simp [takeThrough, this]
    · have hx' : (x.1 == i) = false := by simpa using hx
      have hne : x.1 ≠ i := by simpa using hx
      simp only [List.any_cons, hx', Bool.false_or] at h
      have ih' := ih h
      simp only [takeThrough, hx', List.map_cons]
      rw [List.idxOf_cons_ne _ hne, ← ih']
      have hpos : 0 < (takeThrough (fun x : Nat × Nat => x.1 == i) xs).length := by
        cases xs with
        | nil => simp at h
        | cons y ys => simp only [takeThrough]; split <;> simp
      simp only [Bool.false_eq_true, if_false, List.length_cons]
      omega

/-- `to_list` is the in-order sequence of the receiver. -/
theorem C14_to_list (t : BT) : t.toList = t.ids := by
  unfold BT.toList
  rw [visitIn_never, inorder_map_fst]

/-- `find_type` returns exactly the nodes of the receiver satisfying the class test, in in-order. -/
theorem C14_find_type (p : Nat → Bool) (t : BT) : t.findAll p = t.ids.filter p := by
  unfold BT.findAll
  rw [visitIn_never, ← inorder_map_fst 0 t, List.filter_map]
  rfl

/-- `find_id` returns the FIRST node in the receiver's in-order sequence carrying that id, with
its true depth below the receiver … -/
theorem C14_find_id (i : Nat) (t : BT) :
    t.findId i = (t.inorder 0).find? (fun x => x.1 == i) := by
  have h := C14_visitIn (fun j _ => j == i) 0 t
  rw [← lastOf_takeThrough_find, ← h.1, ← h.2]
  rfl

/-- … so it finds a node iff the id occurs in the receiver's own sub-tree (an id that only
occurs elsewhere in the enclosing tree is not found). -/
theorem C14_find_id_none_iff (i : Nat) (t : BT) : t.findId i = none ↔ i ∉ t.ids := by
  rw [C14_find_id, ← inorder_map_fst 0 t, List.find?_eq_none]
  simp only [List.mem_map, beq_iff_eq, not_exists, not_and]

/-- the in-order position of the node found is the first position carrying the id -/
theorem C14_find_id_index (i : Nat) (t : BT) :
    t.findIdIndex i = (if i ∈ t.ids then some (t.ids.idxOf i) else none) := by
  have h := C14_visitIn (fun j _ => j == i) 0 t
  have hmem : ((t.inorder 0).any (fun x => x.1 == i) = true) ↔ i ∈ t.ids := by
    rw [← inorder_map_fst 0 t]
    simp only [List.any_eq_true, List.mem_map, beq_iff_eq]
  have hdef : t.findIdIndex i =
      if (t.visitIn (fun j _ => j == i) 0).2 = true
      then some ((t.visitIn (fun j _ => j == i) 0).1.length - 1) else none := rfl
  rw [hdef, h.1, h.2]
  by_cases ha : (t.inorder 0).any (fun x => x.1 == i) = true
  · have hm : i ∈ t.ids := hmem.1 ha
    have hl := takeThrough_length_idxOf i (t.inorder 0) ha
    rw [inorder_map_fst] at hl
    simp only [ha, hm, if_true]
    rw [← hl]
  · have hm : i ∉ t.ids := fun hm => ha (hmem.2 hm)
    simp only [ha, hm, if_false]
    rfl

/-- non-vacuity: duplicate ids, first in-order wins; and a miss -/
example : (BT.node 1 (.node 2 .nil .nil) (.node 2 .nil .nil)).findId 2 = some (2, 1) := by decide
example : (BT.node 1 (.node 2 .nil .nil) (.node 2 .nil .nil)).findIdIndex 2 = some 0 := by decide
example : (BT.node 1 (.node 2 .nil .nil) .nil).findId 7 = none := by decide

end Mathy
