/-
Property C11 — tokenizing is lossless, total and faithful to character classes.
Model: `Model/Tok.lean` (`tokenize pad s`; `pad = true` keeps whitespace tokens).
-/
import Mathy.Model.Tok
import Mathy.Proofs.TokLemmas
namespace Mathy

/-- the three documented normalisations -/
def normChar (c : Char) : Char :=
  if c == '–' then '-' else if c == '[' then '(' else if c == ']' then ')' else c

/-- characters of the supported alphabet -/
def supported (c : Char) : Bool := isNumber c || isAlpha c || (operatorTok true c).isSome

/-- the tokens before the end marker -/
def tokBody (pad : Bool) (s : List Char) : Except Char (List Tok) := tokenizeAux pad (s.length + 1) s

theorem tokenize_eq (pad : Bool) (s : List Char) :
    tokenize pad s = (tokBody pad s).map (· ++ [⟨.eof, []⟩]) := by
  unfold tokenize tokBody
  cases tokenizeAux pad (s.length + 1) s <;> rfl

theorem tokBody_eq_tb (pad : Bool) (s : List Char) : tokBody pad s = tb pad s := rfl

theorem supported_eq_sup : supported = sup := rfl

theorem normChar_of_number (c : Char) (h : isNumber c = true) : normChar c = c := by
  unfold normChar
  split_ifs with h1 h2 h3
  · rw [beq_iff_eq] at h1; subst h1; revert h; decide
  · rw [beq_iff_eq] at h2; subst h2; revert h; decide
  · rw [beq_iff_eq] at h3; subst h3; revert h; decide
  · rfl

theorem normChar_of_alpha (c : Char) (h : isAlpha c = true) : normChar c = c := by
  unfold normChar
  split_ifs with h1 h2 h3
  · rw [beq_iff_eq] at h1; subst h1; revert h; decide
  · rw [beq_iff_eq] at h2; subst h2; revert h; decide
  · rw [beq_iff_eq] at h3; subst h3; revert h; decide
  · rfl

theorem map_normChar_takeWhile (p : Char → Bool) (hp : ∀ c, p c = true → normChar c = c)
    (cs : List Char) : (cs.takeWhile p).map normChar = cs.takeWhile p :=
  (List.map_congr_left fun c hc => hp c (List.all_eq_true.1 List.all_takeWhile c hc)).trans (List.map_id' _)

theorem operatorTok_values (c : Char) (t : List Tok) (h : operatorTok true c = some t) :
    (t.map (·.value)).flatten = [normChar c] := by
  simp only [operatorTok, ↓reduceIte] at h
  split_ifs at h with h1 h2 h3 h4 h5 h6 h7 h8 h9 h10 <;> simp only [Option.some.injEq] at h
    <;> subst h
  · simp only [Bool.or_eq_true, beq_iff_eq] at h1
    rcases h1 with ((rfl | rfl) | rfl) | rfl <;> decide
  · rw [beq_iff_eq] at h2; subst h2; decide
  · simp only [Bool.or_eq_true, beq_iff_eq] at h3
    rcases h3 with rfl | rfl <;> decide
  · rw [beq_iff_eq] at h4; subst h4; decide
  · rw [beq_iff_eq] at h5; subst h5; decide
  · rw [beq_iff_eq] at h6; subst h6; decide
  · rw [beq_iff_eq] at h7; subst h7; decide
  · simp only [Bool.or_eq_true, beq_iff_eq] at h8
    rcases h8 with rfl | rfl <;> decide
  · simp only [Bool.or_eq_true, beq_iff_eq] at h9
    rcases h9 with rfl | rfl <;> decide
  · rw [beq_iff_eq] at h10; subst h10; decide

theorem tb_lossless (s : List Char) :
    ∀ ts, tb true s = .ok ts → (ts.map (·.value)).flatten = s.map normChar := by
  induction s using tok_induction with
  | nil =>
    intro ts h
    rw [tb_nil] at h
    cases h
    rfl
  | num c cs h ih =>
    intro ts hb
    rw [tb_number true c cs h, map_eq_ok_iff] at hb
    obtain ⟨ts', hts, rfl⟩ := hb
    have := ih ts' hts
    conv_rhs => rw [← List.takeWhile_append_dropWhile (p := isNumber) (l := cs)]
    simp only [List.map_cons, List.flatten_cons, List.map_append, List.cons_append, this,
      normChar_of_number c h, map_normChar_takeWhile isNumber normChar_of_number]
  | alpha c cs hn h ih =>
    intro ts hb
    rw [tb_alpha true c cs hn h, map_eq_ok_iff] at hb
    obtain ⟨ts', hts, rfl⟩ := hb
    have := ih ts' hts
    conv_rhs => rw [← List.takeWhile_append_dropWhile (p := isAlpha) (l := cs)]
    simp only [List.map_cons, List.flatten_append, List.map_append, List.cons_append, this,
      normChar_of_alpha c h, map_normChar_takeWhile isAlpha normChar_of_alpha, alphaToks_values]
  | op c cs hn ha ih =>
    intro ts hb
    cases ho : operatorTok true c with
    | none => rw [tb_op_none true c cs hn ha ho] at hb; cases hb
    | some t0 =>
      rw [tb_op_some true c cs t0 hn ha ho, map_eq_ok_iff] at hb
      obtain ⟨ts', hts, rfl⟩ := hb
      simp only [List.map_cons, List.flatten_append, List.map_append, ih ts' hts,
        operatorTok_values c t0 ho, List.cons_append, List.nil_append]

/-- **lossless**: with padding retained the token values concatenated are the input up to the
three normalisations; every character belongs to exactly one token. -/
theorem C11_lossless (s : List Char) (ts : List Tok) (h : tokenize true s = .ok ts) :
    (ts.map (·.value)).flatten = s.map normChar := by
  rw [tokenize_eq, tokBody_eq_tb, map_eq_ok_iff] at h
  obtain ⟨body, hb, rfl⟩ := h
  simp [tb_lossless s body hb]

/-- exactly one end marker, at the end -/
theorem C11_eof_once (pad : Bool) (s : List Char) (ts : List Tok) (h : tokenize pad s = .ok ts) :
    ∃ body, ts = body ++ [⟨.eof, []⟩] ∧ ∀ t ∈ body, t.type ≠ .eof := by
  rw [tokenize_eq, tokBody_eq_tb, map_eq_ok_iff] at h
  obtain ⟨body, hb, rfl⟩ := h
  exact ⟨body, rfl, tb_not_eof pad s body hb⟩

/-- dropping padding only removes the whitespace tokens -/
theorem C11_nopad (s : List Char) :
    tokenize false s = (tokenize true s).map (fun ts => ts.filter (fun t => t.type != .pad)) := by
  rw [tokenize_eq, tokenize_eq, tokBody_eq_tb, tokBody_eq_tb, tb_nopad]
  cases tb true s <;> simp [Except.map]

/-- an unsupported character raises, and it is the first one; supported strings never raise -/
theorem C11_error_iff (pad : Bool) (s : List Char) (c : Char) :
    tokenize pad s = .error c ↔
      ∃ pre post, s = pre ++ c :: post ∧ (∀ d ∈ pre, supported d = true) ∧ supported c = false := by
  rw [tokenize_eq, tokBody_eq_tb, map_eq_error_iff, tb_error_iff, supported_eq_sup]
  exact find?_not_eq_some_iff sup s c

theorem C11_total (pad : Bool) (s : List Char) (h : ∀ c ∈ s, supported c = true) :
    ∃ ts, tokenize pad s = .ok ts := by
  cases ht : tokenize pad s with
  | ok ts => exact ⟨ts, rfl⟩
  | error c =>
    obtain ⟨pre, post, rfl, _, hc⟩ := (C11_error_iff pad s c).1 ht
    have := h c (by simp)
    rw [hc] at this
    cases this

/-- maximal munch, numbers: a maximal run of digits/dots is one constant token -/
theorem C11_number_run (pad : Bool) (run rest : List Char) (hne : run ≠ [])
    (hrun : ∀ c ∈ run, isNumber c = true) (hrest : ∀ c, rest.head? = some c → isNumber c = false) :
    tokBody pad (run ++ rest) = (tokBody pad rest).map (fun ts => ⟨.constant, run⟩ :: ts) := by
  cases run with
  | nil => exact absurd rfl hne
  | cons c run' =>
    obtain ⟨h1, h2⟩ := takeWhile_dropWhile_run isNumber run' rest
      (fun d hd => hrun d (by simp [hd])) hrest
    rw [tokBody_eq_tb, tokBody_eq_tb, List.cons_append, tb_number pad c _ (hrun c (by simp)), h1, h2]

/-- maximal munch, letters: each letter of a maximal letter run is its own variable, unless the
WHOLE run is a registered function name -/
theorem C11_alpha_run (pad : Bool) (run rest : List Char) (hne : run ≠ [])
    (hrun : ∀ c ∈ run, isAlpha c = true) (hrest : ∀ c, rest.head? = some c → isAlpha c = false) :
    tokBody pad (run ++ rest) =
      (tokBody pad rest).map (fun ts =>
        (if functionNames.contains run then [⟨.function, run⟩]
         else run.map fun c => ⟨.variable, [c]⟩) ++ ts) := by
  cases run with
  | nil => exact absurd rfl hne
  | cons c run' =>
    obtain ⟨h1, h2⟩ := takeWhile_dropWhile_run isAlpha run' rest
      (fun d hd => hrun d (by simp [hd])) hrest
    have hc := hrun c (by simp)
    have hn : isNumber c = false := by
      cases hnum : isNumber c with
      | false => rfl
      | true => exact absurd hc (by rw [isAlpha_of_isNumber c hnum]; simp)
    rw [tokBody_eq_tb, tokBody_eq_tb, List.cons_append, tb_alpha pad c _ hn hc, h1, h2]
    rfl

/-- every other supported character is one operator / bracket / padding token -/
theorem C11_operator (pad : Bool) (c : Char) (rest : List Char) (t : List Tok)
    (hn : isNumber c = false) (ha : isAlpha c = false) (ho : operatorTok pad c = some t) :
    tokBody pad (c :: rest) = (tokBody pad rest).map (fun ts => t ++ ts) := by
  exact tb_op_some pad c rest t hn ha ho

/-! non-vacuity -/
example : tokenize true "4x + sgn(2.5)–[y]".toList = .ok
    [⟨.constant, ['4']⟩, ⟨.variable, ['x']⟩, ⟨.pad, [' ']⟩, ⟨.plus, ['+']⟩, ⟨.pad, [' ']⟩,
     ⟨.function, "sgn".toList⟩, ⟨.openParen, ['(']⟩, ⟨.constant, "2.5".toList⟩, ⟨.closeParen, [')']⟩,
     ⟨.minus, ['-']⟩, ⟨.openParen, ['(']⟩, ⟨.variable, ['y']⟩, ⟨.closeParen, [')']⟩, ⟨.eof, []⟩] := by
  rfl

example : tokenize false "2 # 3".toList = .error '#' := by rfl

end Mathy
