/-
Property C17 — generated problems are always valid and contain what they promise.
Model: `Model/Problems.lean` — the helpers as functions of explicit draws and the token SHAPES of
the generated texts.  That each real generator only emits instances of its shape, and its
complexity value, are checked on every generated text of the run (partial: see theorems.json).
-/
import Mathy.Model.Problems
import Mathy.Props.C03
import Mathy.Proofs.ProblemLemmas
namespace Mathy

/-- requested variable sets are distinct, of the requested size, inside the alphabet and respect
the exclusions (given what `random.sample` guarantees about its picks) -/
theorem C17_getRandVars (pool exclude : List Char) (n : Nat) (picks : List Nat) (vs : List Char)
    (hpool : pool.Nodup) (hp : picks.Nodup) (hl : picks.length = n)
    (hr : ∀ i ∈ picks, i < (pool.filter (fun v => !exclude.contains v)).length)
    (h : getRandVars pool exclude n picks = some vs) :
    vs.Nodup ∧ vs.length = n ∧ ∀ v ∈ vs, v ∈ pool ∧ v ∉ exclude := by
  unfold getRandVars at h
  generalize hav : pool.filter (fun v => !exclude.contains v) = av at h hr
  have havn : av.Nodup := hav ▸ hpool.filter _
  simp only at h
  split at h
  · cases h
  split at h
  · cases h
  injection h with h
  subst h
  have key : ∀ (ps : List Nat), ps.Nodup → (∀ i ∈ ps, i < av.length) →
      (ps.filterMap fun i => av[i]?).Nodup ∧ (ps.filterMap fun i => av[i]?).length = ps.length ∧
      ∀ v ∈ (ps.filterMap fun i => av[i]?), ∃ i ∈ ps, av[i]? = some v := by
    intro ps
    induction ps with
    | nil => intro _ _; simp
    | cons i ps ih =>
      intro hnd hlt
      have hi : i < av.length := hlt i (by simp)
      obtain ⟨h1, h2, h3⟩ := ih (List.nodup_cons.mp hnd).2 (fun j hj => hlt j (by simp [hj]))
      have hget : av[i]? = some av[i] := List.getElem?_eq_getElem hi
      rw [List.filterMap_cons, hget]
      refine ⟨?_, ?_, ?_⟩
      · refine List.nodup_cons.mpr ⟨?_, h1⟩
        intro hmem
        obtain ⟨j, hj, hjv⟩ := h3 _ hmem
        have hjl : j < av.length := hlt j (by simp [hj])
        rw [List.getElem?_eq_getElem hjl] at hjv
        injection hjv with hjv
        have : j = i := (List.getElem_inj havn).mp hjv
        subst this
        exact (List.nodup_cons.mp hnd).1 hj
      · simp [h2]
      · intro v hv
        rcases List.mem_cons.mp hv with rfl | hv
        · exact ⟨i, by simp, hget⟩
        · obtain ⟨j, hj, hjv⟩ := h3 v hv
          exact ⟨j, by simp [hj], hjv⟩
  obtain ⟨k1, k2, k3⟩ := key picks hp hr
  refine ⟨k1, k2.trans hl, ?_⟩
  intro v hv
  obtain ⟨i, _, hiv⟩ := k3 v hv
  have hmem : v ∈ av := List.mem_of_getElem? hiv
  rw [← hav, List.mem_filter] at hmem
  refine ⟨hmem.1, ?_⟩
  simpa using hmem.2

/-- a satisfiable request never fails -/
theorem C17_getRandVars_satisfiable (pool exclude : List Char) (n : Nat) (picks : List Nat)
    (h25 : n ≤ 25) (hn : n ≤ (pool.filter (fun v => !exclude.contains v)).length) :
    (getRandVars pool exclude n picks).isSome = true := by
  unfold getRandVars
  simp only
  rw [if_neg (by omega), if_neg (by omega)]
  rfl

/-- random two-way splits sum to their input, lower part first -/
theorem C17_split (value : Nat) (factor : Rat) (h0 : 0 ≤ factor) (h1 : factor ≤ 1) :
    (splitInTwo value factor).1 + (splitInTwo value factor).2 = value ∧
    (splitInTwo value factor).1 ≤ (splitInTwo value factor).2 := by
  have _ := h0
  have hle : (factor * value).floor ≤ (value : Int) := by
    have h2 : factor * (value : Rat) ≤ ((value : Int) : Rat) := by
      have hv : (0 : Rat) ≤ (value : Rat) := by exact_mod_cast Nat.zero_le value
      have := Rat.mul_le_mul_of_nonneg_right h1 hv
      rw [Rat.intCast_natCast]
      simpa using this
    have := Rat.floor_monotone h2
    rwa [Rat.floor_intCast] at this
  have hl : (factor * value).floor.toNat ≤ value := by omega
  unfold splitInTwo
  simp only
  omega

/-- every well-formed flat problem text (terms / numbers joined by `+ - *`, optional
parenthesised group) is accepted by the parser -/
theorem C17_flat_parses (p : FlatProblem) (h : p.ok = true) :
    ∃ e, parseToks (p.toks ++ [eofTok]) = .ok e := by
  obtain ⟨e, he, _⟩ := Prob.flat_derivation p h
  exact ⟨e, C03_parse_complete p.toks e (Prob.flat_noeof p) (Prob.add_equal he)⟩

/-- so are the binomial products -/
theorem C17_binomial_parses (p : BinomialProblem) (h : p.ok = true) :
    ∃ e, parseToks (p.toks ++ [eofTok]) = .ok e := by
  obtain ⟨e, he⟩ := Prob.binomial_derivation p h
  exact ⟨e, C03_parse_complete p.toks e (Prob.binomial_noeof p) (Prob.add_equal he)⟩

/-- a sum that contains two terms with the same variable and power really has like terms -/
theorem C17_like_promise (p : FlatProblem) (h : p.ok = true) (hl : p.promisesLike = true) (e : Ex)
    (he : parseToks (p.toks ++ [eofTok]) = .ok e) : hasLikeTerms e = true := by
  obtain ⟨e', hd, hleaves⟩ := Prob.flat_derivation p h
  have hp := C03_parse_complete p.toks e' (Prob.flat_noeof p) (Prob.add_equal hd)
  rw [hp] at he
  obtain rfl : e' = e := Except.ok.inj he
  have hplus : (p.rest.all fun q => q.1 == .plus) = true := by
    simp only [FlatProblem.promisesLike, Bool.and_eq_true] at hl
    exact hl.1
  exact Prob.flat_like p hl e' (hleaves hplus)

/-! non-vacuity: `4y + (24x + 12x) + -3.5j^2` is a well-formed problem that promises like terms -/
example : (FlatProblem.mk
    (.term (some ⟨false, ['4']⟩) 'y' none)
    [(.plus, .term (some ⟨false, "24".toList⟩) 'x' none), (.plus, .term (some ⟨false, "12".toList⟩) 'x' none),
     (.plus, .term (some ⟨true, "3.5".toList⟩) 'j' (some ['2']))]
    (some (1, 2))).ok = true ∧
  (FlatProblem.mk
    (.term (some ⟨false, ['4']⟩) 'y' none)
    [(.plus, .term (some ⟨false, "24".toList⟩) 'x' none), (.plus, .term (some ⟨false, "12".toList⟩) 'x' none),
     (.plus, .term (some ⟨true, "3.5".toList⟩) 'j' (some ['2']))]
    (some (1, 2))).promisesLike = true := by decide +kernel

end Mathy
