/-
Property C04 at the level of TEXT: `strChars nt none e` is the exact string `str(e)` of the real
classes (compared character by character on every printed tree by the correspondence run);
`parseText` is tokenizer + parser.  This closes the "characters ↔ tokens of printed text" clause
that `Props/C04.lean` left to the correspondence: the token-level theorems now apply to the string.
-/
import Mathy.Props.C04
import Mathy.Proofs.StrTok
namespace Mathy

open StrTok

/-- characters are well formed: variables are letters, the number formatter writes a non-empty run
of digits/dots for the absolute value of every constant, and there is no `abs` node -/
def CharsOk (nt : Rat → List Char) : Ex → Prop := StrOk nt

/-- **C04 (characters → tokens).** For every tree — any shape, any parent context — the tokenizer
maps the printed string to exactly the print tokens followed by one end marker: no two printed
pieces fuse into one token (`4x`, `-3`, `sgn(`, `x^2` are split where `__str__` glued them) and
nothing else is inserted. -/
theorem C04_str_tokens (nt : Rat → List Char) (e : Ex) (p : Option (Bop × Side))
    (hc : CharsOk nt e) :
    tokenize false (strChars nt p e) = .ok (printToks nt p e ++ [⟨.eof, []⟩]) := by
  have h := tk_str nt e p hc [] boundary_nil
  simp only [List.append_nil, tb_nil] at h
  unfold tokenize
  have : tokenizeAux false ((strChars nt p e).length + 1) (strChars nt p e)
      = .ok (printToks nt p e) := by
    simpa [tb, Except.map] using h
  rw [this]

/-- **C04 (text).** Every printable tree with left-nested equation chains prints to a STRING that
`ExpressionParser.parse` accepts, and the re-parsed tree evaluates identically at every assignment
and has the same variables. -/
theorem C04_print_parse_text (nt : Rat → List Char) (e : Ex) (hp : PrintableL e = true)
    (hn : NumOk nt e) (hc : CharsOk nt e) :
    ∃ e', parseText (strChars nt none e) = .tree e' ∧ EvalEq e e' ∧
      (∀ c, c ∈ e'.vars ↔ c ∈ e.vars) := by
  obtain ⟨e', hparse, hev, hv⟩ := C04_print_parse nt e hp hn
  refine ⟨e', ?_, hev, hv⟩
  unfold parseText
  rw [C04_str_tokens nt e none hc]
  simp only [printRoot] at hparse
  simp only [hparse]

/-- **C04 (text), arbitrary equation chains.** -/
theorem C04_print_parse_chain_text (nt : Rat → List Char) (e : Ex) (hp : Printable e = true)
    (hn : NumOk nt e) (hc : CharsOk nt e) :
    ∃ e', parseText (strChars nt none e) = .tree e' ∧
      (∀ env v, eval env e = .ok v ↔ eval env e' = .ok v) ∧ (∀ c, c ∈ e'.vars ↔ c ∈ e.vars) := by
  obtain ⟨e', hparse, hev, hv⟩ := C04_print_parse_chain nt e hp hn
  refine ⟨e', ?_, hev, hv⟩
  unfold parseText
  rw [C04_str_tokens nt e none hc]
  simp only [printRoot] at hparse
  simp only [hparse]

/-! non-vacuity: the string of `(-x)^2 * (2x)^3 - -(a - b)` -/
example : String.ofList (strChars showRat none
    (.bin 0 .sub (.bin 0 .mul (.bin 0 .pow (.un 0 .neg (.var 0 'x')) (.const 0 2))
                               (.bin 0 .pow (.bin 0 .mul (.const 0 2) (.var 0 'x')) (.const 0 3)))
                 (.un 0 .neg (.bin 0 .sub (.var 0 'a') (.var 0 'b')))))
  = "(-x)^2 * (2x)^3 - -(a - b)" := by
  decide +kernel

example : parseText "(-x)^2 * (2x)^3 - -(a - b)".toList
  = .tree (.bin 0 .sub (.bin 0 .mul (.bin 0 .pow (.un 0 .neg (.var 0 'x')) (.const 0 2))
                               (.bin 0 .pow (.bin 0 .mul (.const 0 2) (.var 0 'x')) (.const 0 3)))
                 (.un 0 .neg (.bin 0 .sub (.var 0 'a') (.var 0 'b')))) := by
  decide +kernel

end Mathy
