/-
Source tie for the parser: `Gen/PySrcParse.lean` is the statement-by-statement translation of the
live `mathy_core/parser.py` (TokenSet, the module-level token sets, `next`, `eat`, `check`, the
mutually recursive `parse_*` methods with their loops, `_parse`), `Gen/PySrcTokSt.lean` that of the
tokenizer.  The theorems below are about the translated Python; they are re-checked against what
the code says now on every run.
-/
import Mathy.Proofs.PySrcAgreeParse6
import Mathy.Props.C10
namespace Mathy
open Mathy.Py Mathy.Gen.Src Mathy.SrcAgree

/-- **Source tie, parser (C03/C04/C10/C12).** Tokenizing with `exclude_padding = True` and running
`ExpressionParser._parse` — both as translated from the live source — yields exactly the model's
`parseText`: the same tree, the same `ParserException` subclass, or the tokenizer's `ValueError` with
the same offending character and text; for EVERY input string and whatever state `st` the parser
object was left in by earlier calls.  In particular: the fuel `8 * len(tokens) + 17` that `_parse`
is given is never exhausted (every recursion and loop of the real parser terminates), and no
IndexError / KeyError / use of a `None` operand escapes. -/
theorem Src_parse (st : ParserState) (s : List Char) :
    srcParseText st s = outcomeOf s (parseText s) :=
  parseText_agree st s

/-- **(C03) the grammar theorems hold for the translated parser**: on a token list of the
tokenizer's shape, translated `_parse` returns the model's `parseToks`, about which
`C03_parse_sound` / `C03_parse_complete` / `C03_unambiguous` are stated. -/
theorem Src_parse_tokens (st : ParserState) (s : List Char) (ts : List Tok) (h : tokenize false s = .ok ts) :
    (ExpressionParser__parse st (ts.map tokToPy)).map Prod.fst =
      match parseToks ts with
      | .ok e => .ok e
      | .error k => .error (errOf k) :=
  parse_agree st ts (tokenize_good false s ts h)

/-- **(C10) closed outcome of the translated parser**: a tree, the tokenizer's ValueError for the
first unsupported character, a malformed-number ValueError, or one of the five ParserException
subclasses — never fuel exhaustion (non-termination), IndexError, KeyError or a `None` operand. -/
theorem Src_parse_closed (st : ParserState) (s : List Char) :
    (∃ e, srcParseText st s = .ok e) ∨
    (∃ c, srcParseText st s = .error (.ValueError (invalidTokenMsg c s))) ∨
    srcParseText st s = .error (.ValueError []) ∨
    srcParseText st s = .error .InvalidExpression ∨ srcParseText st s = .error .OutOfTokens ∨
    srcParseText st s = .error .InvalidSyntax ∨ srcParseText st s = .error .UnexpectedBehavior ∨
    srcParseText st s = .error .TrailingTokens := by
  rw [Src_parse]
  rcases C10_outcome_closed s with ⟨e, h⟩ | ⟨c, h⟩ | ⟨k, h, hk⟩
  · exact .inl ⟨e, by rw [h]; rfl⟩
  · exact .inr (.inl ⟨c, by rw [h]; rfl⟩)
  · rw [h]
    cases k <;> simp [outcomeOf, errOf] at hk ⊢

/-- **(C12) no sticky state inside `_parse`**: the translated result does not depend on the state
the parser object is in when the call starts (`tokens`, `current_token` left over from an earlier,
possibly failed, parse). -/
theorem Src_parse_state_independent (st st' : ParserState) (s : List Char) :
    srcParseText st s = srcParseText st' s := by
  rw [Src_parse, Src_parse]

/-! non-vacuity: the translated Python on concrete inputs -/
example : srcParseText ⟨[], ⟨[], 0⟩⟩ "4x^2".toList =
    .ok (.bin 0 .mul (.const 0 4) (.bin 0 .pow (.var 0 'x') (.const 0 2))) := by
  rw [Src_parse]; decide +kernel
example : srcParseText ⟨[], ⟨[], 0⟩⟩ "2+".toList = .error .UnexpectedBehavior := by
  rw [Src_parse]; decide +kernel

end Mathy
