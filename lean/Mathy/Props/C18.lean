/-
Property C18 — tree layout satisfies the tidy-tree invariants and is repeatable.

The property quantifies over a BOUNDED set of shapes, so kernel-checked exhaustive evaluation of
the model IS a proof of (the model-level reading of) it: `C18_table` states, for every binary
shape with 1 … 7 nodes, exactly which invariants the layout violates — the list is
`Gen/LayoutTable.lean`, regenerated on every run from the committed known-findings table
`findings_layout.json`.  The real `layout()` violates the property from 4 nodes on (known
findings C18-*); the theorem pins down the model's behaviour on every shape, the correspondence
run compares every coordinate of the real code with the model exactly.
-/
import Mathy.Gen.LayoutTable
namespace Mathy

/-- for every shape with at most 7 nodes the violated invariants are exactly the listed ones
(in particular: no invariant fails on any shape with fewer than 4 nodes; `y = depth`, `parent
centred` and `bounds = bounding box` never fail) -/
theorem C18_table : (shapesUpTo layoutTableBound).map violations = layoutTable := by
  decide +kernel

/-- the three invariants that hold on every shape of the bound -/
theorem C18_always_hold :
    ∀ t ∈ shapesUpTo layoutTableBound,
      LInv.yIsDepth ∉ violations t ∧ LInv.parentCentred ∉ violations t ∧ LInv.boundsAreBbox ∉ violations t := by
  intro t ht
  have hrow : violations t ∈ layoutTable := by
    rw [← C18_table]; exact List.mem_map_of_mem ht
  have hall : ∀ row ∈ layoutTable,
      LInv.yIsDepth ∉ row ∧ LInv.parentCentred ∉ row ∧ LInv.boundsAreBbox ∉ row := by decide +kernel
  exact hall _ hrow

/-- every shape with at most 3 nodes satisfies all invariants -/
theorem C18_small_shapes_fine : ∀ t ∈ shapesUpTo 3, violations t = [] := by
  decide +kernel

end Mathy
