/-
Property C15 — rotation preserves the in-order sequence and link consistency.
Model: `Model/Tree.lean`: functional `rotateAt` and the pointer-level `Heap.rotate`
(a statement-by-statement transcription of `BinaryTreeNode.rotate`).
-/
import Mathy.Model.Tree
import Mathy.Proofs.HeapRotate
namespace Mathy
open BT

theorem rotateTop_ids (t : BT) (d : Dir) : (t.rotateTop d).ids = t.ids := by
  unfold rotateTop
  split <;> simp [ids, List.append_assoc]

/-- rotating any node keeps the in-order sequence of node objects exactly -/
theorem C15_rotate_inorder (t : BT) (p : Path) : (t.rotateAt p).ids = t.ids := by
  induction p generalizing t with
  | nil => cases t <;> simp [rotateAt]
  | cons d q ih =>
    cases q with
    | nil =>
      have : t.rotateAt [d] = t.rotateTop d := by cases t <;> simp [rotateAt]
      rw [this, rotateTop_ids]
    | cons d' q' =>
      cases t with
      | nil => simp [rotateAt]
      | node i l r =>
        cases d <;> simp [rotateAt, ids, ih]

/-- rotating the root changes nothing -/
theorem C15_rotate_root (t : BT) : t.rotateAt [] = t := by
  cases t <;> simp [rotateAt]

/-- the rotated node moves above its parent -/
theorem C15_rotate_moves_up (pid nid : Nat) (a b c : BT) :
    (BT.node pid (.node nid a b) c).rotateAt [.L] = .node nid a (.node pid b c) ∧
    (BT.node pid a (.node nid b c)).rotateAt [.R] = .node nid (.node pid a b) c := by
  constructor
  · simp [rotateAt, rotateTop]
  · cases a <;> simp [rotateAt, rotateTop]

/-- pointer level, root: a node without parent is left alone -/
theorem C15_heap_rotate_root (h : Heap) (n : Nat) (hp : (h n).parent = none) : h.rotate n = h := by
  simp [Heap.rotate, hp]

/-- **pointer level.**  If the heap represents the tree `t` (all links mutually consistent, root
parentless), node objects are distinct, and `n` is the node at the non-empty path `p`, then after
the literal pointer assignments of `rotate` the heap represents the functionally rotated tree:
all parent/child links are again mutually consistent and the grandparent points at `n`. -/
theorem C15_heap_rotate (h : Heap) (t : BT) (p : Path) (n : Nat)
    (hrep : Rep h t none) (hnd : t.ids.Nodup) (hp : p ≠ []) (hn : (t.sub p).rootId = some n) :
    Rep (h.rotate n) (t.rotateAt p) none :=
  heap_rotate_correct h t p n hrep hnd hp hn

/-! non-vacuity -/
example : (BT.node 1 (.node 2 (.node 3 .nil .nil) (.node 4 .nil .nil)) (.node 5 .nil .nil)).rotateAt [.L]
    = .node 2 (.node 3 .nil .nil) (.node 1 (.node 4 .nil .nil) (.node 5 .nil .nil)) := by decide

end Mathy
