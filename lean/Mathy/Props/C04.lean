/-
Property C04 — printing an expression and parsing it back preserves its meaning.

Token level: `printRoot nt e` is the token list the real tokenizer yields for `str(e)` (checked
by the correspondence run on every printed tree), `parseToks` is the parser.  The number
formatter `nt` is a parameter: the theorem needs it to round-trip through `coerce_to_number` on
the constants that occur (`NumOk`), which holds for Python's `int`/shortest-repr formatting of
finite ints and floats.
-/
import Mathy.Model.Print
import Mathy.Proofs.Eval
import Mathy.Props.C03
import Mathy.Proofs.PrintParse
namespace Mathy

/-- no equation, no `abs` (it is not registered with the tokenizer), factorial only of a literal:
what the parser and the rules can produce below the top-level equation chain -/
def NoEq : Ex → Bool
  | .const .. => true
  | .var .. => true
  | .un _ .abs _ => false
  | .un _ .fact c => c.isConst
  | .un _ _ c => NoEq c
  | .bin _ .eq _ _ => false
  | .bin _ _ l r => NoEq l && NoEq r

/-- equations only at the top (chained equations print as `a = b = c`) -/
def Printable : Ex → Bool
  | .bin _ .eq l r => Printable l && Printable r
  | e => NoEq e

/-- the number formatter round-trips on every constant of the tree -/
def NumOk (nt : Rat → List Char) : Ex → Prop
  | .const _ v => parseNumber (nt (if v < 0 then -v else v)) = some (if v < 0 then -v else v)
  | .var .. => True
  | .un _ _ c => NumOk nt c
  | .bin _ _ l r => NumOk nt l ∧ NumOk nt r

/-- left-nested equation chains `(a = b) = c` — what the parser produces -/
def PrintableL : Ex → Bool
  | .bin _ .eq l r => PrintableL l && NoEq r
  | e => NoEq e

/-! ### correspondence with the definitions used in `Proofs/PrintParse.lean` -/

theorem noEq_eq (e : Ex) : NoEq e = PP.NoEq e := by
  induction e with
  | const t v => rfl
  | var t x => rfl
  | un t o c ih => cases o <;> simp [NoEq, PP.NoEq, ih]
  | bin t o l r ihl ihr => cases o <;> simp [NoEq, PP.NoEq, ihl, ihr]

theorem printableL_eq (e : Ex) : PrintableL e = PP.PrintableL e := by
  induction e with
  | const t v => rfl
  | var t x => rfl
  | un t o c ih => simp [PrintableL, PP.PrintableL, noEq_eq]
  | bin t o l r ihl ihr => cases o <;> simp [PrintableL, PP.PrintableL, noEq_eq, ihl]

theorem printable_eq (e : Ex) : Printable e = PP.Printable e := by
  induction e with
  | const t v => rfl
  | var t x => rfl
  | un t o c ih => simp [Printable, PP.Printable, noEq_eq]
  | bin t o l r ihl ihr => cases o <;> simp [Printable, PP.Printable, noEq_eq, ihl, ihr]

theorem numOk_iff (nt : Rat → List Char) (e : Ex) : NumOk nt e ↔ PP.NumOk nt e := by
  induction e with
  | const t v => exact Iff.rfl
  | var t x => exact Iff.rfl
  | un t o c ih => exact ih
  | bin t o l r ihl ihr => exact and_congr ihl ihr

theorem parse_of_derivation (nt : Rat → List Char) (e e' : Ex)
    (h : G.EqualE (printToks nt none e) e') : parseToks (printRoot nt e) = .ok e' := by
  have := C03_parse_complete (printToks nt none e) e' (PP.noeof nt e none) h
  simpa [printRoot, eofTok] using this

/-- **C04.** Every printable tree with left-nested equation chains — any shape below the chain,
not only parser outputs — prints to text that the parser accepts, and the re-parsed tree
evaluates identically at every assignment (value, failed equation and undefinedness alike) and
has the same variables.

The restriction to left-nested chains is necessary for *identical* evaluation: the right-nested
`1 / 0 = (1 = 2)` (`Printable`, prints `1 / 0 = 1 = 2`) evaluates to "sides differ" (an exception
anywhere wins over a NaN: `Bad.worse`), but the text is read `(1 / 0 = 1) = 2`, whose inner
equation is undefined and which therefore evaluates to "undefined".  For arbitrary chains see
`C04_print_parse_chain`. -/
theorem C04_print_parse (nt : Rat → List Char) (e : Ex) (hp : PrintableL e = true) (hn : NumOk nt e) :
    ∃ e', parseToks (printRoot nt e) = .ok e' ∧ EvalEq e e' ∧ (∀ c, c ∈ e'.vars ↔ c ∈ e.vars) := by
  obtain ⟨e', hrel, hE⟩ :=
    PP.chainL nt e (by rwa [← printableL_eq]) ((numOk_iff nt e).1 hn)
  exact ⟨e', parse_of_derivation nt e e' hE, hrel.1, hrel.2⟩

/-- **C04, arbitrary equation chains** (incl. right-nested `a = (b = c)`, which a commutative swap
of the root produces): the text is accepted and the re-parsed tree has a value exactly where the
original has one, the same value (for equations: the same solution set); same variables. -/
theorem C04_print_parse_chain (nt : Rat → List Char) (e : Ex) (hp : Printable e = true)
    (hn : NumOk nt e) :
    ∃ e', parseToks (printRoot nt e) = .ok e' ∧
      (∀ env v, eval env e = .ok v ↔ eval env e' = .ok v) ∧ (∀ c, c ∈ e'.vars ↔ c ∈ e.vars) := by
  obtain ⟨⟨e', hE, hw, hv⟩, -⟩ :=
    PP.chain nt e (by rwa [← printable_eq]) ((numOk_iff nt e).1 hn)
  exact ⟨e', parse_of_derivation nt e e' hE, hw, hv⟩

/-- the counterexample to identical evaluation for right-nested chains: `1 / 0 = (1 = 2)` -/
example :
    let e : Ex := .bin 0 .eq (.bin 0 .div (.const 0 1) (.const 0 0))
      (.bin 0 .eq (.const 0 1) (.const 0 2))
    Printable e = true ∧
    parseToks (printRoot showRat e) = .ok (.bin 0 .eq (.bin 0 .eq (.bin 0 .div (.const 0 1)
      (.const 0 0)) (.const 0 1)) (.const 0 2)) ∧
    eval (fun _ => 0) e = .error .unequal ∧
    eval (fun _ => 0) (.bin 0 .eq (.bin 0 .eq (.bin 0 .div (.const 0 1) (.const 0 0))
      (.const 0 1)) (.const 0 2)) = .error .undef := by
  decide +kernel

/-! non-vacuity: `(-x)^2 * (2x)^3 - -(a - b)` -/
example : parseToks (printRoot showRat
    (.bin 0 .sub (.bin 0 .mul (.bin 0 .pow (.un 0 .neg (.var 0 'x')) (.const 0 2))
                               (.bin 0 .pow (.bin 0 .mul (.const 0 2) (.var 0 'x')) (.const 0 3)))
                 (.un 0 .neg (.bin 0 .sub (.var 0 'a') (.var 0 'b')))))
  = .ok (.bin 0 .sub (.bin 0 .mul (.bin 0 .pow (.un 0 .neg (.var 0 'x')) (.const 0 2))
                               (.bin 0 .pow (.bin 0 .mul (.const 0 2) (.var 0 'x')) (.const 0 3)))
                 (.un 0 .neg (.bin 0 .sub (.var 0 'a') (.var 0 'b')))) := by
  decide +kernel

end Mathy
