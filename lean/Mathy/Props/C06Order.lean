/-
Property C06 ⇄ C14: the positions `find_nodes` records are positions of `visit_inorder`.
An expression tree is a binary tree whose unary nodes have only a right child; the focuses the
rule search enumerates are exactly the callbacks of the in-order traversal of that shape, with
the same depths.
-/
import Mathy.Model.Rules
import Mathy.Model.Tree
import Mathy.Props.C14
namespace Mathy

/-- the shape of an expression tree, node identity = tag -/
def Ex.toBT : Ex → BT
  | .const t _ => .node t .nil .nil
  | .var t _ => .node t .nil .nil
  | .un t _ c => .node t .nil c.toBT
  | .bin t _ l r => .node t l.toBT r.toBT

theorem focusesAux_inorder (k : Ctx) (e : Ex) :
    (focusesAux k e).map (fun p => (p.2.tag, p.1.length)) = e.toBT.inorder k.length := by
  induction e generalizing k with
  | const t v => simp [focusesAux, Ex.toBT, BT.inorder, Ex.tag]
  | var t x => simp [focusesAux, Ex.toBT, BT.inorder, Ex.tag]
  | un t o c ih =>
    have := ih (.un t o :: k)
    simp only [List.length_cons] at this
    simp only [focusesAux, Ex.toBT, BT.inorder, List.map_cons, List.nil_append]
    rw [this]
    rfl
  | bin t o l r ihl ihr =>
    have h1 := ihl (.binL t o r :: k)
    have h2 := ihr (.binR t o l :: k)
    simp only [List.length_cons] at h1 h2
    simp only [focusesAux, Ex.toBT, BT.inorder, List.map_append, List.map_cons]
    rw [h1, h2]
    rfl

/-- **node search order = in-order traversal**: the i-th focus is the i-th callback of
`visit_inorder` (node identity and depth) -/
theorem C06_focuses_are_inorder (t : Ex) :
    (focuses t).map (fun p => (p.2.tag, p.1.length)) = t.toBT.inorder 0 :=
  focusesAux_inorder [] t

/-- and (C14) those are the callbacks `visit_inorder` makes when never stopped -/
theorem C06_focuses_are_visit_inorder (t : Ex) :
    (focuses t).map (fun p => (p.2.tag, p.1.length)) = (t.toBT.visitIn (fun _ _ => false) 0).1 := by
  rw [C06_focuses_are_inorder, (C14_visitIn (fun _ _ => false) 0 t.toBT).1]
  generalize t.toBT.inorder 0 = l
  induction l with
  | nil => rfl
  | cons x xs ih =>
    show x :: xs = BT.takeThrough _ (x :: xs)
    unfold BT.takeThrough
    simp only [Bool.false_eq_true, if_false]
    rw [← ih]

end Mathy
