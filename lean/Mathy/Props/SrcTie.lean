/-
The tie between the code and the model, as theorems.

`Gen/PySrc.lean` is produced on every run by the translator `harness/py2lean.py` from the live
Python source of the repository (21 decision functions: `util.get_term_ex`, the tokenizer's character classes, the
printer's parenthesisation predicates, the classifiers of all nine rules).  The theorems below say that
the hand-written model — the one every property theorem is about — computes exactly what the
translated source computes, for all characters / trees / positions / options.  They are re-checked
against the regenerated file on every run: if one of those Python functions changes its behaviour,
the corresponding theorem fails to build (a broken obligation of the properties that list it), and
the check then searches for a concrete failing input.

Trusted here: the translator (a syntax-directed map on a small Python fragment) and the run-time
library `Model/PyRt.lean` (what `.left/.right/.parent`, `isinstance`, `get_sibling` mean on a
well-formed tree; `factor_add_terms_ex` of util.py enters the translated classifier of factor-out as
an external = the hand-written `factorAddTermsEx`).
The `while` loop of balanced move becomes a fuel-indexed function whose fuel (depth + 1) is PROVED
sufficient; `get_root`, `get_root_side`, `find_type` are library calls (PyRt).
Not covered by the translator: the mutating halves of the rules (`apply_to`), util.py, parser,
evaluator, layout — those remain tied by the differential correspondence only.
-/
import Mathy.Proofs.PySrcAgreeCAAll
import Mathy.Proofs.PySrcAgreeDFAll
import Mathy.Proofs.PySrcAgreeBM
import Mathy.Props.C06
namespace Mathy
open Mathy.Py Mathy.Gen.Src Mathy.SrcAgree

/-- the Python classifier of a rule (all nine rules, all options), as translated from the source -/
def srcCanApply : Rule → Ref → Bool
  | .associative => AssociativeSwapRule_can_apply_to
  | .commutative p => CommutativeSwapRule_can_apply_to p
  | .constants => fun r => (ConstantsSimplifyRule_get_type r).isSome
  | .distribute => DistributiveMultiplyRule_can_apply_to
  | .inverse => fun r => (MultiplicativeInverseRule_get_type r).isSome
  | .restate => fun r => (RestateSubtractionRule_get_type r).isSome
  | .factorOut c => DistributiveFactorOutRule_can_apply_to c
  | .variableMultiply => VariableMultiplyRule_can_apply_to
  | .balancedMove => BalancedMoveRule_can_apply_to

/-- **Source tie, classifiers.** For all nine rules (all options), at every position of every tree,
the model's `canApply` is the Python `can_apply_to` as translated from the live source. -/
theorem Src_canApply (r : Rule) (k : Ctx) (n : Ex) :
    srcCanApply r (some ⟨k, n⟩) = canApply r k n := by
  cases r with
  | associative => exact associative_can_agree k n
  | commutative p => exact commutative_can_agree p k n
  | constants => exact constants_can_agree k n
  | distribute => exact distribute_can_agree k n
  | inverse => exact inverse_can_agree k n
  | restate =>
    show (RestateSubtractionRule_get_type (some ⟨k, n⟩)).isSome = rsCan k n
    rw [restate_type_agree]
    simp [rsCan, rsType]
  | factorOut c => exact df_can_agree c k n
  | variableMultiply => exact vm_can_agree k n
  | balancedMove => exact bm_can_agree k n

/-- **Source tie, node search (C06).** `find_nodes` of the model lists exactly the in-order
positions at which the translated Python classifier answers `True`. -/
theorem Src_findNodes (r : Rule) (t : Ex) (i : Nat) :
    i ∈ findNodes r t ↔ ∃ k n, focusAt t i = some (k, n) ∧ srcCanApply r (some ⟨k, n⟩) = true := by
  rw [C06_findNodes_exact]
  constructor
  · rintro ⟨k, n, hf, hc⟩
    exact ⟨k, n, hf, by rw [Src_canApply]; exact hc⟩
  · rintro ⟨k, n, hf, hc⟩
    exact ⟨k, n, hf, by rw [← Src_canApply]; exact hc⟩

/-- **Source tie, arrangements (C08).** The arrangement names the Python classifiers return are
the model's arrangements. -/
theorem Src_arrangements (k : Ctx) (n : Ex) :
    (ConstantsSimplifyRule_get_type (some ⟨k, n⟩)).map (·.1) = (caType n).map CAType.pyName ∧
    RestateSubtractionRule_get_type (some ⟨k, n⟩) = (rsType k n).map RSType.pyName ∧
    MultiplicativeInverseRule_get_type (some ⟨k, n⟩) = miPyType n ∧
    (DistributiveFactorOutRule_get_type (some ⟨k, n⟩)).map (·.1) = (dfType n).map DFType.pyName ∧
    (VariableMultiplyRule_get_type (some ⟨k, n⟩)).map (·.1) = (vmType n).map VMType.pyName ∧
    BalancedMoveRule_get_type (some ⟨k, n⟩) = (bmType k n).map BMType.pyName :=
  ⟨constants_type_agree k n, restate_type_agree k n, inverse_type_agree k n, df_type_agree k n, vm_type_agree k n,
    bm_type_agree k n⟩

/-! non-vacuity: the translated classifier accepts `2 + (3 + x)` at the root (chained right) -/
example : (ConstantsSimplifyRule_get_type
      (some ⟨[], .bin 1 .add (.const 2 2) (.bin 3 .add (.const 4 3) (.var 5 'x'))⟩)).map (·.1)
    = some "chained_right" := by rfl

end Mathy
