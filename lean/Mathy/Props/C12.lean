/-
Property C12 — parser results do not depend on call history.
Model: `Model/ParserObj.lean` (the two caches, token lists as heap cells, ops parse / tokenize /
clear_cache / client pops from a list it was handed).
-/
import Mathy.Model.ParserObj
import Mathy.Proofs.ParserObjLemmas
namespace Mathy

/-- what a fresh parser answers to `tokenize(s)` -/
def freshTokenize (s : List Char) : POut :=
  match tokenize false s with
  | .ok ts => .tokens ts
  | .error c => .badChar c

theorem freshAnswer_tokenize (s : List Char) : freshAnswer (.tokenize s) = freshTokenize s := by
  simp only [freshAnswer, freshTokenize]
  cases tokenize false s <;> rfl

/-- **C12.** After ANY history of parse / tokenize / clear_cache calls (failing ones included) and
of pops from token lists handed out earlier, `parse(s)` answers what a fresh parser answers … -/
theorem C12_parse_history_independent (ops : List POp) (s : List Char) :
    (runOps PState.init [] (ops ++ [.parse s])).getLast? = some (.parsed (parseText s)) := by
  rw [runOps_fresh _ _ _ PInv.init]
  simp [freshAnswer]

/-- … and `tokenize(s)` returns the fresh token list (so lists handed out are independent
copies: consuming or editing one never affects later calls). -/
theorem C12_tokenize_history_independent (ops : List POp) (s : List Char) :
    (runOps PState.init [] (ops ++ [.tokenize s])).getLast? = some (freshTokenize s) := by
  rw [runOps_fresh _ _ _ PInv.init]
  simp [freshAnswer_tokenize]

/-- every answer inside a history is the fresh answer too -/
theorem C12_every_answer_fresh (ops : List POp) (i : Nat) (o : POut)
    (h : (runOps PState.init [] ops)[i]? = some o) :
    match ops[i]? with
    | some (.parse s) => o = .parsed (parseText s)
    | some (.tokenize s) => o = freshTokenize s
    | _ => o = .unit := by
  rw [runOps_fresh _ _ _ PInv.init, List.getElem?_map] at h
  cases hi : ops[i]? with
  | none => simp [hi] at h
  | some op =>
    simp only [hi, Option.map_some, Option.some.injEq] at h
    subst h
    cases op with
    | parse s => rfl
    | tokenize s => exact freshAnswer_tokenize s
    | clear => rfl
    | consume j n => rfl

/-! non-vacuity: a history with a failing parse, a cache hit and a consumed list -/
example : runOps PState.init []
    [.parse "2+".toList, .tokenize "2+".toList, .consume 0 2, .tokenize "2+".toList, .parse "2".toList]
    = [.parsed (.perr .unexpectedBehavior),
       .tokens [⟨.constant, ['2']⟩, ⟨.plus, ['+']⟩, ⟨.eof, []⟩], .unit,
       .tokens [⟨.constant, ['2']⟩, ⟨.plus, ['+']⟩, ⟨.eof, []⟩],
       .parsed (.tree (.const 0 2))] := by
  decide +kernel

end Mathy
