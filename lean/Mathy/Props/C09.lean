/-
Property C09 — any sequence of rewrites keeps the expression equivalent to the original.

A step applies any rule configuration at any node where it reports applicable (to a copy cloned
from the root — in the functional model states are values, so "earlier states are never altered"
holds by construction; at the Python level it is checked by re-snapshotting every earlier root).
-/
import Mathy.Props.C01
import Mathy.Props.C02
import Mathy.Props.C07
namespace Mathy

/-- `Steps t₀ tₙ`: `tₙ` is reachable from `t₀` by finitely many applicable rewrites -/
inductive Steps : Ex → Ex → Prop where
  | refl (t : Ex) : Steps t t
  | step {a b c : Ex} (r : Rule) (i : Nat) :
      Steps a b → i ∈ findNodes r b → applyAt r b i = .ok c → Steps a c

/-- equations: every state of the sequence holds exactly where the start holds (same solution
set wherever defined) -/
theorem C09_equation_sequence (t0 tn : Ex) (h : Steps t0 tn) : HoldsRefines t0 tn := by
  induction h with
  | refl => exact HoldsRefines.refl _
  | step r i _ hcan happ ih => exact ih.trans (C02_rewrite_preserves_truth r _ _ i hcan happ)

/-- below a non-empty context the kind of the root does not depend on the focused node -/
theorem plug_isOp_of_ne_nil {k : Ctx} (hk : k ≠ []) (o : Bop) (n n' : Ex) :
    (plug k n).isOp o = (plug k n').isOp o := by
  induction k generalizing n n' with
  | nil => exact absurd rfl hk
  | cons f fs ih =>
    cases fs with
    | nil => cases f <;> simp [plug, Frame.fill, Ex.isOp]
    | cons g gs => simp only [plug] at ih ⊢; exact ih (by simp) _ _

/-- a rewrite that keeps the context and the kind of the node keeps the kind of the root -/
theorem plug_isOp_same (k : Ctx) {n n' : Ex} (h : n'.isOp .eq = n.isOp .eq) :
    (plug k n').isOp .eq = (plug k n).isOp .eq := by
  cases k with
  | nil => simpa [plug] using h
  | cons f fs => exact plug_isOp_of_ne_nil (by simp) _ _ _

theorem csApply_kind {k k' : Ctx} {n n' : Ex} (h : csApply k n = .ok (k', n')) :
    k' = k ∧ n'.isOp .eq = n.isOp .eq := by
  unfold csApply at h
  repeat' (split at h)
  all_goals (first | (simp at h; done) | skip)
  all_goals (
    simp at h
    obtain ⟨rfl, rfl⟩ := h
    exact ⟨rfl, by simp [Ex.isOp]⟩)

theorem caStep_kind {n n' : Ex} {ty : CAType} (h : caStep n = some (ty, .ok n')) :
    n'.isOp .eq = false ∧ n.isOp .eq = false := by
  unfold caStep at h
  repeat' (split at h)
  all_goals (first | (simp at h; done) | skip)
  all_goals (
    simp at h
    first
    | (obtain ⟨-, rfl⟩ := h
       simp_all [Ex.isOp, @eq_comm _ Bop.eq])
    | (obtain ⟨-, h⟩ := h
       obtain ⟨v, -, rfl⟩ := foldConst_ok h
       simp_all [Ex.isOp, @eq_comm _ Bop.eq]))

theorem dfStep_kind {n ln rn : Ex} {ty : DFType} {lt rt : TermEx} {wrap : Ex → Ex}
    (h : dfStep n = some (ty, (ln, lt), (rn, rt), wrap)) (a b : Ex) :
    (wrap (.bin 0 .mul a b)).isOp .eq = false ∧ n.isOp .eq = false := by
  unfold dfStep at h
  repeat' (split at h)
  all_goals (first | (simp at h; done) | skip)
  all_goals (
    simp at h
    obtain ⟨-, ⟨rfl, rfl⟩, ⟨rfl, rfl⟩, rfl⟩ := h
    simp [Ex.isOp])

theorem rsStep_kind {k : Ctx} {n n' : Ex} {ty : RSType} (h : rsStep k n = some (ty, n')) :
    n'.isOp .eq = false ∧ n.isOp .eq = false := by
  unfold rsStep at h
  repeat' (split at h)
  all_goals (first | (simp at h; done) | skip)
  all_goals (
    simp at h
    obtain ⟨-, rfl⟩ := h
    simp [Ex.isOp])

theorem vmStep_kind {n : Ex} {ty : VMType} {ln rn : Ex} {lt rt : TermEx}
    {wrap : List Rat → Ex → Ex}
    (h : vmStep n = some (ty, (ln, lt), (rn, rt), wrap)) (coefs : List Rat) (a b : Ex) :
    (wrap coefs (.bin 0 .pow a b)).isOp .eq = false ∧ n.isOp .eq = false := by
  have hn : n.isOp .eq = false := by
    unfold vmStep at h
    split at h
    · simp [Ex.isOp]
    · simp at h
  refine ⟨?_, hn⟩
  have hw : wrap = vmWrapSimple ∨ (∃ keep, wrap = vmWrapChained keep) ∨
      (∃ keep, wrap = vmWrapCLR keep) := by
    unfold vmStep at h
    split at h
    rotate_left
    · simp at h
    simp only at h
    split at h
    · rename_i hclr
      simp at h
      subst h
      split at hclr
      rotate_left
      · simp at hclr
      split at hclr
      rotate_left
      · simp at hclr
      split at hclr
      rotate_left
      · simp at hclr
      simp at hclr
      obtain ⟨-, -, -, rfl⟩ := hclr
      simp
    · split at h
      · simp at h
      · split at h
        · simp at h
        · split at h
          · split at h
            · simp at h
            · split at h
              · simp at h
              · simp at h
                obtain ⟨-, -, -, rfl⟩ := h
                simp
          · split at h
            rotate_left
            · simp at h
            split at h
            · simp at h
            · split at h
              · simp at h
              · split at h
                · simp at h
                · simp at h
                  obtain ⟨-, -, -, rfl⟩ := h
                  simp
  rcases hw with rfl | ⟨keep, rfl⟩ | ⟨keep, rfl⟩ <;>
    rcases coefs with _ | ⟨a, _ | ⟨b, _ | ⟨c, cs⟩⟩⟩ <;>
    simp [vmWrapSimple, vmWrapChained, vmWrapCLR, Ex.isOp]

/-- the rules that leave the context alone keep the kind of the node -/
theorem applyRule_kind_local {r : Rule} {k k' : Ctx} {n n' : Ex}
    (hr : r ≠ .associative) (hb : r ≠ .balancedMove)
    (h : applyRule r k n = .ok (k', n')) : k' = k ∧ n'.isOp .eq = n.isOp .eq := by
  cases r with
  | associative => exact absurd rfl hr
  | balancedMove => exact absurd rfl hb
  | commutative p => exact csApply_kind h
  | constants =>
    simp only [applyRule] at h
    unfold caApply at h
    split at h
    · simp at h
    · rename_i hs
      simp at h
      obtain ⟨rfl, rfl⟩ := h
      obtain ⟨h1, h2⟩ := caStep_kind hs
      exact ⟨rfl, by rw [h1, h2]⟩
    · simp at h
  | factorOut c =>
    simp only [applyRule] at h
    unfold dfApply at h
    split at h
    · simp at h
    · rename_i ty ln lt rn rt wrap hs
      split at h
      · rename_i core hc
        simp at h
        obtain ⟨rfl, rfl⟩ := h
        have hcore : ∃ a b, core = .bin 0 .mul a b := by
          unfold dfCore at hc
          repeat' (split at hc)
          all_goals (first | (simp at hc; done) | skip)
          all_goals (simp at hc; subst hc; exact ⟨_, _, rfl⟩)
        obtain ⟨a, b, rfl⟩ := hcore
        obtain ⟨h1, h2⟩ := dfStep_kind hs a b
        exact ⟨rfl, by rw [h1, h2]⟩
      · simp at h
  | distribute =>
    simp only [applyRule] at h
    unfold dmApply at h
    split at h
    · simp at h
      obtain ⟨rfl, rfl⟩ := h
      exact ⟨rfl, by simp [dmBuild, Ex.isOp]⟩
    · simp at h
      obtain ⟨rfl, rfl⟩ := h
      exact ⟨rfl, by simp [dmBuild, Ex.isOp]⟩
    · simp at h
  | inverse =>
    simp only [applyRule] at h
    unfold miApply at h
    split at h
    · simp at h
      obtain ⟨rfl, rfl⟩ := h
      exact ⟨rfl, by simp [Ex.isOp]⟩
    · simp at h
      obtain ⟨rfl, rfl⟩ := h
      exact ⟨rfl, by simp [Ex.isOp]⟩
    · simp at h
  | restate =>
    simp only [applyRule] at h
    unfold rsApply at h
    split at h
    · rename_i hs
      simp at h
      obtain ⟨rfl, rfl⟩ := h
      obtain ⟨h1, h2⟩ := rsStep_kind hs
      exact ⟨rfl, by rw [h1, h2]⟩
    · simp at h
  | variableMultiply =>
    simp only [applyRule] at h
    unfold vmApply at h
    split at h
    · simp at h
    · rename_i ty ln lt rn rt wrap hs
      split at h
      · simp at h
      · simp at h
        obtain ⟨rfl, rfl⟩ := h
        obtain ⟨h1, h2⟩ := vmStep_kind hs (vmCoefs lt rt) (.var 0 ‹Char›)
          (.bin 0 .add (.const 0 (lt.exp.getD 1)) (.const 0 (rt.exp.getD 1)))
        exact ⟨rfl, by rw [h1, h2]⟩

theorem asApply_kind {k k' : Ctx} {n n' : Ex} (hc : asCan k n = true)
    (h : asApply k n = .ok (k', n')) : (plug k' n').isOp .eq = (plug k n).isOp .eq := by
  rcases k with _ | ⟨f, k1⟩
  · simp [asApply] at h
  cases n with
  | const t v => cases f <;> simp [asApply] at h
  | var t v => cases f <;> simp [asApply] at h
  | un t o c => cases f <;> simp [asApply] at h
  | bin nt no a b =>
    cases f with
    | un t o => simp [asApply] at h
    | binL pt po c =>
      simp [asApply] at h
      obtain ⟨rfl, rfl⟩ := h
      cases k1 with
      | nil =>
        simp [asCan, parentIs, Frame.isOp, Ex.isOp] at hc
        rcases hc with ⟨rfl, rfl⟩ | ⟨rfl, rfl⟩ <;> simp [plug, Frame.fill, Ex.isOp]
      | cons g gs => exact plug_isOp_of_ne_nil (k := g :: gs) (by simp) _ _ _
    | binR pt po c =>
      simp [asApply] at h
      obtain ⟨rfl, rfl⟩ := h
      cases k1 with
      | nil =>
        simp [asCan, parentIs, Frame.isOp, Ex.isOp] at hc
        rcases hc with ⟨rfl, rfl⟩ | ⟨rfl, rfl⟩ <;> simp [plug, Frame.fill, Ex.isOp]
      | cons g gs => exact plug_isOp_of_ne_nil (k := g :: gs) (by simp) _ _ _

theorem bmApply_kind {k k' : Ctx} {n n' : Ex} (h : bmApply k n = .ok (k', n')) :
    (plug k' n').isOp .eq = (plug k n).isOp .eq := by
  unfold bmApply at h
  split at h
  rotate_left
  · simp at h
  rename_i ty inner rootF hty hsr
  rw [bmType_root_eq hty]
  obtain ⟨hroot, -, -⟩ := bmType_spec hty hsr
  simp only at h
  cases rootF with
  | un t o => simp [Frame.isOp] at hroot
  | binL rt ro r =>
    simp [Frame.isOp] at hroot
    subst hroot
    cases ty <;> simp only at h
    · split at h
      · simp at h
      · simp at h; obtain ⟨rfl, rfl⟩ := h; simp [plug, Ex.isOp]
    · simp at h; obtain ⟨rfl, rfl⟩ := h; simp [plug, Ex.isOp]
  | binR rt ro l =>
    simp [Frame.isOp] at hroot
    subst hroot
    cases ty <;> simp only at h
    · split at h
      · simp at h
      · simp at h; obtain ⟨rfl, rfl⟩ := h; simp [plug, Ex.isOp]
    · simp at h; obtain ⟨rfl, rfl⟩ := h; simp [plug, Ex.isOp]

/-- a rewrite never turns an expression into an equation or vice versa -/
theorem applyAt_root_kind (r : Rule) (t t' : Ex) (i : Nat)
    (hcan : i ∈ findNodes r t) (happ : applyAt r t i = .ok t') : t'.isOp .eq = t.isOp .eq := by
  obtain ⟨k, n, hf, hc⟩ := mem_findNodes.mp hcan
  unfold applyAt at happ
  rw [hf] at happ
  simp only at happ
  split at happ
  · rename_i k' n' happ'
    simp at happ
    subst happ
    rw [← focusAt_plug hf]
    by_cases hr : r = .associative
    · subst hr; exact asApply_kind hc happ'
    by_cases hb : r = .balancedMove
    · subst hb; exact bmApply_kind happ'
    obtain ⟨rfl, hk⟩ := applyRule_kind_local hr hb happ'
    exact plug_isOp_same _ hk
  · simp at happ

/-- expressions: every state of the sequence has the value of the start wherever the start is
defined, and is still an expression -/
theorem C09_expression_sequence (t0 tn : Ex) (h : Steps t0 tn) (hexpr : t0.isOp .eq = false) :
    Refines t0 tn ∧ tn.isOp .eq = false := by
  induction h with
  | refl => exact ⟨Refines.refl _, hexpr⟩
  | step r i _ hcan happ ih =>
    obtain ⟨h1, h2⟩ := ih
    refine ⟨h1.trans (C01_rewrite_preserves_value r _ _ i hcan happ h2), ?_⟩
    rw [applyAt_root_kind r _ _ i hcan happ]; exact h2

/-- the set of variables never changes along a sequence -/
theorem C09_variables (t0 tn : Ex) (h : Steps t0 tn) (c : Char) : c ∈ tn.vars ↔ c ∈ t0.vars := by
  induction h with
  | refl => exact Iff.rfl
  | step r i _ hcan happ ih =>
    refine Iff.trans ?_ ih
    obtain ⟨k, n, hf, hc⟩ := mem_findNodes.mp hcan
    unfold applyAt at happ
    rw [hf] at happ
    simp only at happ
    split at happ
    · rename_i k' n' happ'
      simp at happ
      subst happ
      rw [← focusAt_plug hf]
      exact C07_same_variables r k k' n n' hc happ' c
    · simp at happ

end Mathy
