/-
Property C09 — any sequence of rewrites keeps the expression equivalent to the original.

A step applies any rule configuration at any node where it reports applicable (to a copy cloned
from the root — in the functional model states are values, so "earlier states are never altered"
holds by construction; at the Python level it is checked by re-snapshotting every earlier root).
-/
import Mathy.Props.C01
import Mathy.Props.C02
import Mathy.Props.C07
namespace Mathy

/-- `Steps t₀ tₙ`: `tₙ` is reachable from `t₀` by finitely many applicable rewrites -/
inductive Steps : Ex → Ex → Prop where
  | refl (t : Ex) : Steps t t
  | step {a b c : Ex} (r : Rule) (i : Nat) :
      Steps a b → i ∈ findNodes r b → applyAt r b i = .ok c → Steps a c

/-- equations: every state of the sequence holds exactly where the start holds (same solution
set wherever defined) -/
theorem C09_equation_sequence (t0 tn : Ex) (h : Steps t0 tn) : HoldsRefines t0 tn := by
  induction h with
  | refl => exact HoldsRefines.refl _
  | step r i _ hcan happ ih => exact ih.trans (C02_rewrite_preserves_truth r _ _ i hcan happ)

/-- a rewrite never turns an expression into an equation or vice versa -/
theorem applyAt_root_kind (r : Rule) (t t' : Ex) (i : Nat)
    (hcan : i ∈ findNodes r t) (happ : applyAt r t i = .ok t') : t'.isOp .eq = t.isOp .eq := by
  sorry

/-- expressions: every state of the sequence has the value of the start wherever the start is
defined, and is still an expression -/
theorem C09_expression_sequence (t0 tn : Ex) (h : Steps t0 tn) (hexpr : t0.isOp .eq = false) :
    Refines t0 tn ∧ tn.isOp .eq = false := by
  induction h with
  | refl => exact ⟨Refines.refl _, hexpr⟩
  | step r i _ hcan happ ih =>
    obtain ⟨h1, h2⟩ := ih
    refine ⟨h1.trans (C01_rewrite_preserves_value r _ _ i hcan happ h2), ?_⟩
    rw [applyAt_root_kind r _ _ i hcan happ]; exact h2

/-- the set of variables never changes along a sequence -/
theorem C09_variables (t0 tn : Ex) (h : Steps t0 tn) (c : Char) : c ∈ tn.vars ↔ c ∈ t0.vars := by
  induction h with
  | refl => exact Iff.rfl
  | step r i _ hcan happ ih =>
    refine Iff.trans ?_ ih
    obtain ⟨k, n, hf, hc⟩ := mem_findNodes.mp hcan
    unfold applyAt at happ
    rw [hf] at happ
    simp only at happ
    split at happ
    · rename_i k' n' happ'
      simp at happ
      subst happ
      rw [← focusAt_plug hf]
      exact C07_same_variables r k k' n n' hc happ' c
    · simp at happ

end Mathy
