/-
Source tie for the evaluator (C05): `Gen/PySrcEval.lean` is the translation of the `operate` method of
every expression class and of the recursion spelled out by the four `evaluate` methods of the live
`mathy_core/expressions.py` (harness/py2lean_eval.py, over Model/PyRtNum.lean).
-/
import Mathy.Proofs.PySrcAgreeEval
import Mathy.Props.C05
namespace Mathy
open Mathy.Py Mathy.Gen.Src Mathy.SrcAgree

/-- **Source tie, evaluator (C05).** `evaluate` as translated from the live source is the model's
`pyEval`, for every tree and every variable assignment: the same value with the same int/float
type, NaN, or the same exception. -/
theorem Src_evaluate (env : PyEnv) (e : PEx) : MathExpression_evaluate env e = pyEval env e :=
  evaluate_agree env e

/-- **(C05) exactness of the translated evaluator** on integer inputs, at any magnitude: an
expression over `+ - * ^(non-negative) ! neg sgn abs` with integer literals and integer variable
values evaluates to exactly the mathematical integer. -/
theorem Src_evaluate_int_exact (env : Char → Int) (t : PEx) (z : Int) (hz : zDenote env t = some z) :
    MathExpression_evaluate (fun c => some (.int (env c))) t = .ok (.int z) := by
  rw [Src_evaluate]; exact C05_int_exact env t z hz

/-- **(C05) an unbound (or `None`) variable that occurs in the expression is an error** -/
theorem Src_evaluate_unbound (env : PyEnv) (t : PEx) (x : Char) (hx : mentions x t = true) (he : env x = none) :
    ∃ e, MathExpression_evaluate env t = .error e := by
  rw [Src_evaluate]; exact C05_unbound_is_error env t x hx he

/-- **(C05) the translated division by zero is NaN** whatever the dividend -/
theorem Src_divide_by_zero (a : PyVal) :
    DivideExpression_operate a (.int 0) = .ok .nan ∧ DivideExpression_operate a (.flt 0) = .ok .nan := by
  rw [div_agree, div_agree]; exact C05_div_by_zero a

/-! non-vacuity -/
example : MathExpression_evaluate (fun _ => some (.int 3)) (.bin .pow (.cint 7) (.bin .mul (.var 'x') (.cint 40))) =
    .ok (.int (7 ^ 120)) := by
  rw [Src_evaluate]; decide +kernel

end Mathy
