/-
Property C07 at the level of POINTERS, for the two operations every rule's `apply_to` ends with:
building the replacement out of new nodes (`BinaryExpression(left, right)` = `set_left`,
`set_right` on a new object) and splicing it in (`ExpressionChangeRule.done` →
`parent.set_side(result, side)`).  On a heap whose cells represent trees of distinct objects the
literal pointer assignments of `set_left` / `set_right` (Model/Tree.lean, compared cell by cell
with the real `BinaryTreeNode` methods) produce a heap that represents exactly the intended tree:
parent and child links mutually consistent at every node, the untouched context unchanged.
(`C15_heap_rotate` is the same statement for `rotate`, `C13_heap_clone` for `clone`.)
-/
import Mathy.Proofs.HeapAttach
namespace Mathy
open BT

/-- **C07 (splice).** `q.set_side(root of s, d)`, where `q` is the node at path `p` of the tree
`t` and `s` is a tree of other objects: the heap then represents `t` with the `d`-child of `q`
replaced by `s`; every other cell of `t` is as before. -/
theorem C07_heap_attach (h : Heap) (t s : BT) (par sp : Option Nat) (p : Path) (d : Dir) (q : Nat)
    (ht : Rep h t par) (hs : Rep h s sp) (hnd : (t.ids ++ s.ids).Nodup)
    (hq : (t.sub p).rootId = some q) :
    Rep (h.setSide q s.rootId d) (t.replaceAt (p ++ [d]) s) par ∧
    (∀ x ∈ t.ids, x ≠ q → (h.setSide q s.rootId d) x = h x) := by
  refine ⟨heap_attach_correct h s sp hs d q p t par ht hnd hq, ?_⟩
  intro x hx hxq
  refine Heap.setSide_other h q s.rootId d x hxq ?_
  intro e
  have hxs : x ∈ s.ids := BT.rootId_mem e.symm
  exact (List.nodup_append.1 hnd).2.2 x hx x hxs rfl

/-- **C07 (construct).** A new object `n` given the children `a` and `b` (roots of represented
trees of other, mutually distinct objects) becomes the root of a represented tree `n(a, b)`. -/
theorem C07_heap_construct (h : Heap) (n : Nat) (a b : BT) (pa pb : Option Nat)
    (hn : h n = ⟨none, none, none⟩) (ha : Rep h a pa) (hb : Rep h b pb)
    (hnd : (n :: (a.ids ++ b.ids)).Nodup) :
    Rep ((h.setSide n a.rootId .L).setSide n b.rootId .R) (.node n a b) none := by
  simp only [List.nodup_cons, List.mem_append, List.nodup_append] at hnd
  obtain ⟨hnab, hand, hbnd, hdis⟩ := hnd
  have hna : n ∉ a.ids := fun hx => hnab (Or.inl hx)
  have hnb : n ∉ b.ids := fun hx => hnab (Or.inr hx)
  have h0 : Rep h (.node n .nil .nil) none := ⟨by rw [hn]; rfl, by rw [hn]; rfl, by rw [hn], trivial, trivial⟩
  have h1 : Rep (h.setSide n a.rootId .L) (.node n a .nil) none := by
    have := attach_local h n .nil .nil a none pa .L h0 ha (by
      simp only [ids, List.nil_append, List.cons_append, List.nodup_cons]
      exact ⟨hna, hand⟩)
    simpa [BT.replaceAt, BT.replaceAt_nil] using this
  have hb' : Rep (h.setSide n a.rootId .L) b pb := by
    refine hb.frame (fun x hx => Heap.setSide_other h n a.rootId .L x (fun e => hnb (e ▸ hx)) ?_)
    intro e
    exact hdis x (BT.rootId_mem e.symm) x hx rfl
  have := attach_local (h.setSide n a.rootId .L) n a .nil b none pb .R h1 hb' (by
    simp only [ids, List.append_nil, List.nodup_append, List.nodup_cons, List.mem_cons, List.mem_append]
    refine ⟨⟨hand, ⟨by simp, List.nodup_nil⟩, ?_⟩, hbnd, ?_⟩
    · intro x hx y hy
      rcases hy with rfl | hy
      · exact fun e => hna (e ▸ hx)
      · simp at hy
    · intro x hx y hy
      rcases hx with hx | rfl | hx
      · exact hdis x hx y hy
      · exact fun e => hnb (e ▸ hy)
      · simp at hx)
  simpa [BT.replaceAt, BT.replaceAt_nil] using this

/-! non-vacuity: splice `7(8, -)` in place of the right child of node 2 in `1(2(3, 4), 5)` -/
example :
    let t : BT := .node 1 (.node 2 (.node 3 .nil .nil) (.node 4 .nil .nil)) (.node 5 .nil .nil)
    let s : BT := .node 7 (.node 8 .nil .nil) .nil
    t.replaceAt ([.L] ++ [.R]) s = .node 1 (.node 2 (.node 3 .nil .nil) s) (.node 5 .nil .nil) ∧
    (t.sub [.L]).rootId = some 2 ∧ (t.ids ++ s.ids).Nodup := by
  decide

end Mathy
