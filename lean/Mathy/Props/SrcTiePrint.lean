/-
Source tie for the printer (see Props/SrcTie.lean for what "translated from the live source" means).
-/
import Mathy.Proofs.PySrcAgreePrint
namespace Mathy
open Mathy.Py Mathy.Gen.Src Mathy.SrcAgree

/-- **Source tie, printer (C04).** The parenthesisation decisions of the model's printer are the
Python predicates as translated from the live source. -/
theorem Src_printer (k : Ctx) (e : Ex) :
    is_compact_product (some ⟨k, e⟩) = isCompactProduct e ∧
    power_base_needs_parens (some ⟨k, e⟩) = powerBaseNeedsParens e ∧
    negate_needs_parens (some ⟨k, e⟩) = negateNeedsParens e ∧
    (∀ t o l r, e = .bin t o l r →
      BinaryExpression_get_priority (some ⟨k, e⟩) = o.priority ∧
      BinaryExpression_self_parens (some ⟨k, e⟩) = selfParens o (ctxParent k)) := by
  refine ⟨is_compact_product_agree k e, power_base_needs_parens_agree k e, negate_needs_parens_agree k e, ?_⟩
  rintro t o l r rfl
  exact ⟨get_priority_agree k t o l r, self_parens_agree k t o l r⟩

end Mathy
