/-
Property C13 at the pointer level (generic `BinaryTreeNode.clone`): cloning a tree that the heap
represents allocates only new cells, which represent a tree of the same shape with a parentless
root, and leaves every existing cell exactly as it was — so the original still is what it was,
and the two trees share no node object (disjoint address ranges), which is why a later write to
one can never be seen through the other.
-/
import Mathy.Model.Tree
import Mathy.Proofs.HeapClone
namespace Mathy

theorem C13_heap_clone (h : Heap) (t : BT) (par : Option Nat) (a base fuel : Nat)
    (hrep : Rep h t par) (hroot : t.rootId = some a) (hfresh : ∀ i ∈ t.ids, i < base)
    (hfuel : t.depth ≤ fuel) :
    (h.clone fuel a base).2.1 = base ∧
    (h.clone fuel a base).2.2 = (t.relabel base).2 ∧
    (t.relabel base).2 = base + t.size ∧
    Rep (h.clone fuel a base).1 (t.relabel base).1 none ∧
    (∀ i, (i < base ∨ (t.relabel base).2 ≤ i) → (h.clone fuel a base).1 i = h i) := by
  obtain ⟨e1, e2, e3, e4⟩ := clone_spec t fuel h par a base hrep hroot hfresh hfuel
  exact ⟨e1, e2, BT.relabel_snd t base, e3, e4⟩

/-- the original is still represented after the clone -/
theorem C13_heap_clone_original_untouched (h : Heap) (t : BT) (par : Option Nat) (a base fuel : Nat)
    (hrep : Rep h t par) (hroot : t.rootId = some a) (hfresh : ∀ i ∈ t.ids, i < base)
    (hfuel : t.depth ≤ fuel) : Rep (h.clone fuel a base).1 t par := by
  obtain ⟨-, -, -, -, e⟩ := C13_heap_clone h t par a base fuel hrep hroot hfresh hfuel
  exact hrep.frame (fun x hx => e x (Or.inl (hfresh x hx)))

/-- same shape: the copy's in-order sequence is the original's, renamed -/
theorem C13_relabel_same_shape (t : BT) (base : Nat) :
    (t.relabel base).1.size = t.size ∧ (t.relabel base).1.depth = t.depth ∧
    ∀ i ∈ (t.relabel base).1.ids, base ≤ i ∧ i < (t.relabel base).2 := by
  refine ⟨BT.relabel_size t base, BT.relabel_depth t base, fun i hi => ?_⟩
  rw [BT.relabel_snd]
  exact BT.relabel_ids t base i hi

end Mathy
