/-
Property C01 — every applicable rewrite preserves the value of the expression.

Model: `Model/Rules.lean` (nine rules, all options), `Model/Util.lean`, `eval` over exact
rationals with total assignments (integer powers; see `evalPow`).
-/
import Mathy.Proofs.Apply
namespace Mathy

/-- **C01, main statement.**  For every tree `t` (not only parser outputs), every rule
configuration `r`, every in-order position `i` at which `r` reports applicable
(`i ∈ findNodes r t`, i.e. `can_apply_to` is true there) and every result `t'` of applying it
there: if `t` is an expression (not an equation — equations are C02), then `t'` refines `t`:
at every assignment where `t` has a value, `t'` has the same value. -/
theorem C01_rewrite_preserves_value (r : Rule) (t t' : Ex) (i : Nat)
    (hcan : i ∈ findNodes r t) (happ : applyAt r t i = .ok t')
    (hexpr : t.isOp .eq = false) : Refines t t' := by
  obtain ⟨k, n, hf, hc⟩ := mem_findNodes.mp hcan
  unfold applyAt at happ
  rw [hf] at happ
  simp only at happ
  split at happ
  · rename_i k' n' happ'
    simp at happ
    subst happ
    have hp := focusAt_plug hf
    by_cases hr : r = .balancedMove
    · -- a balanced move is never applicable in a non-equation
      subst hr
      exfalso
      simp only [canApply, bmCan, Option.isSome_iff_exists] at hc
      obtain ⟨ty, hty⟩ := hc
      have := bmType_root_eq hty
      rw [hp] at this
      rw [this] at hexpr
      exact Bool.noConfusion hexpr
    · rw [← hp]
      exact applyRule_refines hr hc happ'
  · simp at happ

/-- The same for every tree, equations included, for all rules but the balanced move. -/
theorem C01_rewrite_refines_any_tree (r : Rule) (hr : r ≠ .balancedMove) (t t' : Ex) (i : Nat)
    (hcan : i ∈ findNodes r t) (happ : applyAt r t i = .ok t') : Refines t t' := by
  obtain ⟨k, n, hf, hc⟩ := mem_findNodes.mp hcan
  unfold applyAt at happ
  rw [hf] at happ
  simp only at happ
  split at happ
  · rename_i k' n' happ'
    simp at happ
    subst happ
    rw [← focusAt_plug hf]
    exact applyRule_refines hr hc happ'
  · simp at happ

/-- The property in the words of its statement: wherever both are defined the values agree. -/
theorem C01_common_domain (r : Rule) (t t' : Ex) (i : Nat)
    (hcan : i ∈ findNodes r t) (happ : applyAt r t i = .ok t') (hexpr : t.isOp .eq = false)
    (env : Env) (v w : Rat) (hv : eval env t = .ok v) (hw : eval env t' = .ok w) : v = w := by
  have := (C01_rewrite_preserves_value r t t' i hcan happ hexpr env).1 v hv
  rw [this] at hw
  exact (Except.ok.inj hw)

/-! Non-vacuity: concrete applicable rewrites (the hypotheses are satisfiable). -/

/-- `2(x + 3)` at the product, distribute: `2x + 2*3` -/
example : applyAt .distribute
    (.bin 1 .mul (.const 2 2) (.bin 3 .add (.var 4 'x') (.const 5 3))) 1
    = .ok (.bin 0 .add (.bin 0 .mul (.const 0 2) (.var 0 'x')) (.bin 0 .mul (.const 0 2) (.const 0 3))) := by
  decide

example : 1 ∈ findNodes .distribute
    (.bin 1 .mul (.const 2 2) (.bin 3 .add (.var 4 'x') (.const 5 3))) := by decide

/-- `4x + 2x` factor out: `(4 + 2) * x` -/
example : applyAt (.factorOut false)
    (.bin 1 .add (.bin 2 .mul (.const 3 4) (.var 4 'x')) (.bin 5 .mul (.const 6 2) (.var 7 'x'))) 3
    = .ok (.bin 0 .mul (.bin 0 .add (.const 0 4) (.const 0 2)) (.var 0 'x')) := by
  decide +kernel

end Mathy
