/-
Source tie for the caching front of the parser object (`ExpressionParser.__init__ / clear_cache / tokenize /
parse`, template-checked translation in Gen/PySrcParse.lean): history independence of the translated code.
Kept apart from Props/SrcTieParse.lean so that a change to the caches alone only touches the obligations of
the properties about call histories (C12, and the "no sticky state" clause of C10).
-/
import Mathy.Props.SrcTieParse
import Mathy.Proofs.PySrcAgreeCache
namespace Mathy
open Mathy.Py Mathy.Gen.Src Mathy.SrcAgree

/-- **(C12 / C10 "no sticky state") history independence of the translated parser object.**  Take the
caching front of `ExpressionParser` — `parse`, `tokenize`, `clear_cache`, `__init__` — as translated from
the live source (they must be, statement for statement, the quoted code; token lists are handed out as
copies).  For EVERY history of calls on one long-lived parser, with the parsing fields `tokens` /
`current_token` replaced by an arbitrary state before each call (whatever a failed parse left behind),
every answer is the answer a fresh parser gives: a parse returns the model's `parseText` outcome, a
tokenize the fresh token list / the same ValueError — failing inputs, repeated inputs and cache clears
included. -/
theorem Src_history_independent (hist : List (ParserState × COp)) :
    crun ExpressionParser_init hist = hist.map (fun p => match p.2 with
      | .parse s => .tree (outcomeOf s (parseText s))
      | .tokenize s => .toks (Tokenizer_tokenize true s)
      | .clear => .unit) :=
  crun_fresh hist ExpressionParser_init inv_init

/-- the last answer of any history that ends with `parse s` is the fresh parser's -/
theorem Src_parse_after_any_history (hist : List (ParserState × COp)) (st : ParserState) (s : List Char) :
    (crun ExpressionParser_init (hist ++ [(st, .parse s)])).getLast? = some (.tree (outcomeOf s (parseText s))) := by
  rw [Src_history_independent]; simp

end Mathy
