/-
Property C03, order of operations of `*` and `/`: the parser groups a chain
`e₀ op₁ e₁ op₂ e₂ …` as the implementation does (`G.MultLoop`: quotients to the left, a `*`
takes the whole rest as its right operand), the documentation prescribes left to right.  Both
readings of every chain have the same value at every assignment (failures included).
-/
import Mathy.Spec.Grammar
import Mathy.Proofs.Eval
namespace Mathy
namespace G

/-- the documented reading: `(MultExp) = (ExpExp) { ("*" | "/") (ExpExp) }*`, left to right -/
inductive MultLoopLR : Ex → List Tok → Ex → Prop
  | done (acc : Ex) : MultLoopLR acc [] acc
  | div (d : Tok) (hd : d.type = .divide) {acc r e : Ex} {ts ts' : List Tok} :
      ExpE ts r → MultLoopLR (.bin 0 .div acc r) ts' e → MultLoopLR acc (d :: ts ++ ts') e
  | mul (m : Tok) (hm : m.type = .multiply) {acc r e : Ex} {ts ts' : List Tok} :
      ExpE ts r → MultLoopLR (.bin 0 .mul acc r) ts' e → MultLoopLR acc (m :: ts ++ ts') e

inductive MultELR : List Tok → Ex → Prop
  | mk {ts ts' : List Tok} {e0 e : Ex} : ExpE ts e0 → MultLoopLR e0 ts' e → MultELR (ts ++ ts') e

end G

/-- regrouping laws on results (exact, failures included) -/
theorem res_mul_assoc (X Y Z : Res) :
    Res.bin .mul X (Res.bin .mul Y Z) = Res.bin .mul (Res.bin .mul X Y) Z := by
  rcases X with (_|_)|x <;> rcases Y with (_|_)|y <;> rcases Z with (_|_)|z <;>
    simp [Res.bin, evalBop, Bad.worse]
  ring

theorem res_mul_div_assoc (X Y Z : Res) :
    Res.bin .mul X (Res.bin .div Y Z) = Res.bin .div (Res.bin .mul X Y) Z := by
  rcases X with (_|_)|x <;> rcases Y with (_|_)|y <;> rcases Z with (_|_)|z <;>
    simp [Res.bin, evalBop, Bad.worse] <;> (try split_ifs) <;> simp_all
  ring

/-! ### Congruence of `EvalEq` -/

theorem EvalEq.rfl' (a : Ex) : EvalEq a a := fun _ => rfl

theorem EvalEq.symm' {a b : Ex} (h : EvalEq a b) : EvalEq b a := fun env => (h env).symm

theorem EvalEq.trans' {a b c : Ex} (h1 : EvalEq a b) (h2 : EvalEq b c) : EvalEq a c :=
  fun env => (h1 env).trans (h2 env)

theorem EvalEq.bin' (o : Bop) {l l' r r' : Ex} (hl : EvalEq l l') (hr : EvalEq r r') :
    EvalEq (.bin 0 o l r) (.bin 0 o l' r') := fun env => by
  simp only [eval, hl env, hr env]

theorem evalEq_mul_assoc (a b c : Ex) :
    EvalEq (.bin 0 .mul a (.bin 0 .mul b c)) (.bin 0 .mul (.bin 0 .mul a b) c) := fun env => by
  simp only [eval, res_mul_assoc]

theorem evalEq_mul_div_assoc (a b c : Ex) :
    EvalEq (.bin 0 .mul a (.bin 0 .div b c)) (.bin 0 .div (.bin 0 .mul a b) c) := fun env => by
  simp only [eval, res_mul_div_assoc]

/-- push a left factor INTO a left-to-right chain -/
theorem multLoopLR_push {b : Ex} {us : List Tok} {e₁ : Ex} (h : G.MultLoopLR b us e₁) :
    ∀ a b' : Ex, EvalEq (.bin 0 .mul a b) b' →
      ∃ e₂, G.MultLoopLR b' us e₂ ∧ EvalEq (.bin 0 .mul a e₁) e₂ := by
  induction h with
  | done acc => intro a b' hb; exact ⟨b', .done b', hb⟩
  | @div d hd acc r e ts ts' hr _ ih =>
      intro a b' hb
      obtain ⟨e₂, h₂, he⟩ := ih a (.bin 0 .div b' r)
        ((evalEq_mul_div_assoc a acc r).trans' (EvalEq.bin' .div hb (EvalEq.rfl' r)))
      exact ⟨e₂, .div d hd hr h₂, he⟩
  | @mul m hm acc r e ts ts' hr _ ih =>
      intro a b' hb
      obtain ⟨e₂, h₂, he⟩ := ih a (.bin 0 .mul b' r)
        ((evalEq_mul_assoc a acc r).trans' (EvalEq.bin' .mul hb (EvalEq.rfl' r)))
      exact ⟨e₂, .mul m hm hr h₂, he⟩

/-- pull a left factor OUT of a left-to-right chain, producing the parser's grouping -/
theorem multLoopLR_pull {b' : Ex} {us : List Tok} {e' : Ex} (h : G.MultLoopLR b' us e') :
    ∀ a b : Ex, EvalEq (.bin 0 .mul a b) b' →
      ∃ R, G.MultLoop b us R ∧ EvalEq (.bin 0 .mul a R) e' := by
  induction h with
  | done acc => intro a b hb; exact ⟨b, .done b, hb⟩
  | @div d hd acc r e ts ts' hr _ ih =>
      intro a b hb
      obtain ⟨R, hR, he⟩ := ih a (.bin 0 .div b r)
        ((evalEq_mul_div_assoc a b r).trans' (EvalEq.bin' .div hb (EvalEq.rfl' r)))
      exact ⟨R, .div d hd hr hR, he⟩
  | @mul m hm acc r e ts ts' hr _ ih =>
      intro a b hb
      obtain ⟨R, hR, he⟩ := ih (.bin 0 .mul a b) r (EvalEq.bin' .mul hb (EvalEq.rfl' r))
      exact ⟨.bin 0 .mul b R, .mul m hm (.mk hr hR), (evalEq_mul_assoc a b R).trans' he⟩

theorem multLoop_to_LR_aux (n : Nat) :
    ∀ (acc : Ex) (ts : List Tok) (e : Ex), ts.length ≤ n → G.MultLoop acc ts e →
      ∀ acc', EvalEq acc acc' → ∃ e', G.MultLoopLR acc' ts e' ∧ EvalEq e e' := by
  induction n with
  | zero =>
      intro acc ts e hlen h acc' hacc
      cases h with
      | done => exact ⟨acc', .done acc', hacc⟩
      | div d hd hr hl => simp at hlen
      | mul m hm hr => simp at hlen
  | succ n ih =>
      intro acc ts e hlen h acc' hacc
      cases h with
      | done => exact ⟨acc', .done acc', hacc⟩
      | div d hd hr hl =>
          rename_i r us us'
          have hlen' : us'.length ≤ n := by
            simp only [List.length_cons, List.length_append] at hlen; omega
          obtain ⟨e', h', he⟩ := ih _ _ _ hlen' hl (.bin 0 .div acc' r)
            (EvalEq.bin' .div hacc (EvalEq.rfl' r))
          exact ⟨e', .div d hd hr h', he⟩
      | mul m hm hr =>
          rename_i r us
          cases hr with
          | mk h0 hl =>
              rename_i us0 us1 r0
              have hlen' : us1.length ≤ n := by
                simp only [List.length_cons, List.length_append] at hlen; omega
              obtain ⟨e₁, h₁, he₁⟩ := ih _ _ _ hlen' hl r0 (EvalEq.rfl' r0)
              obtain ⟨e₂, h₂, he₂⟩ := multLoopLR_push h₁ acc' (.bin 0 .mul acc' r0) (EvalEq.rfl' _)
              exact ⟨e₂, .mul m hm h0 h₂, (EvalEq.bin' .mul hacc he₁).trans' he₂⟩

theorem multLoop_to_LR {acc : Ex} {ts : List Tok} {e : Ex} (h : G.MultLoop acc ts e) :
    ∃ e', G.MultLoopLR acc ts e' ∧ EvalEq e e' :=
  multLoop_to_LR_aux ts.length acc ts e (Nat.le_refl _) h acc (EvalEq.rfl' acc)

theorem multLoopLR_to_code {acc' : Ex} {ts : List Tok} {e' : Ex} (h : G.MultLoopLR acc' ts e') :
    ∀ acc, EvalEq acc acc' → ∃ e, G.MultLoop acc ts e ∧ EvalEq e e' := by
  induction h with
  | done acc' => intro acc hacc; exact ⟨acc, .done acc, hacc⟩
  | @div d hd acc' r e ts ts' hr _ ih =>
      intro acc hacc
      obtain ⟨e₁, h₁, he⟩ := ih (.bin 0 .div acc r) (EvalEq.bin' .div hacc (EvalEq.rfl' r))
      exact ⟨e₁, .div d hd hr h₁, he⟩
  | @mul m hm acc' r e ts ts' hr hl _ =>
      intro acc hacc
      obtain ⟨R, hR, he⟩ := multLoopLR_pull hl acc r (EvalEq.bin' .mul hacc (EvalEq.rfl' r))
      exact ⟨.bin 0 .mul acc R, .mul m hm (.mk hr hR), he⟩

/-- **C03, value of product/quotient chains.**  Whatever chain the grammar (= the parser, by
`C03_accepts_iff_derivable`) reads as a `MultE`, the documented left-to-right reading derives the
same tokens and the two trees evaluate identically at every assignment. -/
theorem C03_mult_left_to_right (ts : List Tok) (e : Ex) (h : G.MultE ts e) :
    ∃ e', G.MultELR ts e' ∧ EvalEq e e' := by
  cases h with
  | mk h0 hl =>
      obtain ⟨e', h', he⟩ := multLoop_to_LR hl
      exact ⟨e', .mk h0 h', he⟩

/-- and conversely every left-to-right reading is also read by the parser, with the same value -/
theorem C03_mult_left_to_right_conv (ts : List Tok) (e' : Ex) (h : G.MultELR ts e') :
    ∃ e, G.MultE ts e ∧ EvalEq e e' := by
  cases h with
  | mk h0 hl =>
      obtain ⟨e, h₁, he⟩ := multLoopLR_to_code hl _ (EvalEq.rfl' _)
      exact ⟨e, .mk h0 h₁, he⟩

end Mathy
