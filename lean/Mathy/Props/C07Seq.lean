/-
C07 along sequences: "no node object occurs twice" is an invariant of every sequence of rewrites
applied to the SAME objects (in-place application keeps identities; tag 0 = objects created by a
step, which the next step sees as distinct new objects — the model renames nothing, so the
statement is about the objects of the start tree: none of them is ever duplicated, however many
rewrites are applied and wherever).
-/
import Mathy.Props.C07
import Mathy.Props.C09
namespace Mathy

/-- one step of a sequence keeps the invariant -/
theorem applyAt_tags_ok (r : Rule) (t t' : Ex) (i : Nat) (hcan : i ∈ findNodes r t)
    (happ : applyAt r t i = .ok t') (ht : TagsOk t) : TagsOk t' := by
  obtain ⟨k, n, hf, _⟩ := mem_findNodes.mp hcan
  unfold applyAt at happ
  rw [hf] at happ
  simp only at happ
  split at happ
  · rename_i k' n' happ'
    simp at happ
    subst happ
    have := C07_tags_ok r k k' n n' happ'
    rw [focusAt_plug hf] at this
    exact this ht
  · simp at happ

/-- **C07 for sequences**: in every state reachable by any sequence of applicable rewrites no
object of the start tree occurs twice. -/
theorem C07_sequence_tags_ok (t0 tn : Ex) (h : Steps t0 tn) (ht : TagsOk t0) : TagsOk tn := by
  induction h with
  | refl => exact ht
  | step r i _ hcan happ ih => exact applyAt_tags_ok r _ _ i hcan happ ih

/-- each object of the start tree occurs in a reachable state at most as often as at the start
(0 or 1 times when the start tree is well formed) -/
theorem C07_sequence_no_object_duplicated (t0 tn : Ex) (h : Steps t0 tn) (x : Nat) (hx : x ≠ 0) :
    tn.tags.count x ≤ t0.tags.count x := by
  induction h with
  | refl => exact Nat.le_refl _
  | step r i _ hcan happ ih =>
    refine Nat.le_trans ?_ ih
    obtain ⟨k, n, hf, _⟩ := mem_findNodes.mp hcan
    unfold applyAt at happ
    rw [hf] at happ
    simp only at happ
    split at happ
    · rename_i k' n' happ'
      simp at happ
      subst happ
      have := C07_no_object_duplicated r k k' n n' happ' x hx
      rwa [focusAt_plug hf] at this
    · simp at happ

end Mathy
