/-
Property C07 — rewritten trees are structurally sound and leave the context intact.

Trees carry object identities (`tag`, 0 = created by the rewrite).  "No node object occurs twice"
is: every non-zero tag occurs at most once.  Arity/link consistency is by typing of `Ex` (the
pointer-level statement for the primitives is in `Props/C15.lean`, `Props/C13.lean`).
-/
import Mathy.Proofs.Apply
import Mathy.Proofs.Struct
namespace Mathy

/-- every original object occurs at most once -/
def TagsOk (t : Ex) : Prop := ∀ x, x ≠ 0 → t.tags.count x ≤ 1

/-- **C07 (1).** No original object is used twice by a rewrite: each identity occurs in the
result at most as often as in the input. -/
theorem C07_no_object_duplicated (r : Rule) (k k' : Ctx) (n n' : Ex)
    (h : applyRule r k n = .ok (k', n')) (x : Nat) (hx : x ≠ 0) :
    (plug k' n').tags.count x ≤ (plug k n).tags.count x := by
  cases r with
  | associative =>
    obtain ⟨f, rfl, hl⟩ := asApply_struct h
    exact hl.plug_tags k' x hx
  | commutative p => obtain ⟨rfl, hl⟩ := csApply_struct h; exact hl.plug_tags _ x hx
  | constants => obtain ⟨rfl, hl⟩ := caApply_struct h; exact hl.plug_tags _ x hx
  | factorOut c => obtain ⟨rfl, hl⟩ := dfApply_struct h; exact hl.plug_tags _ x hx
  | distribute => obtain ⟨rfl, hl⟩ := dmApply_struct h; exact hl.plug_tags _ x hx
  | inverse => obtain ⟨rfl, hl⟩ := miApply_struct h; exact hl.plug_tags _ x hx
  | restate => obtain ⟨rfl, hl⟩ := rsApply_struct h; exact hl.plug_tags _ x hx
  | variableMultiply => obtain ⟨rfl, hl⟩ := vmApply_struct h; exact hl.plug_tags _ x hx
  | balancedMove =>
    obtain ⟨rfl, ht, -⟩ := bmApply_struct h
    simp only [plug]
    rw [ht x hx]
    exact Nat.zero_le _

theorem C07_tags_ok (r : Rule) (k k' : Ctx) (n n' : Ex)
    (h : applyRule r k n = .ok (k', n')) (ht : TagsOk (plug k n)) : TagsOk (plug k' n') :=
  fun x hx => Nat.le_trans (C07_no_object_duplicated r k k' n n' h x hx) (ht x hx)

/-- **C07 (2).** Everything outside the rewritten node's neighbourhood is untouched: for all
rules but associative swap and balanced move the context (all frames: sibling subtrees, their
order, their identities) is returned unchanged; associative swap consumes exactly the parent
frame; balanced move returns a complete fresh copy (all identities 0). -/
theorem C07_context_untouched (r : Rule) (k k' : Ctx) (n n' : Ex)
    (h : applyRule r k n = .ok (k', n')) :
    (r ≠ .associative ∧ r ≠ .balancedMove → k' = k) ∧
    (r = .associative → k' = k.tail) ∧
    (r = .balancedMove → k' = [] ∧ ∀ x, x ≠ 0 → n'.tags.count x = 0) := by
  cases r with
  | associative =>
    obtain ⟨f, rfl, -⟩ := asApply_struct h
    simp
  | commutative p => obtain ⟨rfl, -⟩ := csApply_struct h; simp
  | constants => obtain ⟨rfl, -⟩ := caApply_struct h; simp
  | factorOut c => obtain ⟨rfl, -⟩ := dfApply_struct h; simp
  | distribute => obtain ⟨rfl, -⟩ := dmApply_struct h; simp
  | inverse => obtain ⟨rfl, -⟩ := miApply_struct h; simp
  | restate => obtain ⟨rfl, -⟩ := rsApply_struct h; simp
  | variableMultiply => obtain ⟨rfl, -⟩ := vmApply_struct h; simp
  | balancedMove =>
    obtain ⟨rfl, ht, -⟩ := bmApply_struct h
    exact ⟨fun hne => absurd rfl hne.2, fun hne => by simp at hne, fun _ => ⟨rfl, ht⟩⟩

/-- **C07 (3).** The set of variables is unchanged. -/
theorem C07_same_variables (r : Rule) (k k' : Ctx) (n n' : Ex)
    (hc : canApply r k n = true) (h : applyRule r k n = .ok (k', n')) (c : Char) :
    c ∈ (plug k' n').vars ↔ c ∈ (plug k n).vars := by
  cases r with
  | associative =>
    obtain ⟨f, rfl, hl⟩ := asApply_struct h
    exact hl.plug_vars k' c
  | commutative p => obtain ⟨rfl, hl⟩ := csApply_struct h; exact hl.plug_vars _ c
  | constants => obtain ⟨rfl, hl⟩ := caApply_struct h; exact hl.plug_vars _ c
  | factorOut cs => obtain ⟨rfl, hl⟩ := dfApply_struct h; exact hl.plug_vars _ c
  | distribute => obtain ⟨rfl, hl⟩ := dmApply_struct h; exact hl.plug_vars _ c
  | inverse => obtain ⟨rfl, hl⟩ := miApply_struct h; exact hl.plug_vars _ c
  | restate => obtain ⟨rfl, hl⟩ := rsApply_struct h; exact hl.plug_vars _ c
  | variableMultiply => obtain ⟨rfl, hl⟩ := vmApply_struct h; exact hl.plug_vars _ c
  | balancedMove =>
    obtain ⟨rfl, -, hv⟩ := bmApply_struct h
    simpa only [plug] using hv c

end Mathy
