/-
Property C05 / C01 bridge: wherever the typed evaluator `pyEval` (Python's int/float/NaN
semantics, floats idealised) returns a number, the rational semantics `eval` that the rewrite
theorems (C01, C02, C09) are stated in returns the same number.
-/
import Mathy.Model.PyEval
import Mathy.Proofs.Eval
import Mathy.Proofs.PyEvalLemmas
namespace Mathy

/-- forget the int/float typing of literals -/
def PEx.toEx : PEx → Ex
  | .cint z => .const 0 z
  | .cflt q => .const 0 q
  | .var x => .var 0 x
  | .un o c => .un 0 o c.toEx
  | .bin o l r => .bin 0 o l.toEx r.toEx

/-- a typed context that gives every variable a (non-NaN) number, and its rational reading -/
def envAgree (penv : PyEnv) (env : Env) : Prop :=
  ∀ x, ∃ v, penv x = some v ∧ v.toRat? = some (env x)

/-- the evaluation yields a number (not NaN, no exception) -/
def numeric (penv : PyEnv) (t : PEx) : Prop := ∃ v q, pyEval penv t = .ok v ∧ v.toRat? = some q

/-- every sub-expression evaluates to a number: no NaN arises on the way (Python lets NaN through
`sgn` and `nan ** 0`, where mathematics has no value) -/
def AllNumeric (penv : PyEnv) : PEx → Prop
  | .un o c => AllNumeric penv c ∧ numeric penv (.un o c)
  | .bin o l r => AllNumeric penv l ∧ AllNumeric penv r ∧ numeric penv (.bin o l r)
  | t => numeric penv t

theorem AllNumeric.numeric {penv : PyEnv} {t : PEx} (h : AllNumeric penv t) : numeric penv t := by
  cases t with
  | cint z => exact h
  | cflt q => exact h
  | var x => exact h
  | un o c => exact h.2
  | bin o l r => exact h.2.2

theorem C05_agrees_with_rational_semantics (penv : PyEnv) (env : Env) (h : envAgree penv env)
    (t : PEx) (hall : AllNumeric penv t) (v : PyVal) (q : Rat)
    (hv : pyEval penv t = .ok v) (hq : v.toRat? = some q) : eval env t.toEx = .ok q := by
  induction t generalizing v q with
  | cint z =>
    simp only [pyEval] at hv
    cases hv
    obtain rfl := toRat?_int hq
    rfl
  | cflt x =>
    simp only [pyEval] at hv
    cases hv
    obtain rfl := toRat?_flt hq
    rfl
  | var x =>
    obtain ⟨w, hw, hwq⟩ := h x
    simp only [pyEval, hw] at hv
    cases hv
    rw [hwq] at hq
    cases hq
    rfl
  | un o c ih =>
    obtain ⟨hc, -⟩ := hall
    obtain ⟨a, qa, hca, hqa⟩ := hc.numeric
    have hec := ih hc a qa hca hqa
    simp only [pyEval, hca] at hv
    simp only [PEx.toEx, eval, hec, Res.un]
    exact pyUn_agree o a v qa q hqa hv hq
  | bin o l r ihl ihr =>
    obtain ⟨hl, hr, -⟩ := hall
    obtain ⟨a, qa, hla, hqa⟩ := hl.numeric
    obtain ⟨b, qb, hrb, hqb⟩ := hr.numeric
    have hel := ihl hl a qa hla hqa
    have her := ihr hr b qb hrb hqb
    simp only [pyEval, hla, hrb] at hv
    simp only [PEx.toEx, eval, hel, her, Res.bin]
    exact pyBin_agree o a b v qa qb q hqa hqb hv hq

end Mathy
