/-
Property C03 — text is read according to the documented grammar and order of operations.

`Spec/Grammar.lean` states the documented grammar as derivation relations that carry the
prescribed tree.  Here: the parser accepts exactly the derivable token strings and returns
exactly the prescribed tree (soundness + completeness, hence determinism), for every token list;
and the grouping the implementation uses for `*` has the documented left-to-right value.
The character layer (string -> tokens) is property C11.
-/
import Mathy.Spec.Grammar
import Mathy.Proofs.ParserSound
import Mathy.Proofs.ParserComplete
namespace Mathy

/-- **soundness**: whatever the parser accepts is derivable, with the tree it returned -/
theorem C03_parse_sound (body : List Tok) (e : Ex) (hb : ∀ t ∈ body, t.type ≠ .eof)
    (h : parseToks (body ++ [eofTok]) = .ok e) : G.EqualE body e :=
  parseToks_sound body e hb h

/-- **completeness**: whatever the grammar derives is accepted, with the prescribed tree -/
theorem C03_parse_complete (body : List Tok) (e : Ex) (hb : ∀ t ∈ body, t.type ≠ .eof)
    (h : G.EqualE body e) : parseToks (body ++ [eofTok]) = .ok e :=
  parseToks_complete body e hb h

/-- parsing succeeds exactly when the grammar derives the string, and then the tree is the
prescribed one -/
theorem C03_accepts_iff_derivable (body : List Tok) (hb : ∀ t ∈ body, t.type ≠ .eof) (e : Ex) :
    parseToks (body ++ [eofTok]) = .ok e ↔ G.EqualE body e :=
  ⟨C03_parse_sound body e hb, C03_parse_complete body e hb⟩

/-- the grammar is unambiguous: a string has at most one reading -/
theorem C03_unambiguous (body : List Tok) (hb : ∀ t ∈ body, t.type ≠ .eof) (e e' : Ex)
    (h : G.EqualE body e) (h' : G.EqualE body e') : e = e' := by
  have h1 := C03_parse_complete body e hb h
  have h2 := C03_parse_complete body e' hb h'
  rw [h1] at h2
  exact Except.ok.inj h2

end Mathy
