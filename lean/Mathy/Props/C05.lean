/-
Property C05 — evaluation computes the mathematically correct number.
Model: `Model/PyEval.lean` (`pyEval` with Python's int / float typing; floats idealised as exact
rationals; NaN is a value; exceptions abort).  The "within a few ulps" clause is about IEEE
rounding, which is not formalised: it is decided by the correspondence run only (partial).
-/
import Mathy.Model.PyEval
import Mathlib.Tactic.SplitIfs
namespace Mathy

/-- the integer fragment: `+ - *`, powers, factorial, negation, sign over integer literals and
variables -/
def IntTree : PEx → Bool
  | .cint _ => true
  | .cflt _ => false
  | .var _ => true
  | .un .neg c => IntTree c
  | .un .sgn c => IntTree c
  | .un .fact c => IntTree c
  | .un .abs c => IntTree c
  | .bin .add l r => IntTree l && IntTree r
  | .bin .sub l r => IntTree l && IntTree r
  | .bin .mul l r => IntTree l && IntTree r
  | .bin .pow l r => IntTree l && IntTree r
  | .bin _ _ _ => false

/-- the obvious integer denotation; `none` where mathematics gives no integer (negative exponent,
factorial of a negative number) -/
def zDenote (env : Char → Int) : PEx → Option Int
  | .cint z => some z
  | .cflt _ => none
  | .var x => some (env x)
  | .un o c => match zDenote env c with
    | none => none
    | some a => match o with
      | .neg => some (-a)
      | .sgn => some (if a < 0 then -1 else if 0 < a then 1 else 0)
      | .abs => some (if a < 0 then -a else a)
      | .fact => if a < 0 then none else some (factNat a.toNat)
  | .bin o l r => match zDenote env l, zDenote env r with
    | some a, some b => match o with
      | .add => some (a + b)
      | .sub => some (a - b)
      | .mul => some (a * b)
      | .pow => if 0 ≤ b then some (a ^ b.toNat) else none
      | _ => none
    | _, _ => none

/-- **exactness**: on the integer fragment, with integer assignments of ANY magnitude, evaluation
returns exactly the mathematical integer (never a wrapped, rounded or float value) -/
theorem C05_int_exact (env : Char → Int) (t : PEx) (z : Int)
    (hz : zDenote env t = some z) : pyEval (fun c => some (.int (env c))) t = .ok (.int z) := by
  induction t generalizing z with
  | cint a => simp [zDenote] at hz; subst hz; rfl
  | cflt q => simp [zDenote] at hz
  | var x => simp [zDenote] at hz; subst hz; rfl
  | un o c ih =>
    simp only [zDenote] at hz
    cases hc : zDenote env c with
    | none => simp [hc] at hz
    | some a =>
      simp only [hc] at hz
      simp only [pyEval, ih a hc]
      cases o <;> simp [pyUn, pyNeg, pySgn, pyAbs, pyFact] at hz ⊢
      all_goals first
        | exact hz
        | (obtain ⟨h1, h2⟩ := hz
           have : ¬ a < 0 := by omega
           simp [this, h2])
  | bin o l r ihl ihr =>
    simp only [zDenote] at hz
    cases hl : zDenote env l with
    | none => simp [hl] at hz
    | some a =>
      cases hr : zDenote env r with
      | none => simp [hl, hr] at hz
      | some b =>
        simp only [hl, hr] at hz
        simp only [pyEval, ihl a hl, ihr b hr]
        cases o <;> simp [pyBin, pyArith, pyPow] at hz ⊢
        all_goals first
          | exact hz
          | (obtain ⟨h1, h2⟩ := hz
             simp [h1, h2])

/-- a variable without a value (missing from the context or `None`) is an error, never a
default, wherever it occurs in the tree -/
def mentions (x : Char) : PEx → Bool
  | .var y => x == y
  | .un _ c => mentions x c
  | .bin _ l r => mentions x l || mentions x r
  | _ => false

theorem C05_unbound_is_error (env : PyEnv) (t : PEx) (x : Char) (hx : mentions x t = true)
    (he : env x = none) : ∃ e, pyEval env t = .error e := by
  induction t with
  | cint a => simp [mentions] at hx
  | cflt q => simp [mentions] at hx
  | var y =>
    simp [mentions] at hx; subst hx
    exact ⟨.unboundVariable, by simp [pyEval, he]⟩
  | un o c ih =>
    obtain ⟨e, h⟩ := ih (by simpa [mentions] using hx)
    exact ⟨e, by simp [pyEval, h]⟩
  | bin o l r ihl ihr =>
    simp [mentions] at hx
    rcases hx with hx | hx
    · obtain ⟨e, h⟩ := ihl hx
      exact ⟨e, by simp [pyEval, h]⟩
    · obtain ⟨e, h⟩ := ihr hx
      cases hl : pyEval env l with
      | error e' => exact ⟨e', by simp [pyEval, hl]⟩
      | ok a => exact ⟨e, by simp [pyEval, hl, h]⟩

/-- division by zero yields NaN (for an int or float zero) … -/
theorem C05_div_by_zero (a : PyVal) : pyBin .div a (.int 0) = .ok .nan ∧ pyBin .div a (.flt 0) = .ok .nan := by
  cases a <;> simp [pyBin, pyDiv, PyVal.toRat?]

/-- … and NaN propagates through `+ - * /` and negation -/
theorem C05_nan_propagates (o : Bop) (ho : o = .add ∨ o = .sub ∨ o = .mul ∨ o = .div) (b : PyVal) :
    pyBin o .nan b = .ok .nan ∧ pyBin o b .nan = .ok .nan ∧ pyUn .neg .nan = .ok .nan := by
  rcases ho with rfl | rfl | rfl | rfl <;> cases b <;> simp [pyBin, pyArith, pyDiv, pyUn, pyNeg, PyVal.toRat?]

/-- an equation evaluates to its common (left) value when the sides are equal and raises when
they differ -/
theorem C05_equation (env : PyEnv) (l r : PEx) (a b : PyVal)
    (hl : pyEval env l = .ok a) (hr : pyEval env r = .ok b) :
    pyEval env (.bin .eq l r) = if pyEq a b then .ok a else .error .equationDidNotHold := by
  simp [pyEval, hl, hr, pyBin]

/-! non-vacuity -/
example : pyEval (fun _ => none) (.bin .pow (.cint 2) (.cint 64)) = .ok (.int 18446744073709551616) := by
  rfl
example : zDenote (fun _ => 10 ^ 30) (.bin .mul (.var 'x') (.un .fact (.cint 25)))
    = some (10 ^ 30 * 15511210043330985984000000) := by decide +kernel

end Mathy
