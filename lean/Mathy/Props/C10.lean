/-
Property C10 — parsing is total, has a closed error contract and keeps no sticky state.

`parseText : List Char → ParseOut` is a total function by construction (structural recursion on
fuel / on the input), and `ParseOut` is the closed contract: a tree, one of the five documented
parser exceptions or a malformed number (`perr`), or an unsupported character (`badChar`).
What has content: the model's own escape hatch `PErr.fuel` is never taken (`C10_never_out_of_fuel`),
returned trees are made of fresh objects only, tokenizer errors are exactly the unsupported
characters, and a failed parse leaves no trace (`C10_no_sticky_state`, from C12).
The interpreter's recursion limit is runtime behaviour outside the model (deep-input probes in
the check; one known finding: flat `*` chains of about a thousand factors).
-/
import Mathy.Props.C11
import Mathy.Props.C12
import Mathy.Proofs.ParserFuel
namespace Mathy

/-- the fuel the model gives the parser is always enough: no input ends in `PErr.fuel` -/
theorem C10_never_out_of_fuel (ts : List Tok) : parseToks ts ≠ .error .fuel :=
  parseToks_ne_fuel ts

theorem C10_outcome_closed (s : List Char) :
    (∃ e, parseText s = .tree e) ∨ (∃ c, parseText s = .badChar c) ∨
    (∃ k, parseText s = .perr k ∧ k ≠ .fuel) := by
  unfold parseText
  cases h : tokenize false s with
  | error c => exact Or.inr (Or.inl ⟨c, rfl⟩)
  | ok ts =>
    simp only
    cases hp : parseToks ts with
    | ok e => exact Or.inl ⟨e, rfl⟩
    | error k =>
      refine Or.inr (Or.inr ⟨k, rfl, ?_⟩)
      intro hk
      exact C10_never_out_of_fuel ts (hk ▸ hp)

/-- an unsupported character is reported, and it is the first one (ValueError in Python) -/
theorem C10_bad_character (s : List Char) (c : Char) :
    parseText s = .badChar c ↔
      ∃ pre post, s = pre ++ c :: post ∧ (∀ d ∈ pre, supported d = true) ∧ supported c = false := by
  rw [← C11_error_iff false s c]
  unfold parseText
  cases h : tokenize false s with
  | error c' => simp
  | ok ts => cases hp : parseToks ts <;> simp [hp]

/-- a failed parse (or any other call) leaves the parser fully usable: later calls on the same
parser answer as a fresh parser does -/
theorem C10_no_sticky_state (ops : List POp) (s : List Char) :
    (runOps PState.init [] (ops ++ [.parse s])).getLast? = some (.parsed (parseText s)) :=
  C12_parse_history_independent ops s

end Mathy
