/-
C15 (second anchor: "associative regrouping is a rotation", associative_swap.py): the model of
`AssociativeSwapRule.apply_to` on expression trees IS `rotate` of the generic tree model at the
position of the node, so every rotation theorem (in-order sequence unchanged, node moves above
its parent, grandparent points at it) transfers to the rule at every position of every tree.
-/
import Mathy.Model.Rules
import Mathy.Model.Tree
import Mathy.Props.C15
import Mathy.Props.C06Order

namespace Mathy
open BT

/- `Ex.toBT` (Props/C06Order.lean) is the link structure of an expression tree: object identities,
children (a unary node keeps its operand on the right) -/

def Frame.dir : Frame → Dir
  | .binL .. => .L
  | .binR .. => .R
  | .un .. => .R

/-- path from the root to the hole of a context (contexts are innermost-first) -/
def ctxPath (k : Ctx) : Path := (k.map Frame.dir).reverse

/-! helper lemmas: paths, sub-trees and rotation under a context -/

theorem ctxPath_cons (f : Frame) (k : Ctx) : ctxPath (f :: k) = ctxPath k ++ [f.dir] := by
  simp [ctxPath]

theorem sub_nil (p : Path) : BT.nil.sub p = .nil := by
  cases p <;> simp [sub]

theorem sub_append (t : BT) (p q : Path) : t.sub (p ++ q) = (t.sub p).sub q := by
  induction p generalizing t with
  | nil => simp [sub]
  | cons d p ih =>
    cases t with
    | nil => simp [sub, sub_nil]
    | node i l r => cases d <;> simp [sub, ih]

theorem toBT_fill_sub (f : Frame) (n : Ex) : (f.fill n).toBT.sub [f.dir] = n.toBT := by
  cases f <;> simp [Frame.fill, Frame.dir, Ex.toBT, sub]

theorem rotateAt_L_cons_cons (i : Nat) (l r : BT) (d : Dir) (p : Path) :
    (BT.node i l r).rotateAt (.L :: d :: p) = .node i (l.rotateAt (d :: p)) r := by
  simp [rotateAt]

theorem rotateAt_R_cons_cons (i : Nat) (l r : BT) (d : Dir) (p : Path) :
    (BT.node i l r).rotateAt (.R :: d :: p) = .node i l (r.rotateAt (d :: p)) := by
  simp [rotateAt]

/-- rotation below a frame is rotation of the filler -/
theorem toBT_fill_rotateAt (f : Frame) (e e₂ : Ex) (p : Path) (hp : p ≠ [])
    (h : e.toBT.rotateAt p = e₂.toBT) :
    (f.fill e).toBT.rotateAt (f.dir :: p) = (f.fill e₂).toBT := by
  cases p with
  | nil => exact absurd rfl hp
  | cons d q =>
    cases f with
    | binL t o r => simp only [Frame.fill, Frame.dir, Ex.toBT, rotateAt_L_cons_cons, h]
    | binR t o l => simp only [Frame.fill, Frame.dir, Ex.toBT, rotateAt_R_cons_cons, h]
    | un t o => simp only [Frame.fill, Frame.dir, Ex.toBT, rotateAt_R_cons_cons, h]

/-- congruence of `rotateAt` under `plug` -/
theorem toBT_plug_rotateAt (k : Ctx) (e e₂ : Ex) (p : Path) (hp : p ≠ [])
    (h : e.toBT.rotateAt p = e₂.toBT) :
    (plug k e).toBT.rotateAt (ctxPath k ++ p) = (plug k e₂).toBT := by
  induction k generalizing e e₂ p with
  | nil => simpa [plug, ctxPath] using h
  | cons f k ih =>
    rw [ctxPath_cons, List.append_assoc, List.singleton_append]
    simp only [plug]
    exact ih (f.fill e) (f.fill e₂) (f.dir :: p) (by simp) (toBT_fill_rotateAt f e e₂ p hp h)

/-- shape of the inputs wherever the rule reports applicable -/
theorem asCan_shape (k : Ctx) (n : Ex) (hcan : asCan k n = true) :
    ∃ nt no a b k', n = .bin nt no a b ∧
      ((∃ pt po c, k = .binL pt po c :: k') ∨ (∃ pt po c, k = .binR pt po c :: k')) := by
  cases n with
  | const t v => simp [asCan, Ex.isOp] at hcan
  | var t x => simp [asCan, Ex.isOp] at hcan
  | un t o c => simp [asCan, Ex.isOp] at hcan
  | bin nt no a b =>
    cases k with
    | nil => simp [asCan, parentIs] at hcan
    | cons f k' =>
      cases f with
      | binL pt po c => exact ⟨nt, no, a, b, k', rfl, .inl ⟨pt, po, c, rfl⟩⟩
      | binR pt po c => exact ⟨nt, no, a, b, k', rfl, .inr ⟨pt, po, c, rfl⟩⟩
      | un t o => simp [asCan, parentIs, Frame.isOp] at hcan

/-- the in-order tag sequence of an expression is the in-order id sequence of its link structure
… except that a unary node precedes its operand in both. -/
theorem toBT_ids (e : Ex) : e.toBT.ids = e.tags := by
  induction e with
  | const t v => simp [Ex.toBT, ids, Ex.tags]
  | var t x => simp [Ex.toBT, ids, Ex.tags]
  | un t o c ih => simp [Ex.toBT, ids, Ex.tags, ih]
  | bin t o l r ihl ihr => simp [Ex.toBT, ids, Ex.tags, ihl, ihr]

/-- the sub-tree at the hole's path is the focus -/
theorem toBT_sub_ctxPath (k : Ctx) (n : Ex) : (plug k n).toBT.sub (ctxPath k) = n.toBT := by
  induction k generalizing n with
  | nil => simp [plug, ctxPath, sub]
  | cons f k ih =>
    rw [ctxPath_cons, sub_append]
    simp only [plug]
    rw [ih, toBT_fill_sub]

/-- **The associative rule is a rotation**: wherever the rule applies, the whole tree after
`apply_to(node)` has exactly the link structure of the tree before with `node.rotate()` performed
at the node's position. -/
theorem C15_assoc_is_rotation (k k' : Ctx) (n n' : Ex) (hcan : asCan k n = true)
    (h : asApply k n = .ok (k', n')) :
    (plug k' n').toBT = (plug k n).toBT.rotateAt (ctxPath k) := by
  obtain ⟨nt, no, a, b, k₀, rfl, hk⟩ := asCan_shape k n hcan
  rcases hk with ⟨pt, po, c, rfl⟩ | ⟨pt, po, c, rfl⟩
  · simp only [asApply, Except.ok.injEq, Prod.mk.injEq] at h
    obtain ⟨rfl, rfl⟩ := h
    rw [ctxPath_cons]
    simp only [plug, Frame.fill, Frame.dir]
    symm
    apply toBT_plug_rotateAt _ _ _ _ (by simp)
    simp [Ex.toBT, rotateAt, rotateTop]
  · simp only [asApply, Except.ok.injEq, Prod.mk.injEq] at h
    obtain ⟨rfl, rfl⟩ := h
    rw [ctxPath_cons]
    simp only [plug, Frame.fill, Frame.dir]
    symm
    apply toBT_plug_rotateAt _ _ _ _ (by simp)
    simp [Ex.toBT, rotateAt, rotateTop]

/-- the rule never fails where it reports applicable -/
theorem C15_assoc_total (k : Ctx) (n : Ex) (hcan : asCan k n = true) :
    ∃ k' n', asApply k n = .ok (k', n') := by
  obtain ⟨nt, no, a, b, k₀, rfl, hk⟩ := asCan_shape k n hcan
  rcases hk with ⟨pt, po, c, rfl⟩ | ⟨pt, po, c, rfl⟩
  · exact ⟨_, _, rfl⟩
  · exact ⟨_, _, rfl⟩

/-- corollary: the rule preserves the in-order sequence of node objects at every position -/
theorem C15_assoc_inorder (k k' : Ctx) (n n' : Ex) (hcan : asCan k n = true)
    (h : asApply k n = .ok (k', n')) :
    (plug k' n').tags = (plug k n).tags := by
  rw [← toBT_ids, ← toBT_ids, C15_assoc_is_rotation k k' n n' hcan h, C15_rotate_inorder]

/-- corollary: after the rule the node sits where its parent was (the old grandparent, i.e. the
rest of the context, now holds the rotated node) and its old parent is its child -/
theorem C15_assoc_moves_up (k k' : Ctx) (n n' : Ex) (hcan : asCan k n = true)
    (h : asApply k n = .ok (k', n')) :
    k' = k.tail ∧ n'.tag = n.tag ∧
      ∃ f, k = f :: k' ∧
        ((∃ pt po c, f = .binL pt po c ∧ (n'.right?.map Ex.tag) = some pt) ∨
         (∃ pt po a, f = .binR pt po a ∧ (n'.left?.map Ex.tag) = some pt)) := by
  obtain ⟨nt, no, a, b, k₀, rfl, hk⟩ := asCan_shape k n hcan
  rcases hk with ⟨pt, po, c, rfl⟩ | ⟨pt, po, c, rfl⟩
  · simp only [asApply, Except.ok.injEq, Prod.mk.injEq] at h
    obtain ⟨rfl, rfl⟩ := h
    exact ⟨rfl, rfl, _, rfl, .inl ⟨pt, po, c, rfl, rfl⟩⟩
  · simp only [asApply, Except.ok.injEq, Prod.mk.injEq] at h
    obtain ⟨rfl, rfl⟩ := h
    exact ⟨rfl, rfl, _, rfl, .inr ⟨pt, po, c, rfl, rfl⟩⟩

/-- non-vacuity: `c + d` inside `(a + (b + (c + d))) + e` (mixed nesting, depth 3) -/
example :
    let cd := Ex.bin 7 .add (.var 6 'c') (.var 8 'd')
    let k : Ctx := [.binR 5 .add (.var 4 'b'), .binR 3 .add (.var 2 'a'), .binL 9 .add (.var 10 'e')]
    asCan k cd = true ∧ ctxPath k = [.L, .R, .R] := by decide

end Mathy
