/-
Source tie for C16: `terms_are_like` and `has_like_terms` as translated from the live util.py
(`Gen/PySrcLike.lean`, regenerated on every run) compute exactly the model's `termsAreLike` / `hasLikeTerms`;
the C16 theorems are restated for the translated code.
-/
import Mathy.Gen.PySrcLike
import Mathy.Props.C16Equiv
namespace Mathy
open Mathy.Gen

/-- the translated `terms_are_like` on two term results is the model's -/
theorem Src_terms_are_like (a b : TermKey) : Src.terms_are_like (some a) (some b) = termsAreLike a b := by
  unfold Src.terms_are_like termsAreLike
  cases ha : a.vars <;> cases hb : b.vars <;> simp [List.isEmpty] <;> grind

/-- an operand `get_term` rejected (Python's `False`) is like nothing -/
theorem Src_terms_are_like_false (o : Option TermKey) :
    Src.terms_are_like none o = false ∧ Src.terms_are_like o none = false := by
  cases o <;> simp [Src.terms_are_like]

/-- the seen-set scan: returns True exactly when a key repeats or was already in the set -/
theorem loop1_spec (seen : List TermKey) (ts : List (Option TermKey)) :
    (Src.has_like_terms_loop1 seen ts).isNone =
      ((ts.filterMap id).any (fun k => seen.contains k) || hasDup (ts.filterMap id)) := by
  induction ts generalizing seen with
  | nil => simp [Src.has_like_terms_loop1, hasDup]
  | cons t ts ih =>
    cases t with
    | none => simpa [Src.has_like_terms_loop1] using ih seen
    | some k =>
      have e1 : (some k :: ts).filterMap id = k :: ts.filterMap id := by simp
      rw [e1]
      simp only [Src.has_like_terms_loop1, List.any_cons, hasDup]
      by_cases hk : seen.contains k = true
      · have hm : k ∈ seen := by simpa using hk
        simp [hm]
      · have hk' : seen.contains k = false := by simpa using hk
        rw [hk']
        simp only [Bool.false_eq_true, if_false, ih, Bool.false_or]
        rw [Bool.eq_iff_iff]
        simp only [Bool.or_eq_true, List.any_eq_true, List.contains_iff_mem, List.mem_cons]
        grind
theorem loop2_spec (marker : Bool) (fs : List Bool) :
    Src.has_like_terms_loop2 marker fs = decide (2 ≤ fs.count true + (if marker then 1 else 0)) := by
  induction fs generalizing marker with
  | nil => cases marker <;> simp [Src.has_like_terms_loop2]
  | cons f fs ih =>
    cases f <;> cases marker <;> simp [Src.has_like_terms_loop2, ih] <;> omega

theorem flags_count (p : Bool) (e : Ex) :
    (Src.const_parent_flags p e).count true = countFreeConsts e + (if e.isConst && p then 1 else 0) := by
  induction e generalizing p with
  | const => cases p <;> simp [Src.const_parent_flags, countFreeConsts, Ex.isConst]
  | var => simp [Src.const_parent_flags, countFreeConsts, Ex.isConst]
  | un t o c ih => simp [Src.const_parent_flags, countFreeConsts, Ex.isConst, ih]
  | bin t o l r ihl ihr =>
    have hb : (Ex.bin t o l r).isConst = false := rfl
    simp only [Src.const_parent_flags, countFreeConsts, List.count_append, ihl, ihr, hb]
    cases o.isAddSub' <;> simp <;> omega

theorem get_terms_visit_eq (e : Ex) : Src.get_terms_visit e = sumChildren e := by
  induction e with
  | const => simp [Src.get_terms_visit, Src.get_terms_visit_fn, sumChildren]
  | var => simp [Src.get_terms_visit, Src.get_terms_visit_fn, sumChildren]
  | un t o c ih => simp [Src.get_terms_visit, Src.get_terms_visit_fn, sumChildren, ih]
  | bin t o l r ihl ihr =>
    simp only [Src.get_terms_visit, Src.get_terms_visit_fn, sumChildren, ihl, ihr]
    cases o.isAddSub' <;> cases l.isAddSub <;> cases r.isAddSub <;> simp

/-- the translated `get_terms` (asked of a root) is the model's -/
theorem Src_get_terms (e : Ex) : Src.get_terms e = getTerms e := by
  unfold Src.get_terms getTerms
  simp only [get_terms_visit_eq]
  cases h : ((if e.isOp .mul then [e] else []) ++ sumChildren e) <;> simp

theorem loop1_nil (ts : List (Option TermKey)) :
    (Src.has_like_terms_loop1 [] ts).isNone = hasDup (ts.filterMap id) := by
  rw [loop1_spec]
  have : (ts.filterMap id).any (fun k => ([] : List TermKey).contains k) = false := by
    rw [List.any_eq_false]; intro x _; simp
  rw [this, Bool.false_or]

/-- the translated `has_like_terms` is the model's, for every expression -/
theorem Src_has_like_terms (e : Ex) : Src.has_like_terms e = hasLikeTerms e := by
  unfold Src.has_like_terms hasLikeTerms
  rw [Src_get_terms]
  have h1 := loop1_nil ((getTerms e).map getTermKey)
  have hfm : ((getTerms e).map getTermKey).filterMap id = (getTerms e).filterMap getTermKey := by
    simp [List.filterMap_map]
  rw [hfm] at h1
  have h2 : Src.has_like_terms_loop2 false (Src.const_parent_flags false e) = decide (2 ≤ countFreeConsts e) := by
    rw [loop2_spec, flags_count]; simp
  cases hl : Src.has_like_terms_loop1 [] ((getTerms e).map getTermKey) with
  | none =>
    rw [hl] at h1
    have : hasDup ((getTerms e).filterMap getTermKey) = true := by simpa using h1.symm
    simp [this]
  | some s =>
    rw [hl] at h1
    have : hasDup ((getTerms e).filterMap getTermKey) = false := by simpa using h1.symm
    simp [this, h2]

/-- C16 for the translated code: the answer of `has_like_terms` does not depend on order or grouping of a sum -/
theorem Src_has_like_terms_order_invariant (t t' : Ex) (h : SumPerm t t') :
    Src.has_like_terms t = Src.has_like_terms t' := by
  rw [Src_has_like_terms, Src_has_like_terms, C16_hasLike_order_invariant t t' h]

/-- C16 for the translated code: reflexive, symmetric (and transitive) on term results -/
theorem Src_terms_are_like_equiv (a b c : TermKey) :
    Src.terms_are_like (some a) (some a) = true ∧
    Src.terms_are_like (some a) (some b) = Src.terms_are_like (some b) (some a) ∧
    (Src.terms_are_like (some a) (some b) = true → Src.terms_are_like (some b) (some c) = true →
      Src.terms_are_like (some a) (some c) = true) := by
  simp only [Src_terms_are_like]
  exact ⟨C16_termsAreLike_refl a, C16_termsAreLike_symm a b, C16_termsAreLike_trans a b c⟩

/-- the translated `make_term` is the model's, for every triple -/
theorem Src_make_term (c : Rat) (v : Option Char) (e : Option Rat) : Src.make_term c v e = makeTerm c v e := by
  unfold Src.make_term makeTerm
  cases v <;> cases e <;> by_cases hc : c = 1 <;> simp [hc]

/-- C16 for the translated code: a term built by the translated `make_term` decomposes (through the translated
`get_term_ex`, `Src_get_term_ex`) back to the triple it was built from and has the value `c * v ^ e` -/
theorem Src_make_term_roundtrip (c : Rat) (v : Char) (e : Option Rat) (m : Ex)
    (h : Src.make_term c (some v) e = some m) :
    getTermEx false m = some ⟨if c = 1 then none else some c, some v, e⟩ ∧
    ∀ env : Env, eval env m = (TermEx.mk (some c) (some v) e).res env := by
  rw [Src_make_term] at h
  exact ⟨C16_makeTerm_roundtrip c v e m h, fun env => C16_makeTerm_value c (some v) e m env h⟩

/-- the translated `has_like_terms` in words: two different positions of the analysable terms carry one key, or at
least two constants are direct operands of additions / subtractions -/
theorem Src_has_like_terms_iff (e : Ex) :
    Src.has_like_terms e = true ↔
      (∃ i j : Nat, ∃ k : TermKey, i < j ∧
          ((Src.get_terms e).filterMap getTermKey)[i]? = some k ∧
          ((Src.get_terms e).filterMap getTermKey)[j]? = some k) ∨ 2 ≤ countFreeConsts e := by
  rw [Src_has_like_terms, Src_get_terms]
  exact C16_hasLike_iff e

end Mathy
