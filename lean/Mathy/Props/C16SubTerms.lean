/-
Property C16, clause "the term predicates never raise on any non-equation expression", for the
function behind `is_simple_term` and `is_preferred_term_form`: `get_sub_terms` contains two
`assert`s (after a coefficient / a variable the next in-order node must be a multiplication, a
division or a power).  Over the model `getSubTerms` (Model/SubTerms.lean, compared with the real
function on every tree of the C16 run) neither can fail on a tree without an equation node: in the
in-order list a leaf is followed by nothing or by the binary operator it hangs under, and `+`/`-`
return False before the assertion is reached.
-/
import Mathy.Proofs.SubTermsLemmas
namespace Mathy
open ST

/-- **C16 (never raises).** For every expression without an equation node, `get_sub_terms` returns
`False` or a list of triples; no assertion fails and the scan terminates within its fuel. -/
theorem C16_getSubTerms_never_raises (e : Ex) (h : NoEqNode e = true) : getSubTerms e ≠ .raised := by
  unfold getSubTerms
  have hg := goodAdj_inorder e h
  exact loop_ok _ _ _ [] (inv_pop hg) (by rw [size_pop]; omega)

/-- under an equation the assertion CAN fail: `2 = y` (why the property excludes equations) -/
example : getSubTerms (.bin 0 .eq (.const 0 2) (.var 0 'y')) = .raised := by decide +kernel

/-- non-vacuity: `2x^2 * 2y` has the sub-terms (2, x, 2) and (2, y, -) -/
example : getSubTerms (.bin 0 .mul (.bin 0 .mul (.const 0 2) (.bin 0 .pow (.var 0 'x') (.const 0 2)))
      (.bin 0 .mul (.const 0 2) (.var 0 'y')))
    = .terms [(some (.const 0 2), some (.var 0 'x'), some (.const 0 2)), (some (.const 0 2), some (.var 0 'y'), none)] := by
  decide +kernel

end Mathy
