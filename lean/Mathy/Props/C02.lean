/-
Property C02 — rewrites preserve the solution set of equations.
-/
import Mathy.Proofs.Apply
namespace Mathy

/-- **C02, main statement.**  Any applicable rewrite (any rule, any option, any node, any tree):
wherever the original holds (evaluates: both sides defined and equal) the result holds, and
wherever the original does not hold (sides defined and different) the result does not hold. -/
theorem C02_rewrite_preserves_truth (r : Rule) (t t' : Ex) (i : Nat)
    (hcan : i ∈ findNodes r t) (happ : applyAt r t i = .ok t') : HoldsRefines t t' := by
  obtain ⟨k, n, hf, hc⟩ := mem_findNodes.mp hcan
  unfold applyAt at happ
  rw [hf] at happ
  simp only at happ
  split at happ
  · rename_i k' n' happ'
    simp at happ
    subst happ
    rw [← focusAt_plug hf]
    exact applyRule_holds hc happ'
  · simp at happ

/-- In the words of the statement: at every assignment where both equations are defined, one
holds exactly when the other does. -/
theorem C02_same_solutions (r : Rule) (t t' : Ex) (i : Nat)
    (hcan : i ∈ findNodes r t) (happ : applyAt r t i = .ok t') (env : Env)
    (hd : eval env t ≠ .error .undef) (_hd' : eval env t' ≠ .error .undef) :
    (∃ v, eval env t = .ok v) ↔ (∃ v, eval env t' = .ok v) := by
  obtain ⟨h1, h2⟩ := C02_rewrite_preserves_truth r t t' i hcan happ env
  constructor
  · exact h1
  · rintro ⟨w, hw⟩
    rcases ht : eval env t with (_ | _) | v
    · exact absurd ht hd
    · rw [h2 ht] at hw; cases hw
    · exact ⟨v, rfl⟩

/-- A balanced move of an addend only happens when every node between the addend and its side
of the equation is an addition (never out of a product, quotient, power, negation, subtrahend). -/
theorem C02_bm_addend_is_top_level (k inner : Ctx) (rootF : Frame) (n : Ex)
    (h : bmType k n = some .addition) (hs : splitRoot k = some (inner, rootF)) :
    allAdd inner = true ∧ rootF.isOp .eq = true := by
  obtain ⟨hroot, -, hadd⟩ := bmType_spec h hs
  exact ⟨hadd rfl, hroot⟩

/-- A balanced move never divides by zero. -/
theorem C02_bm_never_divides_by_zero (k : Ctx) (n : Ex)
    (h : bmType k n = some .constOfMultiply) : ∃ t v, n = .const t v ∧ v ≠ 0 := by
  cases hs : splitRoot k with
  | none => unfold bmType at h; rw [hs] at h; simp at h
  | some p =>
    obtain ⟨inner, rootF⟩ := p
    obtain ⟨-, hcm, -⟩ := bmType_spec h hs
    exact hcm rfl

/-! Non-vacuity -/

/-- `x + 2 = 3`, move the `2`: `x = 3 - 2` -/
example : applyAt .balancedMove
    (.bin 1 .eq (.bin 2 .add (.var 3 'x') (.const 4 2)) (.const 5 3)) 2
    = .ok (.bin 0 .eq (.var 0 'x') (.bin 0 .sub (.const 0 3) (.const 0 2))) := by decide +kernel

example : findNodes .balancedMove
    (.bin 1 .eq (.bin 2 .add (.var 3 'x') (.const 4 2)) (.const 5 3)) = [0, 2] := by decide +kernel

/-- `2(x + 3) = 8`: the inner `3` is not movable (nor is the 2, while an addition remains) -/
example : findNodes .balancedMove
    (.bin 1 .eq (.bin 2 .mul (.const 3 2) (.bin 4 .add (.var 5 'x') (.const 6 3))) (.const 7 8)) = [] := by
  decide +kernel

/-- `0x = 0`: nothing to divide by -/
example : findNodes .balancedMove
    (.bin 1 .eq (.bin 2 .mul (.const 3 0) (.var 4 'x')) (.const 5 0)) = [] := by decide +kernel

end Mathy
