/-
Source tie for util.py (see Props/SrcTie.lean for what "translated from the live source" means).
-/
import Mathy.Proofs.PySrcAgreeTerm
namespace Mathy
open Mathy.Py Mathy.Gen.Src Mathy.SrcAgree

/-- **Source tie, term extraction (C16, and the classifiers that call it).** `util.get_term_ex` as
translated from the live source is the model's `getTermEx`; the flag is the parent test
`isinstance(node.parent, PowerExpression)` read off the position. -/
theorem Src_get_term_ex (k : Ctx) (e : Ex) :
    get_term_ex (some ⟨k, e⟩) = getTermEx (parentIs .pow k) e :=
  get_term_ex_agree (some ⟨k, e⟩)

end Mathy
