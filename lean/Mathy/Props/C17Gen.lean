/-
Property C17 for the GENERATORS themselves (pretty-number mode): modelled as functions of an
explicit stream of random draws (Model/ProblemGen.lean; the real generators are replayed on
recorded draws against this model on every run).  For EVERY stream and every admissible parameter
setting the generator returns a problem whose text the parser accepts, a positive complexity, and
— where the generator promises one — a pair of like terms.
-/
import Mathy.Proofs.ProblemGenLemmas
import Mathy.Props.C17
namespace Mathy
open Gen

/-- the common second half of the haystack generators -/
theorem haystackFinish_valid (pc : Rat) (paren : Bool) (a b : PItem) (mid : List PItem) (numSplit : Nat)
    (noiseVars : List Char) (s : Stream)
    (ha : a.ok = true) (hb : b.ok = true) (hmid : ∀ it ∈ mid, it.ok = true)
    (hk : a.key.isSome = true) (hkk : a.key = b.key) :
    ∃ p nl nr, haystackFinish pc paren (a :: (mid ++ [b])) numSplit noiseVars s = some (p, nl, nr) ∧
      p.ok = true ∧ p.promisesLike = true := by
  unfold haystackFinish
  simp only []
  have hleft := noiseTerms_ok pc (splitS numSplit s).1.2 noiseVars (splitS numSplit s).2
  generalize noiseTerms pc (splitS numSplit s).1.2 noiseVars (splitS numSplit s).2 = L at hleft ⊢
  obtain ⟨⟨left, vars'⟩, s'⟩ := L
  have hright := noiseTerms_ok pc (splitS numSplit s).1.1 vars' s'
  generalize noiseTerms pc (splitS numSplit s).1.1 vars' s' = R at hright ⊢
  obtain ⟨⟨right, vars''⟩, s''⟩ := R
  simp only [] at hleft hright ⊢
  have hitems_ok : ∀ it ∈ left ++ (a :: (mid ++ [b])) ++ right, it.ok = true := by
    intro it h
    simp only [List.mem_append, List.mem_cons, List.not_mem_nil, or_false] at h
    rcases h with (h | h | h | h) | h
    · exact hleft it h
    · exact h ▸ ha
    · exact hmid it h
    · exact h ▸ hb
    · exact hright it h
  obtain ⟨p, hp, hok, hitems, hplus⟩ := sumProblem_ok (left ++ (a :: (mid ++ [b])) ++ right)
    (if paren then some (left.length, left.length + (a :: (mid ++ [b])).length - 1) else none)
    (by simp) hitems_ok (by
      intro gs ge hg
      cases paren with
      | false => simp at hg
      | true =>
        simp only [if_true, Option.some.injEq, Prod.mk.injEq] at hg
        obtain ⟨rfl, rfl⟩ := hg
        simp only [List.length_append, List.length_cons, List.length_nil]
        omega)
  rw [hp]
  refine ⟨p, left.length, right.length, rfl, hok, ?_⟩
  refine like_of_pair p hplus left.length (left.length + mid.length + 1) (by omega) a b ?_ ?_ hk hkk
  · rw [hitems]; simp
  · rw [hitems]
    have : left ++ (a :: (mid ++ [b])) ++ right = (left ++ a :: mid) ++ b :: right := by simp
    rw [this]
    have hl : (left ++ a :: mid).length = left.length + mid.length + 1 := by simp; omega
    rw [← hl]
    exact getElem?_mid _ _ _

theorem term_key (c : Option PNum) (v : Char) (p : Option (List Char)) :
    (PItem.term c v p).key = some (v, p) := rfl

theorem randint_ge (a b : Nat) (s : Stream) : a ≤ (randint a b s).1 := by
  simp [randint]

/-- **C17, `gen_combine_terms_in_place`.** For every stream of draws and all parameters with
`2 ≤ min_terms ≤ max_terms` (either `easy`, either `powers`): a well-formed sum with a pair of like
terms and positive complexity. -/
theorem C17_combine_valid (minT maxT : Nat) (easy powers : Bool) (s : Stream) (h1 : 2 ≤ minT) (h2 : minT ≤ maxT) :
    ∃ p cx, combineTermsInPlace minT maxT easy powers s = some (p, cx) ∧
      p.ok = true ∧ 0 < cx ∧ p.promisesLike = true := by
  unfold combineTermsInPlace
  rw [if_neg (by omega)]
  simp only []
  have hT := randint_ge minT maxT s
  generalize randint minT maxT s = R at hT ⊢
  obtain ⟨T, s1⟩ := R
  simp only [] at hT ⊢
  have hpool : variablesPool.length + 1 = 25 := by decide
  have htot : 2 ≤ min T (variablesPool.length + 1) := by rw [hpool]; omega
  have htot25 : min T (variablesPool.length + 1) ≤ 25 := by rw [hpool]; omega
  rw [if_neg (by omega)]
  obtain ⟨i, hi⟩ := randVar_pool s1
  generalize hrv : randVar s1 = RV at hi ⊢
  obtain ⟨var, s2⟩ := RV
  simp only [] at hi ⊢
  generalize hpc : (if powers = true then (80 : Rat) else 0) = pc
  have hpw := maybePower_ok pc s2
  generalize maybePower pc s2 = PW at hpw ⊢
  obtain ⟨power, s3⟩ := PW
  have hc1 := maybeNumber_ok 80 s3
  generalize maybeNumber 80 s3 = C1 at hc1 ⊢
  obtain ⟨c1, s4⟩ := C1
  have hc2 := maybeNumber_ok 80 s4
  generalize maybeNumber 80 s4 = C2 at hc2 ⊢
  obtain ⟨c2, s5⟩ := C2
  simp only [] at hpw hc1 hc2 ⊢
  have havail : min T (variablesPool.length + 1) - 2 ≤
      (variablesPool.filter (fun v => !([var].contains v))).length := by
    have := pool_minus_one i
    rw [← hi] at this
    omega
  obtain ⟨vs, hvs⟩ := getRandVarsS_some (min T (variablesPool.length + 1) - 2) [var] s5 (by omega) havail
  generalize getRandVarsS (min T (variablesPool.length + 1) - 2) [var] s5 = G at hvs ⊢
  obtain ⟨g, s6⟩ := G
  simp only [] at hvs
  subst hvs
  simp only []
  obtain ⟨p, nl, nr, hfin, hok, hlike⟩ := haystackFinish_valid pc easy (PItem.term c1 var power)
    (PItem.term c2 var power) [] (min T (variablesPool.length + 1) - 2) vs s6
    (term_ok _ _ _ hc1 hpw) (term_ok _ _ _ hc2 hpw) (by simp) (by simp [term_key]) (by simp [term_key])
  simp only [List.nil_append] at hfin
  rw [hfin]
  exact ⟨p, _, rfl, hok, by omega, hlike⟩

theorem randint_le (a b : Nat) (s : Stream) (h : a ≤ b) : (randint a b s).1 ≤ b := by
  have := draw_lt (b - a + 1) (by omega) s
  simp only [randint]
  omega

/-- **C17, `gen_commute_haystack`.** For every stream and all parameters with
`min_terms ≤ max_terms ≤ 25` and `1 ≤ commute_blockers ≤ 23`. -/
theorem C17_haystack_valid (minT maxT blockers : Nat) (easy powers : Bool) (s : Stream)
    (h2 : minT ≤ maxT) (h3 : maxT ≤ 25) (hb1 : 1 ≤ blockers) (hb2 : blockers ≤ 23) :
    ∃ p cx, commuteHaystack minT maxT blockers easy powers s = some (p, cx) ∧
      p.ok = true ∧ 0 < cx ∧ p.promisesLike = true := by
  unfold commuteHaystack
  rw [if_neg (by omega)]
  simp only []
  have hT := randint_le minT maxT s h2
  generalize randint minT maxT s = R at hT ⊢
  obtain ⟨T, s1⟩ := R
  simp only [] at hT ⊢
  obtain ⟨i, hi⟩ := randVar_pool s1
  generalize randVar s1 = RV at hi ⊢
  obtain ⟨var, s2⟩ := RV
  simp only [] at hi ⊢
  have havail : max (T - 2) blockers ≤ (variablesPool.filter (fun v => !([var].contains v))).length := by
    have := pool_minus_one i
    rw [← hi] at this
    omega
  obtain ⟨vs, hvs⟩ := getRandVarsS_some (max (T - 2) blockers) [var] s2 (by omega) havail
  generalize getRandVarsS (max (T - 2) blockers) [var] s2 = G at hvs ⊢
  obtain ⟨g, s3⟩ := G
  simp only [] at hvs
  subst hvs
  simp only []
  generalize (if powers = true then (80 : Rat) else 0) = pc
  have hpw := maybePower_ok pc s3
  generalize maybePower pc s3 = PW at hpw ⊢
  obtain ⟨power, s4⟩ := PW
  have hbl := noiseTerms_ok pc blockers vs s4
  generalize noiseTerms pc blockers vs s4 = BL at hbl ⊢
  obtain ⟨⟨blocks, vs'⟩, s5⟩ := BL
  have hc1 := maybeNumber_ok 80 s5
  generalize maybeNumber 80 s5 = C1 at hc1 ⊢
  obtain ⟨c1, s6⟩ := C1
  have hc2 := maybeNumber_ok 80 s6
  generalize maybeNumber 80 s6 = C2 at hc2 ⊢
  obtain ⟨c2, s7⟩ := C2
  generalize randBool (if easy = true then 50 else 10) s7 = PB
  obtain ⟨paren, s8⟩ := PB
  simp only [] at hpw hbl hc1 hc2 ⊢
  obtain ⟨p, nl, nr, hfin, hok, hlike⟩ := haystackFinish_valid pc paren (PItem.term c1 var power)
    (PItem.term c2 var power) blocks (max (T - 2) blockers - blockers) vs' s8
    (term_ok _ _ _ hc1 hpw) (term_ok _ _ _ hc2 hpw) hbl (by simp [term_key]) (by simp [term_key])
  have hfocus : [PItem.term c1 var power] ++ blocks ++ [PItem.term c2 var power]
      = PItem.term c1 var power :: (blocks ++ [PItem.term c2 var power]) := by simp
  rw [hfocus, hfin]
  exact ⟨p, _, rfl, hok, by omega, hlike⟩

theorem getBlocker_go_ok : ∀ (vs : List Char) (s : Stream), ∀ it ∈ (getBlocker.go vs s).1, it.ok = true := by
  intro vs
  induction vs with
  | nil => intro s it h; simp [getBlocker.go] at h
  | cons v vs ih =>
    intro s it h
    simp only [getBlocker.go, List.mem_cons] at h
    rcases h with rfl | h
    · exact term_ok _ _ _ (maybeNumber_ok _ _) (by intro t ht; cases ht)
    · exact ih _ _ h

/-- **C17, `gen_move_around_blockers_one`.** For every stream, every number of blockers up to 23
and every power probability. -/
theorem C17_blockers_one_valid (n : Nat) (pp : Rat) (s : Stream) (hn : n ≤ 23) :
    ∃ p cx, moveAroundBlockersOne n pp s = some (p, cx) ∧ p.ok = true ∧ 0 < cx ∧ p.promisesLike = true := by
  unfold moveAroundBlockersOne
  simp only []
  obtain ⟨i, hi⟩ := randVar_pool s
  generalize randVar s = RV at hi ⊢
  obtain ⟨var, s1⟩ := RV
  simp only [] at hi ⊢
  have hpw := maybePower_ok pp s1
  generalize maybePower pp s1 = PW at hpw ⊢
  obtain ⟨exp, s2⟩ := PW
  simp only [] at hpw ⊢
  have havail : n ≤ (variablesPool.filter (fun v => !([var].contains v))).length := by
    have := pool_minus_one i
    rw [← hi] at this
    omega
  obtain ⟨vs, hvs⟩ := getRandVarsS_some n [var] s2 (by omega) havail
  unfold getBlocker
  generalize getRandVarsS n [var] s2 = G at hvs ⊢
  obtain ⟨g, s3⟩ := G
  simp only [] at hvs
  subst hvs
  simp only []
  have hbl := getBlocker_go_ok (vs.take n) s3
  generalize getBlocker.go (vs.take n) s3 = BL at hbl ⊢
  obtain ⟨blockers, s4⟩ := BL
  have hc1 := maybeNumber_ok 80 s4
  generalize maybeNumber 80 s4 = C1 at hc1 ⊢
  obtain ⟨c1, s5⟩ := C1
  have hc2 := maybeNumber_ok 80 s5
  generalize maybeNumber 80 s5 = C2 at hc2 ⊢
  obtain ⟨c2, s6⟩ := C2
  simp only [] at hbl hc1 hc2 ⊢
  have hitems_ok : ∀ it ∈ [PItem.term c1 var exp] ++ blockers ++ [PItem.term c2 var exp], it.ok = true := by
    intro it h
    simp only [List.mem_append, List.mem_cons, List.not_mem_nil, or_false] at h
    rcases h with (h | h) | h
    · exact h ▸ term_ok _ _ _ hc1 hpw
    · exact hbl it h
    · exact h ▸ term_ok _ _ _ hc2 hpw
  obtain ⟨p, hp, hok, hitems, hplus⟩ := sumProblem_ok _ none (by simp) hitems_ok (by intro gs ge h; cases h)
  rw [hp]
  refine ⟨p, _, rfl, hok, by omega, ?_⟩
  refine like_of_pair p hplus 0 (blockers.length + 1) (by omega) (PItem.term c1 var exp) (PItem.term c2 var exp)
    ?_ ?_ (by simp [term_key]) (by simp [term_key])
  · rw [hitems]; simp
  · rw [hitems]
    have : [PItem.term c1 var exp] ++ blockers ++ [PItem.term c2 var exp]
        = (PItem.term c1 var exp :: blockers) ++ PItem.term c2 var exp :: [] := by simp
    rw [this]
    have hl : (PItem.term c1 var exp :: blockers).length = blockers.length + 1 := by simp
    rw [← hl]
    exact getElem?_mid _ _ _

theorem pool_minus_three (a b c : Char) :
    21 ≤ (variablesPool.filter (fun v => !([a, b, c].contains v))).length := by
  -- at most three of the 24 distinct letters are removed
  have hnd : variablesPool.Nodup := by decide
  have hcount : (variablesPool.filter (fun v => [a, b, c].contains v)).length ≤ 3 := by
    have hsub : (variablesPool.filter (fun v => [a, b, c].contains v)).Nodup := hnd.filter _
    have hmem : ∀ x ∈ variablesPool.filter (fun v => [a, b, c].contains v), x ∈ [a, b, c] := by
      intro x hx; simpa using (List.mem_filter.1 hx).2
    exact (List.Nodup.length_le_of_subset hsub hmem : _ ≤ [a, b, c].length)
  have hsplit := List.length_eq_countP_add_countP (fun v => [a, b, c].contains v) (l := variablesPool)
  have h24 : variablesPool.length = 24 := by decide
  rw [List.countP_eq_length_filter, List.countP_eq_length_filter] at hsplit
  have hb : ∀ q : Bool, (!q) = decide (¬ q = true) := by intro q; cases q <;> rfl
  have e : (variablesPool.filter (fun v => !([a, b, c].contains v)))
      = (variablesPool.filter (fun a_1 => decide ¬[a, b, c].contains a_1 = true)) := by
    apply List.filter_congr; intro x _; exact hb _
  rw [e]
  omega

/-- **C17, `gen_move_around_blockers_two`.** For every stream, every number of blockers up to 21
and every power probability. -/
theorem C17_blockers_two_valid (n : Nat) (pp : Rat) (s : Stream) (hn : n ≤ 21) :
    ∃ p cx, moveAroundBlockersTwo n pp s = some (p, cx) ∧ p.ok = true ∧ 0 < cx ∧ p.promisesLike = true := by
  unfold moveAroundBlockersTwo
  obtain ⟨vs, hvs⟩ := getRandVarsS_some 3 [] s (by omega) (by decide)
  have hlen := getRandVarsS_length 3 [] s vs hvs
  generalize getRandVarsS 3 [] s = G at hvs ⊢
  obtain ⟨g, s1⟩ := G
  simp only [] at hvs
  subst hvs
  obtain ⟨one, two, three, rfl⟩ : ∃ a b c, vs = [a, b, c] := by
    match vs, hlen with
    | [a, b, c], _ => exact ⟨a, b, c, rfl⟩
  simp only []
  have he1 := maybePower_ok pp s1
  generalize maybePower pp s1 = E1 at he1 ⊢
  obtain ⟨e1, s2⟩ := E1
  have he2 := maybePower_ok pp s2
  generalize maybePower pp s2 = E2 at he2 ⊢
  obtain ⟨e2, s3⟩ := E2
  have he3 := maybePower_ok pp s3
  generalize maybePower pp s3 = E3 at he3 ⊢
  obtain ⟨e3, s4⟩ := E3
  have hc1 := maybeNumber_ok 80 s4
  generalize maybeNumber 80 s4 = C1 at hc1 ⊢
  obtain ⟨c1, s5⟩ := C1
  have hc2 := maybeNumber_ok 80 s5
  generalize maybeNumber 80 s5 = C2 at hc2 ⊢
  obtain ⟨c2, s6⟩ := C2
  simp only [] at he1 he2 he3 hc1 hc2 ⊢
  obtain ⟨bvs, hbvs⟩ := getRandVarsS_some n [one, two, three] s6 (by omega)
    (by have := pool_minus_three one two three; omega)
  unfold getBlocker
  generalize getRandVarsS n [one, two, three] s6 = G2 at hbvs ⊢
  obtain ⟨g2, s7⟩ := G2
  simp only [] at hbvs
  subst hbvs
  simp only []
  have hbl := getBlocker_go_ok (bvs.take n) s7
  generalize getBlocker.go (bvs.take n) s7 = BL at hbl ⊢
  obtain ⟨blockers, s8⟩ := BL
  have hc3 := maybeNumber_ok 80 s8
  generalize maybeNumber 80 s8 = C3 at hc3 ⊢
  obtain ⟨c3, s9⟩ := C3
  have hc4 := maybeNumber_ok 80 s9
  generalize maybeNumber 80 s9 = C4 at hc4 ⊢
  obtain ⟨c4, s10⟩ := C4
  simp only [] at hbl hc3 hc4 ⊢
  have hitems_ok : ∀ it ∈ [PItem.term c1 one e1, PItem.term c2 two e2] ++ blockers ++
      [PItem.term c3 two e2, PItem.term c4 three e3], it.ok = true := by
    intro it h
    simp only [List.mem_append, List.mem_cons, List.not_mem_nil, or_false] at h
    rcases h with ((h | h) | h) | (h | h)
    · exact h ▸ term_ok _ _ _ hc1 he1
    · exact h ▸ term_ok _ _ _ hc2 he2
    · exact hbl it h
    · exact h ▸ term_ok _ _ _ hc3 he2
    · exact h ▸ term_ok _ _ _ hc4 he3
  obtain ⟨p, hp, hok, hitems, hplus⟩ := sumProblem_ok _ none (by simp) hitems_ok (by intro gs ge h; cases h)
  rw [hp]
  refine ⟨p, _, rfl, hok, by omega, ?_⟩
  refine like_of_pair p hplus 1 (blockers.length + 2) (by omega) (PItem.term c2 two e2) (PItem.term c3 two e2)
    ?_ ?_ (by simp [term_key]) (by simp [term_key])
  · rw [hitems]; simp
  · rw [hitems]
    have : [PItem.term c1 one e1, PItem.term c2 two e2] ++ blockers ++ [PItem.term c3 two e2, PItem.term c4 three e3]
        = (PItem.term c1 one e1 :: PItem.term c2 two e2 :: blockers) ++ PItem.term c3 two e2 :: [PItem.term c4 three e3] := by
      simp
    rw [this]
    have hl : (PItem.term c1 one e1 :: PItem.term c2 two e2 :: blockers).length = blockers.length + 2 := by simp
    rw [← hl]
    exact getElem?_mid _ _ _

/-! ### the two binomial generators -/

theorem binomialVars_go_ok (powers : Bool) (pp2 : Rat) : ∀ (vs : List Char) (s : Stream),
    ∀ q ∈ (binomialVars.go powers pp2 vs s).1, PowOk q.2 := by
  intro vs
  induction vs with
  | nil => intro s q h; simp [binomialVars.go] at h
  | cons v vs ih =>
    intro s q h
    cases powers with
    | true =>
      simp only [binomialVars.go, if_true, List.mem_cons] at h
      rcases h with rfl | h
      · exact maybePower_ok _ _
      · exact ih _ _ h
    | false =>
      simp only [binomialVars.go, Bool.false_eq_true, if_false, List.mem_cons] at h
      rcases h with rfl | h
      · intro t ht; cases ht
      · exact ih _ _ h

theorem binomialVars_ok (powers likeVars : Bool) (numVars : Nat) (pp2 : Rat) (s : Stream) (hn : numVars ≤ 24) :
    ∃ vars, (binomialVars powers likeVars numVars pp2 s).1 = some vars ∧ ∀ q ∈ vars, PowOk q.2 := by
  unfold binomialVars
  cases likeVars with
  | true =>
    simp only [if_true]
    cases powers with
    | true =>
      simp only [if_true]
      refine ⟨_, rfl, ?_⟩
      intro q hq
      rw [List.mem_replicate] at hq
      rw [hq.2]
      exact maybePower_ok _ _
    | false =>
      simp only [Bool.false_eq_true, if_false]
      refine ⟨_, rfl, ?_⟩
      intro q hq
      rw [List.mem_replicate] at hq
      rw [hq.2]
      intro t ht; cases ht
  | false =>
    simp only [Bool.false_eq_true, if_false]
    obtain ⟨vs, hvs⟩ := getRandVarsS_some numVars [] s (by omega) (by
      have : (variablesPool.filter (fun v => !([] : List Char).contains v)).length = 24 := by decide
      omega)
    generalize getRandVarsS numVars [] s = G at hvs ⊢
    obtain ⟨g, s1⟩ := G
    simp only [] at hvs
    subst hvs
    simp only []
    exact ⟨_, rfl, binomialVars_go_ok powers pp2 vs s1⟩

theorem binomialTerms_spec (simple : Bool) : ∀ (n : Nat) (vars : List (Char × Option (List Char))) (s : Stream),
    (∀ q ∈ vars, PowOk q.2) →
    (binomialTerms simple n vars s).1.length = n ∧ ∀ it ∈ (binomialTerms simple n vars s).1, it.ok = true := by
  intro n
  induction n with
  | zero => intro vars s _; simp [binomialTerms]
  | succ n ih =>
    intro vars s hv
    cases vars with
    | nil =>
      obtain ⟨h1, h2⟩ := ih [] (randNumber s).2 (by simp)
      simp only [binomialTerms, List.length_cons, List.mem_cons]
      refine ⟨by omega, ?_⟩
      rintro it (rfl | h)
      · simpa [PItem.ok] using randNumber_ok s
      · exact h2 it h
    | cons q vs =>
      obtain ⟨v, p⟩ := q
      have hp : PowOk p := hv (v, p) (by simp)
      have hvs : ∀ q ∈ vs, PowOk q.2 := fun q hq => hv q (by simp [hq])
      cases simple with
      | true =>
        obtain ⟨h1, h2⟩ := ih vs s hvs
        simp only [binomialTerms, if_true, List.length_cons, List.mem_cons]
        refine ⟨by omega, ?_⟩
        rintro it (rfl | h)
        · exact term_ok _ _ _ (by intro n hn; cases hn) hp
        · exact h2 it h
      | false =>
        obtain ⟨h1, h2⟩ := ih vs (randNumber s).2 hvs
        simp only [binomialTerms, Bool.false_eq_true, if_false, List.length_cons, List.mem_cons]
        refine ⟨by omega, ?_⟩
        rintro it (rfl | h)
        · exact term_ok _ _ _ (by intro n hn; cases hn; exact randNumber_ok s) hp
        · exact h2 it h

theorem shuffle2_ok (a b : PItem) (s : Stream) (ha : a.ok = true) (hb : b.ok = true) :
    (shuffle2 a b s).1.1.ok = true ∧ (shuffle2 a b s).1.2.ok = true := by
  unfold shuffle2
  simp only []
  split <;> simp [ha, hb]

/-- **C17, `gen_binomial_times_binomial`** (every stream; `min_vars ≤ max_vars ≤ 4`, any
`simple_variables`, any probabilities): a well-formed `(a + b)(c + d)` and complexity 6. -/
theorem C17_binomial_binomial_valid (minV maxV : Nat) (simple : Bool) (pp lp : Rat) (s : Stream)
    (h1 : minV ≤ maxV) (h2 : maxV ≤ 4) :
    ∃ p cx, binomialTimesBinomial minV maxV simple pp lp s = some (p, cx) ∧ p.ok = true ∧ 0 < cx := by
  unfold binomialTimesBinomial
  simp only []
  rw [if_neg (by omega)]
  have hN := randint_le minV maxV (randBool lp (randBool pp s).2).2 h1
  generalize randint minV maxV (randBool lp (randBool pp s).2).2 = R at hN ⊢
  obtain ⟨numVars, s3⟩ := R
  simp only [] at hN ⊢
  rw [if_neg (by omega)]
  obtain ⟨vars, hvars, hpow⟩ := binomialVars_ok (randBool pp s).1 (randBool lp (randBool pp s).2).1 numVars (pp * 2) s3 (by omega)
  generalize binomialVars (randBool pp s).1 (randBool lp (randBool pp s).2).1 numVars (pp * 2) s3 = BV at hvars ⊢
  obtain ⟨bv, s4⟩ := BV
  simp only [] at hvars
  subst hvars
  simp only []
  obtain ⟨hlen, hok⟩ := binomialTerms_spec simple 4 vars s4 hpow
  generalize binomialTerms simple 4 vars s4 = BT at hlen hok ⊢
  obtain ⟨ts, s5⟩ := BT
  simp only [] at hlen hok
  obtain ⟨t0, t1, t2, t3, rfl⟩ : ∃ a b c d, ts = [a, b, c, d] := by
    match ts, hlen with
    | [a, b, c, d], _ => exact ⟨a, b, c, d, rfl⟩
  simp only []
  have o0 := hok t0 (by simp)
  have o1 := hok t1 (by simp)
  have o2 := hok t2 (by simp)
  have o3 := hok t3 (by simp)
  obtain ⟨f0, f1⟩ := shuffle2_ok t0 t2 s5 o0 o2
  obtain ⟨g0, g1⟩ := shuffle2_ok t1 t3 (shuffle2 t0 t2 s5).2 o1 o3
  refine ⟨_, _, rfl, ?_, by omega⟩
  simp [BinomialProblem.ok, f0, f1, g0, g1]

/-- **C17, `gen_binomial_times_monomial`** (every stream; `min_vars ≤ max_vars ≤ 3`). -/
theorem C17_binomial_monomial_valid (minV maxV : Nat) (simple : Bool) (pp lp : Rat) (s : Stream)
    (h1 : minV ≤ maxV) (h2 : maxV ≤ 3) :
    ∃ p cx, binomialTimesMonomial minV maxV simple pp lp s = some (p, cx) ∧ p.ok = true ∧ 0 < cx := by
  unfold binomialTimesMonomial
  simp only []
  rw [if_neg (by omega)]
  have hN := randint_le minV maxV (randBool lp (randBool pp s).2).2 h1
  generalize randint minV maxV (randBool lp (randBool pp s).2).2 = R at hN ⊢
  obtain ⟨numVars, s3⟩ := R
  simp only [] at hN ⊢
  rw [if_neg (by omega)]
  obtain ⟨vars, hvars, hpow⟩ := binomialVars_ok (randBool pp s).1 (randBool lp (randBool pp s).2).1 numVars (pp * 2) s3 (by omega)
  generalize binomialVars (randBool pp s).1 (randBool lp (randBool pp s).2).1 numVars (pp * 2) s3 = BV at hvars ⊢
  obtain ⟨bv, s4⟩ := BV
  simp only [] at hvars
  subst hvars
  simp only []
  obtain ⟨hlen, hok⟩ := binomialTerms_spec simple 3 vars s4 hpow
  generalize binomialTerms simple 3 vars s4 = BT at hlen hok ⊢
  obtain ⟨ts, s5⟩ := BT
  simp only [] at hlen hok
  obtain ⟨t0, t1, t2, rfl⟩ : ∃ a b c, ts = [a, b, c] := by
    match ts, hlen with
    | [a, b, c], _ => exact ⟨a, b, c, rfl⟩
  simp only []
  have o0 := hok t0 (by simp)
  have o1 := hok t1 (by simp)
  have o2 := hok t2 (by simp)
  obtain ⟨f0, f1⟩ := shuffle2_ok t0 t2 s5 o0 o2
  refine ⟨_, _, rfl, ?_, by omega⟩
  simp [BinomialProblem.ok, f0, f1, o1]

/-- what C17 promises of a generated problem: the text is accepted by the parser, the complexity is
positive, and the parsed expression has like terms -/
def ValidProblem (r : Option (FlatProblem × Nat)) : Prop :=
  ∃ p cx e, r = some (p, cx) ∧ 0 < cx ∧ parseToks (p.toks ++ [eofTok]) = .ok e ∧ hasLikeTerms e = true

theorem valid_of (r : Option (FlatProblem × Nat))
    (h : ∃ p cx, r = some (p, cx) ∧ p.ok = true ∧ 0 < cx ∧ p.promisesLike = true) : ValidProblem r := by
  obtain ⟨p, cx, hr, hok, hcx, hl⟩ := h
  obtain ⟨e, he⟩ := C17_flat_parses p hok
  exact ⟨p, cx, e, hr, hcx, he, C17_like_promise p hok hl e he⟩

/-- **C17, end to end (model generators, every stream of draws).** -/
theorem C17_generators_valid (s : Stream) :
    (∀ minT maxT easy powers, 2 ≤ minT → minT ≤ maxT → ValidProblem (combineTermsInPlace minT maxT easy powers s)) ∧
    (∀ minT maxT blockers easy powers, minT ≤ maxT → maxT ≤ 25 → 1 ≤ blockers → blockers ≤ 23 →
      ValidProblem (commuteHaystack minT maxT blockers easy powers s)) ∧
    (∀ n pp, n ≤ 23 → ValidProblem (moveAroundBlockersOne n pp s)) ∧
    (∀ n pp, n ≤ 21 → ValidProblem (moveAroundBlockersTwo n pp s)) ∧
    (∀ minV maxV simple pp lp, minV ≤ maxV → maxV ≤ 4 → ∃ p cx e,
      binomialTimesBinomial minV maxV simple pp lp s = some (p, cx) ∧ 0 < cx ∧ parseToks (p.toks ++ [eofTok]) = .ok e) ∧
    (∀ minV maxV simple pp lp, minV ≤ maxV → maxV ≤ 3 → ∃ p cx e,
      binomialTimesMonomial minV maxV simple pp lp s = some (p, cx) ∧ 0 < cx ∧ parseToks (p.toks ++ [eofTok]) = .ok e) :=
  ⟨fun a b e p h1 h2 => valid_of _ (C17_combine_valid a b e p s h1 h2),
   fun a b c e p h1 h2 h3 h4 => valid_of _ (C17_haystack_valid a b c e p s h1 h2 h3 h4),
   fun n pp h => valid_of _ (C17_blockers_one_valid n pp s h),
   fun n pp h => valid_of _ (C17_blockers_two_valid n pp s h),
   fun a b sv pp lp h1 h2 => by
     obtain ⟨p, cx, hr, hok, hcx⟩ := C17_binomial_binomial_valid a b sv pp lp s h1 h2
     obtain ⟨e, he⟩ := C17_binomial_parses p hok
     exact ⟨p, cx, e, hr, hcx, he⟩,
   fun a b sv pp lp h1 h2 => by
     obtain ⟨p, cx, hr, hok, hcx⟩ := C17_binomial_monomial_valid a b sv pp lp s h1 h2
     obtain ⟨e, he⟩ := C17_binomial_parses p hok
     exact ⟨p, cx, e, hr, hcx, he⟩⟩

/-! non-vacuity: one concrete stream -/
example : (combineTermsInPlace 4 6 true false [1, 3, 50, 90, 5, 10, 7, 2, 1, 0, 4, 3, 2, 1, 0, 99, 20, 3, 50, 2, 90]).isSome = true := by
  decide +kernel

end Mathy
