/-
Property C17 for the GENERATORS themselves (pretty-number mode): modelled as functions of an
explicit stream of random draws (Model/ProblemGen.lean; the real generators are replayed on
recorded draws against this model on every run).  For EVERY stream and every admissible parameter
setting the generator returns a problem whose text the parser accepts, a positive complexity, and
— where the generator promises one — a pair of like terms.
-/
import Mathy.Proofs.ProblemGenLemmas
import Mathy.Props.C17
namespace Mathy
open Gen

/-- the common second half of the haystack generators -/
theorem haystackFinish_valid (pc : Rat) (paren : Bool) (a b : PItem) (mid : List PItem) (numSplit : Nat)
    (noiseVars : List Char) (s : Stream)
    (ha : a.ok = true) (hb : b.ok = true) (hmid : ∀ it ∈ mid, it.ok = true)
    (hk : a.key.isSome = true) (hkk : a.key = b.key) :
    ∃ p nl nr, haystackFinish pc paren (a :: (mid ++ [b])) numSplit noiseVars s = some (p, nl, nr) ∧
      p.ok = true ∧ p.promisesLike = true := by
  unfold haystackFinish
  simp only []
  have hleft := noiseTerms_ok pc (splitS numSplit s).1.2 noiseVars (splitS numSplit s).2
  generalize noiseTerms pc (splitS numSplit s).1.2 noiseVars (splitS numSplit s).2 = L at hleft ⊢
  obtain ⟨⟨left, vars'⟩, s'⟩ := L
  have hright := noiseTerms_ok pc (splitS numSplit s).1.1 vars' s'
  generalize noiseTerms pc (splitS numSplit s).1.1 vars' s' = R at hright ⊢
  obtain ⟨⟨right, vars''⟩, s''⟩ := R
  simp only [] at hleft hright ⊢
  have hitems_ok : ∀ it ∈ left ++ (a :: (mid ++ [b])) ++ right, it.ok = true := by
    intro it h
    simp only [List.mem_append, List.mem_cons, List.not_mem_nil, or_false] at h
    rcases h with (h | h | h | h) | h
    · exact hleft it h
    · exact h ▸ ha
    · exact hmid it h
    · exact h ▸ hb
    · exact hright it h
  obtain ⟨p, hp, hok, hitems, hplus⟩ := sumProblem_ok (left ++ (a :: (mid ++ [b])) ++ right)
    (if paren then some (left.length, left.length + (a :: (mid ++ [b])).length - 1) else none)
    (by simp) hitems_ok (by
      intro gs ge hg
      cases paren with
      | false => simp at hg
      | true =>
        simp only [if_true, Option.some.injEq, Prod.mk.injEq] at hg
        obtain ⟨rfl, rfl⟩ := hg
        simp only [List.length_append, List.length_cons, List.length_nil]
        omega)
  rw [hp]
  refine ⟨p, left.length, right.length, rfl, hok, ?_⟩
  refine like_of_pair p hplus left.length (left.length + mid.length + 1) (by omega) a b ?_ ?_ hk hkk
  · rw [hitems]; simp
  · rw [hitems]
    have : left ++ (a :: (mid ++ [b])) ++ right = (left ++ a :: mid) ++ b :: right := by simp
    rw [this]
    have hl : (left ++ a :: mid).length = left.length + mid.length + 1 := by simp; omega
    rw [← hl]
    exact getElem?_mid _ _ _

theorem term_key (c : Option PNum) (v : Char) (p : Option (List Char)) :
    (PItem.term c v p).key = some (v, p) := rfl

theorem randint_ge (a b : Nat) (s : Stream) : a ≤ (randint a b s).1 := by
  simp [randint]

/-- **C17, `gen_combine_terms_in_place`.** For every stream of draws and all parameters with
`2 ≤ min_terms ≤ max_terms` (either `easy`, either `powers`): a well-formed sum with a pair of like
terms and positive complexity. -/
theorem C17_combine_valid (minT maxT : Nat) (easy powers : Bool) (s : Stream) (h1 : 2 ≤ minT) (h2 : minT ≤ maxT) :
    ∃ p cx, combineTermsInPlace minT maxT easy powers s = some (p, cx) ∧
      p.ok = true ∧ 0 < cx ∧ p.promisesLike = true := by
  unfold combineTermsInPlace
  rw [if_neg (by omega)]
  simp only []
  have hT := randint_ge minT maxT s
  generalize randint minT maxT s = R at hT ⊢
  obtain ⟨T, s1⟩ := R
  simp only [] at hT ⊢
  have hpool : variablesPool.length + 1 = 25 := by decide
  have htot : 2 ≤ min T (variablesPool.length + 1) := by rw [hpool]; omega
  have htot25 : min T (variablesPool.length + 1) ≤ 25 := by rw [hpool]; omega
  rw [if_neg (by omega)]
  obtain ⟨i, hi⟩ := randVar_pool s1
  generalize hrv : randVar s1 = RV at hi ⊢
  obtain ⟨var, s2⟩ := RV
  simp only [] at hi ⊢
  generalize hpc : (if powers = true then (80 : Rat) else 0) = pc
  have hpw := maybePower_ok pc s2
  generalize maybePower pc s2 = PW at hpw ⊢
  obtain ⟨power, s3⟩ := PW
  have hc1 := maybeNumber_ok 80 s3
  generalize maybeNumber 80 s3 = C1 at hc1 ⊢
  obtain ⟨c1, s4⟩ := C1
  have hc2 := maybeNumber_ok 80 s4
  generalize maybeNumber 80 s4 = C2 at hc2 ⊢
  obtain ⟨c2, s5⟩ := C2
  simp only [] at hpw hc1 hc2 ⊢
  have havail : min T (variablesPool.length + 1) - 2 ≤
      (variablesPool.filter (fun v => !([var].contains v))).length := by
    have := pool_minus_one i
    rw [← hi] at this
    omega
  obtain ⟨vs, hvs⟩ := getRandVarsS_some (min T (variablesPool.length + 1) - 2) [var] s5 (by omega) havail
  generalize getRandVarsS (min T (variablesPool.length + 1) - 2) [var] s5 = G at hvs ⊢
  obtain ⟨g, s6⟩ := G
  simp only [] at hvs
  subst hvs
  simp only []
  obtain ⟨p, nl, nr, hfin, hok, hlike⟩ := haystackFinish_valid pc easy (PItem.term c1 var power)
    (PItem.term c2 var power) [] (min T (variablesPool.length + 1) - 2) vs s6
    (term_ok _ _ _ hc1 hpw) (term_ok _ _ _ hc2 hpw) (by simp) (by simp [term_key]) (by simp [term_key])
  simp only [List.nil_append] at hfin
  rw [hfin]
  exact ⟨p, _, rfl, hok, by omega, hlike⟩

theorem randint_le (a b : Nat) (s : Stream) (h : a ≤ b) : (randint a b s).1 ≤ b := by
  have := draw_lt (b - a + 1) (by omega) s
  simp only [randint]
  omega

/-- **C17, `gen_commute_haystack`.** For every stream and all parameters with
`min_terms ≤ max_terms ≤ 25` and `1 ≤ commute_blockers ≤ 23`. -/
theorem C17_haystack_valid (minT maxT blockers : Nat) (easy powers : Bool) (s : Stream)
    (h2 : minT ≤ maxT) (h3 : maxT ≤ 25) (hb1 : 1 ≤ blockers) (hb2 : blockers ≤ 23) :
    ∃ p cx, commuteHaystack minT maxT blockers easy powers s = some (p, cx) ∧
      p.ok = true ∧ 0 < cx ∧ p.promisesLike = true := by
  unfold commuteHaystack
  rw [if_neg (by omega)]
  simp only []
  have hT := randint_le minT maxT s h2
  generalize randint minT maxT s = R at hT ⊢
  obtain ⟨T, s1⟩ := R
  simp only [] at hT ⊢
  obtain ⟨i, hi⟩ := randVar_pool s1
  generalize randVar s1 = RV at hi ⊢
  obtain ⟨var, s2⟩ := RV
  simp only [] at hi ⊢
  have havail : max (T - 2) blockers ≤ (variablesPool.filter (fun v => !([var].contains v))).length := by
    have := pool_minus_one i
    rw [← hi] at this
    omega
  obtain ⟨vs, hvs⟩ := getRandVarsS_some (max (T - 2) blockers) [var] s2 (by omega) havail
  generalize getRandVarsS (max (T - 2) blockers) [var] s2 = G at hvs ⊢
  obtain ⟨g, s3⟩ := G
  simp only [] at hvs
  subst hvs
  simp only []
  generalize (if powers = true then (80 : Rat) else 0) = pc
  have hpw := maybePower_ok pc s3
  generalize maybePower pc s3 = PW at hpw ⊢
  obtain ⟨power, s4⟩ := PW
  have hbl := noiseTerms_ok pc blockers vs s4
  generalize noiseTerms pc blockers vs s4 = BL at hbl ⊢
  obtain ⟨⟨blocks, vs'⟩, s5⟩ := BL
  have hc1 := maybeNumber_ok 80 s5
  generalize maybeNumber 80 s5 = C1 at hc1 ⊢
  obtain ⟨c1, s6⟩ := C1
  have hc2 := maybeNumber_ok 80 s6
  generalize maybeNumber 80 s6 = C2 at hc2 ⊢
  obtain ⟨c2, s7⟩ := C2
  generalize randBool (if easy = true then 50 else 10) s7 = PB
  obtain ⟨paren, s8⟩ := PB
  simp only [] at hpw hbl hc1 hc2 ⊢
  obtain ⟨p, nl, nr, hfin, hok, hlike⟩ := haystackFinish_valid pc paren (PItem.term c1 var power)
    (PItem.term c2 var power) blocks (max (T - 2) blockers - blockers) vs' s8
    (term_ok _ _ _ hc1 hpw) (term_ok _ _ _ hc2 hpw) hbl (by simp [term_key]) (by simp [term_key])
  have hfocus : [PItem.term c1 var power] ++ blocks ++ [PItem.term c2 var power]
      = PItem.term c1 var power :: (blocks ++ [PItem.term c2 var power]) := by simp
  rw [hfocus, hfin]
  exact ⟨p, _, rfl, hok, by omega, hlike⟩

theorem getBlocker_go_ok : ∀ (vs : List Char) (s : Stream), ∀ it ∈ (getBlocker.go vs s).1, it.ok = true := by
  intro vs
  induction vs with
  | nil => intro s it h; simp [getBlocker.go] at h
  | cons v vs ih =>
    intro s it h
    simp only [getBlocker.go, List.mem_cons] at h
    rcases h with rfl | h
    · exact term_ok _ _ _ (maybeNumber_ok _ _) (by intro t ht; cases ht)
    · exact ih _ _ h

/-- **C17, `gen_move_around_blockers_one`.** For every stream, every number of blockers up to 23
and every power probability. -/
theorem C17_blockers_one_valid (n : Nat) (pp : Rat) (s : Stream) (hn : n ≤ 23) :
    ∃ p cx, moveAroundBlockersOne n pp s = some (p, cx) ∧ p.ok = true ∧ 0 < cx ∧ p.promisesLike = true := by
  unfold moveAroundBlockersOne
  simp only []
  obtain ⟨i, hi⟩ := randVar_pool s
  generalize randVar s = RV at hi ⊢
  obtain ⟨var, s1⟩ := RV
  simp only [] at hi ⊢
  have hpw := maybePower_ok pp s1
  generalize maybePower pp s1 = PW at hpw ⊢
  obtain ⟨exp, s2⟩ := PW
  simp only [] at hpw ⊢
  have havail : n ≤ (variablesPool.filter (fun v => !([var].contains v))).length := by
    have := pool_minus_one i
    rw [← hi] at this
    omega
  obtain ⟨vs, hvs⟩ := getRandVarsS_some n [var] s2 (by omega) havail
  unfold getBlocker
  generalize getRandVarsS n [var] s2 = G at hvs ⊢
  obtain ⟨g, s3⟩ := G
  simp only [] at hvs
  subst hvs
  simp only []
  have hbl := getBlocker_go_ok (vs.take n) s3
  generalize getBlocker.go (vs.take n) s3 = BL at hbl ⊢
  obtain ⟨blockers, s4⟩ := BL
  have hc1 := maybeNumber_ok 80 s4
  generalize maybeNumber 80 s4 = C1 at hc1 ⊢
  obtain ⟨c1, s5⟩ := C1
  have hc2 := maybeNumber_ok 80 s5
  generalize maybeNumber 80 s5 = C2 at hc2 ⊢
  obtain ⟨c2, s6⟩ := C2
  simp only [] at hbl hc1 hc2 ⊢
  have hitems_ok : ∀ it ∈ [PItem.term c1 var exp] ++ blockers ++ [PItem.term c2 var exp], it.ok = true := by
    intro it h
    simp only [List.mem_append, List.mem_cons, List.not_mem_nil, or_false] at h
    rcases h with (h | h) | h
    · exact h ▸ term_ok _ _ _ hc1 hpw
    · exact hbl it h
    · exact h ▸ term_ok _ _ _ hc2 hpw
  obtain ⟨p, hp, hok, hitems, hplus⟩ := sumProblem_ok _ none (by simp) hitems_ok (by intro gs ge h; cases h)
  rw [hp]
  refine ⟨p, _, rfl, hok, by omega, ?_⟩
  refine like_of_pair p hplus 0 (blockers.length + 1) (by omega) (PItem.term c1 var exp) (PItem.term c2 var exp)
    ?_ ?_ (by simp [term_key]) (by simp [term_key])
  · rw [hitems]; simp
  · rw [hitems]
    have : [PItem.term c1 var exp] ++ blockers ++ [PItem.term c2 var exp]
        = (PItem.term c1 var exp :: blockers) ++ PItem.term c2 var exp :: [] := by simp
    rw [this]
    have hl : (PItem.term c1 var exp :: blockers).length = blockers.length + 1 := by simp
    rw [← hl]
    exact getElem?_mid _ _ _

theorem pool_minus_three (a b c : Char) :
    21 ≤ (variablesPool.filter (fun v => !([a, b, c].contains v))).length := by
  -- at most three of the 24 distinct letters are removed
  have hnd : variablesPool.Nodup := by decide
  have hcount : (variablesPool.filter (fun v => [a, b, c].contains v)).length ≤ 3 := by
    have hsub : (variablesPool.filter (fun v => [a, b, c].contains v)).Nodup := hnd.filter _
    have hmem : ∀ x ∈ variablesPool.filter (fun v => [a, b, c].contains v), x ∈ [a, b, c] := by
      intro x hx; simpa using (List.mem_filter.1 hx).2
    exact (List.Nodup.length_le_of_subset hsub hmem : _ ≤ [a, b, c].length)
  have hsplit := List.length_eq_countP_add_countP (fun v => [a, b, c].contains v) (l := variablesPool)
  have h24 : variablesPool.length = 24 := by decide
  rw [List.countP_eq_length_filter, List.countP_eq_length_filter] at hsplit
  have hb : ∀ q : Bool, (!q) = decide (¬ q = true) := by intro q; cases q <;> rfl
  have e : (variablesPool.filter (fun v => !([a, b, c].contains v)))
      = (variablesPool.filter (fun a_1 => decide ¬[a, b, c].contains a_1 = true)) := by
    apply List.filter_congr; intro x _; exact hb _
  rw [e]
  omega

/-- **C17, `gen_move_around_blockers_two`.** For every stream, every number of blockers up to 21
and every power probability. -/
theorem C17_blockers_two_valid (n : Nat) (pp : Rat) (s : Stream) (hn : n ≤ 21) :
    ∃ p cx, moveAroundBlockersTwo n pp s = some (p, cx) ∧ p.ok = true ∧ 0 < cx ∧ p.promisesLike = true := by
  unfold moveAroundBlockersTwo
  obtain ⟨vs, hvs⟩ := getRandVarsS_some 3 [] s (by omega) (by decide)
  have hlen := getRandVarsS_length 3 [] s vs hvs
  generalize getRandVarsS 3 [] s = G at hvs ⊢
  obtain ⟨g, s1⟩ := G
  simp only [] at hvs
  subst hvs
  obtain ⟨one, two, three, rfl⟩ : ∃ a b c, vs = [a, b, c] := by
    match vs, hlen with
    | [a, b, c], _ => exact ⟨a, b, c, rfl⟩
  simp only []
  have he1 := maybePower_ok pp s1
  generalize maybePower pp s1 = E1 at he1 ⊢
  obtain ⟨e1, s2⟩ := E1
  have he2 := maybePower_ok pp s2
  generalize maybePower pp s2 = E2 at he2 ⊢
  obtain ⟨e2, s3⟩ := E2
  have he3 := maybePower_ok pp s3
  generalize maybePower pp s3 = E3 at he3 ⊢
  obtain ⟨e3, s4⟩ := E3
  have hc1 := maybeNumber_ok 80 s4
  generalize maybeNumber 80 s4 = C1 at hc1 ⊢
  obtain ⟨c1, s5⟩ := C1
  have hc2 := maybeNumber_ok 80 s5
  generalize maybeNumber 80 s5 = C2 at hc2 ⊢
  obtain ⟨c2, s6⟩ := C2
  simp only [] at he1 he2 he3 hc1 hc2 ⊢
  obtain ⟨bvs, hbvs⟩ := getRandVarsS_some n [one, two, three] s6 (by omega)
    (by have := pool_minus_three one two three; omega)
  unfold getBlocker
  generalize getRandVarsS n [one, two, three] s6 = G2 at hbvs ⊢
  obtain ⟨g2, s7⟩ := G2
  simp only [] at hbvs
  subst hbvs
  simp only []
  have hbl := getBlocker_go_ok (bvs.take n) s7
  generalize getBlocker.go (bvs.take n) s7 = BL at hbl ⊢
  obtain ⟨blockers, s8⟩ := BL
  have hc3 := maybeNumber_ok 80 s8
  generalize maybeNumber 80 s8 = C3 at hc3 ⊢
  obtain ⟨c3, s9⟩ := C3
  have hc4 := maybeNumber_ok 80 s9
  generalize maybeNumber 80 s9 = C4 at hc4 ⊢
  obtain ⟨c4, s10⟩ := C4
  simp only [] at hbl hc3 hc4 ⊢
  have hitems_ok : ∀ it ∈ [PItem.term c1 one e1, PItem.term c2 two e2] ++ blockers ++
      [PItem.term c3 two e2, PItem.term c4 three e3], it.ok = true := by
    intro it h
    simp only [List.mem_append, List.mem_cons, List.not_mem_nil, or_false] at h
    rcases h with ((h | h) | h) | (h | h)
    · exact h ▸ term_ok _ _ _ hc1 he1
    · exact h ▸ term_ok _ _ _ hc2 he2
    · exact hbl it h
    · exact h ▸ term_ok _ _ _ hc3 he2
    · exact h ▸ term_ok _ _ _ hc4 he3
  obtain ⟨p, hp, hok, hitems, hplus⟩ := sumProblem_ok _ none (by simp) hitems_ok (by intro gs ge h; cases h)
  rw [hp]
  refine ⟨p, _, rfl, hok, by omega, ?_⟩
  refine like_of_pair p hplus 1 (blockers.length + 2) (by omega) (PItem.term c2 two e2) (PItem.term c3 two e2)
    ?_ ?_ (by simp [term_key]) (by simp [term_key])
  · rw [hitems]; simp
  · rw [hitems]
    have : [PItem.term c1 one e1, PItem.term c2 two e2] ++ blockers ++ [PItem.term c3 two e2, PItem.term c4 three e3]
        = (PItem.term c1 one e1 :: PItem.term c2 two e2 :: blockers) ++ PItem.term c3 two e2 :: [PItem.term c4 three e3] := by
      simp
    rw [this]
    have hl : (PItem.term c1 one e1 :: PItem.term c2 two e2 :: blockers).length = blockers.length + 2 := by simp
    rw [← hl]
    exact getElem?_mid _ _ _

/-! ### the two binomial generators -/

theorem binomialVars_go_ok (powers : Bool) (pp2 : Rat) : ∀ (vs : List Char) (s : Stream),
    ∀ q ∈ (binomialVars.go powers pp2 vs s).1, PowOk q.2 := by
  intro vs
  induction vs with
  | nil => intro s q h; simp [binomialVars.go] at h
  | cons v vs ih =>
    intro s q h
    cases powers with
    | true =>
      simp only [binomialVars.go, if_true, List.mem_cons] at h
      rcases h with rfl | h
      · exact maybePower_ok _ _
      · exact ih _ _ h
    | false =>
      simp only [binomialVars.go, Bool.false_eq_true, if_false, List.mem_cons] at h
      rcases h with rfl | h
      · intro t ht; cases ht
      · exact ih _ _ h

theorem binomialVars_ok (powers likeVars : Bool) (numVars : Nat) (pp2 : Rat) (s : Stream) (hn : numVars ≤ 24) :
    ∃ vars, (binomialVars powers likeVars numVars pp2 s).1 = some vars ∧ ∀ q ∈ vars, PowOk q.2 := by
  unfold binomialVars
  cases likeVars with
  | true =>
    simp only [if_true]
    cases powers with
    | true =>
      simp only [if_true]
      refine ⟨_, rfl, ?_⟩
      intro q hq
      rw [List.mem_replicate] at hq
      rw [hq.2]
      exact maybePower_ok _ _
    | false =>
      simp only [Bool.false_eq_true, if_false]
      refine ⟨_, rfl, ?_⟩
      intro q hq
      rw [List.mem_replicate] at hq
      rw [hq.2]
      intro t ht; cases ht
  | false =>
    simp only [Bool.false_eq_true, if_false]
    obtain ⟨vs, hvs⟩ := getRandVarsS_some numVars [] s (by omega) (by
      have : (variablesPool.filter (fun v => !([] : List Char).contains v)).length = 24 := by decide
      omega)
    generalize getRandVarsS numVars [] s = G at hvs ⊢
    obtain ⟨g, s1⟩ := G
    simp only [] at hvs
    subst hvs
    simp only []
    exact ⟨_, rfl, binomialVars_go_ok powers pp2 vs s1⟩

theorem binomialTerms_spec (simple : Bool) : ∀ (n : Nat) (vars : List (Char × Option (List Char))) (s : Stream),
    (∀ q ∈ vars, PowOk q.2) →
    (binomialTerms simple n vars s).1.length = n ∧ ∀ it ∈ (binomialTerms simple n vars s).1, it.ok = true := by
  intro n
  induction n with
  | zero => intro vars s _; simp [binomialTerms]
  | succ n ih =>
    intro vars s hv
    cases vars with
    | nil =>
      obtain ⟨h1, h2⟩ := ih [] (randNumber s).2 (by simp)
      simp only [binomialTerms, List.length_cons, List.mem_cons]
      refine ⟨by omega, ?_⟩
      rintro it (rfl | h)
      · simpa [PItem.ok] using randNumber_ok s
      · exact h2 it h
    | cons q vs =>
      obtain ⟨v, p⟩ := q
      have hp : PowOk p := hv (v, p) (by simp)
      have hvs : ∀ q ∈ vs, PowOk q.2 := fun q hq => hv q (by simp [hq])
      cases simple with
      | true =>
        obtain ⟨h1, h2⟩ := ih vs s hvs
        simp only [binomialTerms, if_true, List.length_cons, List.mem_cons]
        refine ⟨by omega, ?_⟩
        rintro it (rfl | h)
        · exact term_ok _ _ _ (by intro n hn; cases hn) hp
        · exact h2 it h
      | false =>
        obtain ⟨h1, h2⟩ := ih vs (randNumber s).2 hvs
        simp only [binomialTerms, Bool.false_eq_true, if_false, List.length_cons, List.mem_cons]
        refine ⟨by omega, ?_⟩
        rintro it (rfl | h)
        · exact term_ok _ _ _ (by intro n hn; cases hn; exact randNumber_ok s) hp
        · exact h2 it h

theorem shuffle2_ok (a b : PItem) (s : Stream) (ha : a.ok = true) (hb : b.ok = true) :
    (shuffle2 a b s).1.1.ok = true ∧ (shuffle2 a b s).1.2.ok = true := by
  unfold shuffle2
  simp only []
  split <;> simp [ha, hb]

/-- **C17, `gen_binomial_times_binomial`** (every stream; `min_vars ≤ max_vars ≤ 4`, any
`simple_variables`, any probabilities): a well-formed `(a + b)(c + d)` and complexity 6. -/
theorem C17_binomial_binomial_valid (minV maxV : Nat) (simple : Bool) (pp lp : Rat) (s : Stream)
    (h1 : minV ≤ maxV) (h2 : maxV ≤ 4) :
    ∃ p cx, binomialTimesBinomial minV maxV simple pp lp s = some (p, cx) ∧ p.ok = true ∧ 0 < cx := by
  unfold binomialTimesBinomial
  simp only []
  rw [if_neg (by omega)]
  have hN := randint_le minV maxV (randBool lp (randBool pp s).2).2 h1
  generalize randint minV maxV (randBool lp (randBool pp s).2).2 = R at hN ⊢
  obtain ⟨numVars, s3⟩ := R
  simp only [] at hN ⊢
  rw [if_neg (by omega)]
  obtain ⟨vars, hvars, hpow⟩ := binomialVars_ok (randBool pp s).1 (randBool lp (randBool pp s).2).1 numVars (pp * 2) s3 (by omega)
  generalize binomialVars (randBool pp s).1 (randBool lp (randBool pp s).2).1 numVars (pp * 2) s3 = BV at hvars ⊢
  obtain ⟨bv, s4⟩ := BV
  simp only [] at hvars
  subst hvars
  simp only []
  obtain ⟨hlen, hok⟩ := binomialTerms_spec simple 4 vars s4 hpow
  generalize binomialTerms simple 4 vars s4 = BT at hlen hok ⊢
  obtain ⟨ts, s5⟩ := BT
  simp only [] at hlen hok
  obtain ⟨t0, t1, t2, t3, rfl⟩ : ∃ a b c d, ts = [a, b, c, d] := by
    match ts, hlen with
    | [a, b, c, d], _ => exact ⟨a, b, c, d, rfl⟩
  simp only []
  have o0 := hok t0 (by simp)
  have o1 := hok t1 (by simp)
  have o2 := hok t2 (by simp)
  have o3 := hok t3 (by simp)
  obtain ⟨f0, f1⟩ := shuffle2_ok t0 t2 s5 o0 o2
  obtain ⟨g0, g1⟩ := shuffle2_ok t1 t3 (shuffle2 t0 t2 s5).2 o1 o3
  refine ⟨_, _, rfl, ?_, by omega⟩
  simp [BinomialProblem.ok, f0, f1, g0, g1]

/-- **C17, `gen_binomial_times_monomial`** (every stream; `min_vars ≤ max_vars ≤ 3`). -/
theorem C17_binomial_monomial_valid (minV maxV : Nat) (simple : Bool) (pp lp : Rat) (s : Stream)
    (h1 : minV ≤ maxV) (h2 : maxV ≤ 3) :
    ∃ p cx, binomialTimesMonomial minV maxV simple pp lp s = some (p, cx) ∧ p.ok = true ∧ 0 < cx := by
  unfold binomialTimesMonomial
  simp only []
  rw [if_neg (by omega)]
  have hN := randint_le minV maxV (randBool lp (randBool pp s).2).2 h1
  generalize randint minV maxV (randBool lp (randBool pp s).2).2 = R at hN ⊢
  obtain ⟨numVars, s3⟩ := R
  simp only [] at hN ⊢
  rw [if_neg (by omega)]
  obtain ⟨vars, hvars, hpow⟩ := binomialVars_ok (randBool pp s).1 (randBool lp (randBool pp s).2).1 numVars (pp * 2) s3 (by omega)
  generalize binomialVars (randBool pp s).1 (randBool lp (randBool pp s).2).1 numVars (pp * 2) s3 = BV at hvars ⊢
  obtain ⟨bv, s4⟩ := BV
  simp only [] at hvars
  subst hvars
  simp only []
  obtain ⟨hlen, hok⟩ := binomialTerms_spec simple 3 vars s4 hpow
  generalize binomialTerms simple 3 vars s4 = BT at hlen hok ⊢
  obtain ⟨ts, s5⟩ := BT
  simp only [] at hlen hok
  obtain ⟨t0, t1, t2, rfl⟩ : ∃ a b c, ts = [a, b, c] := by
    match ts, hlen with
    | [a, b, c], _ => exact ⟨a, b, c, rfl⟩
  simp only []
  have o0 := hok t0 (by simp)
  have o1 := hok t1 (by simp)
  have o2 := hok t2 (by simp)
  obtain ⟨f0, f1⟩ := shuffle2_ok t0 t2 s5 o0 o2
  refine ⟨_, _, rfl, ?_, by omega⟩
  simp [BinomialProblem.ok, f0, f1, o1]

/-! ### `gen_simplify_multiple_terms` -/

theorem simplifyTemplates_spec (numTerms numLike : Nat) (useNoise : Bool) (pp svp : Rat) (likeVars : List Char)
    (s : Stream) (h2 : 2 ≤ numTerms) (hl : likeVars.length = numLike) (hn : 1 ≤ numLike) :
    numTerms ≤ (simplifyTemplates numTerms numLike useNoise pp svp likeVars s).1.length ∧
    ∀ t ∈ (simplifyTemplates numTerms numLike useNoise pp svp likeVars s).1, TemplOk t := by
  unfold simplifyTemplates
  simp only []
  generalize randBool svp s = SV
  obtain ⟨shareVar, s1⟩ := SV
  simp only []
  -- the shared power
  have hsp : ∀ (b : Bool), PowOk (if b = true then maybePower 100 s1 else (none, s1)).1 := by
    intro b; cases b
    · intro t ht; cases ht
    · exact maybePower_ok _ _
  have hspow := hsp shareVar
  generalize (if shareVar = true then maybePower 100 s1 else ((none : Option (List Char)), s1)) = SP at hspow ⊢
  obtain ⟨sharedPow, s2⟩ := SP
  simp only [] at hspow ⊢
  -- the templates before repetition: non-empty, all well formed
  have htempl : ∀ (b : Bool),
      1 ≤ (if b = true then
            ((likeVars.headD 'a', (none : Option (List Char))) :: (likeVars.headD 'a', sharedPow) :: (adorn pp (likeVars.drop 2) s2).1,
              (adorn pp (likeVars.drop 2) s2).2)
          else adorn pp likeVars s2).1.length ∧
      ∀ t ∈ (if b = true then
            ((likeVars.headD 'a', (none : Option (List Char))) :: (likeVars.headD 'a', sharedPow) :: (adorn pp (likeVars.drop 2) s2).1,
              (adorn pp (likeVars.drop 2) s2).2)
          else adorn pp likeVars s2).1, TemplOk t := by
    intro b
    cases b
    · simp only [Bool.false_eq_true, if_false]
      exact ⟨by rw [adorn_length]; omega, adorn_ok pp likeVars s2⟩
    · simp only [if_true]
      refine ⟨by simp, ?_⟩
      intro t ht
      simp only [List.mem_cons] at ht
      rcases ht with rfl | rfl | ht
      · intro x hx; cases hx
      · exact hspow
      · exact adorn_ok pp _ s2 t ht
  obtain ⟨hlen, hok⟩ := htempl (shareVar && decide (1 < numLike) && !useNoise)
  generalize (if (shareVar && decide (1 < numLike) && !useNoise) = true then
      ((likeVars.headD 'a', (none : Option (List Char))) :: (likeVars.headD 'a', sharedPow) :: (adorn pp (likeVars.drop 2) s2).1,
        (adorn pp (likeVars.drop 2) s2).2)
    else adorn pp likeVars s2) = TT at hlen hok ⊢
  obtain ⟨templates, s3⟩ := TT
  simp only [] at hlen hok ⊢
  constructor
  · rw [List.length_append, List.length_take, List.length_flatten]
    have : (List.map List.length (List.replicate numTerms templates)).sum = numTerms * templates.length := by
      simp
    rw [this]
    have : numTerms ≤ numTerms * templates.length := Nat.le_mul_of_pos_right _ (by omega)
    omega
  · intro t ht
    rw [List.mem_append] at ht
    rcases ht with ht | ht
    · have := List.mem_of_mem_take ht
      rw [List.mem_flatten] at this
      obtain ⟨l, hl', htl⟩ := this
      rw [List.mem_replicate] at hl'
      exact hok t (hl'.2 ▸ htl)
    · split at ht
      · simp only [List.mem_singleton] at ht
        rw [ht]; exact hspow
      · cases ht

theorem pool_minus_list (l : List Char) :
    24 - l.length ≤ (variablesPool.filter (fun v => !(l.contains v))).length := by
  have hnd : variablesPool.Nodup := by decide
  have hcount : (variablesPool.filter (fun v => l.contains v)).length ≤ l.length := by
    have hsub : (variablesPool.filter (fun v => l.contains v)).Nodup := hnd.filter _
    have hmem : ∀ x ∈ variablesPool.filter (fun v => l.contains v), x ∈ l := by
      intro x hx; simpa using (List.mem_filter.1 hx).2
    exact List.Nodup.length_le_of_subset hsub hmem
  have hsplit := List.length_eq_countP_add_countP (fun v => l.contains v) (l := variablesPool)
  have h24 : variablesPool.length = 24 := by decide
  rw [List.countP_eq_length_filter, List.countP_eq_length_filter] at hsplit
  have hb : ∀ q : Bool, (!q) = decide (¬ q = true) := by intro q; cases q <;> rfl
  have e : (variablesPool.filter (fun v => !(l.contains v)))
      = (variablesPool.filter (fun a_1 => decide ¬l.contains a_1 = true)) := by
    apply List.filter_congr; intro x _; exact hb _
  rw [e]
  omega

theorem noiseAround_spec (numTerms nn : Nat) (pp : Rat)
    (likeVars : List Char) (templates : List Template) (s : Stream)
    (hlen : numTerms ≤ templates.length) (hok : ∀ t ∈ templates, TemplOk t)
    (hnn : nn + likeVars.length ≤ 24) :
    ∃ ts cx s', noiseAround numTerms nn pp likeVars templates s = some ((ts, cx), s') ∧
      numTerms ≤ ts.length ∧ (∀ t ∈ ts, TemplOk t) ∧ numTerms ≤ cx := by
  unfold noiseAround
  obtain ⟨vs, hvs⟩ := getRandVarsS_some nn likeVars s (by omega) (by have := pool_minus_list likeVars; omega)
  generalize getRandVarsS nn likeVars s = G at hvs ⊢
  obtain ⟨g, s1⟩ := G
  simp only [] at hvs
  subst hvs
  simp only []
  have hf := noiseTemplates_ok pp (splitS nn s1).1.1 vs (splitS nn s1).2
  generalize noiseTemplates pp (splitS nn s1).1.1 vs (splitS nn s1).2 = F at hf ⊢
  obtain ⟨⟨front, vs'⟩, s2⟩ := F
  have hb := noiseTemplates_ok pp (splitS nn s1).1.2 vs' s2
  generalize noiseTemplates pp (splitS nn s1).1.2 vs' s2 = B at hb ⊢
  obtain ⟨⟨back, vs''⟩, s3⟩ := B
  simp only [] at hf hb ⊢
  refine ⟨_, _, _, rfl, ?_, ?_, by omega⟩
  · simp only [List.length_append, List.length_reverse]; omega
  · intro t ht
    simp only [List.mem_append, List.mem_reverse] at ht
    rcases ht with (ht | ht) | ht
    · exact hf t ht
    · exact hok t ht
    · exact hb t ht

theorem noiseCount_le (numTerms : Nat) (noiseArg : Option Nat) :
    noiseCount numTerms noiseArg ≤ (match noiseArg with | some n => n | none => 5) := by
  cases noiseArg with
  | none => simp only [noiseCount]; omega
  | some n => exact Nat.le_refl _

theorem simplifyNoise_spec (useNoise : Bool) (numTerms : Nat) (noiseArg : Option Nat) (pp : Rat)
    (likeVars : List Char) (templates : List Template) (s : Stream)
    (hlen : numTerms ≤ templates.length) (hok : ∀ t ∈ templates, TemplOk t)
    (hn : (match noiseArg with | some n => n | none => 5) + likeVars.length ≤ 24) :
    ∃ ts cx s', simplifyNoise useNoise numTerms noiseArg pp likeVars templates s = some ((ts, cx), s') ∧
      numTerms ≤ ts.length ∧ (∀ t ∈ ts, TemplOk t) ∧ numTerms ≤ cx := by
  unfold simplifyNoise
  cases useNoise with
  | false => exact ⟨templates, numTerms, s, by simp, hlen, hok, Nat.le_refl _⟩
  | true =>
    simp only [if_true]
    have := noiseCount_le numTerms noiseArg
    exact noiseAround_spec numTerms _ pp likeVars templates s hlen hok (by omega)

theorem simplifyFinish_spec (useGroup : Bool) (sp : Rat) (spec : OpSpec) (optionalVar : Bool) (ovp : Rat)
    (templates : List Template) (cx : Nat) (s : Stream)
    (hlen : 2 ≤ templates.length) (hok : ∀ t ∈ templates, TemplOk t) :
    ∃ p, simplifyFinish useGroup sp spec optionalVar ovp templates cx s = some (p, cx) ∧ p.ok = true := by
  unfold simplifyFinish
  simp only []
  generalize randBool sp s = SH
  obtain ⟨doShuffle, s1⟩ := SH
  simp only []
  have hsh : ∀ b : Bool, (if b = true then shuffleG templates s1 else (templates, s1)).1.length = templates.length ∧
      ∀ t ∈ (if b = true then shuffleG templates s1 else (templates, s1)).1, t ∈ templates := by
    intro b; cases b
    · exact ⟨rfl, fun t h => h⟩
    · exact shuffleFromG_spec _ _ _
  obtain ⟨hl2, hm2⟩ := hsh doShuffle
  generalize (if doShuffle = true then shuffleG templates s1 else (templates, s1)) = T2 at hl2 hm2 ⊢
  obtain ⟨ts, s2⟩ := T2
  simp only [] at hl2 hm2 ⊢
  have hlen2 : 2 ≤ ts.length := by omega
  have hok2 : ∀ t ∈ ts, TemplOk t := fun t h => hok t (hm2 t h)
  -- the group
  have hgrp : ∀ b : Bool, ∀ gs ge,
      (if b = true then
          (some ((randint 0 (max (ts.length / 2) 1 - 1) s2).1,
              (randint (max (ts.length / 2) 1) (ts.length - 1) (randint 0 (max (ts.length / 2) 1 - 1) s2).2).1),
            (randint (max (ts.length / 2) 1) (ts.length - 1) (randint 0 (max (ts.length / 2) 1 - 1) s2).2).2)
        else ((none : Option (Nat × Nat)), s2)).1 = some (gs, ge) → gs < ge ∧ ge + 1 ≤ ts.length := by
    intro b gs ge h
    cases b
    · simp at h
    · simp only [if_true, Option.some.injEq, Prod.mk.injEq] at h
      obtain ⟨rfl, rfl⟩ := h
      have hhalf : max (ts.length / 2) 1 ≤ ts.length - 1 := by omega
      have h1 := randint_le 0 (max (ts.length / 2) 1 - 1) s2 (by omega)
      have h2 := randint_ge (max (ts.length / 2) 1) (ts.length - 1) (randint 0 (max (ts.length / 2) 1 - 1) s2).2
      have h3 := randint_le (max (ts.length / 2) 1) (ts.length - 1) (randint 0 (max (ts.length / 2) 1 - 1) s2).2 hhalf
      omega
  have hg := hgrp useGroup
  generalize (if useGroup = true then
          (some ((randint 0 (max (ts.length / 2) 1 - 1) s2).1,
              (randint (max (ts.length / 2) 1) (ts.length - 1) (randint 0 (max (ts.length / 2) 1 - 1) s2).2).1),
            (randint (max (ts.length / 2) 1) (ts.length - 1) (randint 0 (max (ts.length / 2) 1 - 1) s2).2).2)
        else ((none : Option (Nat × Nat)), s2)) = GR at hg ⊢
  obtain ⟨group, s3⟩ := GR
  simp only [] at hg ⊢
  cases ts with
  | nil => simp at hlen2
  | cons t rest =>
    obtain ⟨v, pw⟩ := t
    simp only []
    have hp : PowOk pw := hok2 (v, pw) (by simp)
    have hrest : ∀ t ∈ rest, TemplOk t := fun t h => hok2 t (by simp [h])
    obtain ⟨htl, htok⟩ := simplifyTail_spec spec optionalVar ovp rest (maybeNumber 80 s3).2 hrest
    refine ⟨_, rfl, ?_⟩
    have h1 : (PItem.term (maybeNumber 80 s3).1 v pw).ok = true := term_ok _ _ _ (maybeNumber_ok _ _) hp
    have h2 : (simplifyTail spec optionalVar ovp rest (maybeNumber 80 s3).2).1.all (fun q => q.2.ok) = true := by
      rw [List.all_eq_true]; exact htok
    cases group with
    | none => simp [FlatProblem.ok, h1, h2]
    | some pr =>
      obtain ⟨gs, ge⟩ := pr
      obtain ⟨hlt, hle⟩ := hg gs ge rfl
      simp only [List.length_cons] at hle
      simp [FlatProblem.ok, h1, h2, hlt, htl]
      omega

/-- **C17, `gen_simplify_multiple_terms`** (every stream; `num_terms ≥ 2`, between 1 and 24 like
variables, noise terms + like variables ≤ 24; any operator source, any probabilities,
`optional_var` either way): a well-formed problem and a positive complexity. -/
theorem C17_simplify_valid (numTerms numLike : Nat) (optionalVar : Bool) (spec : OpSpec)
    (pp ovp np sp svp gp : Rat) (noiseArg : Option Nat) (s : Stream)
    (h2 : 2 ≤ numTerms) (hl1 : 1 ≤ numLike) (hl2 : numLike ≤ 24)
    (hn : (match noiseArg with | some n => n | none => 5) + numLike ≤ 24) :
    ∃ p cx, simplifyMultipleTerms numTerms numLike optionalVar spec pp ovp np sp svp gp noiseArg s = some (p, cx) ∧
      p.ok = true ∧ 0 < cx := by
  unfold simplifyMultipleTerms
  simp only []
  rw [if_neg (by omega)]
  generalize hNL : (if numTerms = 2 then 1 else numLike) = NL
  have hNL1 : 1 ≤ NL := by rw [← hNL]; split <;> omega
  have hNL2 : NL ≤ numLike := by rw [← hNL]; split <;> omega
  obtain ⟨likeVars, hlv⟩ := getRandVarsS_some NL [] (randBool np (randBool gp s).2).2 (by omega) (by
    have : (variablesPool.filter (fun v => !([] : List Char).contains v)).length = 24 := by decide
    omega)
  have hlvlen := getRandVarsS_length NL [] _ likeVars hlv
  generalize getRandVarsS NL [] (randBool np (randBool gp s).2).2 = G at hlv ⊢
  obtain ⟨g, s1⟩ := G
  simp only [] at hlv
  subst hlv
  simp only []
  obtain ⟨hA1, hA2⟩ := simplifyTemplates_spec numTerms NL (randBool np (randBool gp s).2).1 pp svp likeVars s1 h2 hlvlen hNL1
  generalize simplifyTemplates numTerms NL (randBool np (randBool gp s).2).1 pp svp likeVars s1 = A at hA1 hA2 ⊢
  obtain ⟨templates, s2⟩ := A
  simp only [] at hA1 hA2 ⊢
  obtain ⟨ts, cx, s3, hB, hB1, hB2, hB3⟩ := simplifyNoise_spec (randBool np (randBool gp s).2).1 numTerms noiseArg pp
    likeVars templates s2 hA1 hA2 (by rw [hlvlen]; cases noiseArg <;> simp only [] at hn ⊢ <;> omega)
  rw [hB]
  simp only []
  obtain ⟨p, hC, hpok⟩ := simplifyFinish_spec (randBool gp s).1 sp spec optionalVar ovp ts cx s3 (by omega) hB2
  exact ⟨p, cx, hC, hpok, by omega⟩

/-- what C17 promises of a generated problem: the text is accepted by the parser, the complexity is
positive, and the parsed expression has like terms -/
def ValidProblem (r : Option (FlatProblem × Nat)) : Prop :=
  ∃ p cx e, r = some (p, cx) ∧ 0 < cx ∧ parseToks (p.toks ++ [eofTok]) = .ok e ∧ hasLikeTerms e = true

theorem valid_of (r : Option (FlatProblem × Nat))
    (h : ∃ p cx, r = some (p, cx) ∧ p.ok = true ∧ 0 < cx ∧ p.promisesLike = true) : ValidProblem r := by
  obtain ⟨p, cx, hr, hok, hcx, hl⟩ := h
  obtain ⟨e, he⟩ := C17_flat_parses p hok
  exact ⟨p, cx, e, hr, hcx, he, C17_like_promise p hok hl e he⟩

/-- **C17, end to end (model generators, every stream of draws).** -/
theorem C17_generators_valid (s : Stream) :
    (∀ minT maxT easy powers, 2 ≤ minT → minT ≤ maxT → ValidProblem (combineTermsInPlace minT maxT easy powers s)) ∧
    (∀ minT maxT blockers easy powers, minT ≤ maxT → maxT ≤ 25 → 1 ≤ blockers → blockers ≤ 23 →
      ValidProblem (commuteHaystack minT maxT blockers easy powers s)) ∧
    (∀ n pp, n ≤ 23 → ValidProblem (moveAroundBlockersOne n pp s)) ∧
    (∀ n pp, n ≤ 21 → ValidProblem (moveAroundBlockersTwo n pp s)) ∧
    (∀ minV maxV simple pp lp, minV ≤ maxV → maxV ≤ 4 → ∃ p cx e,
      binomialTimesBinomial minV maxV simple pp lp s = some (p, cx) ∧ 0 < cx ∧ parseToks (p.toks ++ [eofTok]) = .ok e) ∧
    (∀ minV maxV simple pp lp, minV ≤ maxV → maxV ≤ 3 → ∃ p cx e,
      binomialTimesMonomial minV maxV simple pp lp s = some (p, cx) ∧ 0 < cx ∧ parseToks (p.toks ++ [eofTok]) = .ok e) ∧
    (∀ numTerms numLike optionalVar spec pp ovp np sp svp gp noiseArg, 2 ≤ numTerms → 1 ≤ numLike → numLike ≤ 24 →
      (match noiseArg with | some n => n | none => 5) + numLike ≤ 24 → ∃ p cx e,
      simplifyMultipleTerms numTerms numLike optionalVar spec pp ovp np sp svp gp noiseArg s = some (p, cx) ∧
        0 < cx ∧ parseToks (p.toks ++ [eofTok]) = .ok e) :=
  ⟨fun a b e p h1 h2 => valid_of _ (C17_combine_valid a b e p s h1 h2),
   fun a b c e p h1 h2 h3 h4 => valid_of _ (C17_haystack_valid a b c e p s h1 h2 h3 h4),
   fun n pp h => valid_of _ (C17_blockers_one_valid n pp s h),
   fun n pp h => valid_of _ (C17_blockers_two_valid n pp s h),
   fun a b sv pp lp h1 h2 => by
     obtain ⟨p, cx, hr, hok, hcx⟩ := C17_binomial_binomial_valid a b sv pp lp s h1 h2
     obtain ⟨e, he⟩ := C17_binomial_parses p hok
     exact ⟨p, cx, e, hr, hcx, he⟩,
   fun a b sv pp lp h1 h2 => by
     obtain ⟨p, cx, hr, hok, hcx⟩ := C17_binomial_monomial_valid a b sv pp lp s h1 h2
     obtain ⟨e, he⟩ := C17_binomial_parses p hok
     exact ⟨p, cx, e, hr, hcx, he⟩,
   fun nt nl ov spec pp ovp np sp svp gp na h2 h3 h4 h5 => by
     obtain ⟨p, cx, hr, hok, hcx⟩ := C17_simplify_valid nt nl ov spec pp ovp np sp svp gp na s h2 h3 h4 h5
     obtain ⟨e, he⟩ := C17_flat_parses p hok
     exact ⟨p, cx, e, hr, hcx, he⟩⟩

/-! non-vacuity: one concrete stream -/
example : (combineTermsInPlace 4 6 true false [1, 3, 50, 90, 5, 10, 7, 2, 1, 0, 4, 3, 2, 1, 0, 99, 20, 3, 50, 2, 90]).isSome = true := by
  decide +kernel

end Mathy
