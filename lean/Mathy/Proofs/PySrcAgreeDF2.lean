/- case lemmas of Proofs/PySrcAgreeDF.lean, continued -/
import Mathy.Proofs.PySrcAgreeDF
namespace Mathy.SrcAgree
open Mathy.Py Mathy.Gen.Src
set_option linter.unusedSimpArgs false
set_option linter.unusedVariables false



set_option maxHeartbeats 1000000 in
theorem df_l_pow (k : Ctx) (t : Nat) (lt : Nat) (ll lr : Ex) (r : Ex) :
    DFAgree k (.bin t .add (.bin lt .pow ll lr) r) := by
  unfold DFAgree
  obtain ⟨tl, htl⟩ : ∃ x, x = getTermEx false (.bin lt .pow ll lr) := ⟨_, rfl⟩
  obtain ⟨tr, htr⟩ : ∃ x, x = getTermEx false r := ⟨_, rfl⟩
  obtain ⟨tlr, htlr⟩ : ∃ x, x = getTermEx true (.un 0 .abs (.const 0 0)) := ⟨_, rfl⟩
  rcases r with ⟨rt, rv⟩ | ⟨rt, rx⟩ | ⟨rt, ruo, rc⟩ | ⟨rt, ro, rl, rr⟩
  · obtain ⟨trl, htrl⟩ : ∃ x, x = getTermEx true (.un 0 .abs (.const 0 0)) := ⟨_, rfl⟩
    df_close
  · obtain ⟨trl, htrl⟩ : ∃ x, x = getTermEx true (.un 0 .abs (.const 0 0)) := ⟨_, rfl⟩
    df_close
  · obtain ⟨trl, htrl⟩ : ∃ x, x = getTermEx true (.un 0 .abs (.const 0 0)) := ⟨_, rfl⟩
    df_close
  · cases ro
    case add =>
      obtain ⟨trl, htrl⟩ : ∃ x, x = getTermEx false rl := ⟨_, rfl⟩
      rcases rl with ⟨rlt, rlv⟩ | ⟨rlt, rlx⟩ | ⟨rlt, rluo, rlc⟩ | ⟨rlt, rlo, rll, rlr⟩
      · df_close
      · df_close
      · df_close
      · cases rlo <;> df_close
    all_goals (
      obtain ⟨trl, htrl⟩ : ∃ x, x = getTermEx true (.un 0 .abs (.const 0 0)) := ⟨_, rfl⟩
      df_close)

set_option maxHeartbeats 1000000 in
theorem df_l_eq (k : Ctx) (t : Nat) (lt : Nat) (ll lr : Ex) (r : Ex) :
    DFAgree k (.bin t .add (.bin lt .eq ll lr) r) := by
  unfold DFAgree
  obtain ⟨tl, htl⟩ : ∃ x, x = getTermEx false (.bin lt .eq ll lr) := ⟨_, rfl⟩
  obtain ⟨tr, htr⟩ : ∃ x, x = getTermEx false r := ⟨_, rfl⟩
  obtain ⟨tlr, htlr⟩ : ∃ x, x = getTermEx true (.un 0 .abs (.const 0 0)) := ⟨_, rfl⟩
  rcases r with ⟨rt, rv⟩ | ⟨rt, rx⟩ | ⟨rt, ruo, rc⟩ | ⟨rt, ro, rl, rr⟩
  · obtain ⟨trl, htrl⟩ : ∃ x, x = getTermEx true (.un 0 .abs (.const 0 0)) := ⟨_, rfl⟩
    df_close
  · obtain ⟨trl, htrl⟩ : ∃ x, x = getTermEx true (.un 0 .abs (.const 0 0)) := ⟨_, rfl⟩
    df_close
  · obtain ⟨trl, htrl⟩ : ∃ x, x = getTermEx true (.un 0 .abs (.const 0 0)) := ⟨_, rfl⟩
    df_close
  · cases ro
    case add =>
      obtain ⟨trl, htrl⟩ : ∃ x, x = getTermEx false rl := ⟨_, rfl⟩
      rcases rl with ⟨rlt, rlv⟩ | ⟨rlt, rlx⟩ | ⟨rlt, rluo, rlc⟩ | ⟨rlt, rlo, rll, rlr⟩
      · df_close
      · df_close
      · df_close
      · cases rlo <;> df_close
    all_goals (
      obtain ⟨trl, htrl⟩ : ∃ x, x = getTermEx true (.un 0 .abs (.const 0 0)) := ⟨_, rfl⟩
      df_close)

set_option maxHeartbeats 1000000 in
theorem df_l_add_const (k : Ctx) (t : Nat) (lt : Nat) (ll : Ex) (lrt : Nat) (lrv : Rat) (r : Ex) :
    DFAgree k (.bin t .add (.bin lt .add ll (.const lrt lrv)) r) := by
  unfold DFAgree
  obtain ⟨tl, htl⟩ : ∃ x, x = getTermEx false (.bin lt .add ll (.const lrt lrv)) := ⟨_, rfl⟩
  obtain ⟨tr, htr⟩ : ∃ x, x = getTermEx false r := ⟨_, rfl⟩
  obtain ⟨tlr, htlr⟩ : ∃ x, x = getTermEx false (.const lrt lrv) := ⟨_, rfl⟩
  rcases r with ⟨rt, rv⟩ | ⟨rt, rx⟩ | ⟨rt, ruo, rc⟩ | ⟨rt, ro, rl, rr⟩
  · obtain ⟨trl, htrl⟩ : ∃ x, x = getTermEx true (.un 0 .abs (.const 0 0)) := ⟨_, rfl⟩
    df_close
  · obtain ⟨trl, htrl⟩ : ∃ x, x = getTermEx true (.un 0 .abs (.const 0 0)) := ⟨_, rfl⟩
    df_close
  · obtain ⟨trl, htrl⟩ : ∃ x, x = getTermEx true (.un 0 .abs (.const 0 0)) := ⟨_, rfl⟩
    df_close
  · cases ro
    case add =>
      obtain ⟨trl, htrl⟩ : ∃ x, x = getTermEx false rl := ⟨_, rfl⟩
      rcases rl with ⟨rlt, rlv⟩ | ⟨rlt, rlx⟩ | ⟨rlt, rluo, rlc⟩ | ⟨rlt, rlo, rll, rlr⟩
      · df_close
      · df_close
      · df_close
      · cases rlo <;> df_close
    all_goals (
      obtain ⟨trl, htrl⟩ : ∃ x, x = getTermEx true (.un 0 .abs (.const 0 0)) := ⟨_, rfl⟩
      df_close)

set_option maxHeartbeats 1000000 in
theorem df_l_add_var (k : Ctx) (t : Nat) (lt : Nat) (ll : Ex) (lrt : Nat) (lrx : Char) (r : Ex) :
    DFAgree k (.bin t .add (.bin lt .add ll (.var lrt lrx)) r) := by
  unfold DFAgree
  obtain ⟨tl, htl⟩ : ∃ x, x = getTermEx false (.bin lt .add ll (.var lrt lrx)) := ⟨_, rfl⟩
  obtain ⟨tr, htr⟩ : ∃ x, x = getTermEx false r := ⟨_, rfl⟩
  obtain ⟨tlr, htlr⟩ : ∃ x, x = getTermEx false (.var lrt lrx) := ⟨_, rfl⟩
  rcases r with ⟨rt, rv⟩ | ⟨rt, rx⟩ | ⟨rt, ruo, rc⟩ | ⟨rt, ro, rl, rr⟩
  · obtain ⟨trl, htrl⟩ : ∃ x, x = getTermEx true (.un 0 .abs (.const 0 0)) := ⟨_, rfl⟩
    df_close
  · obtain ⟨trl, htrl⟩ : ∃ x, x = getTermEx true (.un 0 .abs (.const 0 0)) := ⟨_, rfl⟩
    df_close
  · obtain ⟨trl, htrl⟩ : ∃ x, x = getTermEx true (.un 0 .abs (.const 0 0)) := ⟨_, rfl⟩
    df_close
  · cases ro
    case add =>
      obtain ⟨trl, htrl⟩ : ∃ x, x = getTermEx false rl := ⟨_, rfl⟩
      rcases rl with ⟨rlt, rlv⟩ | ⟨rlt, rlx⟩ | ⟨rlt, rluo, rlc⟩ | ⟨rlt, rlo, rll, rlr⟩
      · df_close
      · df_close
      · df_close
      · cases rlo <;> df_close
    all_goals (
      obtain ⟨trl, htrl⟩ : ∃ x, x = getTermEx true (.un 0 .abs (.const 0 0)) := ⟨_, rfl⟩
      df_close)

set_option maxHeartbeats 1000000 in
theorem df_l_add_un (k : Ctx) (t : Nat) (lt : Nat) (ll : Ex) (lrt : Nat) (lruo : Uop) (lrc : Ex) (r : Ex) :
    DFAgree k (.bin t .add (.bin lt .add ll (.un lrt lruo lrc)) r) := by
  unfold DFAgree
  obtain ⟨tl, htl⟩ : ∃ x, x = getTermEx false (.bin lt .add ll (.un lrt lruo lrc)) := ⟨_, rfl⟩
  obtain ⟨tr, htr⟩ : ∃ x, x = getTermEx false r := ⟨_, rfl⟩
  obtain ⟨tlr, htlr⟩ : ∃ x, x = getTermEx false (.un lrt lruo lrc) := ⟨_, rfl⟩
  rcases r with ⟨rt, rv⟩ | ⟨rt, rx⟩ | ⟨rt, ruo, rc⟩ | ⟨rt, ro, rl, rr⟩
  · obtain ⟨trl, htrl⟩ : ∃ x, x = getTermEx true (.un 0 .abs (.const 0 0)) := ⟨_, rfl⟩
    df_close
  · obtain ⟨trl, htrl⟩ : ∃ x, x = getTermEx true (.un 0 .abs (.const 0 0)) := ⟨_, rfl⟩
    df_close
  · obtain ⟨trl, htrl⟩ : ∃ x, x = getTermEx true (.un 0 .abs (.const 0 0)) := ⟨_, rfl⟩
    df_close
  · cases ro
    case add =>
      obtain ⟨trl, htrl⟩ : ∃ x, x = getTermEx false rl := ⟨_, rfl⟩
      rcases rl with ⟨rlt, rlv⟩ | ⟨rlt, rlx⟩ | ⟨rlt, rluo, rlc⟩ | ⟨rlt, rlo, rll, rlr⟩
      · df_close
      · df_close
      · df_close
      · cases rlo <;> df_close
    all_goals (
      obtain ⟨trl, htrl⟩ : ∃ x, x = getTermEx true (.un 0 .abs (.const 0 0)) := ⟨_, rfl⟩
      df_close)

set_option maxHeartbeats 1000000 in
theorem df_l_add_add (k : Ctx) (t : Nat) (lt : Nat) (ll : Ex) (lrt : Nat) (lrl lrr : Ex) (r : Ex) :
    DFAgree k (.bin t .add (.bin lt .add ll (.bin lrt .add lrl lrr)) r) := by
  unfold DFAgree
  obtain ⟨tl, htl⟩ : ∃ x, x = getTermEx false (.bin lt .add ll (.bin lrt .add lrl lrr)) := ⟨_, rfl⟩
  obtain ⟨tr, htr⟩ : ∃ x, x = getTermEx false r := ⟨_, rfl⟩
  obtain ⟨tlr, htlr⟩ : ∃ x, x = getTermEx false (.bin lrt .add lrl lrr) := ⟨_, rfl⟩
  rcases r with ⟨rt, rv⟩ | ⟨rt, rx⟩ | ⟨rt, ruo, rc⟩ | ⟨rt, ro, rl, rr⟩
  · obtain ⟨trl, htrl⟩ : ∃ x, x = getTermEx true (.un 0 .abs (.const 0 0)) := ⟨_, rfl⟩
    df_close
  · obtain ⟨trl, htrl⟩ : ∃ x, x = getTermEx true (.un 0 .abs (.const 0 0)) := ⟨_, rfl⟩
    df_close
  · obtain ⟨trl, htrl⟩ : ∃ x, x = getTermEx true (.un 0 .abs (.const 0 0)) := ⟨_, rfl⟩
    df_close
  · cases ro
    case add =>
      obtain ⟨trl, htrl⟩ : ∃ x, x = getTermEx false rl := ⟨_, rfl⟩
      rcases rl with ⟨rlt, rlv⟩ | ⟨rlt, rlx⟩ | ⟨rlt, rluo, rlc⟩ | ⟨rlt, rlo, rll, rlr⟩
      · df_close
      · df_close
      · df_close
      · cases rlo <;> df_close
    all_goals (
      obtain ⟨trl, htrl⟩ : ∃ x, x = getTermEx true (.un 0 .abs (.const 0 0)) := ⟨_, rfl⟩
      df_close)

end Mathy.SrcAgree
