/-
`BalancedMoveRule.get_type` / `has_add_siblings` / `can_apply_to` (translated from the live source;
`get_root`, `get_root_side`, `find_type` and `get_term_ex` are library calls = Model/PyRt.lean) agree
with the model's `bmType` / `bmCan`.  The `while` loop that climbs the chain of additions is
translated into a fuel-indexed function; that the fuel (depth + 1) suffices is proved here.
-/
import Mathy.Proofs.PySrcAgreeVM
namespace Mathy.SrcAgree
open Mathy.Py Mathy.Gen.Src
set_option linter.unusedSimpArgs false

/-- the strings `BalancedMoveRule.get_type` returns -/
def BMType.pyName : BMType → String
  | .addition => "TYPE_ADDITION" | .constOfMultiply => "TYPE_CONST_OF_MULTIPLY"

theorem splitRoot_append : ∀ (k inner : Ctx) (rootF : Frame), splitRoot k = some (inner, rootF) → k = inner ++ [rootF]
  | [], _, _, h => by simp [splitRoot] at h
  | [f], inner, rootF, h => by
    simp [splitRoot] at h; obtain ⟨rfl, rfl⟩ := h; rfl
  | f :: g :: fs, inner, rootF, h => by
    simp only [splitRoot] at h
    cases hs : splitRoot (g :: fs) with
    | none => simp [hs] at h
    | some p =>
      obtain ⟨inner', root'⟩ := p
      simp [hs] at h
      obtain ⟨rfl, rfl⟩ := h
      have := splitRoot_append (g :: fs) inner' root' hs
      simp [this]

theorem splitRoot_snoc : ∀ (inner : Ctx) (rootF : Frame), splitRoot (inner ++ [rootF]) = some (inner, rootF)
  | [], rootF => rfl
  | f :: fs, rootF => by
    have ih := splitRoot_snoc fs rootF
    cases hfs : fs ++ [rootF] with
    | nil => simp at hfs
    | cons g gs =>
      rw [hfs] at ih
      simp [splitRoot, hfs, ih]

theorem plug_snoc (inner : Ctx) (rootF : Frame) (e : Ex) :
    plug (inner ++ [rootF]) e = rootF.fill (plug inner e) := by
  induction inner generalizing e with
  | nil => rfl
  | cons f fs ih => simp [plug, ih]

theorem ctxRootSide_snoc (inner : Ctx) (rootF : Frame) :
    ctxRootSide (inner ++ [rootF]) = ctxRootSide [rootF] := by
  induction inner with
  | nil => rfl
  | cons f fs ih =>
    cases hfs : fs ++ [rootF] with
    | nil => simp at hfs
    | cons g gs =>
      rw [List.cons_append, hfs]
      show ctxRootSide (g :: gs) = _
      rw [← hfs, ih]

theorem anyHolds_add (e : Ex) : anyHolds .AddExpression e = hasAdd e := by
  induction e with
  | const t v => rfl
  | var t x => rfl
  | un t o c ih => cases o <;> simp [anyHolds, hasAdd, Cls.holds, ih]
  | bin t o l r ihl ihr => cases o <;> simp [anyHolds, hasAdd, Cls.holds, ihl, ihr] <;> rfl

theorem parent_cons (f : Frame) (k : Ctx) (n : Ex) : Ref.parent (some ⟨f :: k, n⟩) = some ⟨k, f.fill n⟩ := rfl
theorem parent_nil (n : Ex) : Ref.parent (some ⟨[], n⟩) = none := rfl

theorem holds_fill_add (f : Frame) (e : Ex) : Cls.holds .AddExpression (f.fill e) = f.isOp .add := by
  cases f with
  | binL t o r => cases o <;> rfl
  | binR t o l => cases o <;> rfl
  | un t o => cases o <;> rfl
theorem holds_fill_mul (f : Frame) (e : Ex) : Cls.holds .MultiplyExpression (f.fill e) = f.isOp .mul := by
  cases f with
  | binL t o r => cases o <;> rfl
  | binR t o l => cases o <;> rfl
  | un t o => cases o <;> rfl
theorem holds_fill_eq (f : Frame) (e : Ex) : Cls.holds .EqualExpression (f.fill e) = f.isOp .eq := by
  cases f with
  | binL t o r => cases o <;> rfl
  | binR t o l => cases o <;> rfl
  | un t o => cases o <;> rfl

/-- the `while isinstance(top.parent, AddExpression): top = top.parent` loop: started below a root
frame that is not an addition, with enough fuel, it ends directly below the root iff every frame
in between is an addition -/
theorem loop_spec (rootF : Frame) (hr : rootF.isOp .add = false) :
    ∀ (rest : Ctx) (e : Ex) (fuel : Nat), rest.length + 1 ≤ fuel →
      (Ref.parent (BalancedMoveRule_get_type_loop3 fuel (some ⟨rest ++ [rootF], e⟩))
          != some ⟨[], plug (rest ++ [rootF]) e⟩) = !(allAdd rest) := by
  intro rest
  induction rest with
  | nil =>
    intro e fuel hf
    obtain ⟨fuel', rfl⟩ : ∃ m, fuel = m + 1 := ⟨fuel - 1, by omega⟩
    simp [BalancedMoveRule_get_type_loop3, parent_cons, isinstance_some, holds_fill_add, hr, plug, allAdd]
  | cons g rest ih =>
    intro e fuel hf
    obtain ⟨fuel', rfl⟩ : ∃ m, fuel = m + 1 := ⟨fuel - 1, by omega⟩
    simp only [List.length_cons] at hf
    simp only [List.cons_append, BalancedMoveRule_get_type_loop3, parent_cons, isinstance_some, List.any,
      holds_fill_add, Bool.or_false, allAdd, plug]
    cases hg : g.isOp .add with
    | true =>
      simp only [if_true, Bool.true_and]
      exact ih (g.fill e) fuel' (by omega)
    | false =>
      simp only [Bool.false_eq_true, if_false, Bool.false_and, Bool.not_false, parent_cons]
      cases hrest : rest ++ [rootF] with
      | nil => simp at hrest
      | cons a as => simp

theorem splitRoot_none : ∀ k : Ctx, splitRoot k = none → k = []
  | [], _ => rfl
  | [f], h => by simp [splitRoot] at h
  | f :: g :: fs, h => by
    simp only [splitRoot] at h
    cases hs : splitRoot (g :: fs) with
    | none => exact absurd (splitRoot_none (g :: fs) hs) (by simp)
    | some p => simp [hs] at h

theorem bm_root (n : Ex) : BalancedMoveRule_get_type (some ⟨[], n⟩) = none := by
  simp only [BalancedMoveRule_get_type, parent_nil, isinstance, Bool.or_false, Bool.false_and, Bool.false_eq_true,
    if_false]
  split
  · rfl
  · simp

theorem ctxRootSide_binL (t : Nat) (o : Bop) (r : Ex) : ctxRootSide [Frame.binL t o r] = "left" := rfl
theorem ctxRootSide_binR (t : Nat) (o : Bop) (l : Ex) : ctxRootSide [Frame.binR t o l] = "right" := rfl

/-- the statement, for a node below a root frame -/
def BMAgree (inner : Ctx) (rootF : Frame) (n : Ex) : Prop :=
  BalancedMoveRule_get_type (some ⟨inner ++ [rootF], n⟩) = (bmType (inner ++ [rootF]) n).map BMType.pyName

theorem bm_un_root (inner : Ctx) (t : Nat) (o : Uop) (n : Ex) : BMAgree inner (.un t o) n := by
  unfold BMAgree bmType
  rw [splitRoot_snoc]
  simp only [BalancedMoveRule_get_type, Ref.get_root, plug_snoc, isinstance_some, List.any, Frame.fill, Cls.holds,
    Bool.or_false, Frame.isOp]
  rfl

theorem bm_direct_child (rootF : Frame) (n : Ex) : BMAgree [] rootF n := by
  unfold BMAgree bmType
  rw [splitRoot_snoc]
  cases h : rootF.isOp .eq <;>
  simp [BalancedMoveRule_get_type, Ref.get_root, plug, parent_cons, isinstance_some, holds_fill_eq, parentIs, h]

theorem bm_inner (f : Frame) (inner : Ctx) (rootF : Frame) (n : Ex) : BMAgree (f :: inner) rootF n := by
  unfold BMAgree bmType
  rw [splitRoot_snoc]
  cases hre : rootF.isOp .eq with
  | false =>
    simp only [BalancedMoveRule_get_type, Ref.get_root, plug_snoc, isinstance_some, List.any, holds_fill_eq, hre,
      Bool.or_false]
    simp
  | true =>
    have hra : rootF.isOp .add = false := by
      cases rootF with
      | binL t o r => cases o <;> simp_all [Frame.isOp]
      | binR t o l => cases o <;> simp_all [Frame.isOp]
      | un t o => simp_all [Frame.isOp]
    have hloop := loop_spec rootF hra inner (f.fill n) ((inner ++ [rootF]).length + 1) (by simp)
    rw [plug_snoc] at hloop
    have hside : ctxRootSide (f :: (inner ++ [rootF])) = ctxRootSide [rootF] := ctxRootSide_snoc (f :: inner) rootF
    simp only [BalancedMoveRule_get_type, BalancedMoveRule_has_add_siblings, Ref.get_root, plug_snoc, isinstance_some,
      List.any, holds_fill_eq, hre, Bool.or_false, List.cons_append, parent_cons, holds_fill_mul, holds_fill_add,
      Ref.depth, Ref.get_root_side, hside, plug, hloop, parentIs, Bool.not_true, Bool.false_or, Bool.not_false]
    have hholds_eq : ∀ e : Ex, Cls.holds .EqualExpression e = e.isOp .eq := by
      intro e; cases e with
      | bin t o l r => cases o <;> rfl
      | _ => rfl
    have hholds_const : ∀ e : Ex, Cls.holds .ConstantExpression e = e.isConst := by
      intro e; cases e <;> rfl
    have hpow : f.isOp .add = true → f.isOp .pow = false := by
      intro h
      cases f with
      | binL t o r => cases o <;> simp_all [Frame.isOp]
      | binR t o l => cases o <;> simp_all [Frame.isOp]
      | un t o => simp_all [Frame.isOp]
    have fill_binL : ∀ (t : Nat) (o : Bop) (r e : Ex), Frame.fill (.binL t o r) e = .bin t o e r := fun _ _ _ _ => rfl
    have fill_binR : ∀ (t : Nat) (o : Bop) (l e : Ex), Frame.fill (.binR t o l) e = .bin t o l e := fun _ _ _ _ => rfl
    clear hloop
    obtain ⟨be, hbe⟩ : ∃ b, f.isOp .eq = b := ⟨_, rfl⟩
    obtain ⟨bm, hbm⟩ : ∃ b, f.isOp .mul = b := ⟨_, rfl⟩
    obtain ⟨ba, hba⟩ : ∃ b, f.isOp .add = b := ⟨_, rfl⟩
    obtain ⟨bp, hbp⟩ : ∃ b, f.isOp .pow = b := ⟨_, rfl⟩
    have hpow' : ba = true → bp = false := by
      intro h; rw [← hbp]; exact hpow (by rw [hba]; exact h)
    cases rootF with
    | un t o => simp [Frame.isOp] at hre
    | binL t o r =>
      simp only [fill_binL, left_bin, right_bin, isinstance_some, List.any, Bool.or_false, hholds_eq, hholds_const,
        ctxRootSide_binL, Ref.anyOfType, anyHolds_add, Ref.value, get_term_ex_agree, Ref.get_term_ex, parentIs, allAdd, hbe, hbm, hba, hbp]
      clear hside
      cases be <;> cases bm <;> cases ba <;>
        rcases n with ⟨nt, nv⟩ | ⟨nt, nx⟩ | ⟨nt, nuo, nc⟩ | ⟨nt, no, nl, nr⟩ <;>
        simp [hpow', numEq, Ex.isConst, BMType.pyName] <;> (repeat' split) <;> simp_all [BMType.pyName]
    | binR t o l =>
      simp only [fill_binR, left_bin, right_bin, isinstance_some, List.any, Bool.or_false, hholds_eq, hholds_const,
        ctxRootSide_binR, Ref.anyOfType, anyHolds_add, Ref.value, get_term_ex_agree, Ref.get_term_ex, parentIs, allAdd, hbe, hbm, hba, hbp]
      clear hside
      cases be <;> cases bm <;> cases ba <;>
        rcases n with ⟨nt, nv⟩ | ⟨nt, nx⟩ | ⟨nt, nuo, nc⟩ | ⟨nt, no, nl, nr⟩ <;>
        simp [hpow', numEq, Ex.isConst, BMType.pyName] <;> (repeat' split) <;> simp_all [BMType.pyName]

theorem bm_type_agree (k : Ctx) (n : Ex) :
    BalancedMoveRule_get_type (some ⟨k, n⟩) = (bmType k n).map BMType.pyName := by
  cases hk : splitRoot k with
  | none =>
    have := splitRoot_none k hk
    subst this
    rw [bm_root]; rfl
  | some p =>
    obtain ⟨inner, rootF⟩ := p
    have hk' := splitRoot_append k inner rootF hk
    subst hk'
    cases inner with
    | nil => exact bm_direct_child rootF n
    | cons f inner => exact bm_inner f inner rootF n

theorem bm_can_agree (k : Ctx) (n : Ex) : BalancedMoveRule_can_apply_to (some ⟨k, n⟩) = bmCan k n := by
  unfold BalancedMoveRule_can_apply_to bmCan
  rw [bm_type_agree]
  cases bmType k n <;> rfl

end Mathy.SrcAgree
