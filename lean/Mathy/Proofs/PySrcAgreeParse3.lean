/-
The model's parser IS the repository's parser (translated source) — part 3: step lemmas for
`parse_exponent`, `parse_function`, `parse_unary`.
-/
import Mathy.Proofs.PySrcAgreeParse2
set_option linter.unusedSimpArgs false
set_option linter.unusedSectionVars false
namespace Mathy.SrcAgree
open Mathy.Py Mathy.Gen.Src Mathy.PS

theorem cur_value (ts : List Tok) : (stOf ts).current_token.value = (hd ts).value := rfl

theorem hd_mem {ts : List Tok} (h : ts ≠ []) : hd ts ∈ ts := by
  cases ts with
  | nil => exact absurd rfl h
  | cons t r => simp [hd]

section step
variable {n : Nat} (ih : AG n)
include ih

theorem exp_step (ts : List Tok) (hg : Good ts) (hne : parseExponent (n + 1) ts ≠ .error .fuel) :
    ExpressionParser_parse_exponent (n + 1 + 1) (stOf ts) = liftP (parseExponent (n + 1) ts) := by
  obtain ⟨-, -, -, -, -, -, hExp, -⟩ := tt_consts
  rw [parseExponent] at hne ⊢
  rw [ExpressionParser_parse_exponent]
  simp only [check_eq, set_first_unary, Bool.true_and]
  cases hf : firstUnary (headType ts)
  · simp [liftP, errOf, bind_err]
  · simp only [Bool.not_true, Bool.false_eq_true, if_false, bind_ok, hf] at hne ⊢
    cases hm : parseUnary n ts with
    | error e =>
      have he : e ≠ .fuel := by rintro rfl; simp [hm] at hne
      rw [ih.unary ts hg (by rw [hm]; simpa using he)]
      simp [hm, liftP, bind_err]
    | ok p =>
      obtain ⟨e, ts1⟩ := p
      have hg1 : Good ts1 := hg.of_consumes ((PS.ih_all n).unary _ _ _ hm)
      rw [ih.unary ts hg (by simp [hm]), hm]
      simp only [hm] at hne
      simp only [liftP, bind_ok, check_eq, set_is_exp, Bool.false_and, Bool.false_eq_true, if_false]
      cases hx : isExpTok (headType ts1)
      · simp [liftP, bind_ok]
      · have hhd : headType ts1 = .exponent := by simpa [isExpTok] using hx
        simp only [if_true, cur_type, hx] at hne ⊢
        rw [eat_eq _ ts1 hg1.wf, hhd]
        cases he : eat .exponent ts1 with
        | error k => simp [liftP, bind_err]
        | ok ts2 =>
          have hg2 : Good ts2 := hg1.of_eat he
          simp only [he] at hne
          simp only [bind_ok, check_eq, set_first_unary, Bool.false_and, Bool.false_eq_true, if_false]
          cases hf2 : firstUnary (headType ts2)
          · simp [liftP, errOf, bind_err]
          · simp only [Bool.not_true, Bool.false_eq_true, if_false, hf2] at hne ⊢
            cases hm2 : parseUnary n ts2 with
            | error k =>
              have hk : k ≠ .fuel := by rintro rfl; simp [hm2] at hne
              rw [ih.unary ts2 hg2 (by rw [hm2]; simpa using hk)]
              simp [hm2, liftP, bind_err]
            | ok q =>
              obtain ⟨r, ts3⟩ := q
              rw [ih.unary ts2 hg2 (by simp [hm2]), hm2]
              simp [liftP, bind_ok, hExp]

theorem fn_step (ts : List Tok) (hg : Good ts) (hfn : headType ts = .function)
    (hne : parseFunction (n + 1) ts ≠ .error .fuel) :
    ExpressionParser_parse_function (n + 1 + 1) (stOf ts) = liftP (parseFunction (n + 1) ts) := by
  obtain ⟨-, -, -, -, -, -, -, -, hOpen, hClose, -⟩ := tt_consts
  have hval : dictGet Tokenizer_function_table (hd ts).value = .ok .sgn :=
    (hg.ok _ (hd_mem hg.wf.ne_nil)).1 (by rw [← headType_eq_hd]; exact hfn)
  rw [parseFunction] at hne ⊢
  rw [ExpressionParser_parse_function]
  simp only [cur_type, cur_value, hOpen, hClose]
  rw [eat_eq _ ts hg.wf]
  cases he : eat (headType ts) ts with
  | error k => simp [liftP, bind_err]
  | ok ts1 =>
    have hg1 : Good ts1 := hg.of_eat he
    simp only [he] at hne
    simp only [bind_ok]
    rw [eat_eq _ ts1 hg1.wf]
    cases he2 : eat .openParen ts1 with
    | error k => simp [liftP, bind_err]
    | ok ts2 =>
      have hg2 : Good ts2 := hg1.of_eat he2
      simp only [he2] at hne
      simp only [bind_ok]
      cases hm : parseAdd n ts2 with
      | error k =>
        have hk : k ≠ .fuel := by rintro rfl; simp [hm] at hne
        rw [ih.add ts2 hg2 (by rw [hm]; simpa using hk)]
        simp [hm, liftP, bind_err]
      | ok q =>
        obtain ⟨e, ts3⟩ := q
        have hg3 : Good ts3 := hg2.of_consumes ((PS.ih_all n).add _ _ _ hm)
        rw [ih.add ts2 hg2 (by simp [hm]), hm]
        simp only [liftP, bind_ok]
        rw [eat_eq _ ts3 hg3.wf]
        cases he3 : eat .closeParen ts3 with
        | error k => simp [liftP, bind_err]
        | ok ts4 => simp [liftP, bind_ok, hval]

end step

end Mathy.SrcAgree
