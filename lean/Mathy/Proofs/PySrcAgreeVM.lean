/-
`VariableMultiplyRule.get_type` / `can_apply_to` (translated from the live source, with
`get_term_ex` as an external = the model's `getTermEx`) agree with the model's `vmType` / `vmCan`.
-/
import Mathy.Proofs.PySrcAgree
import Mathy.Proofs.PySrcAgreeTerm
namespace Mathy.SrcAgree
open Mathy.Py Mathy.Gen.Src
set_option linter.unusedSimpArgs false
set_option linter.unusedVariables false

/-- the strings `VariableMultiplyRule.get_type` returns -/
def VMType.pyName : VMType → String
  | .simple => "simple" | .chained => "chained" | .chainedLeftRight => "chained_left_right"

theorem isinstance_some (k : Ctx) (e : Ex) (cs : List Cls) :
    isinstance (some ⟨k, e⟩) cs = cs.any (·.holds e) := rfl
theorem left_bin (k : Ctx) (t : Nat) (o : Bop) (l r : Ex) :
    Ref.left (some ⟨k, .bin t o l r⟩) = some ⟨.binL t o r :: k, l⟩ := rfl
theorem right_bin (k : Ctx) (t : Nat) (o : Bop) (l r : Ex) :
    Ref.right (some ⟨k, .bin t o l r⟩) = some ⟨.binR t o l :: k, r⟩ := rfl
theorem left_const (k : Ctx) (t : Nat) (v : Rat) : Ref.left (some ⟨k, .const t v⟩) = none := rfl
theorem left_var (k : Ctx) (t : Nat) (x : Char) : Ref.left (some ⟨k, .var t x⟩) = none := rfl
theorem left_un (k : Ctx) (t : Nat) (o : Uop) (c : Ex) : Ref.left (some ⟨k, .un t o c⟩) = none := rfl
theorem right_const (k : Ctx) (t : Nat) (v : Rat) : Ref.right (some ⟨k, .const t v⟩) = none := rfl
theorem right_var (k : Ctx) (t : Nat) (x : Char) : Ref.right (some ⟨k, .var t x⟩) = none := rfl
theorem right_un (k : Ctx) (t : Nat) (o : Uop) (c : Ex) :
    Ref.right (some ⟨k, .un t o c⟩) = some ⟨.un t o :: k, c⟩ := rfl
theorem get_term_ex_none : Ref.get_term_ex none = none := rfl
theorem get_term_ex_binL (k : Ctx) (t : Nat) (o : Bop) (r e : Ex) :
    Ref.get_term_ex (some ⟨.binL t o r :: k, e⟩) = getTermEx (o == .pow) e := by
  cases o <;> rfl
theorem get_term_ex_binR (k : Ctx) (t : Nat) (o : Bop) (l e : Ex) :
    Ref.get_term_ex (some ⟨.binR t o l :: k, e⟩) = getTermEx (o == .pow) e := by
  cases o <;> rfl
theorem get_term_ex_un (k : Ctx) (t : Nat) (o : Uop) (e : Ex) :
    Ref.get_term_ex (some ⟨.un t o :: k, e⟩) = getTermEx false e := rfl

/-- the statement for one product -/
def VMAgree (k : Ctx) (n : Ex) : Prop :=
  (VariableMultiplyRule_get_type (some ⟨k, n⟩)).map (·.1) = (vmType n).map VMType.pyName

theorem vm_l_const (k : Ctx) (t : Nat) (lt : Nat) (lv : Rat) (r : Ex) :
    VMAgree k (.bin t .mul (.const lt lv) r) := by
  unfold VMAgree
  obtain ⟨tl, htl⟩ : ∃ x, x = getTermEx false (.const lt lv) := ⟨_, rfl⟩
  obtain ⟨tr, htr⟩ : ∃ x, x = getTermEx false r := ⟨_, rfl⟩
  rcases r with ⟨rt, rv⟩ | ⟨rt, rx⟩ | ⟨rt, ruo, rc⟩ | ⟨rt, ro, rl, rr⟩
  all_goals (try cases ro)
  all_goals (
    simp only [VariableMultiplyRule_get_type, vmType, vmStep, isinstance_some, left_bin, right_bin, left_const,
      left_var, left_un, right_const, right_var, right_un, get_term_ex_agree, get_term_ex_none, get_term_ex_binL, get_term_ex_binR,
      get_term_ex_un, List.any, Cls.holds, Bool.or_false,
      show (Bop.mul == Bop.pow) = false from rfl, ← htl, ← htr]
    try generalize getTermEx false lr = tlr
    try generalize getTermEx false rl = trl
    clear htl htr
    rcases tl with _ | ⟨c1, v1, e1⟩ <;> rcases tr with _ | ⟨c2, v2, e2⟩)
  all_goals (try (rcases tlr with _ | ⟨c3, v3, e3⟩))
  all_goals (try (rcases trl with _ | ⟨c4, v4, e4⟩))
  all_goals (simp [termVar] <;> (repeat' split) <;> (try simp_all [VMType.pyName]) <;>
    (try (rename_i h; cases h; rfl)))

theorem vm_l_var (k : Ctx) (t : Nat) (lt : Nat) (lx : Char) (r : Ex) :
    VMAgree k (.bin t .mul (.var lt lx) r) := by
  unfold VMAgree
  obtain ⟨tl, htl⟩ : ∃ x, x = getTermEx false (.var lt lx) := ⟨_, rfl⟩
  obtain ⟨tr, htr⟩ : ∃ x, x = getTermEx false r := ⟨_, rfl⟩
  rcases r with ⟨rt, rv⟩ | ⟨rt, rx⟩ | ⟨rt, ruo, rc⟩ | ⟨rt, ro, rl, rr⟩
  all_goals (try cases ro)
  all_goals (
    simp only [VariableMultiplyRule_get_type, vmType, vmStep, isinstance_some, left_bin, right_bin, left_const,
      left_var, left_un, right_const, right_var, right_un, get_term_ex_agree, get_term_ex_none, get_term_ex_binL, get_term_ex_binR,
      get_term_ex_un, List.any, Cls.holds, Bool.or_false,
      show (Bop.mul == Bop.pow) = false from rfl, ← htl, ← htr]
    try generalize getTermEx false lr = tlr
    try generalize getTermEx false rl = trl
    clear htl htr
    rcases tl with _ | ⟨c1, v1, e1⟩ <;> rcases tr with _ | ⟨c2, v2, e2⟩)
  all_goals (try (rcases tlr with _ | ⟨c3, v3, e3⟩))
  all_goals (try (rcases trl with _ | ⟨c4, v4, e4⟩))
  all_goals (simp [termVar] <;> (repeat' split) <;> (try simp_all [VMType.pyName]) <;>
    (try (rename_i h; cases h; rfl)))

theorem vm_l_un (k : Ctx) (t : Nat) (lt : Nat) (luo : Uop) (lc : Ex) (r : Ex) :
    VMAgree k (.bin t .mul (.un lt luo lc) r) := by
  unfold VMAgree
  obtain ⟨tl, htl⟩ : ∃ x, x = getTermEx false (.un lt luo lc) := ⟨_, rfl⟩
  obtain ⟨tr, htr⟩ : ∃ x, x = getTermEx false r := ⟨_, rfl⟩
  rcases r with ⟨rt, rv⟩ | ⟨rt, rx⟩ | ⟨rt, ruo, rc⟩ | ⟨rt, ro, rl, rr⟩
  all_goals (try cases ro)
  all_goals (
    simp only [VariableMultiplyRule_get_type, vmType, vmStep, isinstance_some, left_bin, right_bin, left_const,
      left_var, left_un, right_const, right_var, right_un, get_term_ex_agree, get_term_ex_none, get_term_ex_binL, get_term_ex_binR,
      get_term_ex_un, List.any, Cls.holds, Bool.or_false,
      show (Bop.mul == Bop.pow) = false from rfl, ← htl, ← htr]
    try generalize getTermEx false lr = tlr
    try generalize getTermEx false rl = trl
    clear htl htr
    rcases tl with _ | ⟨c1, v1, e1⟩ <;> rcases tr with _ | ⟨c2, v2, e2⟩)
  all_goals (try (rcases tlr with _ | ⟨c3, v3, e3⟩))
  all_goals (try (rcases trl with _ | ⟨c4, v4, e4⟩))
  all_goals (simp [termVar] <;> (repeat' split) <;> (try simp_all [VMType.pyName]) <;>
    (try (rename_i h; cases h; rfl)))

theorem vm_l_add (k : Ctx) (t : Nat) (lt : Nat) (ll lr : Ex) (r : Ex) :
    VMAgree k (.bin t .mul (.bin lt .add ll lr) r) := by
  unfold VMAgree
  obtain ⟨tl, htl⟩ : ∃ x, x = getTermEx false (.bin lt .add ll lr) := ⟨_, rfl⟩
  obtain ⟨tr, htr⟩ : ∃ x, x = getTermEx false r := ⟨_, rfl⟩
  rcases r with ⟨rt, rv⟩ | ⟨rt, rx⟩ | ⟨rt, ruo, rc⟩ | ⟨rt, ro, rl, rr⟩
  all_goals (try cases ro)
  all_goals (
    simp only [VariableMultiplyRule_get_type, vmType, vmStep, isinstance_some, left_bin, right_bin, left_const,
      left_var, left_un, right_const, right_var, right_un, get_term_ex_agree, get_term_ex_none, get_term_ex_binL, get_term_ex_binR,
      get_term_ex_un, List.any, Cls.holds, Bool.or_false,
      show (Bop.mul == Bop.pow) = false from rfl, ← htl, ← htr]
    try generalize getTermEx false lr = tlr
    try generalize getTermEx false rl = trl
    clear htl htr
    rcases tl with _ | ⟨c1, v1, e1⟩ <;> rcases tr with _ | ⟨c2, v2, e2⟩)
  all_goals (try (rcases tlr with _ | ⟨c3, v3, e3⟩))
  all_goals (try (rcases trl with _ | ⟨c4, v4, e4⟩))
  all_goals (simp [termVar] <;> (repeat' split) <;> (try simp_all [VMType.pyName]) <;>
    (try (rename_i h; cases h; rfl)))

theorem vm_l_sub (k : Ctx) (t : Nat) (lt : Nat) (ll lr : Ex) (r : Ex) :
    VMAgree k (.bin t .mul (.bin lt .sub ll lr) r) := by
  unfold VMAgree
  obtain ⟨tl, htl⟩ : ∃ x, x = getTermEx false (.bin lt .sub ll lr) := ⟨_, rfl⟩
  obtain ⟨tr, htr⟩ : ∃ x, x = getTermEx false r := ⟨_, rfl⟩
  rcases r with ⟨rt, rv⟩ | ⟨rt, rx⟩ | ⟨rt, ruo, rc⟩ | ⟨rt, ro, rl, rr⟩
  all_goals (try cases ro)
  all_goals (
    simp only [VariableMultiplyRule_get_type, vmType, vmStep, isinstance_some, left_bin, right_bin, left_const,
      left_var, left_un, right_const, right_var, right_un, get_term_ex_agree, get_term_ex_none, get_term_ex_binL, get_term_ex_binR,
      get_term_ex_un, List.any, Cls.holds, Bool.or_false,
      show (Bop.mul == Bop.pow) = false from rfl, ← htl, ← htr]
    try generalize getTermEx false lr = tlr
    try generalize getTermEx false rl = trl
    clear htl htr
    rcases tl with _ | ⟨c1, v1, e1⟩ <;> rcases tr with _ | ⟨c2, v2, e2⟩)
  all_goals (try (rcases tlr with _ | ⟨c3, v3, e3⟩))
  all_goals (try (rcases trl with _ | ⟨c4, v4, e4⟩))
  all_goals (simp [termVar] <;> (repeat' split) <;> (try simp_all [VMType.pyName]) <;>
    (try (rename_i h; cases h; rfl)))

theorem vm_l_mul (k : Ctx) (t : Nat) (lt : Nat) (ll lr : Ex) (r : Ex) :
    VMAgree k (.bin t .mul (.bin lt .mul ll lr) r) := by
  unfold VMAgree
  obtain ⟨tl, htl⟩ : ∃ x, x = getTermEx false (.bin lt .mul ll lr) := ⟨_, rfl⟩
  obtain ⟨tr, htr⟩ : ∃ x, x = getTermEx false r := ⟨_, rfl⟩
  rcases r with ⟨rt, rv⟩ | ⟨rt, rx⟩ | ⟨rt, ruo, rc⟩ | ⟨rt, ro, rl, rr⟩
  all_goals (try cases ro)
  all_goals (
    simp only [VariableMultiplyRule_get_type, vmType, vmStep, isinstance_some, left_bin, right_bin, left_const,
      left_var, left_un, right_const, right_var, right_un, get_term_ex_agree, get_term_ex_none, get_term_ex_binL, get_term_ex_binR,
      get_term_ex_un, List.any, Cls.holds, Bool.or_false,
      show (Bop.mul == Bop.pow) = false from rfl, ← htl, ← htr]
    try generalize getTermEx false lr = tlr
    try generalize getTermEx false rl = trl
    clear htl htr
    rcases tl with _ | ⟨c1, v1, e1⟩ <;> rcases tr with _ | ⟨c2, v2, e2⟩)
  all_goals (try (rcases tlr with _ | ⟨c3, v3, e3⟩))
  all_goals (try (rcases trl with _ | ⟨c4, v4, e4⟩))
  all_goals (simp [termVar] <;> (repeat' split) <;> (try simp_all [VMType.pyName]) <;>
    (try (rename_i h; cases h; rfl)))

theorem vm_l_div (k : Ctx) (t : Nat) (lt : Nat) (ll lr : Ex) (r : Ex) :
    VMAgree k (.bin t .mul (.bin lt .div ll lr) r) := by
  unfold VMAgree
  obtain ⟨tl, htl⟩ : ∃ x, x = getTermEx false (.bin lt .div ll lr) := ⟨_, rfl⟩
  obtain ⟨tr, htr⟩ : ∃ x, x = getTermEx false r := ⟨_, rfl⟩
  rcases r with ⟨rt, rv⟩ | ⟨rt, rx⟩ | ⟨rt, ruo, rc⟩ | ⟨rt, ro, rl, rr⟩
  all_goals (try cases ro)
  all_goals (
    simp only [VariableMultiplyRule_get_type, vmType, vmStep, isinstance_some, left_bin, right_bin, left_const,
      left_var, left_un, right_const, right_var, right_un, get_term_ex_agree, get_term_ex_none, get_term_ex_binL, get_term_ex_binR,
      get_term_ex_un, List.any, Cls.holds, Bool.or_false,
      show (Bop.mul == Bop.pow) = false from rfl, ← htl, ← htr]
    try generalize getTermEx false lr = tlr
    try generalize getTermEx false rl = trl
    clear htl htr
    rcases tl with _ | ⟨c1, v1, e1⟩ <;> rcases tr with _ | ⟨c2, v2, e2⟩)
  all_goals (try (rcases tlr with _ | ⟨c3, v3, e3⟩))
  all_goals (try (rcases trl with _ | ⟨c4, v4, e4⟩))
  all_goals (simp [termVar] <;> (repeat' split) <;> (try simp_all [VMType.pyName]) <;>
    (try (rename_i h; cases h; rfl)))

theorem vm_l_pow (k : Ctx) (t : Nat) (lt : Nat) (ll lr : Ex) (r : Ex) :
    VMAgree k (.bin t .mul (.bin lt .pow ll lr) r) := by
  unfold VMAgree
  obtain ⟨tl, htl⟩ : ∃ x, x = getTermEx false (.bin lt .pow ll lr) := ⟨_, rfl⟩
  obtain ⟨tr, htr⟩ : ∃ x, x = getTermEx false r := ⟨_, rfl⟩
  rcases r with ⟨rt, rv⟩ | ⟨rt, rx⟩ | ⟨rt, ruo, rc⟩ | ⟨rt, ro, rl, rr⟩
  all_goals (try cases ro)
  all_goals (
    simp only [VariableMultiplyRule_get_type, vmType, vmStep, isinstance_some, left_bin, right_bin, left_const,
      left_var, left_un, right_const, right_var, right_un, get_term_ex_agree, get_term_ex_none, get_term_ex_binL, get_term_ex_binR,
      get_term_ex_un, List.any, Cls.holds, Bool.or_false,
      show (Bop.mul == Bop.pow) = false from rfl, ← htl, ← htr]
    try generalize getTermEx false lr = tlr
    try generalize getTermEx false rl = trl
    clear htl htr
    rcases tl with _ | ⟨c1, v1, e1⟩ <;> rcases tr with _ | ⟨c2, v2, e2⟩)
  all_goals (try (rcases tlr with _ | ⟨c3, v3, e3⟩))
  all_goals (try (rcases trl with _ | ⟨c4, v4, e4⟩))
  all_goals (simp [termVar] <;> (repeat' split) <;> (try simp_all [VMType.pyName]) <;>
    (try (rename_i h; cases h; rfl)))

theorem vm_l_eq (k : Ctx) (t : Nat) (lt : Nat) (ll lr : Ex) (r : Ex) :
    VMAgree k (.bin t .mul (.bin lt .eq ll lr) r) := by
  unfold VMAgree
  obtain ⟨tl, htl⟩ : ∃ x, x = getTermEx false (.bin lt .eq ll lr) := ⟨_, rfl⟩
  obtain ⟨tr, htr⟩ : ∃ x, x = getTermEx false r := ⟨_, rfl⟩
  rcases r with ⟨rt, rv⟩ | ⟨rt, rx⟩ | ⟨rt, ruo, rc⟩ | ⟨rt, ro, rl, rr⟩
  all_goals (try cases ro)
  all_goals (
    simp only [VariableMultiplyRule_get_type, vmType, vmStep, isinstance_some, left_bin, right_bin, left_const,
      left_var, left_un, right_const, right_var, right_un, get_term_ex_agree, get_term_ex_none, get_term_ex_binL, get_term_ex_binR,
      get_term_ex_un, List.any, Cls.holds, Bool.or_false,
      show (Bop.mul == Bop.pow) = false from rfl, ← htl, ← htr]
    try generalize getTermEx false lr = tlr
    try generalize getTermEx false rl = trl
    clear htl htr
    rcases tl with _ | ⟨c1, v1, e1⟩ <;> rcases tr with _ | ⟨c2, v2, e2⟩)
  all_goals (try (rcases tlr with _ | ⟨c3, v3, e3⟩))
  all_goals (try (rcases trl with _ | ⟨c4, v4, e4⟩))
  all_goals (simp [termVar] <;> (repeat' split) <;> (try simp_all [VMType.pyName]) <;>
    (try (rename_i h; cases h; rfl)))

theorem vm_type_agree (k : Ctx) (n : Ex) :
    (VariableMultiplyRule_get_type (some ⟨k, n⟩)).map (·.1) = (vmType n).map VMType.pyName := by
  change VMAgree k n
  rcases n with ⟨t, v⟩ | ⟨t, x⟩ | ⟨t, uo, c⟩ | ⟨t, o, l, r⟩
  · rfl
  · rfl
  · rfl
  · cases o <;> try rfl
    rcases l with ⟨lt, lv⟩ | ⟨lt, lx⟩ | ⟨lt, luo, lc⟩ | ⟨lt, lo, ll, lr⟩
    · exact vm_l_const ..
    · exact vm_l_var ..
    · exact vm_l_un ..
    · cases lo
      · exact vm_l_add ..
      · exact vm_l_sub ..
      · exact vm_l_mul ..
      · exact vm_l_div ..
      · exact vm_l_pow ..
      · exact vm_l_eq ..

theorem vm_can_agree (k : Ctx) (n : Ex) : VariableMultiplyRule_can_apply_to (some ⟨k, n⟩) = vmCan n := by
  have h := congrArg Option.isSome (vm_type_agree k n)
  simp only [Option.isSome_map] at h
  rcases n with ⟨t, v⟩ | ⟨t, x⟩ | ⟨t, uo, c⟩ | ⟨t, o, l, r⟩
  · rfl
  · rfl
  · rfl
  · cases o <;> try rfl
    simp only [VariableMultiplyRule_can_apply_to, isinstance_some, List.any, Cls.holds, Bool.or_false, vmCan,
      vmType, Option.isSome_map] at h ⊢
    rw [← h]
    cases VariableMultiplyRule_get_type (some ⟨k, .bin t .mul l r⟩) <;> rfl

end Mathy.SrcAgree
