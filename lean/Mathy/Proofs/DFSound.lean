/-
Soundness of distributive factor-out: a*T + b*T => (a/g + b/g) * (g*T), six arrangements.
-/
import Mathy.Proofs.Terms
import Mathy.Proofs.RulesSound
namespace Mathy
set_option maxHeartbeats 1000000

/-! ### The factored core -/

/-- `RRef (X + Y) ((B + C) * A)` when `B*A` is `X` and `C*A` is `Y`, stated on results -/
theorem r_df_core_shared (l r g : Rat) (P : Res) :
    RRef (Res.bin .add (Res.bin .mul (.ok (g * l)) P) (Res.bin .mul (.ok (g * r)) P))
      (Res.bin .mul (Res.bin .add (.ok l) (.ok r)) (Res.bin .mul (.ok g) P)) := by
  rcases P with (_|_)|p <;> res_close

theorem r_df_core_split (l r g : Rat) (P Q : Res) :
    RRef (Res.bin .add (Res.bin .mul (.ok (g * l)) P) (Res.bin .mul (.ok (g * r)) Q))
      (Res.bin .mul (Res.bin .add (Res.bin .mul (.ok l) P) (Res.bin .mul (.ok r) Q)) (.ok g)) := by
  rcases P with (_|_)|p <;> rcases Q with (_|_)|q <;> res_close

/-- the variable part of a term: `x^e`, `x`, or nothing (`1`) -/
def TermEx.varRes (env : Env) (t : TermEx) : Res :=
  match t.var with
  | none => .ok 1
  | some x => evalPow (env x) (t.exp.getD 1)

theorem res_eq_varRes (env : Env) (t : TermEx) :
    t.res env = Res.bin .mul (.ok (t.coef.getD 1)) (t.varRes env) := by
  rcases t with ⟨c, _ | x, e⟩ <;> simp [TermEx.res, TermEx.varRes, evalBop]

theorem varRes_congr (env : Env) (c c' : Option Rat) (v : Option Char) (e : Option Rat) :
    (TermEx.mk c v e).varRes env = (TermEx.mk c' v e).varRes env := rfl

/-- what `factor_add_terms_ex` returns: the common numeric factor divides both coefficients, and
either the whole variable part is common or nothing of it is. -/
theorem factorAddTermsEx_spec {lt rt : TermEx} {f : FactorResult}
    (h : factorAddTermsEx lt rt = some f) :
    f.best * f.left = lt.coef.getD 1 ∧ f.best * f.right = rt.coef.getD 1 ∧
    ((f.comVar = lt.var ∧ f.comExp = lt.exp ∧ lt.var = rt.var ∧ lt.exp = rt.exp ∧
        f.leftVar = none ∧ f.leftExp = none ∧ f.rightVar = none ∧ f.rightExp = none)
     ∨ (f.comVar = none ∧ f.comExp = none ∧ f.leftVar = lt.var ∧ f.leftExp = lt.exp ∧
        f.rightVar = rt.var ∧ f.rightExp = rt.exp)) := by
  unfold factorAddTermsEx at h
  simp only at h
  split at h
  · simp at h
  rename_i best hbest
  split at h
  rotate_left
  · simp at h
  rename_i l r hgl hgr
  have hl' := dictGet_ok (factor_ok _) hgl
  have hr' := dictGet_ok (factor_ok _) hgr
  simp at h
  subst h
  refine ⟨hl', hr', ?_⟩
  rcases lt with ⟨lc, lv, le⟩
  rcases rt with ⟨rc, rv, re⟩
  rcases lv with _ | x <;> rcases rv with _ | y <;> rcases le with _ | e1 <;> rcases re with _ | e2 <;>
    simp <;> (try (by_cases hxy : x = y <;> simp [hxy])) <;> (try (by_cases he : e1 = e2 <;> simp [he])) <;>
    (try tauto)

theorem dfCore_sound {lt rt : TermEx} {core : Ex} (env : Env)
    (h : dfCore lt rt = some core) :
    RRef (Res.bin .add (lt.res env) (rt.res env)) (eval env core) := by
  unfold dfCore at h
  split at h
  · simp at h
  rename_i f hf
  split at h
  rotate_left
  · simp at h
  rename_i a b c ha hb hc
  simp at h
  subst h
  obtain ⟨hl, hr, hcase⟩ := factorAddTermsEx_spec hf
  simp only [eval]
  rw [makeTerm_sound env ha, makeTerm_sound env hb, makeTerm_sound env hc]
  rw [res_eq_varRes env lt, res_eq_varRes env rt, ← hl, ← hr]
  rcases hcase with ⟨h1, h2, h3, h4, h5, h6, h7, h8⟩ | ⟨h1, h2, h3, h4, h5, h6⟩
  · rw [h1, h2, h5, h6, h7, h8]
    rw [res_eq_varRes env ⟨some f.best, lt.var, lt.exp⟩]
    have : rt.varRes env = lt.varRes env := by
      rcases lt with ⟨lc, lv, le⟩; rcases rt with ⟨rc, rv, re⟩
      simp only at h3 h4; subst h3; subst h4; rfl
    rw [this]
    have : (TermEx.mk (some f.best) lt.var lt.exp).varRes env = lt.varRes env := by
      rcases lt with ⟨lc, lv, le⟩; rfl
    rw [this]
    simp only [TermEx.res, Option.getD]
    exact r_df_core_shared _ _ _ _
  · rw [h1, h2, h3, h4, h5, h6]
    rw [res_eq_varRes env ⟨some f.left, lt.var, lt.exp⟩, res_eq_varRes env ⟨some f.right, rt.var, rt.exp⟩]
    have e1 : (TermEx.mk (some f.left) lt.var lt.exp).varRes env = lt.varRes env := by
      rcases lt with ⟨lc, lv, le⟩; rfl
    have e2 : (TermEx.mk (some f.right) rt.var rt.exp).varRes env = rt.varRes env := by
      rcases rt with ⟨rc, rv, re⟩; rfl
    rw [e1, e2]
    simp only [TermEx.res, Option.getD]
    exact r_df_core_split _ _ _ _ _

/-! ### Re-attaching the kept children -/

macro "df_wrap_tac" : tactic =>
  `(tactic| (simp [RRef, Res.bin, evalBop, Bad.worse] at * <;> (try subst_vars) <;> (try ring_nf) <;> (try simp_all) <;> (try linarith)))

theorem r_df_both (LL X Y RR C : Res) (H : RRef (Res.bin .add X Y) C) :
    RRef (Res.bin .add (Res.bin .add LL X) (Res.bin .add Y RR)) (Res.bin .add (Res.bin .add LL C) RR) := by
  rcases LL with (_|_)|a <;> rcases X with (_|_)|x <;> rcases Y with (_|_)|y <;> rcases RR with (_|_)|r <;>
    rcases C with (_|_)|c <;> df_wrap_tac

theorem r_df_right (X Y RR C : Res) (H : RRef (Res.bin .add X Y) C) :
    RRef (Res.bin .add X (Res.bin .add Y RR)) (Res.bin .add C RR) := by
  rcases X with (_|_)|x <;> rcases Y with (_|_)|y <;> rcases RR with (_|_)|r <;>
    rcases C with (_|_)|c <;> df_wrap_tac

theorem r_df_right_left (X Y RLR RR C : Res) (H : RRef (Res.bin .add X Y) C) :
    RRef (Res.bin .add X (Res.bin .add (Res.bin .add Y RLR) RR)) (Res.bin .add C (Res.bin .add RLR RR)) := by
  rcases X with (_|_)|x <;> rcases Y with (_|_)|y <;> rcases RLR with (_|_)|a <;> rcases RR with (_|_)|r <;>
    rcases C with (_|_)|c <;> df_wrap_tac

theorem r_df_left (LL X Y C : Res) (H : RRef (Res.bin .add X Y) C) :
    RRef (Res.bin .add (Res.bin .add LL X) Y) (Res.bin .add LL C) := by
  rcases LL with (_|_)|a <;> rcases X with (_|_)|x <;> rcases Y with (_|_)|y <;>
    rcases C with (_|_)|c <;> df_wrap_tac

theorem r_df_left_right (LL LRL X Y C : Res) (H : RRef (Res.bin .add X Y) C) :
    RRef (Res.bin .add (Res.bin .add LL (Res.bin .add LRL X)) Y) (Res.bin .add (Res.bin .add LL LRL) C) := by
  rcases LL with (_|_)|a <;> rcases LRL with (_|_)|b <;> rcases X with (_|_)|x <;> rcases Y with (_|_)|y <;>
    rcases C with (_|_)|c <;> df_wrap_tac

theorem termWithVar_some {e : Ex} {t : TermEx} (h : termWithVar e = some t) :
    getTermEx false e = some t := by
  unfold termWithVar at h
  split at h
  · rename_i t' ht
    split at h
    · simp at h
    · simp at h; subst h; exact ht
  · simp at h

theorem dfStep_wrap {n ln rn : Ex} {ty : DFType} {lt rt : TermEx} {wrap : Ex → Ex}
    (h : dfStep n = some (ty, (ln, lt), (rn, rt), wrap)) :
    getTermEx false ln = some lt ∧ getTermEx false rn = some rt ∧
    ∀ env core, RRef (Res.bin .add (eval env ln) (eval env rn)) (eval env core) →
      RRef (eval env n) (eval env (wrap core)) := by
  unfold dfStep at h
  repeat' (split at h)
  all_goals (first | (simp at h; done) | skip)
  all_goals (
    simp at h
    obtain ⟨-, ⟨rfl, rfl⟩, ⟨rfl, rfl⟩, rfl⟩ := h
    refine ⟨by first | assumption | (apply termWithVar_some; assumption),
            by first | assumption | (apply termWithVar_some; assumption), ?_⟩
    intro env core H
    simp only [eval]
    first
      | exact H
      | exact r_df_both _ _ _ _ _ H
      | exact r_df_right _ _ _ _ H
      | exact r_df_right_left _ _ _ _ _ H
      | exact r_df_left _ _ _ _ H
      | exact r_df_left_right _ _ _ _ _ H)

theorem dfApply_sound {k k' : Ctx} {n n' : Ex}
    (h : dfApply k n = .ok (k', n')) : Refines (plug k n) (plug k' n') := by
  unfold dfApply at h
  split at h
  · simp at h
  · rename_i ty ln lt rn rt wrap hs
    split at h
    · rename_i core hc
      simp at h
      obtain ⟨rfl, rfl⟩ := h
      obtain ⟨hl, hr, hw⟩ := dfStep_wrap hs
      apply Refines.plug
      intro env
      apply hw env core
      rw [getTermEx_sound env hl, getTermEx_sound env hr]
      exact dfCore_sound env hc
    · simp at h

end Mathy
