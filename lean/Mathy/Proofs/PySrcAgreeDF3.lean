/- case lemmas of Proofs/PySrcAgreeDF.lean, continued -/
import Mathy.Proofs.PySrcAgreeDF
namespace Mathy.SrcAgree
open Mathy.Py Mathy.Gen.Src
set_option linter.unusedSimpArgs false
set_option linter.unusedVariables false



set_option maxHeartbeats 1000000 in
theorem df_l_add_sub (k : Ctx) (t : Nat) (lt : Nat) (ll : Ex) (lrt : Nat) (lrl lrr : Ex) (r : Ex) :
    DFAgree k (.bin t .add (.bin lt .add ll (.bin lrt .sub lrl lrr)) r) := by
  unfold DFAgree
  obtain ⟨tl, htl⟩ : ∃ x, x = getTermEx false (.bin lt .add ll (.bin lrt .sub lrl lrr)) := ⟨_, rfl⟩
  obtain ⟨tr, htr⟩ : ∃ x, x = getTermEx false r := ⟨_, rfl⟩
  obtain ⟨tlr, htlr⟩ : ∃ x, x = getTermEx false (.bin lrt .sub lrl lrr) := ⟨_, rfl⟩
  rcases r with ⟨rt, rv⟩ | ⟨rt, rx⟩ | ⟨rt, ruo, rc⟩ | ⟨rt, ro, rl, rr⟩
  · obtain ⟨trl, htrl⟩ : ∃ x, x = getTermEx true (.un 0 .abs (.const 0 0)) := ⟨_, rfl⟩
    df_close
  · obtain ⟨trl, htrl⟩ : ∃ x, x = getTermEx true (.un 0 .abs (.const 0 0)) := ⟨_, rfl⟩
    df_close
  · obtain ⟨trl, htrl⟩ : ∃ x, x = getTermEx true (.un 0 .abs (.const 0 0)) := ⟨_, rfl⟩
    df_close
  · cases ro
    case add =>
      obtain ⟨trl, htrl⟩ : ∃ x, x = getTermEx false rl := ⟨_, rfl⟩
      rcases rl with ⟨rlt, rlv⟩ | ⟨rlt, rlx⟩ | ⟨rlt, rluo, rlc⟩ | ⟨rlt, rlo, rll, rlr⟩
      · df_close
      · df_close
      · df_close
      · cases rlo <;> df_close
    all_goals (
      obtain ⟨trl, htrl⟩ : ∃ x, x = getTermEx true (.un 0 .abs (.const 0 0)) := ⟨_, rfl⟩
      df_close)

set_option maxHeartbeats 1000000 in
theorem df_l_add_mul (k : Ctx) (t : Nat) (lt : Nat) (ll : Ex) (lrt : Nat) (lrl lrr : Ex) (r : Ex) :
    DFAgree k (.bin t .add (.bin lt .add ll (.bin lrt .mul lrl lrr)) r) := by
  unfold DFAgree
  obtain ⟨tl, htl⟩ : ∃ x, x = getTermEx false (.bin lt .add ll (.bin lrt .mul lrl lrr)) := ⟨_, rfl⟩
  obtain ⟨tr, htr⟩ : ∃ x, x = getTermEx false r := ⟨_, rfl⟩
  obtain ⟨tlr, htlr⟩ : ∃ x, x = getTermEx false (.bin lrt .mul lrl lrr) := ⟨_, rfl⟩
  rcases r with ⟨rt, rv⟩ | ⟨rt, rx⟩ | ⟨rt, ruo, rc⟩ | ⟨rt, ro, rl, rr⟩
  · obtain ⟨trl, htrl⟩ : ∃ x, x = getTermEx true (.un 0 .abs (.const 0 0)) := ⟨_, rfl⟩
    df_close
  · obtain ⟨trl, htrl⟩ : ∃ x, x = getTermEx true (.un 0 .abs (.const 0 0)) := ⟨_, rfl⟩
    df_close
  · obtain ⟨trl, htrl⟩ : ∃ x, x = getTermEx true (.un 0 .abs (.const 0 0)) := ⟨_, rfl⟩
    df_close
  · cases ro
    case add =>
      obtain ⟨trl, htrl⟩ : ∃ x, x = getTermEx false rl := ⟨_, rfl⟩
      rcases rl with ⟨rlt, rlv⟩ | ⟨rlt, rlx⟩ | ⟨rlt, rluo, rlc⟩ | ⟨rlt, rlo, rll, rlr⟩
      · df_close
      · df_close
      · df_close
      · cases rlo <;> df_close
    all_goals (
      obtain ⟨trl, htrl⟩ : ∃ x, x = getTermEx true (.un 0 .abs (.const 0 0)) := ⟨_, rfl⟩
      df_close)

set_option maxHeartbeats 1000000 in
theorem df_l_add_div (k : Ctx) (t : Nat) (lt : Nat) (ll : Ex) (lrt : Nat) (lrl lrr : Ex) (r : Ex) :
    DFAgree k (.bin t .add (.bin lt .add ll (.bin lrt .div lrl lrr)) r) := by
  unfold DFAgree
  obtain ⟨tl, htl⟩ : ∃ x, x = getTermEx false (.bin lt .add ll (.bin lrt .div lrl lrr)) := ⟨_, rfl⟩
  obtain ⟨tr, htr⟩ : ∃ x, x = getTermEx false r := ⟨_, rfl⟩
  obtain ⟨tlr, htlr⟩ : ∃ x, x = getTermEx false (.bin lrt .div lrl lrr) := ⟨_, rfl⟩
  rcases r with ⟨rt, rv⟩ | ⟨rt, rx⟩ | ⟨rt, ruo, rc⟩ | ⟨rt, ro, rl, rr⟩
  · obtain ⟨trl, htrl⟩ : ∃ x, x = getTermEx true (.un 0 .abs (.const 0 0)) := ⟨_, rfl⟩
    df_close
  · obtain ⟨trl, htrl⟩ : ∃ x, x = getTermEx true (.un 0 .abs (.const 0 0)) := ⟨_, rfl⟩
    df_close
  · obtain ⟨trl, htrl⟩ : ∃ x, x = getTermEx true (.un 0 .abs (.const 0 0)) := ⟨_, rfl⟩
    df_close
  · cases ro
    case add =>
      obtain ⟨trl, htrl⟩ : ∃ x, x = getTermEx false rl := ⟨_, rfl⟩
      rcases rl with ⟨rlt, rlv⟩ | ⟨rlt, rlx⟩ | ⟨rlt, rluo, rlc⟩ | ⟨rlt, rlo, rll, rlr⟩
      · df_close
      · df_close
      · df_close
      · cases rlo <;> df_close
    all_goals (
      obtain ⟨trl, htrl⟩ : ∃ x, x = getTermEx true (.un 0 .abs (.const 0 0)) := ⟨_, rfl⟩
      df_close)

set_option maxHeartbeats 1000000 in
theorem df_l_add_pow (k : Ctx) (t : Nat) (lt : Nat) (ll : Ex) (lrt : Nat) (lrl lrr : Ex) (r : Ex) :
    DFAgree k (.bin t .add (.bin lt .add ll (.bin lrt .pow lrl lrr)) r) := by
  unfold DFAgree
  obtain ⟨tl, htl⟩ : ∃ x, x = getTermEx false (.bin lt .add ll (.bin lrt .pow lrl lrr)) := ⟨_, rfl⟩
  obtain ⟨tr, htr⟩ : ∃ x, x = getTermEx false r := ⟨_, rfl⟩
  obtain ⟨tlr, htlr⟩ : ∃ x, x = getTermEx false (.bin lrt .pow lrl lrr) := ⟨_, rfl⟩
  rcases r with ⟨rt, rv⟩ | ⟨rt, rx⟩ | ⟨rt, ruo, rc⟩ | ⟨rt, ro, rl, rr⟩
  · obtain ⟨trl, htrl⟩ : ∃ x, x = getTermEx true (.un 0 .abs (.const 0 0)) := ⟨_, rfl⟩
    df_close
  · obtain ⟨trl, htrl⟩ : ∃ x, x = getTermEx true (.un 0 .abs (.const 0 0)) := ⟨_, rfl⟩
    df_close
  · obtain ⟨trl, htrl⟩ : ∃ x, x = getTermEx true (.un 0 .abs (.const 0 0)) := ⟨_, rfl⟩
    df_close
  · cases ro
    case add =>
      obtain ⟨trl, htrl⟩ : ∃ x, x = getTermEx false rl := ⟨_, rfl⟩
      rcases rl with ⟨rlt, rlv⟩ | ⟨rlt, rlx⟩ | ⟨rlt, rluo, rlc⟩ | ⟨rlt, rlo, rll, rlr⟩
      · df_close
      · df_close
      · df_close
      · cases rlo <;> df_close
    all_goals (
      obtain ⟨trl, htrl⟩ : ∃ x, x = getTermEx true (.un 0 .abs (.const 0 0)) := ⟨_, rfl⟩
      df_close)

set_option maxHeartbeats 1000000 in
theorem df_l_add_eq (k : Ctx) (t : Nat) (lt : Nat) (ll : Ex) (lrt : Nat) (lrl lrr : Ex) (r : Ex) :
    DFAgree k (.bin t .add (.bin lt .add ll (.bin lrt .eq lrl lrr)) r) := by
  unfold DFAgree
  obtain ⟨tl, htl⟩ : ∃ x, x = getTermEx false (.bin lt .add ll (.bin lrt .eq lrl lrr)) := ⟨_, rfl⟩
  obtain ⟨tr, htr⟩ : ∃ x, x = getTermEx false r := ⟨_, rfl⟩
  obtain ⟨tlr, htlr⟩ : ∃ x, x = getTermEx false (.bin lrt .eq lrl lrr) := ⟨_, rfl⟩
  rcases r with ⟨rt, rv⟩ | ⟨rt, rx⟩ | ⟨rt, ruo, rc⟩ | ⟨rt, ro, rl, rr⟩
  · obtain ⟨trl, htrl⟩ : ∃ x, x = getTermEx true (.un 0 .abs (.const 0 0)) := ⟨_, rfl⟩
    df_close
  · obtain ⟨trl, htrl⟩ : ∃ x, x = getTermEx true (.un 0 .abs (.const 0 0)) := ⟨_, rfl⟩
    df_close
  · obtain ⟨trl, htrl⟩ : ∃ x, x = getTermEx true (.un 0 .abs (.const 0 0)) := ⟨_, rfl⟩
    df_close
  · cases ro
    case add =>
      obtain ⟨trl, htrl⟩ : ∃ x, x = getTermEx false rl := ⟨_, rfl⟩
      rcases rl with ⟨rlt, rlv⟩ | ⟨rlt, rlx⟩ | ⟨rlt, rluo, rlc⟩ | ⟨rlt, rlo, rll, rlr⟩
      · df_close
      · df_close
      · df_close
      · cases rlo <;> df_close
    all_goals (
      obtain ⟨trl, htrl⟩ : ∃ x, x = getTermEx true (.un 0 .abs (.const 0 0)) := ⟨_, rfl⟩
      df_close)

end Mathy.SrcAgree
