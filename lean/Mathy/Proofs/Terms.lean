/-
Semantics of `TermEx` triples; soundness of `get_term_ex`, `make_term`, `factor`.
-/
import Mathy.Proofs.Eval
namespace Mathy
set_option maxHeartbeats 400000

/-! ### Powers -/

theorem rat_den_one_iff (q : Rat) : q.den = 1 ↔ ∃ z : Int, q = z := by
  constructor
  · intro h; exact ⟨q.num, ((Rat.den_eq_one_iff q).mp h).symm⟩
  · rintro ⟨z, rfl⟩; simp

/-- `evalPow` on an integer exponent, in terms of Mathlib's `zpow` -/
theorem evalPow_int (x : Rat) (n : Int) :
    evalPow x n = if 0 ≤ n then .ok (x ^ n) else if x = 0 then .error .undef else .ok (x ^ n) := by
  unfold evalPow
  simp only [Rat.den_intCast, Rat.num_intCast, if_true]
  by_cases hn : 0 ≤ n
  · simp only [hn, if_true]
    congr 1
    rw [← zpow_natCast, Int.toNat_of_nonneg hn]
  · simp only [hn, if_false]
    by_cases hx : x = 0
    · simp [hx]
    · simp only [hx, if_false]
      congr 1
      have : (0:Int) ≤ -n := by omega
      rw [← zpow_natCast, Int.toNat_of_nonneg this, zpow_neg, inv_inv]

theorem evalPow_nonint (x y : Rat) (h : y.den ≠ 1) : evalPow x y = .error .undef := by
  unfold evalPow; simp [h]

theorem evalPow_one (x : Rat) : evalPow x 1 = .ok x := by
  have := evalPow_int x 1
  simpa using this

theorem evalPow_cases (x y : Rat) : evalPow x y = .error .undef ∨ ∃ p, evalPow x y = .ok p := by
  unfold evalPow
  split_ifs <;> simp

@[simp] theorem res_one_mul (R : Res) : Res.bin .mul (.ok 1) R = R := by
  rcases R with e | p <;> simp [Res.bin, evalBop]

@[simp] theorem res_bin_ok_ok (o : Bop) (a b : Rat) : Res.bin o (.ok a) (.ok b) = evalBop o a b := rfl

theorem res_neg_eq (R : Res) : Res.un .neg R = Res.bin .mul (.ok (-1)) R := by
  rcases R with e | p <;> simp [Res.bin, Res.un, evalBop, evalUop]

/-- `x^a * x^b = x^(a+b)` wherever the left-hand side is defined -/
theorem r_pow_add (x a b : Rat) :
    RRef (Res.bin .mul (evalPow x a) (evalPow x b)) (evalPow x (a + b)) := by
  by_cases ha : a.den = 1
  · by_cases hb : b.den = 1
    · obtain ⟨m, rfl⟩ := (rat_den_one_iff a).mp ha
      obtain ⟨n, rfl⟩ := (rat_den_one_iff b).mp hb
      have hs : ((m : Rat) + (n : Rat)) = ((m + n : Int) : Rat) := by push_cast; ring
      rw [hs, evalPow_int, evalPow_int, evalPow_int]
      by_cases hx : x = 0
      · subst hx
        by_cases hm : 0 ≤ m <;> by_cases hn : 0 ≤ n <;>
          simp [hm, hn, RRef, Res.bin, evalBop, Bad.worse]
        · have hmn : 0 ≤ m + n := by omega
          simp only [hmn, if_true]
          obtain ⟨m', rfl⟩ := Int.eq_ofNat_of_zero_le hm
          obtain ⟨n', rfl⟩ := Int.eq_ofNat_of_zero_le hn
          rw [← Nat.cast_add, zpow_natCast, zpow_natCast, zpow_natCast, pow_add]
      · have : x ^ (m + n) = x ^ m * x ^ n := zpow_add₀ hx m n
        by_cases hm : 0 ≤ m <;> by_cases hn : 0 ≤ n <;> by_cases hmn : 0 ≤ m + n <;>
          simp [hm, hn, hmn, hx, RRef, Res.bin, evalBop, this]
    · rw [evalPow_nonint x b hb]
      rcases evalPow_cases x a with h | ⟨p, h⟩ <;> rw [h] <;> simp [RRef, Res.bin, Bad.worse]
  · rw [evalPow_nonint x a ha]
    rcases evalPow_cases x b with h | ⟨p, h⟩ <;> rw [h] <;> simp [RRef, Res.bin, Bad.worse]

/-! ### Terms -/

/-- the value a `TermEx` stands for: `coef * var ^ exp` (missing parts are 1) -/
def TermEx.res (env : Env) (t : TermEx) : Res :=
  match t.var with
  | none => .ok (t.coef.getD 1)
  | some x => Res.bin .mul (.ok (t.coef.getD 1)) (evalPow (env x) (t.exp.getD 1))

theorem getTermEx_sound {p : Bool} {n : Ex} {t : TermEx} (env : Env)
    (h : getTermEx p n = some t) : eval env n = t.res env := by
  unfold getTermEx at h
  repeat' (split at h)
  all_goals (first | (simp at h; done) | skip)
  all_goals (
    simp at h
    subst h
    simp [eval, TermEx.res, evalPow_one, res_neg_eq, evalBop])

/-- `get_term_ex` yields an exponent only together with a variable -/
theorem getTermEx_exp_var {p : Bool} {n : Ex} {t : TermEx}
    (h : getTermEx p n = some t) : t.var = none → t.exp = none := by
  unfold getTermEx at h
  repeat' (split at h)
  all_goals (first | (simp at h; done) | skip)
  all_goals (simp at h; subst h; simp)

theorem makeTerm_sound {c : Rat} {v : Option Char} {e : Option Rat} {m : Ex} (env : Env)
    (h : makeTerm c v e = some m) : eval env m = (TermEx.mk (some c) v e).res env := by
  unfold makeTerm at h
  repeat' (split at h)
  all_goals (first | (simp at h; done) | skip)
  all_goals (
    simp at h
    subst h
    simp_all [eval, TermEx.res, evalPow_one, evalBop])

/-! ### factor -/

def DictOk (v : Rat) (d : List (Rat × Rat)) : Prop := ∀ p ∈ d, p.1 * p.2 = v

theorem dictSet_ok {v k w : Rat} {d : List (Rat × Rat)} (hd : DictOk v d) (h : k * w = v) :
    DictOk v (dictSet d k w) := by
  induction d with
  | nil => intro p hp; simp [dictSet] at hp; subst hp; exact h
  | cons x xs ih =>
    obtain ⟨k', v'⟩ := x
    unfold dictSet
    split
    · rename_i hk
      intro p hp
      simp at hp
      rcases hp with rfl | hp
      · simp [hk, h]
      · exact hd p (by simp [hp])
    · intro p hp
      simp at hp
      rcases hp with rfl | hp
      · exact hd _ (by simp)
      · exact ih (fun q hq => hd q (by simp [hq])) p hp

theorem dictGet_ok {v k w : Rat} {d : List (Rat × Rat)} (hd : DictOk v d)
    (h : dictGet? d k = some w) : k * w = v := by
  induction d with
  | nil => simp [dictGet?] at h
  | cons x xs ih =>
    obtain ⟨k', v'⟩ := x
    unfold dictGet? at h
    split at h
    · rename_i hk
      simp at h
      subst h
      subst hk
      exact hd (k', v') (by simp)
    · exact ih (fun q hq => hd q (by simp [hq])) h

theorem factorStep_ok {v : Rat} {d : List (Rat × Rat)} (i : Nat) (hi : 2 ≤ i) (hd : DictOk v d) :
    DictOk v (factorStep v d i) := by
  unfold factorStep
  split
  · have hi0 : (i : Rat) ≠ 0 := by
      have : (0 : Rat) < i := by exact_mod_cast (by omega : 0 < i)
      exact ne_of_gt this
    apply dictSet_ok
    · apply dictSet_ok hd
      field_simp
    · field_simp
  · exact hd

theorem factor_ok (v : Rat) : DictOk v (factor v) := by
  unfold factor
  split
  · intro p hp; simp at hp
  · split
    · intro p hp; simp at hp; subst hp; simp
    · have base : DictOk v (dictSet (dictSet [] 1 v) v 1) := by
        apply dictSet_ok
        · apply dictSet_ok (by intro p hp; simp at hp)
          simp
        · simp
      generalize dictSet (dictSet [] 1 v) v 1 = d at base
      have : ∀ (l : List Nat), (∀ i ∈ l, 2 ≤ i) → ∀ d, DictOk v d → DictOk v (l.foldl (factorStep v) d) := by
        intro l
        induction l with
        | nil => intro _ d hd; exact hd
        | cons i is ih =>
          intro hl d hd
          simp only [List.foldl_cons]
          apply ih (fun j hj => hl j (by simp [hj]))
          exact factorStep_ok i (hl i (by simp)) hd
      apply this _ _ d base
      intro i hi
      simp [List.mem_range'] at hi
      omega

end Mathy
