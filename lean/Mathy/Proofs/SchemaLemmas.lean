/-
Facts about `factor` / `factor_add_terms_ex` used by the schema theorems of property C08:
for a coefficient `v ≥ 1` the dictionary `factor v` has the key `1` (with value `v`) and no key
below `1`, so the smallest common factor of two such coefficients is `1`.
-/
import Mathy.Proofs.Terms
namespace Mathy

/-! ### dictionaries -/

theorem dictHas_iff (d : List (Rat × Rat)) (k : Rat) : dictHas d k = true ↔ k ∈ d.map (·.1) := by
  induction d with
  | nil => simp [dictHas, dictGet?]
  | cons x xs ih =>
    obtain ⟨k', v'⟩ := x
    unfold dictHas dictGet?
    by_cases hk : k' = k
    · simp [hk]
    · have hk' : ¬ k = k' := fun h => hk h.symm
      simpa [hk, hk', dictHas] using ih

theorem dictSet_keys_keep {d : List (Rat × Rat)} {k : Rat} (k' v : Rat)
    (h : k ∈ d.map (·.1)) : k ∈ (dictSet d k' v).map (·.1) := by
  induction d with
  | nil => simp at h
  | cons x xs ih =>
    obtain ⟨k0, v0⟩ := x
    unfold dictSet
    split
    · simpa using h
    · simp only [List.map_cons, List.mem_cons] at h ⊢
      rcases h with h | h
      · exact Or.inl h
      · exact Or.inr (ih h)

theorem dictSet_keys_sub {d : List (Rat × Rat)} {k k' v : Rat}
    (h : k ∈ (dictSet d k' v).map (·.1)) : k = k' ∨ k ∈ d.map (·.1) := by
  induction d with
  | nil => simp [dictSet] at h; exact Or.inl h
  | cons x xs ih =>
    obtain ⟨k0, v0⟩ := x
    unfold dictSet at h
    split at h
    · exact Or.inr (by simpa using h)
    · simp only [List.map_cons, List.mem_cons] at h ⊢
      rcases h with h | h
      · exact Or.inr (Or.inl h)
      · rcases ih h with h | h
        · exact Or.inl h
        · exact Or.inr (Or.inr h)

/-- every key of the dictionary is at least `1` -/
def KeysGe1 (d : List (Rat × Rat)) : Prop := ∀ k ∈ d.map (·.1), (1 : Rat) ≤ k

theorem dictSet_keysGe1 {d : List (Rat × Rat)} {k v : Rat} (hd : KeysGe1 d) (hk : 1 ≤ k) :
    KeysGe1 (dictSet d k v) := by
  intro q hq
  rcases dictSet_keys_sub hq with rfl | h
  · exact hk
  · exact hd q h

/-! ### factor -/

theorem factorStep_keysGe1 {v : Rat} {d : List (Rat × Rat)} (i : Nat) (hi : 2 ≤ i)
    (hd : KeysGe1 d) : KeysGe1 (factorStep v d i) := by
  unfold factorStep
  split
  · rename_i hc
    obtain ⟨hle, -, -⟩ := hc
    have hi1 : (1 : Rat) ≤ i := by exact_mod_cast (by omega : 1 ≤ i)
    have hi0 : (0 : Rat) < i := by linarith
    have hii : (i : Rat) ≤ ((i * i : Nat) : Rat) := by
      exact_mod_cast (Nat.le_mul_self i)
    have hvi : (1 : Rat) ≤ v / i := by
      rw [le_div_iff₀ hi0]
      linarith
    exact dictSet_keysGe1 (dictSet_keysGe1 hd hi1) hvi
  · exact hd

theorem factorStep_keys_keep {v : Rat} {d : List (Rat × Rat)} {k : Rat} (i : Nat)
    (h : k ∈ d.map (·.1)) : k ∈ (factorStep v d i).map (·.1) := by
  unfold factorStep
  split
  · exact dictSet_keys_keep _ _ (dictSet_keys_keep _ _ h)
  · exact h

theorem foldl_factorStep_inv {v : Rat} (l : List Nat) (hl : ∀ i ∈ l, 2 ≤ i) (d : List (Rat × Rat))
    (hd : KeysGe1 d) (h1 : (1 : Rat) ∈ d.map (·.1)) :
    KeysGe1 (l.foldl (factorStep v) d) ∧ (1 : Rat) ∈ (l.foldl (factorStep v) d).map (·.1) := by
  induction l generalizing d with
  | nil => exact ⟨hd, h1⟩
  | cons i is ih =>
    simp only [List.foldl_cons]
    exact ih (fun j hj => hl j (by simp [hj])) _
      (factorStep_keysGe1 i (hl i (by simp)) hd) (factorStep_keys_keep i h1)

/-- for `v ≥ 1` every factor is at least `1`, and `1` is a factor -/
theorem factor_keys {v : Rat} (hv : 1 ≤ v) :
    KeysGe1 (factor v) ∧ (1 : Rat) ∈ (factor v).map (·.1) := by
  have h0 : ¬ v = 0 := by intro h; rw [h] at hv; exact absurd hv (by norm_num)
  have hneg : ¬ v < 0 := by intro h; linarith
  unfold factor
  rw [if_neg h0, if_neg hneg]
  apply foldl_factorStep_inv
  · intro i hi
    simp [List.mem_range'] at hi
    omega
  · apply dictSet_keysGe1 _ hv
    apply dictSet_keysGe1 _ (le_refl _)
    intro k hk; simp at hk
  · apply dictSet_keys_keep
    simp [dictSet]

theorem factor_get_one {v : Rat} (hv : 1 ≤ v) : dictGet? (factor v) 1 = some v := by
  have h := (dictHas_iff (factor v) 1).mpr (factor_keys hv).2
  unfold dictHas at h
  obtain ⟨w, hw⟩ := Option.isSome_iff_exists.mp h
  have := dictGet_ok (factor_ok v) hw
  rw [hw]
  simp at this
  rw [this]

/-! ### smallest common factor -/

theorem listMin_eq_one (l : List Rat) (h1 : (1 : Rat) ∈ l) (hl : ∀ x ∈ l, (1 : Rat) ≤ x) :
    listMin l = some 1 := by
  induction l with
  | nil => simp at h1
  | cons x xs ih =>
    unfold listMin
    by_cases hx : (1 : Rat) ∈ xs
    · rw [ih hx (fun y hy => hl y (by simp [hy]))]
      have := hl x (by simp)
      by_cases hx1 : x ≤ 1
      · have : x = 1 := le_antisymm hx1 this
        simp [this]
      · simp [hx1]
    · have hx1 : x = 1 := by
        simp at h1
        rcases h1 with h | h
        · exact h.symm
        · exact absurd h hx
      subst hx1
      cases hm : listMin xs with
      | none => rfl
      | some m =>
        have hmem : ∀ (ys : List Rat) (m : Rat), listMin ys = some m → m ∈ ys := by
          intro ys
          induction ys with
          | nil => intro m h; simp [listMin] at h
          | cons y ys ihy =>
            intro m h
            unfold listMin at h
            cases hm' : listMin ys with
            | none => rw [hm'] at h; simp at h; simp [h]
            | some m' =>
              rw [hm'] at h
              simp at h
              have := ihy m' hm'
              split_ifs at h with hc
              · simp [← h]
              · subst h; simp [this]
        have hm1 : (1 : Rat) ≤ m := hl m (by simp [hmem xs m hm])
        simp [hm1]

/-- the smallest common factor of two coefficients `≥ 1` is `1` -/
theorem listMin_common_factor {a b : Rat} (ha : 1 ≤ a) (hb : 1 ≤ b) :
    listMin (((factor b).map (·.1)).filter (dictHas (factor a))) = some 1 := by
  apply listMin_eq_one
  · rw [List.mem_filter]
    exact ⟨(factor_keys hb).2, (dictHas_iff _ _).mpr (factor_keys ha).2⟩
  · intro x hx
    rw [List.mem_filter] at hx
    exact (factor_keys hb).1 x hx.1

/-- `factor_add_terms_ex` on two terms with coefficients `≥ 1`, at least one of them with a
variable: the factor pulled out is `1`, the quotients are the coefficients themselves. -/
theorem factorAddTermsEx_best_one {a b : Rat} (ha : 1 ≤ a) (hb : 1 ≤ b)
    (lv rv : Option Char) (le re : Option Rat) (hv : (lv.isSome || rv.isSome) = true) :
    ∃ f, factorAddTermsEx ⟨some a, lv, le⟩ ⟨some b, rv, re⟩ = some f ∧
      f.best = 1 ∧ f.left = a ∧ f.right = b := by
  unfold factorAddTermsEx
  simp only [Option.getD_some, hv, if_true, listMin_common_factor ha hb, factor_get_one ha,
    factor_get_one hb]
  exact ⟨_, rfl, rfl, rfl, rfl⟩

end Mathy
