/-
Lemmas about the stream-driven generator model (Model/ProblemGen.lean), for every stream.
-/
import Mathy.Model.ProblemGen
namespace Mathy
namespace Gen

theorem draw_lt (n : Nat) (hn : 0 < n) (s : Stream) : (draw n s).1 < n := by
  cases s with
  | nil => simpa [draw] using hn
  | cons d ds =>
    have : n ≠ 0 := by omega
    simp [draw, this, Nat.mod_lt _ hn]

/-- a coefficient, if present, is a valid literal -/
def CoefOk (c : Option PNum) : Prop := ∀ n, c = some n → n.ok = true
/-- a power, if present, is a valid literal -/
def PowOk (p : Option (List Char)) : Prop := ∀ t, p = some t → (parseNumber t).isSome = true

theorem digits_1_12 : ∀ k : Fin 12, (parseNumber (natDigits (1 + k.val))).isSome = true := by decide +kernel
theorem digits_2_4 : ∀ k : Fin 3, (parseNumber (natDigits (2 + k.val))).isSome = true := by decide +kernel

theorem randNumber_ok (s : Stream) : (randNumber s).1.ok = true := by
  have h := draw_lt 12 (by decide) s
  have := digits_1_12 ⟨(draw 12 s).1, h⟩
  simpa [randNumber, randint, PNum.ok] using this

theorem maybeNumber_ok (pct : Rat) (s : Stream) : CoefOk (maybeNumber pct s).1 := by
  intro n hn
  unfold maybeNumber at hn
  simp only [] at hn
  split at hn
  · simp only [Option.some.injEq] at hn
    rw [← hn]; exact randNumber_ok _
  · cases hn

theorem maybePower_ok (pct : Rat) (s : Stream) : PowOk (maybePower pct s).1 := by
  intro t ht
  unfold maybePower at ht
  simp only [] at ht
  split at ht
  · simp only [Option.some.injEq] at ht
    rw [← ht]
    have h := draw_lt 3 (by decide) (randBool pct s).2
    have := digits_2_4 ⟨(draw 3 (randBool pct s).2).1, h⟩
    simpa [randint] using this
  · cases ht

theorem term_ok (c : Option PNum) (v : Char) (p : Option (List Char)) (hc : CoefOk c) (hp : PowOk p) :
    (PItem.term c v p).ok = true := by
  cases c with
  | none => cases p with
    | none => rfl
    | some t => simpa [PItem.ok] using hp t rfl
  | some n => cases p with
    | none => simpa [PItem.ok] using hc n rfl
    | some t => simp [PItem.ok, hc n rfl, hp t rfl]

theorem noiseTerm_ok (pc : Rat) (v : Char) (s : Stream) : (noiseTerm pc v s).1.ok = true := by
  unfold noiseTerm
  exact term_ok _ _ _ (maybeNumber_ok _ _) (maybePower_ok _ _)

theorem noiseTerms_ok (pc : Rat) : ∀ (n : Nat) (vars : List Char) (s : Stream),
    ∀ it ∈ (noiseTerms pc n vars s).1.1, it.ok = true := by
  intro n
  induction n with
  | zero => intro vars s it h; simp [noiseTerms] at h
  | succ n ih =>
    intro vars s it h
    unfold noiseTerms at h
    cases hv : vars.getLast? with
    | none => simp [hv] at h
    | some v =>
      simp only [hv] at h
      rcases List.mem_cons.1 h with rfl | h'
      · exact noiseTerm_ok _ _ _
      · exact ih _ _ _ h'

/-- the sum of a non-empty list of well-formed items with a valid group is a well-formed problem
whose operators are all `+` -/
theorem sumProblem_ok (items : List PItem) (g : Option (Nat × Nat)) (hne : items ≠ [])
    (hok : ∀ it ∈ items, it.ok = true)
    (hg : ∀ gs ge, g = some (gs, ge) → gs < ge ∧ ge + 1 ≤ items.length) :
    ∃ p, sumProblem items g = some p ∧ p.ok = true ∧ p.items = items ∧
      p.rest.all (fun q => q.1 == POpr.plus) = true := by
  cases items with
  | nil => exact absurd rfl hne
  | cons it rest =>
    refine ⟨⟨it, rest.map fun x => (POpr.plus, x), g⟩, rfl, ?_, ?_, ?_⟩
    · have h1 : it.ok = true := hok it (by simp)
      have h2 : (rest.map fun x => (POpr.plus, x)).all (fun q => q.2.ok) = true := by
        simp only [List.all_map, List.all_eq_true]
        intro x hx
        exact hok x (by simp [hx])
      cases g with
      | none => simp [FlatProblem.ok, h1, h2]
      | some pr =>
        obtain ⟨gs, ge⟩ := pr
        obtain ⟨hlt, hle⟩ := hg gs ge rfl
        simp only [List.length_cons] at hle
        simp [FlatProblem.ok, h1, h2, hlt]
        omega
    · simp [FlatProblem.items, List.map_map, Function.comp_def]
    · simp [List.all_map]

theorem mem_zipIdx_of_getElem? {α : Type} (l : List α) (i : Nat) (x : α) (h : l[i]? = some x) :
    (x, i) ∈ l.zipIdx := by
  rw [List.mem_zipIdx_iff_getElem?]
  simpa using h

/-- two items with the same key at different positions: the like-term promise -/
theorem like_of_pair (p : FlatProblem) (hplus : p.rest.all (fun q => q.1 == POpr.plus) = true)
    (i j : Nat) (hij : i < j) (a b : PItem) (ha : p.items[i]? = some a) (hb : p.items[j]? = some b)
    (hk : a.key.isSome = true) (hkk : a.key = b.key) : p.promisesLike = true := by
  unfold FlatProblem.promisesLike
  rw [hplus, Bool.true_and, List.any_eq_true]
  refine ⟨(a, i), mem_zipIdx_of_getElem? _ _ _ ha, ?_⟩
  rw [List.any_eq_true]
  refine ⟨(b, j), mem_zipIdx_of_getElem? _ _ _ hb, ?_⟩
  rw [hkk] at hk
  simp [hij, hk, hkk]

theorem getElem?_mid {α : Type} (l r : List α) (x : α) : (l ++ x :: r)[l.length]? = some x := by
  simp

/-- the pool without one of its own letters still has 23 letters -/
theorem pool_minus_one : ∀ i : Fin 24,
    23 ≤ (variablesPool.filter (fun v => !([variablesPool.getD i.val 'a'].contains v))).length := by
  decide +kernel

theorem randVar_pool (s : Stream) : ∃ i : Fin 24, (randVar s).1 = variablesPool.getD i.val 'a' := by
  have h := draw_lt 24 (by decide) s
  refine ⟨⟨(draw 24 s).1, h⟩, ?_⟩
  have hl : variablesPool.length - 1 - 0 + 1 = 24 := by decide
  simp only [randVar, randint, hl, Nat.zero_add]

theorem getRandVarsS_some (n : Nat) (exclude : List Char) (s : Stream) (h1 : n ≤ 25)
    (h2 : n ≤ (variablesPool.filter (fun v => !exclude.contains v)).length) :
    ∃ vs, (getRandVarsS n exclude s).1 = some vs := by
  unfold getRandVarsS
  simp only []
  rw [if_neg (by omega), if_neg (by omega)]
  exact ⟨_, rfl⟩

theorem sample_length : ∀ (k : Nat) (pool : List Char) (s : Stream), k ≤ pool.length →
    (sample k pool s).1.length = k := by
  intro k
  induction k with
  | zero => intro pool s _; rfl
  | succ k ih =>
    intro pool s h
    have hj := draw_lt pool.length (by omega) s
    simp only [sample, List.length_cons]
    rw [ih]
    rw [List.length_eraseIdx]
    split <;> omega

theorem swapAt_length (l : List Char) (i j : Nat) : (swapAt l i j).length = l.length := by
  simp [swapAt]

theorem shuffleFrom_length : ∀ (i : Nat) (l : List Char) (s : Stream), (shuffleFrom i l s).1.length = l.length := by
  intro i
  induction i with
  | zero => intro l s; rfl
  | succ i ih => intro l s; simp only [shuffleFrom]; rw [ih, swapAt_length]

theorem getRandVarsS_length (n : Nat) (exclude : List Char) (s : Stream) (vs : List Char)
    (h : (getRandVarsS n exclude s).1 = some vs) : vs.length = n := by
  unfold getRandVarsS at h
  simp only [] at h
  split at h
  · cases h
  · split at h
    · cases h
    · rename_i h1 h2
      simp only [Option.some.injEq] at h
      rw [← h, shuffle, shuffleFrom_length, sample_length]
      omega

end Gen
end Mathy

namespace Mathy
namespace Gen

/-- a template's power, if present, is a valid literal -/
def TemplOk (t : Template) : Prop := PowOk t.2

theorem adorn_ok (pc : Rat) : ∀ (vs : List Char) (s : Stream), ∀ t ∈ (adorn pc vs s).1, TemplOk t := by
  intro vs
  induction vs with
  | nil => intro s t h; simp [adorn] at h
  | cons v vs ih =>
    intro s t h
    simp only [adorn, List.mem_cons] at h
    rcases h with rfl | h
    · exact maybePower_ok _ _
    · exact ih _ _ h

theorem adorn_length (pc : Rat) : ∀ (vs : List Char) (s : Stream), (adorn pc vs s).1.length = vs.length := by
  intro vs
  induction vs with
  | nil => intro s; rfl
  | cons v vs ih => intro s; simp [adorn, ih]

theorem noiseTemplates_ok (pc : Rat) : ∀ (n : Nat) (vars : List Char) (s : Stream),
    ∀ t ∈ (noiseTemplates pc n vars s).1.1, TemplOk t := by
  intro n
  induction n with
  | zero => intro vars s t h; simp [noiseTemplates] at h
  | succ n ih =>
    intro vars s t h
    unfold noiseTemplates at h
    cases hv : vars.getLast? with
    | none => simp [hv] at h
    | some v =>
      simp only [hv] at h
      rcases List.mem_cons.1 h with rfl | h'
      · exact maybePower_ok _ _
      · exact ih _ _ _ h'

theorem swapAtG_length {α : Type} (l : List α) (i j : Nat) : (swapAtG l i j).length = l.length := by
  unfold swapAtG
  split <;> simp

theorem swapAtG_mem {α : Type} (l : List α) (i j : Nat) (x : α) (h : x ∈ swapAtG l i j) : x ∈ l := by
  unfold swapAtG at h
  split at h
  · rename_i a b ha hb
    have h1 := List.mem_or_eq_of_mem_set h
    rcases h1 with h1 | rfl
    · have h2 := List.mem_or_eq_of_mem_set h1
      rcases h2 with h2 | rfl
      · exact h2
      · exact List.mem_of_getElem? hb
    · exact List.mem_of_getElem? ha
  · exact h

theorem shuffleFromG_spec {α : Type} : ∀ (i : Nat) (l : List α) (s : Stream),
    (shuffleFromG i l s).1.length = l.length ∧ ∀ x ∈ (shuffleFromG i l s).1, x ∈ l := by
  intro i
  induction i with
  | zero => intro l s; exact ⟨rfl, fun x h => h⟩
  | succ i ih =>
    intro l s
    simp only [shuffleFromG]
    obtain ⟨h1, h2⟩ := ih (swapAtG l (i + 1) (draw (i + 2) s).1) (draw (i + 2) s).2
    exact ⟨by rw [h1, swapAtG_length], fun x hx => swapAtG_mem _ _ _ _ (h2 x hx)⟩

theorem simplifyTail_spec (spec : OpSpec) (optionalVar : Bool) (ovp : Rat) : ∀ (ts : List Template) (s : Stream),
    (∀ t ∈ ts, TemplOk t) →
    (simplifyTail spec optionalVar ovp ts s).1.length = ts.length ∧
    ∀ q ∈ (simplifyTail spec optionalVar ovp ts s).1, q.2.ok = true := by
  intro ts
  induction ts with
  | nil => intro s _; simp [simplifyTail]
  | cons t ts ih =>
    intro s ht
    obtain ⟨v, p⟩ := t
    have hp : PowOk p := ht (v, p) (by simp)
    have hts : ∀ t ∈ ts, TemplOk t := fun t h => ht t (by simp [h])
    simp only [simplifyTail]
    generalize (if optionalVar = true then randBool ovp s else (true, s)) = K
    obtain ⟨keep, s1⟩ := K
    cases keep with
    | true =>
      simp only [if_true]
      obtain ⟨h1, h2⟩ := ih (getOp spec (maybeNumber 80 s1).2).2 hts
      refine ⟨by simp [h1], ?_⟩
      intro q hq
      simp only [List.mem_cons] at hq
      rcases hq with rfl | hq
      · exact term_ok _ _ _ (maybeNumber_ok _ _) hp
      · exact h2 q hq
    | false =>
      simp only [Bool.false_eq_true, if_false]
      obtain ⟨h1, h2⟩ := ih (getOp spec (randNumber s1).2).2 hts
      refine ⟨by simp [h1], ?_⟩
      intro q hq
      simp only [List.mem_cons] at hq
      rcases hq with rfl | hq
      · simpa [PItem.ok] using randNumber_ok s1
      · exact h2 q hq

end Gen
end Mathy
