/-
`ConstantsSimplifyRule.get_type` (translated from the live source) agrees with the model's `caType`
on every tree: assembly of the case lemmas.
-/
import Mathy.Proofs.PySrcAgreeCA1
import Mathy.Proofs.PySrcAgreeCA2
import Mathy.Proofs.PySrcAgreeCA3
import Mathy.Proofs.PySrcAgreeCA4
namespace Mathy.SrcAgree
open Mathy.Py Mathy.Gen.Src

theorem constants_type_agree (k : Ctx) (n : Ex) :
    (ConstantsSimplifyRule_get_type (some ⟨k, n⟩)).map (·.1) = (caType n).map CAType.pyName := by
  change CAAgree k n
  rcases n with ⟨t, v⟩ | ⟨t, x⟩ | ⟨t, uo, c⟩ | ⟨t, o, l, r⟩
  · rfl
  · rfl
  · exact ca_leaf_un ..
  · rcases l with ⟨lt, lv⟩ | ⟨lt, lx⟩ | ⟨lt, luo, lc⟩ | ⟨lt, lo, ll, lr⟩
    · by_cases h : ∃ rt ro rlt rlo rll rlr rr, r = .bin rt ro (.bin rlt rlo rll rlr) rr
      · obtain ⟨rt, ro, rlt, rlo, rll, rlr, rr, rfl⟩ := h
        exact ca_left_const_deep ..
      · exact ca_left_const_shallow k t o lt lv r (fun rt ro rlt rlo rll rlr rr he => h ⟨rt, ro, rlt, rlo, rll, rlr, rr, he⟩)
    · exact ca_left_var ..
    · exact ca_left_un ..
    · by_cases h : o = .mul ∧ lo = .mul
      · obtain ⟨rfl, rfl⟩ := h
        rcases ll with ⟨llt, llv⟩ | ⟨llt, llx⟩ | ⟨llt, llo, llc⟩ | ⟨llt, llo, lll, llr⟩
        · exact ca_pp_const ..
        · exact ca_pp_var ..
        · exact ca_pp_un ..
        · exact ca_pp_bin ..
      · exact ca_left_bin_other k t o lt lo ll lr r h

/-- applicability: `can_apply_to` is `get_type(node) is not None` -/
theorem constants_can_agree (k : Ctx) (n : Ex) :
    (ConstantsSimplifyRule_get_type (some ⟨k, n⟩)).isSome = caCan n := by
  have h := congrArg Option.isSome (constants_type_agree k n)
  simpa [caCan, caType] using h

end Mathy.SrcAgree
