/-
`DistributiveFactorOutRule.get_type` / `can_apply_to` (translated from the live source, with
`get_term_ex` and `factor_add_terms_ex` as externals = the model's `getTermEx` / `factorAddTermsEx`)
agree with the model's `dfType` / `dfCan`.  Case lemmas per shape of the left operand (proof text
produced by a script).
-/
import Mathy.Proofs.PySrcAgreeVM
namespace Mathy.SrcAgree
open Mathy.Py Mathy.Gen.Src
set_option linter.unusedSimpArgs false
set_option linter.unusedVariables false



/-- the strings `DistributiveFactorOutRule.get_type` returns -/
def DFType.pyName : DFType → String
  | .simple => "simple" | .chainedBoth => "chained_both" | .chainedLeft => "chained_left"
  | .chainedLeftRight => "chained_left_right" | .chainedRightLeft => "chained_right_left"
  | .chainedRight => "chained_right"

/-- the statement for one sum -/
def DFAgree (k : Ctx) (n : Ex) : Prop :=
  DistributiveFactorOutRule_get_type (some ⟨k, n⟩)
    = (dfStep n).map (fun s => (DFType.pyName s.1, some s.2.1.2, some s.2.2.1.2))

set_option hygiene false in
/-- evaluate both sides on a concrete shape, abstract the terms of the operands, split on them -/
macro "df_close" : tactic => `(tactic| (
    simp only [DistributiveFactorOutRule_get_type, dfStep, termWithVar, isinstance_some, left_bin, right_bin,
      left_const, left_var, left_un, right_const, right_var, right_un, get_term_ex_agree, get_term_ex_none, get_term_ex_binL,
      get_term_ex_binR, get_term_ex_un, List.any, Cls.holds, Bool.or_false,
      show (Bop.add == Bop.pow) = false from rfl, ← htl, ← htr, ← htlr, ← htrl]
    try generalize getTermEx false lrr = tlrr
    try generalize getTermEx false rll = trll
    clear htl htr
    rcases tl with _ | ⟨c1, v1, e1⟩ <;> rcases tr with _ | ⟨c2, v2, e2⟩ <;> rcases tlr with _ | ⟨c3, v3, e3⟩ <;>
      rcases trl with _ | ⟨c4, v4, e4⟩
    all_goals (try (rcases tlrr with _ | ⟨c5, v5, e5⟩))
    all_goals (try (rcases trll with _ | ⟨c6, v6, e6⟩))
    all_goals (simp [termVar] <;> (repeat' split) <;> (try simp_all [DFType.pyName]) <;>
      (try (rename_i h; cases h; rfl)) <;>
      (try (rw [← htrl] at *; simp_all [DFType.pyName])) <;> (try (rw [← htlr] at *; simp_all [DFType.pyName])))))

set_option maxHeartbeats 1000000 in
theorem df_l_const (k : Ctx) (t : Nat) (lt : Nat) (lv : Rat) (r : Ex) :
    DFAgree k (.bin t .add (.const lt lv) r) := by
  unfold DFAgree
  obtain ⟨tl, htl⟩ : ∃ x, x = getTermEx false (.const lt lv) := ⟨_, rfl⟩
  obtain ⟨tr, htr⟩ : ∃ x, x = getTermEx false r := ⟨_, rfl⟩
  obtain ⟨tlr, htlr⟩ : ∃ x, x = getTermEx true (.un 0 .abs (.const 0 0)) := ⟨_, rfl⟩
  rcases r with ⟨rt, rv⟩ | ⟨rt, rx⟩ | ⟨rt, ruo, rc⟩ | ⟨rt, ro, rl, rr⟩
  · obtain ⟨trl, htrl⟩ : ∃ x, x = getTermEx true (.un 0 .abs (.const 0 0)) := ⟨_, rfl⟩
    df_close
  · obtain ⟨trl, htrl⟩ : ∃ x, x = getTermEx true (.un 0 .abs (.const 0 0)) := ⟨_, rfl⟩
    df_close
  · obtain ⟨trl, htrl⟩ : ∃ x, x = getTermEx true (.un 0 .abs (.const 0 0)) := ⟨_, rfl⟩
    df_close
  · cases ro
    case add =>
      obtain ⟨trl, htrl⟩ : ∃ x, x = getTermEx false rl := ⟨_, rfl⟩
      rcases rl with ⟨rlt, rlv⟩ | ⟨rlt, rlx⟩ | ⟨rlt, rluo, rlc⟩ | ⟨rlt, rlo, rll, rlr⟩
      · df_close
      · df_close
      · df_close
      · cases rlo <;> df_close
    all_goals (
      obtain ⟨trl, htrl⟩ : ∃ x, x = getTermEx true (.un 0 .abs (.const 0 0)) := ⟨_, rfl⟩
      df_close)

set_option maxHeartbeats 1000000 in
theorem df_l_var (k : Ctx) (t : Nat) (lt : Nat) (lx : Char) (r : Ex) :
    DFAgree k (.bin t .add (.var lt lx) r) := by
  unfold DFAgree
  obtain ⟨tl, htl⟩ : ∃ x, x = getTermEx false (.var lt lx) := ⟨_, rfl⟩
  obtain ⟨tr, htr⟩ : ∃ x, x = getTermEx false r := ⟨_, rfl⟩
  obtain ⟨tlr, htlr⟩ : ∃ x, x = getTermEx true (.un 0 .abs (.const 0 0)) := ⟨_, rfl⟩
  rcases r with ⟨rt, rv⟩ | ⟨rt, rx⟩ | ⟨rt, ruo, rc⟩ | ⟨rt, ro, rl, rr⟩
  · obtain ⟨trl, htrl⟩ : ∃ x, x = getTermEx true (.un 0 .abs (.const 0 0)) := ⟨_, rfl⟩
    df_close
  · obtain ⟨trl, htrl⟩ : ∃ x, x = getTermEx true (.un 0 .abs (.const 0 0)) := ⟨_, rfl⟩
    df_close
  · obtain ⟨trl, htrl⟩ : ∃ x, x = getTermEx true (.un 0 .abs (.const 0 0)) := ⟨_, rfl⟩
    df_close
  · cases ro
    case add =>
      obtain ⟨trl, htrl⟩ : ∃ x, x = getTermEx false rl := ⟨_, rfl⟩
      rcases rl with ⟨rlt, rlv⟩ | ⟨rlt, rlx⟩ | ⟨rlt, rluo, rlc⟩ | ⟨rlt, rlo, rll, rlr⟩
      · df_close
      · df_close
      · df_close
      · cases rlo <;> df_close
    all_goals (
      obtain ⟨trl, htrl⟩ : ∃ x, x = getTermEx true (.un 0 .abs (.const 0 0)) := ⟨_, rfl⟩
      df_close)

set_option maxHeartbeats 1000000 in
theorem df_l_un (k : Ctx) (t : Nat) (lt : Nat) (luo : Uop) (lc : Ex) (r : Ex) :
    DFAgree k (.bin t .add (.un lt luo lc) r) := by
  unfold DFAgree
  obtain ⟨tl, htl⟩ : ∃ x, x = getTermEx false (.un lt luo lc) := ⟨_, rfl⟩
  obtain ⟨tr, htr⟩ : ∃ x, x = getTermEx false r := ⟨_, rfl⟩
  obtain ⟨tlr, htlr⟩ : ∃ x, x = getTermEx true (.un 0 .abs (.const 0 0)) := ⟨_, rfl⟩
  rcases r with ⟨rt, rv⟩ | ⟨rt, rx⟩ | ⟨rt, ruo, rc⟩ | ⟨rt, ro, rl, rr⟩
  · obtain ⟨trl, htrl⟩ : ∃ x, x = getTermEx true (.un 0 .abs (.const 0 0)) := ⟨_, rfl⟩
    df_close
  · obtain ⟨trl, htrl⟩ : ∃ x, x = getTermEx true (.un 0 .abs (.const 0 0)) := ⟨_, rfl⟩
    df_close
  · obtain ⟨trl, htrl⟩ : ∃ x, x = getTermEx true (.un 0 .abs (.const 0 0)) := ⟨_, rfl⟩
    df_close
  · cases ro
    case add =>
      obtain ⟨trl, htrl⟩ : ∃ x, x = getTermEx false rl := ⟨_, rfl⟩
      rcases rl with ⟨rlt, rlv⟩ | ⟨rlt, rlx⟩ | ⟨rlt, rluo, rlc⟩ | ⟨rlt, rlo, rll, rlr⟩
      · df_close
      · df_close
      · df_close
      · cases rlo <;> df_close
    all_goals (
      obtain ⟨trl, htrl⟩ : ∃ x, x = getTermEx true (.un 0 .abs (.const 0 0)) := ⟨_, rfl⟩
      df_close)

set_option maxHeartbeats 1000000 in
theorem df_l_sub (k : Ctx) (t : Nat) (lt : Nat) (ll lr : Ex) (r : Ex) :
    DFAgree k (.bin t .add (.bin lt .sub ll lr) r) := by
  unfold DFAgree
  obtain ⟨tl, htl⟩ : ∃ x, x = getTermEx false (.bin lt .sub ll lr) := ⟨_, rfl⟩
  obtain ⟨tr, htr⟩ : ∃ x, x = getTermEx false r := ⟨_, rfl⟩
  obtain ⟨tlr, htlr⟩ : ∃ x, x = getTermEx true (.un 0 .abs (.const 0 0)) := ⟨_, rfl⟩
  rcases r with ⟨rt, rv⟩ | ⟨rt, rx⟩ | ⟨rt, ruo, rc⟩ | ⟨rt, ro, rl, rr⟩
  · obtain ⟨trl, htrl⟩ : ∃ x, x = getTermEx true (.un 0 .abs (.const 0 0)) := ⟨_, rfl⟩
    df_close
  · obtain ⟨trl, htrl⟩ : ∃ x, x = getTermEx true (.un 0 .abs (.const 0 0)) := ⟨_, rfl⟩
    df_close
  · obtain ⟨trl, htrl⟩ : ∃ x, x = getTermEx true (.un 0 .abs (.const 0 0)) := ⟨_, rfl⟩
    df_close
  · cases ro
    case add =>
      obtain ⟨trl, htrl⟩ : ∃ x, x = getTermEx false rl := ⟨_, rfl⟩
      rcases rl with ⟨rlt, rlv⟩ | ⟨rlt, rlx⟩ | ⟨rlt, rluo, rlc⟩ | ⟨rlt, rlo, rll, rlr⟩
      · df_close
      · df_close
      · df_close
      · cases rlo <;> df_close
    all_goals (
      obtain ⟨trl, htrl⟩ : ∃ x, x = getTermEx true (.un 0 .abs (.const 0 0)) := ⟨_, rfl⟩
      df_close)

set_option maxHeartbeats 1000000 in
theorem df_l_mul (k : Ctx) (t : Nat) (lt : Nat) (ll lr : Ex) (r : Ex) :
    DFAgree k (.bin t .add (.bin lt .mul ll lr) r) := by
  unfold DFAgree
  obtain ⟨tl, htl⟩ : ∃ x, x = getTermEx false (.bin lt .mul ll lr) := ⟨_, rfl⟩
  obtain ⟨tr, htr⟩ : ∃ x, x = getTermEx false r := ⟨_, rfl⟩
  obtain ⟨tlr, htlr⟩ : ∃ x, x = getTermEx true (.un 0 .abs (.const 0 0)) := ⟨_, rfl⟩
  rcases r with ⟨rt, rv⟩ | ⟨rt, rx⟩ | ⟨rt, ruo, rc⟩ | ⟨rt, ro, rl, rr⟩
  · obtain ⟨trl, htrl⟩ : ∃ x, x = getTermEx true (.un 0 .abs (.const 0 0)) := ⟨_, rfl⟩
    df_close
  · obtain ⟨trl, htrl⟩ : ∃ x, x = getTermEx true (.un 0 .abs (.const 0 0)) := ⟨_, rfl⟩
    df_close
  · obtain ⟨trl, htrl⟩ : ∃ x, x = getTermEx true (.un 0 .abs (.const 0 0)) := ⟨_, rfl⟩
    df_close
  · cases ro
    case add =>
      obtain ⟨trl, htrl⟩ : ∃ x, x = getTermEx false rl := ⟨_, rfl⟩
      rcases rl with ⟨rlt, rlv⟩ | ⟨rlt, rlx⟩ | ⟨rlt, rluo, rlc⟩ | ⟨rlt, rlo, rll, rlr⟩
      · df_close
      · df_close
      · df_close
      · cases rlo <;> df_close
    all_goals (
      obtain ⟨trl, htrl⟩ : ∃ x, x = getTermEx true (.un 0 .abs (.const 0 0)) := ⟨_, rfl⟩
      df_close)

set_option maxHeartbeats 1000000 in
theorem df_l_div (k : Ctx) (t : Nat) (lt : Nat) (ll lr : Ex) (r : Ex) :
    DFAgree k (.bin t .add (.bin lt .div ll lr) r) := by
  unfold DFAgree
  obtain ⟨tl, htl⟩ : ∃ x, x = getTermEx false (.bin lt .div ll lr) := ⟨_, rfl⟩
  obtain ⟨tr, htr⟩ : ∃ x, x = getTermEx false r := ⟨_, rfl⟩
  obtain ⟨tlr, htlr⟩ : ∃ x, x = getTermEx true (.un 0 .abs (.const 0 0)) := ⟨_, rfl⟩
  rcases r with ⟨rt, rv⟩ | ⟨rt, rx⟩ | ⟨rt, ruo, rc⟩ | ⟨rt, ro, rl, rr⟩
  · obtain ⟨trl, htrl⟩ : ∃ x, x = getTermEx true (.un 0 .abs (.const 0 0)) := ⟨_, rfl⟩
    df_close
  · obtain ⟨trl, htrl⟩ : ∃ x, x = getTermEx true (.un 0 .abs (.const 0 0)) := ⟨_, rfl⟩
    df_close
  · obtain ⟨trl, htrl⟩ : ∃ x, x = getTermEx true (.un 0 .abs (.const 0 0)) := ⟨_, rfl⟩
    df_close
  · cases ro
    case add =>
      obtain ⟨trl, htrl⟩ : ∃ x, x = getTermEx false rl := ⟨_, rfl⟩
      rcases rl with ⟨rlt, rlv⟩ | ⟨rlt, rlx⟩ | ⟨rlt, rluo, rlc⟩ | ⟨rlt, rlo, rll, rlr⟩
      · df_close
      · df_close
      · df_close
      · cases rlo <;> df_close
    all_goals (
      obtain ⟨trl, htrl⟩ : ∃ x, x = getTermEx true (.un 0 .abs (.const 0 0)) := ⟨_, rfl⟩
      df_close)

end Mathy.SrcAgree
