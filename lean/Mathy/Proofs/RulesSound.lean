/-
Value soundness of every rule of `Model/Rules.lean`, arrangement by arrangement.
-/
import Mathy.Proofs.Eval
namespace Mathy
set_option maxHeartbeats 400000

/-- closes goals about `Res.bin`/`Res.un` of explicit results after case analysis -/
macro "res_close" : tactic =>
  `(tactic| (simp [RRef, RHolds, Res.bin, Res.un, evalBop, evalUop, Bad.worse] <;> (try split_ifs) <;>
      (try simp_all) <;> (try field_simp) <;> (try ring)))

/-! ### Result-level laws -/

theorem r_add_assoc (X Y Z : Res) :
    RRef (Res.bin .add (Res.bin .add X Y) Z) (Res.bin .add X (Res.bin .add Y Z)) := by
  rcases X with (_|_)|a <;> rcases Y with (_|_)|b <;> rcases Z with (_|_)|c <;> res_close

theorem r_add_assoc' (X Y Z : Res) :
    RRef (Res.bin .add X (Res.bin .add Y Z)) (Res.bin .add (Res.bin .add X Y) Z) := by
  rcases X with (_|_)|a <;> rcases Y with (_|_)|b <;> rcases Z with (_|_)|c <;> res_close

theorem r_mul_assoc (X Y Z : Res) :
    RRef (Res.bin .mul (Res.bin .mul X Y) Z) (Res.bin .mul X (Res.bin .mul Y Z)) := by
  rcases X with (_|_)|a <;> rcases Y with (_|_)|b <;> rcases Z with (_|_)|c <;> res_close

theorem r_mul_assoc' (X Y Z : Res) :
    RRef (Res.bin .mul X (Res.bin .mul Y Z)) (Res.bin .mul (Res.bin .mul X Y) Z) := by
  rcases X with (_|_)|a <;> rcases Y with (_|_)|b <;> rcases Z with (_|_)|c <;> res_close

theorem r_add_comm (X Y : Res) : RRef (Res.bin .add X Y) (Res.bin .add Y X) := by
  rcases X with (_|_)|a <;> rcases Y with (_|_)|b <;> res_close

theorem r_mul_comm (X Y : Res) : RRef (Res.bin .mul X Y) (Res.bin .mul Y X) := by
  rcases X with (_|_)|a <;> rcases Y with (_|_)|b <;> res_close

theorem r_eq_comm (X Y : Res) : RRef (Res.bin .eq X Y) (Res.bin .eq Y X) := by
  rcases X with (_|_)|a <;> rcases Y with (_|_)|b <;> res_close

theorem r_add_chain (A B C : Res) :
    RRef (Res.bin .add (Res.bin .add A B) C) (Res.bin .add (Res.bin .add A C) B) := by
  rcases A with (_|_)|a <;> rcases B with (_|_)|b <;> rcases C with (_|_)|c <;> res_close

theorem r_mul_chain (A B C : Res) :
    RRef (Res.bin .mul (Res.bin .mul A B) C) (Res.bin .mul (Res.bin .mul A C) B) := by
  rcases A with (_|_)|a <;> rcases B with (_|_)|b <;> rcases C with (_|_)|c <;> res_close

/-! ### Associative swap -/

theorem asApply_sound {k k' : Ctx} {n n' : Ex} (hc : asCan k n = true)
    (h : asApply k n = .ok (k', n')) : Refines (plug k n) (plug k' n') := by
  unfold asApply at h
  split at h
  · simp at h
    obtain ⟨rfl, rfl⟩ := h
    simp only [plug, Frame.fill]
    apply Refines.plug
    simp [asCan, parentIs, Frame.isOp, Ex.isOp] at hc
    intro env
    simp only [eval]
    rcases hc with ⟨rfl, rfl⟩ | ⟨rfl, rfl⟩
    · exact r_add_assoc _ _ _
    · exact r_mul_assoc _ _ _
  · simp at h
    obtain ⟨rfl, rfl⟩ := h
    simp only [plug, Frame.fill]
    apply Refines.plug
    simp [asCan, parentIs, Frame.isOp, Ex.isOp] at hc
    intro env
    simp only [eval]
    rcases hc with ⟨rfl, rfl⟩ | ⟨rfl, rfl⟩
    · exact r_add_assoc' _ _ _
    · exact r_mul_assoc' _ _ _
  · simp at h

/-! ### Commutative swap -/

theorem csApply_sound {p : Bool} {k k' : Ctx} {n n' : Ex} (hc : csCan p k n = true)
    (h : csApply k n = .ok (k', n')) : Refines (plug k n) (plug k' n') := by
  unfold csApply at h
  split at h
  · -- equation flip
    simp at h
    obtain ⟨rfl, rfl⟩ := h
    apply Refines.plug
    intro env; simp only [eval]; exact r_eq_comm _ _
  · rename_i t o a b hne
    have ho : o = .add ∨ o = .mul := by
      cases o <;> simp_all [csCan]
    split at h
    · split at h
      · rename_i hch
        simp at h
        obtain ⟨rfl, rfl⟩ := h
        apply Refines.plug
        intro env; simp only [eval]
        simp at hch
        rcases hch with ⟨rfl, rfl⟩ | ⟨rfl, rfl⟩
        · exact r_add_chain _ _ _
        · exact r_mul_chain _ _ _
      · simp at h
        obtain ⟨rfl, rfl⟩ := h
        apply Refines.plug
        intro env; simp only [eval]
        rcases ho with rfl | rfl
        · exact r_add_comm _ _
        · exact r_mul_comm _ _
    · simp at h
      obtain ⟨rfl, rfl⟩ := h
      apply Refines.plug
      intro env; simp only [eval]
      rcases ho with rfl | rfl
      · exact r_add_comm _ _
      · exact r_mul_comm _ _
  · simp at h

/-! ### Multiplicative inverse -/

theorem r_mi (A B : Res) :
    RRef (Res.bin .div A B) (Res.bin .mul A (Res.bin .div (.ok 1) B)) := by
  rcases A with (_|_)|a <;> rcases B with (_|_)|b <;> res_close

theorem r_mi_neg (A B : Res) :
    RRef (Res.bin .div A (Res.un .neg B)) (Res.bin .mul A (Res.bin .div (.ok (-1)) B)) := by
  rcases A with (_|_)|a <;> rcases B with (_|_)|b <;> res_close

theorem miApply_sound {k k' : Ctx} {n n' : Ex}
    (h : miApply k n = .ok (k', n')) : Refines (plug k n) (plug k' n') := by
  unfold miApply at h
  split at h
  · simp at h
    obtain ⟨rfl, rfl⟩ := h
    apply Refines.plug
    intro env; simp only [eval, eval_clone]; exact r_mi_neg _ _
  · simp at h
    obtain ⟨rfl, rfl⟩ := h
    apply Refines.plug
    intro env; simp only [eval, eval_clone]; exact r_mi _ _
  · simp at h

/-! ### Distributive multiply -/

theorem r_dm (f1 f2 : Bool) (A B C : Res) :
    RRef (Res.bin .mul A (Res.bin .add B C))
      (Res.bin .add (if f1 then Res.bin .mul B A else Res.bin .mul A B)
                    (if f2 then Res.bin .mul C A else Res.bin .mul A C)) := by
  cases f1 <;> cases f2 <;>
  rcases A with (_|_)|a <;> rcases B with (_|_)|b <;> rcases C with (_|_)|c <;> res_close

theorem r_dm' (f1 f2 : Bool) (A B C : Res) :
    RRef (Res.bin .mul (Res.bin .add B C) A)
      (Res.bin .add (if f1 then Res.bin .mul B A else Res.bin .mul A B)
                    (if f2 then Res.bin .mul C A else Res.bin .mul A C)) := by
  cases f1 <;> cases f2 <;>
  rcases A with (_|_)|a <;> rcases B with (_|_)|b <;> rcases C with (_|_)|c <;> res_close

theorem dmBuild_sound (t t' : Nat) (a b c : Ex) :
    Refines (.bin t .mul a (.bin t' .add b c)) (dmBuild a b c) := by
  intro env
  have := r_dm (dmAVar a && b.isConst) (dmAVar a && c.isConst) (eval env a) (eval env b) (eval env c)
  simp only [dmBuild, eval]
  split_ifs <;> simp_all [eval]

theorem dmBuild_sound' (t t' : Nat) (a b c : Ex) :
    Refines (.bin t .mul (.bin t' .add b c) a) (dmBuild a b c) := by
  intro env
  have := r_dm' (dmAVar a && b.isConst) (dmAVar a && c.isConst) (eval env a) (eval env b) (eval env c)
  simp only [dmBuild, eval]
  split_ifs <;> simp_all [eval]

theorem dmApply_sound {k k' : Ctx} {n n' : Ex}
    (h : dmApply k n = .ok (k', n')) : Refines (plug k n) (plug k' n') := by
  unfold dmApply at h
  split at h
  · simp at h
    obtain ⟨rfl, rfl⟩ := h
    exact (dmBuild_sound' _ _ _ _ _).plug _
  · simp at h
    obtain ⟨rfl, rfl⟩ := h
    exact (dmBuild_sound _ _ _ _ _).plug _
  · simp at h

/-! ### Restate subtraction -/

theorem r_sub_neg (A C : Res) : RRef (Res.bin .sub A (Res.un .neg C)) (Res.bin .add A C) := by
  rcases A with (_|_)|a <;> rcases C with (_|_)|c <;> res_close

theorem r_sub_const (A : Res) (v : Rat) :
    RRef (Res.bin .sub A (.ok v)) (Res.bin .add A (.ok (v * -1))) := by
  rcases A with (_|_)|a <;> res_close

theorem r_sub_to_neg (A B : Res) : RRef (Res.bin .sub A B) (Res.bin .add A (Res.un .neg B)) := by
  rcases A with (_|_)|a <;> rcases B with (_|_)|b <;> res_close

theorem r_sub_term (A R : Res) (v : Rat) :
    RRef (Res.bin .sub A (Res.bin .mul (.ok v) R)) (Res.bin .add A (Res.bin .mul (.ok (v * -1)) R)) := by
  rcases A with (_|_)|a <;> rcases R with (_|_)|r <;> res_close

theorem r_sub_term' (A R : Res) (v : Rat) :
    RRef (Res.bin .sub A (Res.bin .mul (.ok v) R)) (Res.bin .add A (Res.bin .mul (.ok (-v)) R)) := by
  rcases A with (_|_)|a <;> rcases R with (_|_)|r <;> res_close

theorem r_sub_const' (A : Res) (v : Rat) :
    RRef (Res.bin .sub A (.ok v)) (Res.bin .add A (.ok (-v))) := by
  rcases A with (_|_)|a <;> res_close

theorem r_add_negconst (A : Res) (v : Rat) :
    RRef (Res.bin .add A (.ok v)) (Res.bin .sub A (.ok (-v))) := by
  rcases A with (_|_)|a <;> res_close

theorem r_add_negterm (A R : Res) (v : Rat) :
    RRef (Res.bin .add A (Res.bin .mul (.ok v) R)) (Res.bin .sub A (Res.bin .mul (.ok (-v)) R)) := by
  rcases A with (_|_)|a <;> rcases R with (_|_)|r <;> res_close

theorem rsStep_sound {k : Ctx} {n n' : Ex} {ty : RSType}
    (h : rsStep k n = some (ty, n')) : Refines n n' := by
  unfold rsStep at h
  repeat' (split at h)
  all_goals (first | (simp at h; done) | skip)
  all_goals (
    simp at h
    obtain ⟨-, rfl⟩ := h
    intro env
    simp only [eval, eval_clone]
    first
      | exact r_sub_neg _ _
      | exact r_sub_const _ _
      | exact r_sub_to_neg _ _
      | exact r_sub_term _ _ _
      | exact r_sub_term' _ _ _
      | exact r_sub_const' _ _
      | exact r_add_negconst _ _
      | exact r_add_negterm _ _ _)

theorem rsApply_sound {k k' : Ctx} {n n' : Ex}
    (h : rsApply k n = .ok (k', n')) : Refines (plug k n) (plug k' n') := by
  unfold rsApply at h
  split at h
  · rename_i hs
    simp at h
    obtain ⟨rfl, rfl⟩ := h
    exact (rsStep_sound hs).plug _
  · simp at h

/-! ### Constant arithmetic -/

theorem foldConst_ok {r : Res} {b : Bool} {n' : Ex} (h : foldConst r b = .ok n') :
    ∃ v, r = .ok v ∧ n' = .const 0 v := by
  unfold foldConst at h
  split at h
  · simp at h; exact ⟨_, rfl, h.symm⟩
  · simp at h

theorem r_ca_svm (a b : Rat) (X : Res) :
    RRef (Res.bin .mul (Res.bin .mul (.ok a) X) (.ok b)) (Res.bin .mul (.ok (a * b)) X) := by
  rcases X with (_|_)|x <;> res_close

theorem r_ca_deep_add (a b : Rat) (X Y : Res) :
    RRef (Res.bin .add (.ok a) (Res.bin .add (Res.bin .add (.ok b) X) Y))
      (Res.bin .add (Res.bin .add (.ok (a + b)) X) Y) := by
  rcases X with (_|_)|x <;> rcases Y with (_|_)|y <;> res_close

theorem r_ca_deep_mul (a b : Rat) (X Y : Res) :
    RRef (Res.bin .mul (.ok a) (Res.bin .mul (Res.bin .mul (.ok b) X) Y))
      (Res.bin .mul (Res.bin .mul (.ok (a * b)) X) Y) := by
  rcases X with (_|_)|x <;> rcases Y with (_|_)|y <;> res_close

theorem r_ca_right_add (a b : Rat) (Y : Res) :
    RRef (Res.bin .add (.ok a) (Res.bin .add (.ok b) Y)) (Res.bin .add (.ok (a + b)) Y) := by
  rcases Y with (_|_)|y <;> res_close

theorem r_ca_right_mul (a b : Rat) (Y : Res) :
    RRef (Res.bin .mul (.ok a) (Res.bin .mul (.ok b) Y)) (Res.bin .mul (.ok (a * b)) Y) := by
  rcases Y with (_|_)|y <;> res_close

theorem r_ca_rl (a b : Rat) (X Y : Res) :
    RRef (Res.bin .mul (Res.bin .mul (.ok a) X) (Res.bin .mul (.ok b) Y))
      (Res.bin .mul (Res.bin .mul (.ok (a * b)) X) Y) := by
  rcases X with (_|_)|x <;> rcases Y with (_|_)|y <;> res_close

theorem r_ca_rll (a b : Rat) (X Y Z : Res) :
    RRef (Res.bin .mul (Res.bin .mul (.ok a) X) (Res.bin .mul (Res.bin .mul (.ok b) Y) Z))
      (Res.bin .mul (Res.bin .mul (.ok (a * b)) X) (Res.bin .mul Y Z)) := by
  rcases X with (_|_)|x <;> rcases Y with (_|_)|y <;> rcases Z with (_|_)|z <;> res_close

theorem r_ca_llr (a b : Rat) (W X Y : Res) :
    RRef (Res.bin .mul (Res.bin .mul W (Res.bin .mul (.ok a) X)) (Res.bin .mul (.ok b) Y))
      (Res.bin .mul W (Res.bin .mul (Res.bin .mul (.ok (a * b)) X) Y)) := by
  rcases W with (_|_)|w <;> rcases X with (_|_)|x <;> rcases Y with (_|_)|y <;> res_close

theorem caStep_sound {n n' : Ex} {ty : CAType}
    (h : caStep n = some (ty, .ok n')) : Refines n n' := by
  unfold caStep at h
  repeat' (split at h)
  all_goals (first | (simp at h; done) | skip)
  all_goals (
    simp at h
    obtain ⟨-, h⟩ := h
    try simp only [Bool.and_eq_true, beq_iff_eq] at *
    first
    | (obtain ⟨v, hv, rfl⟩ := foldConst_ok h
       intro env
       simp only [eval, Res.bin]
       rw [hv]
       exact RRef.refl _)
    | (subst h
       intro env
       simp only [eval]
       first
        | exact r_ca_svm _ _ _
        | (obtain ⟨⟨rfl, rfl⟩, rfl⟩ := ‹(_ = Bop.add ∧ _ = Bop.add) ∧ _ = Bop.add›
           exact r_ca_deep_add _ _ _ _)
        | (obtain ⟨⟨rfl, rfl⟩, rfl⟩ := ‹(_ = Bop.mul ∧ _ = Bop.mul) ∧ _ = Bop.mul›
           exact r_ca_deep_mul _ _ _ _)
        | (obtain ⟨rfl, rfl⟩ := ‹_ = Bop.add ∧ _ = Bop.add›
           exact r_ca_right_add _ _ _)
        | (obtain ⟨rfl, rfl⟩ := ‹_ = Bop.mul ∧ _ = Bop.mul›
           exact r_ca_right_mul _ _ _)
        | exact r_ca_rl _ _ _ _
        | exact r_ca_rll _ _ _ _ _
        | exact r_ca_llr _ _ _ _ _))

theorem caApply_sound {k k' : Ctx} {n n' : Ex}
    (h : caApply k n = .ok (k', n')) : Refines (plug k n) (plug k' n') := by
  unfold caApply at h
  split at h
  · simp at h
  · rename_i hs
    simp at h
    obtain ⟨rfl, rfl⟩ := h
    exact (caStep_sound hs).plug _
  · simp at h

end Mathy
