/-
The model's parser IS the repository's parser (translated source) — part 1: representation,
token sets, and the primitive methods `check`, `next`, `eat`.

`Gen/PySrcParse.lean` is regenerated on every run from the live `mathy_core/parser.py` by
`harness/py2lean_parse.py`.  The parser object is the record `ParserState`; the model keeps the
current token at the head of its token list.  `stOf ts` is the Python state that corresponds to
the model's list `ts`.
-/
import Mathy.Gen.PySrcParse
import Mathy.Proofs.PySrcAgreeTokSt
import Mathy.Proofs.ParserSound
set_option linter.unusedSimpArgs false
namespace Mathy.SrcAgree
open Mathy.Py Mathy.Gen.Src Mathy.PS

/-- `TOKEN_TYPES.<name>` of a model token type -/
def tyBits (t : TT) : Nat := 1 <<< t.bit

theorem tokToPy_type (t : Tok) : (tokToPy t).type = tyBits t.type := rfl
theorem tokToPy_value (t : Tok) : (tokToPy t).value = t.value := rfl

theorem tyBits_beq (a b : TT) : (tyBits a == tyBits b) = (a == b) := by
  cases a <;> cases b <;> rfl

theorem tyBits_bne (a b : TT) : (tyBits a != tyBits b) = (a != b) := by
  cases a <;> cases b <;> rfl

theorem tt_consts :
    TOKEN_TYPES_Constant = tyBits .constant ∧ TOKEN_TYPES_Variable = tyBits .variable ∧
    TOKEN_TYPES_Plus = tyBits .plus ∧ TOKEN_TYPES_Minus = tyBits .minus ∧
    TOKEN_TYPES_Multiply = tyBits .multiply ∧ TOKEN_TYPES_Divide = tyBits .divide ∧
    TOKEN_TYPES_Exponent = tyBits .exponent ∧ TOKEN_TYPES_Factorial = tyBits .factorial ∧
    TOKEN_TYPES_OpenParen = tyBits .openParen ∧ TOKEN_TYPES_CloseParen = tyBits .closeParen ∧
    TOKEN_TYPES_Function = tyBits .function ∧ TOKEN_TYPES_Equal = tyBits .equal ∧
    TOKEN_TYPES_EOF = tyBits .eof ∧ TOKEN_TYPES_Invalid = tyBits .invalid := by
  refine ⟨rfl, rfl, rfl, rfl, rfl, rfl, rfl, rfl, rfl, rfl, rfl, rfl, rfl, rfl⟩

/-! ### the token sets of parser.py are the model's predicates -/

theorem set_first_add (t : TT) : TokenSet_contains parser_FIRST_ADD (tyBits t) = firstAdd t := by cases t <;> rfl
theorem set_first_mult (t : TT) : TokenSet_contains parser_FIRST_MULT (tyBits t) = firstMult t := by cases t <;> rfl
theorem set_first_exp (t : TT) : TokenSet_contains parser_FIRST_EXP (tyBits t) = firstExp t := by cases t <;> rfl
theorem set_first_unary (t : TT) : TokenSet_contains parser_FIRST_UNARY (tyBits t) = firstUnary t := by cases t <;> rfl
theorem set_first_factor_prefix (t : TT) :
    TokenSet_contains parser_FIRST_FACTOR_PREFIX (tyBits t) = firstFactorPrefix t := by cases t <;> rfl
theorem set_first_factor (t : TT) : TokenSet_contains parser_FIRST_FACTOR (tyBits t) = firstFactor t := by cases t <;> rfl
theorem set_is_add (t : TT) : TokenSet_contains parser_IS_ADD (tyBits t) = isAddTok t := by cases t <;> rfl
theorem set_is_mult (t : TT) : TokenSet_contains parser_IS_MULT (tyBits t) = isMultTok t := by cases t <;> rfl
theorem set_is_exp (t : TT) : TokenSet_contains parser_IS_EXP (tyBits t) = isExpTok t := by cases t <;> rfl
theorem set_is_equal (t : TT) : TokenSet_contains parser_IS_EQUAL (tyBits t) = isEqualTok t := by cases t <;> rfl

/-! ### states -/

def eofTok : Tok := ⟨.eof, []⟩

/-- the current token of the model's list (`[]` behaves like the end marker) -/
def hd (ts : List Tok) : Tok := ts.headD eofTok

theorem headType_eq_hd (ts : List Tok) : headType ts = (hd ts).type := by
  cases ts <;> rfl

/-- the Python parser state for the model's token list: current token = head, queue = tail -/
def stOf (ts : List Tok) : ParserState := ⟨ts.tail.map tokToPy, tokToPy (hd ts)⟩

theorem stOf_current (ts : List Tok) : (stOf ts).current_token = tokToPy (hd ts) := rfl

/-- the list ends with an end marker (what the tokenizer produces; `Src_tokenize_eof`) -/
def WF (ts : List Tok) : Prop := ∃ b e, ts = b ++ [e] ∧ e.type = .eof

theorem WF.ne_nil {ts : List Tok} (h : WF ts) : ts ≠ [] := by
  obtain ⟨b, e, rfl, -⟩ := h; simp

theorem WF.tail {t : Tok} {ts : List Tok} (h : WF (t :: ts)) (ht : t.type ≠ .eof) : WF ts := by
  obtain ⟨b, e, hb, he⟩ := h
  cases b with
  | nil => simp only [List.nil_append, List.cons.injEq] at hb; exact absurd (hb.1 ▸ he) ht
  | cons x b => simp only [List.cons_append, List.cons.injEq] at hb; exact ⟨b, e, hb.2, he⟩

/-- consuming a prefix without end markers keeps the end marker -/
theorem WF.of_consumes {inp rest : List Tok} {P : List Tok → Prop} (h : WF inp) (hc : Consumes inp rest P) :
    WF rest := by
  obtain ⟨ts, rfl, hn, -⟩ := hc
  obtain ⟨b, e, hb, he⟩ := h
  induction ts generalizing b with
  | nil => exact ⟨b, e, by simpa using hb, he⟩
  | cons t ts ih =>
    have ht : t.type ≠ .eof := by simp only [noEof_cons] at hn; exact hn.1
    cases b with
    | nil =>
      simp only [List.cons_append, List.nil_append] at hb
      have := congrArg List.length hb
      have h1 : ts = [] ∧ rest = [] := by
        simp only [List.length_cons, List.length_append, List.length_nil] at this
        exact ⟨List.eq_nil_of_length_eq_zero (by omega), List.eq_nil_of_length_eq_zero (by omega)⟩
      obtain ⟨rfl, rfl⟩ := h1
      simp only [List.append_nil, List.cons.injEq, and_true] at hb
      exact absurd (hb ▸ he) ht
    | cons x b =>
      simp only [List.cons_append, List.cons.injEq] at hb
      exact ih (by simp only [noEof_cons] at hn; exact hn.2) b hb.2

/-! ### errors and results -/

def errOf : PErr → PyErr
  | .invalidExpression => .InvalidExpression | .outOfTokens => .OutOfTokens
  | .invalidSyntax => .InvalidSyntax | .unexpectedBehavior => .UnexpectedBehavior
  | .trailingTokens => .TrailingTokens | .badNumber => .ValueError [] | .fuel => .OutOfFuel

/-- a model result as the Python outcome (expression, new parser state) -/
def liftP : PRes → Except PyErr (Ex × ParserState)
  | .ok (e, ts) => .ok (e, stOf ts)
  | .error k => .error (errOf k)

/-! ### `check`, `next`, `eat` -/

theorem check_aux (b c : Bool) :
    (if (b == true && c == false) = true then (Except.error PyErr.InvalidSyntax : Except PyErr Bool) else .ok c) =
      if (b && !c) = true then .error .InvalidSyntax else .ok c := by
  cases b <;> cases c <;> rfl

theorem check_eq (ts : List Tok) (mask : Nat) (b : Bool) :
    ExpressionParser_check (stOf ts) mask b =
      if b && !(TokenSet_contains mask (tyBits (headType ts))) then .error .InvalidSyntax
      else .ok (TokenSet_contains mask (tyBits (headType ts))) := by
  simp only [ExpressionParser_check, stOf_current, tokToPy_type, headType_eq_hd]
  exact check_aux _ _

theorem next_eq (ts : List Tok) (h : WF ts) :
    ExpressionParser_next (stOf ts) =
      match advance ts with
      | .ok ts' => .ok (headType ts' != .eof, stOf ts')
      | .error _ => .error .OutOfTokens := by
  cases ts with
  | nil => exact absurd rfl h.ne_nil
  | cons t rest =>
    simp only [ExpressionParser_next, stOf_current, tokToPy_type, hd, List.headD_cons, tt_consts.2.2.2.2.2.2.2.2.2.2.2.2.1,
      tyBits_beq, advance]
    cases hte : t.type == TT.eof
    · have hne : t.type ≠ .eof := by simpa using hte
      have hw := h.tail hne
      cases rest with
      | nil => exact absurd rfl hw.ne_nil
      | cons t' rest' =>
        simp [stOf, listPop0, hd, tokToPy_type, tyBits_bne, headType, Except.bind]
    · simp

theorem eat_eq (ty : TT) (ts : List Tok) (h : WF ts) :
    ExpressionParser_eat (stOf ts) (tyBits ty) =
      match eat ty ts with
      | .ok ts' => .ok (headType ts' != .eof, stOf ts')
      | .error e => .error (errOf e) := by
  simp only [ExpressionParser_eat, stOf_current, tokToPy_type, tyBits_bne, eat, headType_eq_hd, next_eq ts h]
  cases hne : (hd ts).type != ty
  · simp only [Bool.false_eq_true, if_false]
    cases ha : advance ts with
    | ok ts' => simp [Except.bind]
    | error e =>
      have : e = .outOfTokens := by
        cases ts with
        | nil => simp [advance] at ha; exact ha.symm
        | cons t r => simp only [advance] at ha; split at ha <;> simp at ha; exact ha.symm
      subst this
      simp [Except.bind, errOf]
  · simp [errOf]

end Mathy.SrcAgree
