/-
The model's tokenizer IS the repository's tokenizer (translated source).

`Gen/PySrcTokSt.lean` is regenerated on every run from the live `mathy_core/tokenizer.py` by
`harness/py2lean_st.py`: the methods `eat_token`, `identify_constants`, `identify_alphas`,
`identify_operators` and `tokenize`, statement by statement, with the mutable `TokenContext`
passed as state and `raise` as `Except.error`.  This file proves that `Tokenizer_tokenize` — the
translated Python — and the hand-written `Mathy.tokenize` compute the same token list / the same
error for EVERY input string and both settings of `exclude_padding`.  In particular the translated
`while` loop never runs out of the fuel `len(buffer) + 1` it is given: the real loop terminates.
-/
import Mathy.Gen.PySrcTokSt
import Mathy.Proofs.PySrcAgreeTok
import Mathy.Proofs.TokLemmas
set_option linter.unusedSimpArgs false
namespace Mathy.SrcAgree
open Mathy.Py Mathy.Gen.Src

/-- a token of the model as the Python object: `TOKEN_TYPES.<name>` is `1 << bit` -/
def tokToPy (t : Tok) : Token := ⟨t.value, 1 <<< t.type.bit⟩

/-- the text of the `ValueError` raised for a character that starts no token -/
def invalidPrefix : List Char := "Invalid token \"".toList
def invalidInfix : List Char := "\" in expression: ".toList
def invalidTokenMsg (c : Char) (s : List Char) : List Char :=
  invalidPrefix ++ (c :: (invalidInfix ++ s))

theorem invalidTokenMsg_inj (c d : Char) (s : List Char) (h : invalidTokenMsg c s = invalidTokenMsg d s) : c = d := by
  unfold invalidTokenMsg at h
  have := List.append_cancel_left h
  exact (List.cons.inj this).1

/-! ### `eat_token` -/

theorem eat_for_eq (ctx : TokenContext) (p : Char → Bool) (res xs : List Char) :
    Tokenizer_eat_token_for1 ctx p res xs = .ok (res ++ xs.takeWhile p, ctx) := by
  induction xs generalizing res with
  | nil => simp [Tokenizer_eat_token_for1]
  | cons x xs ih =>
    rw [Tokenizer_eat_token_for1]
    cases hp : p x
    · simp [List.takeWhile, hp]
    · simp [List.takeWhile, hp, ih]

theorem eat_token_eq (ctx : TokenContext) (p : Char → Bool) :
    Tokenizer_eat_token ctx p = .ok (ctx.chunk.takeWhile p, ctx) := by
  simp [Tokenizer_eat_token, eat_for_eq]

theorem strIdx_cons (c : Char) (cs : List Char) : strIdx (c :: cs) 0 = .ok c := by
  simp [strIdx]

theorem bind_ok {α β : Type} (a : α) (f : α → Except PyErr β) : Except.bind (.ok a) f = f a := rfl

/-! ### the three `identify_*` methods on a non-empty chunk -/

theorem identify_constants_eq (ctx : TokenContext) (c : Char) (cs : List Char) (h : ctx.chunk = c :: cs) :
    Tokenizer_identify_constants ctx =
      if isNumber c then
        .ok (strLen (c :: cs.takeWhile isNumber),
          { ctx with tokens := ctx.tokens ++ [⟨c :: cs.takeWhile isNumber, TOKEN_TYPES_Constant⟩],
                     index := ctx.index + strLen (c :: cs.takeWhile isNumber) })
      else .ok (0, ctx) := by
  have hf : Tokenizer_is_number = isNumber := funext is_number_agree
  simp only [Tokenizer_identify_constants, h, strIdx_cons, bind_ok, eat_token_eq, hf]
  cases hn : isNumber c <;> simp [List.takeWhile, hn]

theorem alphas_for_eq (ctx : TokenContext) (v xs : List Char) :
    Tokenizer_identify_alphas_for1 ctx v xs =
      .ok (strLen v, { ctx with tokens := ctx.tokens ++ xs.map (fun c => ⟨[c], TOKEN_TYPES_Variable⟩),
                                index := ctx.index + strLen v }) := by
  induction xs generalizing ctx with
  | nil => simp [Tokenizer_identify_alphas_for1]
  | cons x xs ih => rw [Tokenizer_identify_alphas_for1]; simp [ih]

theorem functions_agree : Tokenizer_functions = functionNames := by decide

theorem alphaToks_toPy (run : List Char) :
    (alphaToks run).map tokToPy =
      if functionNames.contains run then [⟨run, TOKEN_TYPES_Function⟩]
      else run.map (fun c => ⟨[c], TOKEN_TYPES_Variable⟩) := by
  unfold alphaToks
  split
  · rfl
  · simp [tokToPy, TT.bit, TOKEN_TYPES_Variable, Function.comp_def]

theorem identify_alphas_eq (ctx : TokenContext) (c : Char) (cs : List Char) (h : ctx.chunk = c :: cs) :
    Tokenizer_identify_alphas ctx =
      if isAlpha c then
        .ok (strLen (c :: cs.takeWhile isAlpha),
          { ctx with tokens := ctx.tokens ++ (alphaToks (c :: cs.takeWhile isAlpha)).map tokToPy,
                     index := ctx.index + strLen (c :: cs.takeWhile isAlpha) })
      else .ok (0, ctx) := by
  have hf : Tokenizer_is_alpha = isAlpha := funext is_alpha_agree
  simp only [Tokenizer_identify_alphas, h, strIdx_cons, bind_ok, eat_token_eq, hf, alphas_for_eq,
    functions_agree, alphaToks_toPy]
  cases ha : isAlpha c
  · simp
  · simp only [List.takeWhile, ha, Bool.not_true, Bool.false_eq_true, if_false, if_true]
    split <;> simp

theorem chars_norm :
    Char.ofNat 32 = ' ' ∧ Char.ofNat 9 = '\t' ∧ Char.ofNat 13 = '\r' ∧ Char.ofNat 10 = '\n' ∧ Char.ofNat 43 = '+' ∧
    Char.ofNat 45 = '-' ∧ Char.ofNat 8211 = '–' ∧ Char.ofNat 42 = '*' ∧ Char.ofNat 47 = '/' ∧ Char.ofNat 94 = '^' ∧
    Char.ofNat 33 = '!' ∧ Char.ofNat 40 = '(' ∧ Char.ofNat 91 = '[' ∧ Char.ofNat 41 = ')' ∧ Char.ofNat 93 = ']' ∧
    Char.ofNat 61 = '=' := by decide

theorem invalidTokenMsg_eq (c : Char) (s : List Char) :
    ([Char.ofNat 73, Char.ofNat 110, Char.ofNat 118, Char.ofNat 97, Char.ofNat 108, Char.ofNat 105, Char.ofNat 100,
      Char.ofNat 32, Char.ofNat 116, Char.ofNat 111, Char.ofNat 107, Char.ofNat 101, Char.ofNat 110, Char.ofNat 32,
      Char.ofNat 34] ++ [c] ++ [Char.ofNat 34, Char.ofNat 32, Char.ofNat 105, Char.ofNat 110, Char.ofNat 32,
      Char.ofNat 101, Char.ofNat 120, Char.ofNat 112, Char.ofNat 114, Char.ofNat 101, Char.ofNat 115, Char.ofNat 115,
      Char.ofNat 105, Char.ofNat 111, Char.ofNat 110, Char.ofNat 58, Char.ofNat 32] ++ s) = invalidTokenMsg c s := by
  rfl

theorem identify_operators_eq (excl : Bool) (ctx : TokenContext) (c : Char) (cs : List Char)
    (h : ctx.chunk = c :: cs) :
    Tokenizer_identify_operators excl ctx =
      match operatorTok (!excl) c with
      | some t => .ok (true, { ctx with tokens := ctx.tokens ++ t.map tokToPy, index := ctx.index + 1 })
      | none => .error (.ValueError (invalidTokenMsg c ctx.buffer)) := by
  obtain ⟨h1, h2, h3, h4, h5, h6, h7, h8, h9, h10, h11, h12, h13, h14, h15, h16⟩ := chars_norm
  simp only [Tokenizer_identify_operators, h, strIdx_cons, bind_ok, invalidTokenMsg_eq, operatorTok,
    h1, h2, h3, h4, h5, h6, h7, h8, h9, h10, h11, h12, h13, h14, h15, h16]
  by_cases hc0 : (c == ' ' || c == '\t' || c == '\r' || c == '\n') = true
  · simp only [if_pos hc0]
    cases excl <;> simp [tokToPy, TT.bit, TOKEN_TYPES_Pad, TOKEN_TYPES_Plus, TOKEN_TYPES_Minus, TOKEN_TYPES_Multiply, TOKEN_TYPES_Divide, TOKEN_TYPES_Exponent, TOKEN_TYPES_Factorial, TOKEN_TYPES_OpenParen, TOKEN_TYPES_CloseParen, TOKEN_TYPES_Equal]
  simp only [if_neg hc0]
  by_cases hc1 : (c == '+') = true
  · simp only [if_pos hc1]
    cases excl <;> simp [tokToPy, TT.bit, TOKEN_TYPES_Pad, TOKEN_TYPES_Plus, TOKEN_TYPES_Minus, TOKEN_TYPES_Multiply, TOKEN_TYPES_Divide, TOKEN_TYPES_Exponent, TOKEN_TYPES_Factorial, TOKEN_TYPES_OpenParen, TOKEN_TYPES_CloseParen, TOKEN_TYPES_Equal]
  simp only [if_neg hc1]
  by_cases hc2 : (c == '-' || c == '–') = true
  · simp only [if_pos hc2]
    cases excl <;> simp [tokToPy, TT.bit, TOKEN_TYPES_Pad, TOKEN_TYPES_Plus, TOKEN_TYPES_Minus, TOKEN_TYPES_Multiply, TOKEN_TYPES_Divide, TOKEN_TYPES_Exponent, TOKEN_TYPES_Factorial, TOKEN_TYPES_OpenParen, TOKEN_TYPES_CloseParen, TOKEN_TYPES_Equal]
  simp only [if_neg hc2]
  by_cases hc3 : (c == '*') = true
  · simp only [if_pos hc3]
    cases excl <;> simp [tokToPy, TT.bit, TOKEN_TYPES_Pad, TOKEN_TYPES_Plus, TOKEN_TYPES_Minus, TOKEN_TYPES_Multiply, TOKEN_TYPES_Divide, TOKEN_TYPES_Exponent, TOKEN_TYPES_Factorial, TOKEN_TYPES_OpenParen, TOKEN_TYPES_CloseParen, TOKEN_TYPES_Equal]
  simp only [if_neg hc3]
  by_cases hc4 : (c == '/') = true
  · simp only [if_pos hc4]
    cases excl <;> simp [tokToPy, TT.bit, TOKEN_TYPES_Pad, TOKEN_TYPES_Plus, TOKEN_TYPES_Minus, TOKEN_TYPES_Multiply, TOKEN_TYPES_Divide, TOKEN_TYPES_Exponent, TOKEN_TYPES_Factorial, TOKEN_TYPES_OpenParen, TOKEN_TYPES_CloseParen, TOKEN_TYPES_Equal]
  simp only [if_neg hc4]
  by_cases hc5 : (c == '^') = true
  · simp only [if_pos hc5]
    cases excl <;> simp [tokToPy, TT.bit, TOKEN_TYPES_Pad, TOKEN_TYPES_Plus, TOKEN_TYPES_Minus, TOKEN_TYPES_Multiply, TOKEN_TYPES_Divide, TOKEN_TYPES_Exponent, TOKEN_TYPES_Factorial, TOKEN_TYPES_OpenParen, TOKEN_TYPES_CloseParen, TOKEN_TYPES_Equal]
  simp only [if_neg hc5]
  by_cases hc6 : (c == '!') = true
  · simp only [if_pos hc6]
    cases excl <;> simp [tokToPy, TT.bit, TOKEN_TYPES_Pad, TOKEN_TYPES_Plus, TOKEN_TYPES_Minus, TOKEN_TYPES_Multiply, TOKEN_TYPES_Divide, TOKEN_TYPES_Exponent, TOKEN_TYPES_Factorial, TOKEN_TYPES_OpenParen, TOKEN_TYPES_CloseParen, TOKEN_TYPES_Equal]
  simp only [if_neg hc6]
  by_cases hc7 : (c == '(' || c == '[') = true
  · simp only [if_pos hc7]
    cases excl <;> simp [tokToPy, TT.bit, TOKEN_TYPES_Pad, TOKEN_TYPES_Plus, TOKEN_TYPES_Minus, TOKEN_TYPES_Multiply, TOKEN_TYPES_Divide, TOKEN_TYPES_Exponent, TOKEN_TYPES_Factorial, TOKEN_TYPES_OpenParen, TOKEN_TYPES_CloseParen, TOKEN_TYPES_Equal]
  simp only [if_neg hc7]
  by_cases hc8 : (c == ')' || c == ']') = true
  · simp only [if_pos hc8]
    cases excl <;> simp [tokToPy, TT.bit, TOKEN_TYPES_Pad, TOKEN_TYPES_Plus, TOKEN_TYPES_Minus, TOKEN_TYPES_Multiply, TOKEN_TYPES_Divide, TOKEN_TYPES_Exponent, TOKEN_TYPES_Factorial, TOKEN_TYPES_OpenParen, TOKEN_TYPES_CloseParen, TOKEN_TYPES_Equal]
  simp only [if_neg hc8]
  by_cases hc9 : (c == '=') = true
  · simp only [if_pos hc9]
    cases excl <;> simp [tokToPy, TT.bit, TOKEN_TYPES_Pad, TOKEN_TYPES_Plus, TOKEN_TYPES_Minus, TOKEN_TYPES_Multiply, TOKEN_TYPES_Divide, TOKEN_TYPES_Exponent, TOKEN_TYPES_Factorial, TOKEN_TYPES_OpenParen, TOKEN_TYPES_CloseParen, TOKEN_TYPES_Equal]
  simp only [if_neg hc9]

/-! ### the loop of `tokenize` -/

theorem intTruthy_strLen_cons (c : Char) (l : List Char) : intTruthy (strLen (c :: l)) = true := by
  simp [intTruthy, strLen]; omega

theorem intTruthy_zero : intTruthy 0 = false := rfl

theorem while_nil (excl : Bool) (b : List Char) (ctx : TokenContext) (fuel : Nat) (h : ctx.chunk = []) :
    Tokenizer_tokenize_while1 excl b ctx (fuel + 1) = .ok (ctx.tokens ++ [⟨[], TOKEN_TYPES_EOF⟩]) := by
  rw [Tokenizer_tokenize_while1]
  simp [h, strTruthy, bind_ok]

theorem while_cons (excl : Bool) (b : List Char) (ctx : TokenContext) (fuel : Nat) (c : Char) (cs : List Char)
    (h : ctx.chunk = c :: cs) :
    Tokenizer_tokenize_while1 excl b ctx (fuel + 1) =
      if isNumber c then
        Tokenizer_tokenize_while1 excl b
          { tokens := ctx.tokens ++ [⟨c :: cs.takeWhile isNumber, TOKEN_TYPES_Constant⟩],
            index := ctx.index + strLen (c :: cs.takeWhile isNumber), buffer := ctx.buffer,
            chunk := strFrom ctx.buffer (ctx.index + strLen (c :: cs.takeWhile isNumber)) } fuel
      else if isAlpha c then
        Tokenizer_tokenize_while1 excl b
          { tokens := ctx.tokens ++ (alphaToks (c :: cs.takeWhile isAlpha)).map tokToPy,
            index := ctx.index + strLen (c :: cs.takeWhile isAlpha), buffer := ctx.buffer,
            chunk := strFrom ctx.buffer (ctx.index + strLen (c :: cs.takeWhile isAlpha)) } fuel
      else match operatorTok (!excl) c with
        | some t =>
          Tokenizer_tokenize_while1 excl b
            { tokens := ctx.tokens ++ t.map tokToPy, index := ctx.index + 1, buffer := ctx.buffer,
              chunk := strFrom ctx.buffer (ctx.index + 1) } fuel
        | none => .error (.ValueError (invalidTokenMsg c ctx.buffer)) := by
  rw [Tokenizer_tokenize_while1]
  simp only [h, strTruthy, List.isEmpty_cons, Bool.not_false, bind_ok, if_true,
    identify_constants_eq ctx c cs h]
  cases hn : isNumber c
  · simp only [Bool.false_eq_true, if_false, bind_ok, intTruthy_zero, identify_alphas_eq ctx c cs h]
    cases ha : isAlpha c
    · simp only [Bool.false_eq_true, if_false, bind_ok, intTruthy_zero,
        identify_operators_eq excl ctx c cs h]
      cases operatorTok (!excl) c <;> rfl
    · simp only [if_true, bind_ok, intTruthy_strLen_cons]
  · simp only [if_true, bind_ok, intTruthy_strLen_cons]

theorem strFrom_append (pre rest : List Char) (n : Nat) :
    strFrom (pre ++ rest) (Int.ofNat pre.length + Int.ofNat n) = rest.drop n := by
  have h : ¬ (Int.ofNat pre.length + Int.ofNat n < 0) := by
    simp only [Int.ofNat_eq_natCast]; omega
  have h2 : (Int.ofNat pre.length + Int.ofNat n).toNat = pre.length + n := by
    simp only [Int.ofNat_eq_natCast]; omega
  simp only [strFrom, if_neg h, h2]
  rw [List.drop_append]
  simp

theorem drop_run (p : Char → Bool) (c : Char) (cs : List Char) (h : p c = true) :
    (c :: cs).drop (c :: cs.takeWhile p).length = cs.dropWhile p := by
  have := List.takeWhile_append_dropWhile (p := p) (l := cs)
  simp only [List.length_cons, List.drop_succ_cons]
  conv => lhs; rhs; rw [← this]
  exact List.drop_left

/-- the result of the model's tokenizer as the Python outcome -/
def tokOutcome (buffer : List Char) (acc : List Token) : Except Char (List Tok) → Except PyErr (List Token)
  | .ok ts => .ok (acc ++ ts.map tokToPy ++ [⟨[], TOKEN_TYPES_EOF⟩])
  | .error c => .error (.ValueError (invalidTokenMsg c buffer))

theorem tokOutcome_map (buffer : List Char) (acc : List Token) (t : List Tok) (r : Except Char (List Tok)) :
    tokOutcome buffer acc (r.map (fun ts => t ++ ts)) = tokOutcome buffer (acc ++ t.map tokToPy) r := by
  cases r <;> simp [tokOutcome, Except.map]

/-- loop invariant: `buffer = pre ++ rest`, `index = len(pre)`, `chunk = rest`; with enough fuel the
translated loop yields what the model's tokenizer yields on `rest`, appended to the tokens so far -/
theorem while_eq (excl : Bool) (b : List Char) : ∀ (rest pre : List Char) (acc : List Token) (fuel : Nat),
    rest.length < fuel →
    Tokenizer_tokenize_while1 excl b ⟨acc, Int.ofNat pre.length, pre ++ rest, rest⟩ fuel =
      tokOutcome (pre ++ rest) acc (tb (!excl) rest) := by
  intro rest
  induction rest using tok_induction with
  | nil =>
    intro pre acc fuel hf
    obtain ⟨f, rfl⟩ : ∃ f, fuel = f + 1 := ⟨fuel - 1, by omega⟩
    rw [while_nil _ _ _ _ rfl]
    simp [tokOutcome, tb_nil]
  | num c cs hn ih =>
    intro pre acc fuel hf
    obtain ⟨f, rfl⟩ : ∃ f, fuel = f + 1 := ⟨fuel - 1, by omega⟩
    rw [while_cons excl b _ f c cs rfl, if_pos hn, tb_number _ c cs hn]
    have hl := length_dropWhile_le isNumber cs
    have key := ih (pre ++ c :: cs.takeWhile isNumber) (acc ++ [⟨c :: cs.takeWhile isNumber, TOKEN_TYPES_Constant⟩]) f
      (by simp only [List.length_cons] at hf; omega)
    have hb : (pre ++ c :: cs.takeWhile isNumber) ++ cs.dropWhile isNumber = pre ++ c :: cs := by
      simp [List.takeWhile_append_dropWhile]
    have hchunk : strFrom (pre ++ c :: cs) (Int.ofNat pre.length + strLen (c :: cs.takeWhile isNumber))
        = cs.dropWhile isNumber := by
      rw [strLen, strFrom_append, drop_run isNumber c cs hn]
    have hidx : Int.ofNat (pre ++ c :: cs.takeWhile isNumber).length
        = Int.ofNat pre.length + strLen (c :: cs.takeWhile isNumber) := by
      simp [strLen]
    rw [hb, hidx] at key
    simp only [hchunk]
    rw [key]
    have := tokOutcome_map (pre ++ c :: cs) acc [⟨.constant, c :: cs.takeWhile isNumber⟩]
      (tb (!excl) (cs.dropWhile isNumber))
    simpa [tokToPy, TT.bit, TOKEN_TYPES_Constant] using this.symm
  | alpha c cs hn ha ih =>
    intro pre acc fuel hf
    obtain ⟨f, rfl⟩ : ∃ f, fuel = f + 1 := ⟨fuel - 1, by omega⟩
    rw [while_cons excl b _ f c cs rfl, if_neg (by simp [hn]), if_pos ha, tb_alpha _ c cs hn ha]
    have hl := length_dropWhile_le isAlpha cs
    have key := ih (pre ++ c :: cs.takeWhile isAlpha) (acc ++ (alphaToks (c :: cs.takeWhile isAlpha)).map tokToPy) f
      (by simp only [List.length_cons] at hf; omega)
    have hb : (pre ++ c :: cs.takeWhile isAlpha) ++ cs.dropWhile isAlpha = pre ++ c :: cs := by
      simp [List.takeWhile_append_dropWhile]
    have hchunk : strFrom (pre ++ c :: cs) (Int.ofNat pre.length + strLen (c :: cs.takeWhile isAlpha))
        = cs.dropWhile isAlpha := by
      rw [strLen, strFrom_append, drop_run isAlpha c cs ha]
    have hidx : Int.ofNat (pre ++ c :: cs.takeWhile isAlpha).length
        = Int.ofNat pre.length + strLen (c :: cs.takeWhile isAlpha) := by
      simp [strLen]
    rw [hb, hidx] at key
    simp only [hchunk]
    rw [key]
    exact (tokOutcome_map (pre ++ c :: cs) acc _ _).symm
  | op c cs hn ha ih =>
    intro pre acc fuel hf
    obtain ⟨f, rfl⟩ : ∃ f, fuel = f + 1 := ⟨fuel - 1, by omega⟩
    rw [while_cons excl b _ f c cs rfl, if_neg (by simp [hn]), if_neg (by simp [ha])]
    cases ho : operatorTok (!excl) c with
    | none =>
      simp only [tb_op_none _ c cs hn ha ho, tokOutcome]
    | some t =>
      rw [tb_op_some _ c cs t hn ha ho]
      have key := ih (pre ++ [c]) (acc ++ t.map tokToPy) f (by simp only [List.length_cons] at hf; omega)
      have hb : (pre ++ [c]) ++ cs = pre ++ c :: cs := by simp
      have hchunk : strFrom (pre ++ c :: cs) (Int.ofNat pre.length + 1) = cs := by
        have := strFrom_append pre (c :: cs) 1
        simpa using this
      have hidx : Int.ofNat (pre ++ [c]).length = Int.ofNat pre.length + 1 := by simp
      rw [hb, hidx] at key
      simp only [hchunk]
      rw [key]
      exact (tokOutcome_map (pre ++ c :: cs) acc _ _).symm

/-- **the translated `Tokenizer.tokenize` is the model's `tokenize`**, for every input string and
both settings of `exclude_padding`: same tokens (values and `TOKEN_TYPES` bits, end marker
included), same `ValueError` text; the translated loop never exhausts its fuel. -/
theorem tokenize_agree (excl : Bool) (s : List Char) :
    Tokenizer_tokenize excl s =
      match tokenize (!excl) s with
      | .ok ts => .ok (ts.map tokToPy)
      | .error c => .error (.ValueError (invalidTokenMsg c s)) := by
  have h := while_eq excl s s [] [] (s.length + 1) (by omega)
  simp only [List.length_nil, List.nil_append] at h
  unfold Tokenizer_tokenize
  simp only []
  rw [show ((0 : Int)) = Int.ofNat 0 from rfl, h]
  unfold tokenize tb tokOutcome
  cases tokenizeAux (!excl) (s.length + 1) s <;> simp [tokToPy, TT.bit, TOKEN_TYPES_EOF]

end Mathy.SrcAgree
