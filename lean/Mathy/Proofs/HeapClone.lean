/-
Helper development for C13 at the pointer level: `Heap.clone` allocates a fresh copy, laid out in
pre-order from `base` (`BT.relabel`), and writes nothing outside `[base, next)`.
-/
import Mathy.Model.Tree
import Mathy.Proofs.HeapRotate
import Mathlib.Tactic.SplitIfs
set_option linter.unusedSimpArgs false
namespace Mathy
open BT

/-! ### `relabel` -/

theorem BT.relabel_node (i : Nat) (l r : BT) (b : Nat) :
    (BT.node i l r).relabel b =
      (.node b (l.relabel (b + 1)).1 (r.relabel (l.relabel (b + 1)).2).1,
        (r.relabel (l.relabel (b + 1)).2).2) := rfl

theorem BT.relabel_snd (t : BT) : ∀ b, (t.relabel b).2 = b + t.size := by
  induction t with
  | nil => intro b; rfl
  | node i l r ihl ihr =>
    intro b
    rw [BT.relabel_node]
    simp only [ihl, ihr, BT.size]
    omega

theorem BT.relabel_size (t : BT) : ∀ b, (t.relabel b).1.size = t.size := by
  induction t with
  | nil => intro b; rfl
  | node i l r ihl ihr =>
    intro b
    rw [BT.relabel_node]
    simp only [ihl, ihr, BT.size]

theorem BT.relabel_depth (t : BT) : ∀ b, (t.relabel b).1.depth = t.depth := by
  induction t with
  | nil => intro b; rfl
  | node i l r ihl ihr =>
    intro b
    rw [BT.relabel_node]
    simp only [ihl, ihr, BT.depth]

theorem BT.relabel_ids (t : BT) : ∀ b, ∀ x ∈ (t.relabel b).1.ids, b ≤ x ∧ x < b + t.size := by
  induction t with
  | nil => intro b x hx; simp [BT.relabel, BT.ids] at hx
  | node i l r ihl ihr =>
    intro b x hx
    rw [BT.relabel_node] at hx
    simp only [BT.ids, List.mem_append, List.mem_cons] at hx
    simp only [BT.size]
    rcases hx with hx | hx | hx
    · have := ihl _ x hx; omega
    · omega
    · have := ihr _ x hx
      rw [BT.relabel_snd] at this
      omega

theorem BT.relabel_rootId_node (i : Nat) (l r : BT) (b : Nat) :
    ((BT.node i l r).relabel b).1.rootId = some b := rfl

/-- re-parenting the root of a relabelled copy (its other cells lie strictly above `b`) -/
theorem Rep.reparent_relabel {h h' : Heap} (t : BT) (b : Nat) {par par' : Option Nat}
    (hr : Rep h (t.relabel b).1 par)
    (hb : h' b = { h b with parent := par' })
    (hf : ∀ x, b < x → h' x = h x) : Rep h' (t.relabel b).1 par' := by
  cases t with
  | nil => trivial
  | node i l r =>
    rw [BT.relabel_node] at hr ⊢
    obtain ⟨h1, h2, h3, h4, h5⟩ := hr
    refine ⟨by rw [hb]; exact h1, by rw [hb]; exact h2, by rw [hb], ?_, ?_⟩
    · refine h4.frame (fun x hx => hf x ?_)
      have := BT.relabel_ids l _ x hx; omega
    · refine h5.frame (fun x hx => hf x ?_)
      have := BT.relabel_ids r _ x hx
      rw [BT.relabel_snd] at this; omega

/-! ### one side of `clone` -/

/-- the body of `result.set_left(self.left.clone())` / `result.set_right(self.right.clone())` -/
def Heap.cloneSide (link : Heap → Nat → Option Nat → Heap) (fuel : Nat) (h : Heap) (r : Nat)
    (child : Option Nat) (next : Nat) : Heap × Nat :=
  match child with
  | some l => (link (Heap.clone fuel h l next).1 r (some (Heap.clone fuel h l next).2.1),
      (Heap.clone fuel h l next).2.2)
  | none => (h, next)

theorem Heap.clone_succ (f : Nat) (h : Heap) (a base : Nat) :
    Heap.clone (f + 1) h a base =
      ((Heap.cloneSide Heap.setRight f
          (Heap.cloneSide Heap.setLeft f (h.set base ⟨none, none, none⟩) base
            ((h.set base ⟨none, none, none⟩) a).left (base + 1)).1 base
          ((Heap.cloneSide Heap.setLeft f (h.set base ⟨none, none, none⟩) base
            ((h.set base ⟨none, none, none⟩) a).left (base + 1)).1 a).right
          (Heap.cloneSide Heap.setLeft f (h.set base ⟨none, none, none⟩) base
            ((h.set base ⟨none, none, none⟩) a).left (base + 1)).2).1,
        base,
       (Heap.cloneSide Heap.setRight f
          (Heap.cloneSide Heap.setLeft f (h.set base ⟨none, none, none⟩) base
            ((h.set base ⟨none, none, none⟩) a).left (base + 1)).1 base
          ((Heap.cloneSide Heap.setLeft f (h.set base ⟨none, none, none⟩) base
            ((h.set base ⟨none, none, none⟩) a).left (base + 1)).1 a).right
          (Heap.cloneSide Heap.setLeft f (h.set base ⟨none, none, none⟩) base
            ((h.set base ⟨none, none, none⟩) a).left (base + 1)).2).2) := by
  simp only [Heap.clone, Heap.cloneSide]
  cases ((h.set base ⟨none, none, none⟩) a).left <;> simp only [] <;>
    split <;> simp_all

/-- what the generalised induction proves about `clone` with fuel `f` on the tree `t` -/
def CloneSpec (f : Nat) (t : BT) : Prop :=
  ∀ (h : Heap) (par : Option Nat) (a base : Nat),
    Rep h t par → t.rootId = some a → (∀ i ∈ t.ids, i < base) → t.depth ≤ f →
    (h.clone f a base).2.1 = base ∧
    (h.clone f a base).2.2 = (t.relabel base).2 ∧
    Rep (h.clone f a base).1 (t.relabel base).1 none ∧
    (∀ x, (x < base ∨ (t.relabel base).2 ≤ x) → (h.clone f a base).1 x = h x)

theorem cloneSide_left (l : BT) (f : Nat) (ih : CloneSpec f l) (h1 : Heap) (b nb : Nat)
    (par : Option Nat) (hrep : Rep h1 l par) (hfresh : ∀ i ∈ l.ids, i < b) (hb : b < nb)
    (hd : l.depth ≤ f) (hnone : (h1 b).left = none) :
    ((Heap.cloneSide Heap.setLeft f h1 b l.rootId nb).2 = (l.relabel nb).2) ∧
    ((Heap.cloneSide Heap.setLeft f h1 b l.rootId nb).1 b).left = (l.relabel nb).1.rootId ∧
    ((Heap.cloneSide Heap.setLeft f h1 b l.rootId nb).1 b).right = (h1 b).right ∧
    ((Heap.cloneSide Heap.setLeft f h1 b l.rootId nb).1 b).parent = (h1 b).parent ∧
    Rep (Heap.cloneSide Heap.setLeft f h1 b l.rootId nb).1 (l.relabel nb).1 (some b) ∧
    (∀ x, x ≠ b → (x < nb ∨ (l.relabel nb).2 ≤ x) →
      (Heap.cloneSide Heap.setLeft f h1 b l.rootId nb).1 x = h1 x) := by
  cases l with
  | nil =>
    simp only [BT.rootId, Heap.cloneSide, BT.relabel]
    exact ⟨trivial, hnone, trivial, trivial, trivial, fun _ _ _ => trivial⟩
  | node li ll lr =>
    obtain ⟨e1, e2, e3, e4⟩ := ih h1 par li nb hrep rfl
      (fun i hi => Nat.lt_trans (hfresh i hi) hb) hd
    have hsz : nb < ((BT.node li ll lr).relabel nb).2 := by
      rw [BT.relabel_snd]; simp only [BT.size]; omega
    have hne : b ≠ nb := Nat.ne_of_lt hb
    have hne' : nb ≠ b := fun e => hne e.symm
    have hrt : (BT.node li ll lr).rootId = some li := rfl
    rw [hrt]
    simp only [Heap.cloneSide]
    rw [e1]
    generalize (h1.clone f li nb).1 = h' at e3 e4 ⊢
    have hb' : h' b = h1 b := e4 b (Or.inl hb)
    refine ⟨e2, ?_, ?_, ?_, ?_, ?_⟩
    · rw [BT.relabel_rootId_node]
      simp [Heap.setLeft, Heap.setParent, Heap.set, hne]
    · simp [Heap.setLeft, Heap.setParent, Heap.set, hne, hb']
    · simp [Heap.setLeft, Heap.setParent, Heap.set, hne, hb']
    · refine Rep.reparent_relabel (BT.node li ll lr) nb e3 ?_ ?_
      · simp [Heap.setLeft, Heap.setParent, Heap.set, hne']
      · intro x hx
        have h1' : x ≠ nb := by omega
        have h2' : x ≠ b := by omega
        simp [Heap.setLeft, Heap.setParent, Heap.set, h1', h2']
    · intro x hxb hx
      have h1' : x ≠ nb := by omega
      simp only [Heap.setLeft, Heap.setParent, Heap.set, h1', hxb, if_false]
      exact e4 x hx

theorem cloneSide_right (l : BT) (f : Nat) (ih : CloneSpec f l) (h1 : Heap) (b nb : Nat)
    (par : Option Nat) (hrep : Rep h1 l par) (hfresh : ∀ i ∈ l.ids, i < b) (hb : b < nb)
    (hd : l.depth ≤ f) (hnone : (h1 b).right = none) :
    ((Heap.cloneSide Heap.setRight f h1 b l.rootId nb).2 = (l.relabel nb).2) ∧
    ((Heap.cloneSide Heap.setRight f h1 b l.rootId nb).1 b).right = (l.relabel nb).1.rootId ∧
    ((Heap.cloneSide Heap.setRight f h1 b l.rootId nb).1 b).left = (h1 b).left ∧
    ((Heap.cloneSide Heap.setRight f h1 b l.rootId nb).1 b).parent = (h1 b).parent ∧
    Rep (Heap.cloneSide Heap.setRight f h1 b l.rootId nb).1 (l.relabel nb).1 (some b) ∧
    (∀ x, x ≠ b → (x < nb ∨ (l.relabel nb).2 ≤ x) →
      (Heap.cloneSide Heap.setRight f h1 b l.rootId nb).1 x = h1 x) := by
  cases l with
  | nil =>
    simp only [BT.rootId, Heap.cloneSide, BT.relabel]
    exact ⟨trivial, hnone, trivial, trivial, trivial, fun _ _ _ => trivial⟩
  | node li ll lr =>
    obtain ⟨e1, e2, e3, e4⟩ := ih h1 par li nb hrep rfl
      (fun i hi => Nat.lt_trans (hfresh i hi) hb) hd
    have hsz : nb < ((BT.node li ll lr).relabel nb).2 := by
      rw [BT.relabel_snd]; simp only [BT.size]; omega
    have hne : b ≠ nb := Nat.ne_of_lt hb
    have hne' : nb ≠ b := fun e => hne e.symm
    have hrt : (BT.node li ll lr).rootId = some li := rfl
    rw [hrt]
    simp only [Heap.cloneSide]
    rw [e1]
    generalize (h1.clone f li nb).1 = h' at e3 e4 ⊢
    have hb' : h' b = h1 b := e4 b (Or.inl hb)
    refine ⟨e2, ?_, ?_, ?_, ?_, ?_⟩
    · rw [BT.relabel_rootId_node]
      simp [Heap.setRight, Heap.setParent, Heap.set, hne]
    · simp [Heap.setRight, Heap.setParent, Heap.set, hne, hb']
    · simp [Heap.setRight, Heap.setParent, Heap.set, hne, hb']
    · refine Rep.reparent_relabel (BT.node li ll lr) nb e3 ?_ ?_
      · simp [Heap.setRight, Heap.setParent, Heap.set, hne']
      · intro x hx
        have h1' : x ≠ nb := by omega
        have h2' : x ≠ b := by omega
        simp [Heap.setRight, Heap.setParent, Heap.set, h1', h2']
    · intro x hxb hx
      have h1' : x ≠ nb := by omega
      simp only [Heap.setRight, Heap.setParent, Heap.set, h1', hxb, if_false]
      exact e4 x hx

/-! ### the generalised statement -/

theorem clone_spec (t : BT) : ∀ f, CloneSpec f t := by
  induction t with
  | nil => intro f h par a base _ hroot; simp [BT.rootId] at hroot
  | node i l r ihl ihr =>
    intro fuel h par a base hrep hroot hfresh hfuel
    cases fuel with
    | zero => simp [BT.depth] at hfuel
    | succ f =>
      simp only [BT.rootId, Option.some.injEq] at hroot
      subst hroot
      obtain ⟨c1, c2, c3, hrl, hrr⟩ := hrep
      simp only [BT.depth] at hfuel
      have hdl : l.depth ≤ f := by omega
      have hdr : r.depth ≤ f := by omega
      have hib : i < base := hfresh i (by simp [BT.ids])
      have hfl : ∀ x ∈ l.ids, x < base := fun x hx => hfresh x (by simp [BT.ids, hx])
      have hfr : ∀ x ∈ r.ids, x < base := fun x hx => hfresh x (by simp [BT.ids, hx])
      rw [Heap.clone_succ, BT.relabel_node]
      generalize hh1 : h.set base ⟨none, none, none⟩ = h1
      have h1lt : ∀ x, x < base → h1 x = h x := by
        intro x hx
        have : x ≠ base := by omega
        rw [← hh1]; simp [Heap.set, this]
      have h1ge : ∀ x, x ≠ base → h1 x = h x := by
        intro x hx
        rw [← hh1]; simp [Heap.set, hx]
      have h1b : h1 base = ⟨none, none, none⟩ := by rw [← hh1]; simp [Heap.set]
      have h1i : h1 i = h i := h1lt i hib
      have hrl1 : Rep h1 l (some i) := hrl.frame (fun x hx => h1lt x (hfl x hx))
      rw [h1i, c1]
      obtain ⟨p1, p2, p3, p4, p5, p6⟩ := cloneSide_left l f (ihl f) h1 base (base + 1) (some i)
        hrl1 hfl (by omega) hdl (by rw [h1b])
      generalize Heap.cloneSide Heap.setLeft f h1 base l.rootId (base + 1) = P2 at p1 p2 p3 p4 p5 p6 ⊢
      have hn1 : (l.relabel (base + 1)).2 = base + 1 + l.size := BT.relabel_snd l _
      have h2lt : ∀ x, x < base → P2.1 x = h x := by
        intro x hx
        rw [p6 x (by omega) (Or.inl (by omega))]; exact h1lt x hx
      have h2i : P2.1 i = h i := h2lt i hib
      have hrr2 : Rep P2.1 r (some i) := hrr.frame (fun x hx => h2lt x (hfr x hx))
      rw [h2i, c2, p1]
      obtain ⟨q1, q2, q3, q4, q5, q6⟩ := cloneSide_right r f (ihr f) P2.1 base
        (l.relabel (base + 1)).2 (some i) hrr2 hfr (by omega) hdr (by rw [p3, h1b])
      generalize Heap.cloneSide Heap.setRight f P2.1 base r.rootId (l.relabel (base + 1)).2 = P3
        at q1 q2 q3 q4 q5 q6 ⊢
      have hn2 : (r.relabel (l.relabel (base + 1)).2).2 = (l.relabel (base + 1)).2 + r.size :=
        BT.relabel_snd r _
      refine ⟨rfl, q1, ⟨?_, ?_, ?_, ?_, q5⟩, ?_⟩
      · rw [q3, p2]
      · rw [q2]
      · rw [q4, p4, h1b]
      · refine p5.frame (fun x hx => q6 x ?_ (Or.inl ?_))
        · have := BT.relabel_ids l _ x hx; omega
        · have := BT.relabel_ids l _ x hx; omega
      · intro x hx
        rw [q6 x (by omega) (by omega), p6 x (by omega) (by omega)]
        exact h1ge x (by omega)

end Mathy
