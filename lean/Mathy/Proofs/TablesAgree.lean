/-
The hand-written model uses exactly the tables of the live code (`Gen/Tables.lean` is
regenerated from the repository on every run): token-type bits, the FIRST / precedence sets of the
parser, the outcome of the tokenizer on every single ASCII character (plus a few non-ASCII
probes) in both padding modes, operator priorities and the registered function names.
A change to one of these tables in the code makes this file fail to build.
-/
import Mathy.Gen.Tables
import Mathy.Model.Parser
import Mathy.Model.Print
namespace Mathy

def allTT : List TT :=
  [.constant, .variable, .plus, .minus, .multiply, .divide, .exponent, .factorial, .openParen,
   .closeParen, .function, .equal, .pad, .eof, .invalid]

theorem tables_token_bits : Gen.tokenBits = allTT.map fun t => (t, t.bit) := by decide

def inMask (m : Nat) (t : TT) : Bool := (m >>> t.bit) % 2 == 1

theorem tables_first_sets :
    (∀ t ∈ allTT, firstFunction t = inMask Gen.mask_FIRST_FUNCTION t) ∧
    (∀ t ∈ allTT, firstFactor t = inMask Gen.mask_FIRST_FACTOR t) ∧
    (∀ t ∈ allTT, firstFactorPrefix t = inMask Gen.mask_FIRST_FACTOR_PREFIX t) ∧
    (∀ t ∈ allTT, firstUnary t = inMask Gen.mask_FIRST_UNARY t) ∧
    (∀ t ∈ allTT, firstExp t = inMask Gen.mask_FIRST_EXP t) ∧
    (∀ t ∈ allTT, firstMult t = inMask Gen.mask_FIRST_MULT t) ∧
    (∀ t ∈ allTT, firstAdd t = inMask Gen.mask_FIRST_ADD t) ∧
    (∀ t ∈ allTT, isAddTok t = inMask Gen.mask_IS_ADD t) ∧
    (∀ t ∈ allTT, isMultTok t = inMask Gen.mask_IS_MULT t) ∧
    (∀ t ∈ allTT, isExpTok t = inMask Gen.mask_IS_EXP t) ∧
    (∀ t ∈ allTT, isEqualTok t = inMask Gen.mask_IS_EQUAL t) := by decide

def ttName : TT → String
  | .constant => "Constant" | .variable => "Variable" | .plus => "Plus" | .minus => "Minus"
  | .multiply => "Multiply" | .divide => "Divide" | .exponent => "Exponent"
  | .factorial => "Factorial" | .openParen => "OpenParen" | .closeParen => "CloseParen"
  | .function => "Function" | .equal => "Equal" | .pad => "Pad" | .eof => "EOF" | .invalid => "Invalid"

/-- what the model tokenizer does on a one-character string, in the table's notation -/
def charOutcome (pad : Bool) (cp : Nat) : String :=
  match tokenize pad [Char.ofNat cp] with
  | .error _ => "error"
  | .ok ts =>
    match ts.dropLast with
    | [] => "none"
    | [t] => match t.value with
      | [c] => ttName t.type ++ ":" ++ toString c.toNat
      | _ => ttName t.type ++ ":-1"
    | _ => "multi"

theorem tables_characters :
    Gen.charTable = (Gen.charTable.map (·.1)).map fun cp => (cp, charOutcome true cp, charOutcome false cp) := by
  decide +kernel

theorem tables_char_domain : (Gen.charTable.map (·.1)).take 128 = List.range 128 := by decide +kernel

theorem tables_priorities :
    Gen.priorities = [("EqualExpression", Bop.eq.priority), ("AddExpression", Bop.add.priority),
      ("SubtractExpression", Bop.sub.priority), ("MultiplyExpression", Bop.mul.priority),
      ("DivideExpression", Bop.div.priority), ("PowerExpression", Bop.pow.priority)] := by decide

theorem tables_functions : Gen.functionNames = functionNames.map String.ofList := by decide

end Mathy
