/-
The model's traversals ARE the repository's (translated source, template-checked): `Gen/PySrcVisit.lean`.
-/
import Mathy.Gen.PySrcVisit
import Mathy.Props.C14
namespace Mathy.SrcAgree
open Mathy Mathy.BT Mathy.Gen.Src

theorem visit_preorder_agree (stop : Nat → Nat → Bool) (d : Nat) (t : BT) :
    BinaryTreeNode_visit_preorder stop d t = t.visitPre stop d := by
  induction t generalizing d with
  | nil => rfl
  | node i l r ihl ihr =>
    rw [BinaryTreeNode_visit_preorder, visitPre_node, ihl, ihr]
    by_cases h1 : stop i d <;> simp only [h1, if_true, if_false, Bool.false_eq_true]
    cases h2 : (l.visitPre stop (d + 1)).2 <;> simp only [if_true, if_false, Bool.false_eq_true]
    cases h3 : (r.visitPre stop (d + 1)).2 <;> simp

theorem visit_inorder_agree (stop : Nat → Nat → Bool) (d : Nat) (t : BT) :
    BinaryTreeNode_visit_inorder stop d t = t.visitIn stop d := by
  induction t generalizing d with
  | nil => rfl
  | node i l r ihl ihr =>
    rw [BinaryTreeNode_visit_inorder, visitIn_node, ihl, ihr]
    cases h2 : (l.visitIn stop (d + 1)).2 <;> simp only [if_true, if_false, Bool.false_eq_true]
    by_cases h1 : stop i d <;> simp only [h1, if_true, if_false, Bool.false_eq_true]
    cases h3 : (r.visitIn stop (d + 1)).2 <;> simp

theorem visit_postorder_agree (stop : Nat → Nat → Bool) (d : Nat) (t : BT) :
    BinaryTreeNode_visit_postorder stop d t = t.visitPost stop d := by
  induction t generalizing d with
  | nil => rfl
  | node i l r ihl ihr =>
    rw [BinaryTreeNode_visit_postorder, visitPost_node, ihl, ihr]

/-! ### the searches of `BaseRule` -/

theorem inorder_no_stop (t : BT) :
    (BinaryTreeNode_visit_inorder (fun _ _ => false) 0 t).1 = t.inorder 0 := by
  rw [visit_inorder_agree, (C14_visitIn _ 0 t).1]
  exact takeThrough_of_not_any _ _ (by simp)

/-- `find_nodes` returns exactly the accepted nodes, in in-order, and numbers every node with its in-order
position -/
theorem find_nodes_spec (can : Nat → Bool) (t : BT) :
    BaseRule_find_nodes can t = (((t.inorder 0).map (·.1)).filter can, ((t.inorder 0).map (·.1)).zipIdx) := by
  simp only [BaseRule_find_nodes, inorder_no_stop]

theorem takeThrough_getLast {α} (p : α → Bool) : ∀ (xs : List α), xs.any p = true →
    (takeThrough p xs).getLast? = xs.find? p
  | [], h => by simp at h
  | x :: xs, h => by
    by_cases hx : p x = true
    · simp [takeThrough, hx]
    · have hx' : p x = false := by simpa using hx
      have hrest : xs.any p = true := by simpa [hx'] using h
      have ih := takeThrough_getLast p xs hrest
      have hne : takeThrough p xs ≠ [] := by
        cases xs with
        | nil => simp at hrest
        | cons y ys => simp only [takeThrough]; split <;> simp
      simp only [takeThrough, hx', Bool.false_eq_true, if_false, List.find?_cons]
      rw [List.getLast?_cons_of_ne_nil hne] <;> simpa using ih

/-- `find_node` returns the first accepted node of the in-order sequence (None when there is none) -/
theorem find_node_spec (can : Nat → Bool) (t : BT) :
    BaseRule_find_node can t = ((t.inorder 0).find? (fun p => can p.1)).map (·.1) := by
  simp only [BaseRule_find_node, visit_inorder_agree]
  obtain ⟨h1, h2⟩ := C14_visitIn (fun i _ => can i) 0 t
  rw [h1, h2]
  cases hany : (t.inorder 0).any (fun p => can p.1)
  · simp only [Bool.false_eq_true, if_false]
    have : (t.inorder 0).find? (fun p => can p.1) = none := by
      rw [List.find?_eq_none]; intro x hx
      have := List.any_eq_false.1 hany x hx
      simpa using this
    simp [this]
  · simp only [if_true]
    rw [takeThrough_getLast _ _ hany]

end Mathy.SrcAgree
