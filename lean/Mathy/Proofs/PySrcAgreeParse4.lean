/-
The model's parser IS the repository's parser (translated source) — part 4: `parse_unary`.
-/
import Mathy.Proofs.PySrcAgreeParse3
set_option linter.unusedSimpArgs false
set_option linter.unusedSectionVars false
namespace Mathy.SrcAgree
open Mathy.Py Mathy.Gen.Src Mathy.PS

theorem headType_cons (t : Tok) (r : List Tok) : headType (t :: r) = t.type := rfl
theorem hd_cons (t : Tok) (r : List Tok) : hd (t :: r) = t := rfl

/-- the optional leading minus of `parse_unary` -/
theorem unary_minus (ts0 : List Tok) (hg : Good ts0) :
    (if ((stOf ts0).current_token.type == TOKEN_TYPES_Minus) then
        Except.bind (ExpressionParser_eat (stOf ts0) TOKEN_TYPES_Minus)
          (fun r => (.ok (r.2, true) : Except PyErr (ParserState × Bool)))
      else (.ok (stOf ts0, false) : Except PyErr (ParserState × Bool))) =
    match (if headType ts0 == .minus then eat .minus ts0 else .ok ts0) with
    | .ok ts => .ok (stOf ts, headType ts0 == .minus)
    | .error e => .error (errOf e) := by
  obtain ⟨-, -, -, hMinus, -⟩ := tt_consts
  simp only [cur_type, hMinus, tyBits_beq]
  cases hneg : headType ts0 == .minus
  · simp
  · simp only [if_true]
    rw [eat_eq _ ts0 hg.wf]
    cases eat .minus ts0 <;> simp [bind_ok, bind_err]

section step
variable {n : Nat} (ih : AG n)
include ih

theorem unary_step (ts0 : List Tok) (hg0 : Good ts0) (hne : parseUnary (n + 1) ts0 ≠ .error .fuel) :
    ExpressionParser_parse_unary (n + 1 + 1) (stOf ts0) = liftP (parseUnary (n + 1) ts0) := by
  obtain ⟨hConst, -, -, hMinus, -, -, -, hFact, -⟩ := tt_consts
  rw [parseUnary] at hne ⊢
  rw [ExpressionParser_parse_unary]
  simp only []
  rw [unary_minus ts0 hg0]
  have hgE : ∀ ts, (if (headType ts0 == TT.minus) = true then eat TT.minus ts0 else Except.ok ts0) = .ok ts →
      Good ts := by
    intro ts h
    split at h
    · exact hg0.of_eat h
    · injection h with h; exact h ▸ hg0
  cases hE : (if (headType ts0 == TT.minus) = true then eat TT.minus ts0 else Except.ok ts0) with
  | error e => simp [liftP, bind_err]
  | ok ts =>
    have hg := hgE ts hE
    simp only [hE] at hne
    clear hE hgE
    generalize (headType ts0 == TT.minus) = neg0 at hne ⊢
    simp only [bind_ok, check_eq, set_first_factor_prefix, Bool.false_and, Bool.false_eq_true, if_false]
    cases hfp : firstFactorPrefix (headType ts)
    · simp [liftP, errOf, bind_ok]
    · simp only [Bool.not_true, Bool.false_eq_true, if_false, if_true, hfp, cur_type, cur_value, hConst,
        tyBits_beq] at hne ⊢
      rcases ts with _ | ⟨⟨ty, v⟩, r⟩
      · simp [headType, firstFactorPrefix, firstFactor, firstFunction] at hfp
      · cases ty
        case constant =>
          simp only [headType_cons, hd_cons, beq_self_eq_true, if_true, pyCoerceToNumber] at hne ⊢
          cases hnum : parseNumber v with
          | none => simp [liftP, errOf, bind_err]
          | some q =>
            simp only [hnum] at hne
            simp only [bind_ok]
            have hj : (if neg0 = true then (Except.ok (-q, false) : Except PyErr (Rat × Bool)) else Except.ok (q, neg0)) =
                .ok (if neg0 = true then -q else q, false) := by cases neg0 <;> rfl
            rw [hj]
            simp only [bind_ok]
            rw [eat_eq _ _ hg.wf]
            cases he : eat .constant (⟨.constant, v⟩ :: r) with
            | error e => simp [liftP, bind_err]
            | ok ts1 =>
              have hg1 : Good ts1 := hg.of_eat he
              simp only [he] at hne
              simp only [bind_ok, check_eq, set_first_factor, Bool.false_and, Bool.false_eq_true, if_false,
                Option.isNone_some, cur_type, hFact, tyBits_beq, optUse]
              cases hff : firstFactor (headType ts1)
              · simp [liftP, bind_ok, optUse]
              · simp only [if_true, hff] at hne ⊢
                cases hfa : headType ts1 == TT.factorial
                · simp only [Bool.false_eq_true, if_false, hfa] at hne ⊢
                  cases hm : parseFactors n ts1 with
                  | error k =>
                    have hk : k ≠ .fuel := by rintro rfl; simp [hm] at hne
                    rw [ih.factors ts1 hg1 (by rw [hm]; simpa using hk)]
                    simp [hm, liftP, bind_err]
                  | ok p =>
                    obtain ⟨f, ts2⟩ := p
                    rw [ih.factors ts1 hg1 (by simp [hm]), hm]
                    simp [liftP, bind_ok, optUse]
                · simp only [if_true, hfa] at hne ⊢
                  rw [eat_eq _ ts1 hg1.wf]
                  cases he2 : eat .factorial ts1 with
                  | error k => simp [liftP, bind_err]
                  | ok ts2 => simp [liftP, bind_ok, optUse]
        all_goals first
          | (exfalso; revert hfp; simp [headType_cons, firstFactorPrefix, firstFactor, firstFunction]; done)
          | (simp only [headType_cons, hd_cons, Bool.false_eq_true, if_false, bind_ok, check_eq, set_first_factor,
              Bool.false_and, Option.isNone_none, if_true, reduceCtorEq, beq_iff_eq,
              show firstFactor TT.variable = true from rfl, show firstFactor TT.function = true from rfl,
              show firstFactor TT.openParen = true from rfl, show firstFactor TT.factorial = true from rfl] at hne ⊢
             have key := ih.factors _ hg
             generalize hm : parseFactors n _ = pf at hne key ⊢
             cases pf with
             | error k =>
               have hk : k ≠ .fuel := by rintro rfl; simp at hne
               rw [key (by simpa using hk)]
               simp [liftP, bind_err]
             | ok p =>
               obtain ⟨f, ts2⟩ := p
               rw [key (by simp)]
               cases neg0 <;> simp [liftP, bind_ok, optUse])

end step

end Mathy.SrcAgree
