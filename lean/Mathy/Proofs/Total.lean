/-
Totality of `apply` on applicable nodes (property C06): a rule whose classifier accepts a node
never runs into one of `apply_to`'s assertions.
-/
import Mathy.Proofs.Apply
namespace Mathy
set_option maxHeartbeats 1000000

/-! ### Associative swap -/

theorem asApply_total {k : Ctx} {n : Ex} (hc : asCan k n = true) :
    ∃ res, asApply k n = .ok res := by
  unfold asCan at hc
  cases k with
  | nil => simp [parentIs] at hc
  | cons f k' =>
    cases n with
    | const t v => simp [Ex.isOp] at hc
    | var t x => simp [Ex.isOp] at hc
    | un t o c => simp [Ex.isOp] at hc
    | bin t o l r =>
      cases f with
      | binL pt po c => exact ⟨_, rfl⟩
      | binR pt po a => exact ⟨_, rfl⟩
      | un pt po => simp [parentIs, Frame.isOp] at hc

/-! ### Commutative swap -/

theorem csApply_total {p : Bool} {k : Ctx} {n : Ex} (hc : csCan p k n = true) :
    ∃ res, csApply k n = .ok res := by
  cases n with
  | const t v => simp [csCan] at hc
  | var t x => simp [csCan] at hc
  | un t o c => simp [csCan] at hc
  | bin t o l r =>
    unfold csApply
    repeat' split
    all_goals (first | exact ⟨_, rfl⟩ | (simp_all; done) | skip)
    rename_i hx
    exact (hx _ _ _ _ rfl).elim

/-! ### Constant arithmetic -/

theorem foldConst_err {r : Res} {b : Bool} {e : RErr} (h : foldConst r b = .error e) :
    e = .nonFinite ∨ e = .outOfDomain := by
  unfold foldConst at h
  split at h
  · simp at h
  · cases b <;> simp at h <;> simp [← h]

theorem caStep_err {n : Ex} {ty : CAType} {e : RErr} (h : caStep n = some (ty, .error e)) :
    e = .nonFinite ∨ e = .outOfDomain := by
  unfold caStep at h
  repeat' (split at h)
  all_goals (first | (simp at h; done) | skip)
  all_goals (
    simp at h
    exact foldConst_err h.2)

theorem caApply_completed {k : Ctx} {n : Ex} (hc : caCan n = true) :
    (∃ res, caApply k n = .ok res) ∨ caApply k n = .error .nonFinite ∨
      caApply k n = .error .outOfDomain := by
  unfold caCan at hc
  unfold caApply
  cases h : caStep n with
  | none => simp [h] at hc
  | some p =>
    obtain ⟨ty, res⟩ := p
    cases res with
    | ok n' => exact Or.inl ⟨_, rfl⟩
    | error e =>
      right
      rcases caStep_err h with rfl | rfl
      · exact Or.inl rfl
      · exact Or.inr rfl

/-! ### Distributive factor out -/

theorem makeTerm_isSome (c : Rat) (v : Option Char) (e : Option Rat) (h : v = none → e = none) :
    ∃ m, makeTerm c v e = some m := by
  unfold makeTerm
  cases v with
  | none => simp [h rfl]
  | some x => cases e <;> simp <;> split <;> exact ⟨_, rfl⟩

theorem dfCore_isSome {lt rt : TermEx} {f : FactorResult}
    (hl : lt.var = none → lt.exp = none) (hr : rt.var = none → rt.exp = none)
    (hf : factorAddTermsEx lt rt = some f) : ∃ core, dfCore lt rt = some core := by
  obtain ⟨-, -, hcase⟩ := factorAddTermsEx_spec hf
  have ha : f.comVar = none → f.comExp = none := by
    rcases hcase with ⟨h1, h2, -⟩ | ⟨h1, h2, -⟩
    · rw [h1, h2]; exact hl
    · intro _; exact h2
  have hb : f.leftVar = none → f.leftExp = none := by
    rcases hcase with ⟨-, -, -, -, h5, h6, -, -⟩ | ⟨-, -, h3, h4, -, -⟩
    · intro _; exact h6
    · rw [h3, h4]; exact hl
  have hc : f.rightVar = none → f.rightExp = none := by
    rcases hcase with ⟨-, -, -, -, -, -, h7, h8⟩ | ⟨-, -, -, -, h5, h6⟩
    · intro _; exact h8
    · rw [h5, h6]; exact hr
  obtain ⟨a, ha⟩ := makeTerm_isSome f.best _ _ ha
  obtain ⟨b, hb⟩ := makeTerm_isSome f.left _ _ hb
  obtain ⟨c, hc⟩ := makeTerm_isSome f.right _ _ hc
  unfold dfCore
  simp [hf, ha, hb, hc]

theorem dfApply_total {cs : Bool} {k : Ctx} {n : Ex} (hc : dfCan cs n = true) :
    ∃ res, dfApply k n = .ok res := by
  unfold dfCan at hc
  unfold dfApply
  cases hs : dfStep n with
  | none => simp [hs] at hc
  | some p =>
    obtain ⟨ty, ⟨ln, lt⟩, ⟨rn, rt⟩, wrap⟩ := p
    rw [hs] at hc
    simp only at hc ⊢
    obtain ⟨hl, hr, -⟩ := dfStep_wrap hs
    unfold dfFactorOk at hc
    split at hc
    · simp at hc
    · cases hf : factorAddTermsEx lt rt with
      | none => simp [hf] at hc
      | some f =>
        obtain ⟨core, hcore⟩ := dfCore_isSome (getTermEx_exp_var hl) (getTermEx_exp_var hr) hf
        simp [hcore]

/-! ### Distributive multiply, inverse, restate -/

theorem dmApply_total {k : Ctx} {n : Ex} (hc : dmCan n = true) :
    ∃ res, dmApply k n = .ok res := by
  unfold dmCan at hc
  unfold dmApply
  split
  · exact ⟨_, rfl⟩
  · exact ⟨_, rfl⟩
  · rename_i h1 h2
    split at hc
    · rename_i t l r
      cases l <;> cases r <;> simp [Ex.isOp] at hc
      all_goals (first
        | (subst hc; first | exact absurd rfl (h1 _ _ _ _ _) | exact absurd rfl (h2 _ _ _ _ _))
        | (rcases hc with rfl | rfl <;> first | exact absurd rfl (h1 _ _ _ _ _) | exact absurd rfl (h2 _ _ _ _ _)))
    · simp at hc

theorem miApply_total {k : Ctx} {n : Ex} (hc : miCan n = true) :
    ∃ res, miApply k n = .ok res := by
  unfold miCan at hc
  cases n with
  | const t v => simp [Ex.isOp] at hc
  | var t x => simp [Ex.isOp] at hc
  | un t o c => simp [Ex.isOp] at hc
  | bin t o l r =>
    simp [Ex.isOp] at hc
    subst hc
    unfold miApply
    split
    · exact ⟨_, rfl⟩
    · exact ⟨_, rfl⟩
    · rename_i h1 h2; exact absurd rfl (h2 _ _ _)

theorem rsApply_total {k : Ctx} {n : Ex} (hc : rsCan k n = true) :
    ∃ res, rsApply k n = .ok res := by
  unfold rsCan at hc
  unfold rsApply
  cases h : rsStep k n with
  | none => simp [h] at hc
  | some p => exact ⟨_, rfl⟩

/-! ### Variable multiply -/

/-- a product node that is a term always has a variable -/
theorem getTermEx_var_none {p : Bool} {e : Ex} {tm : TermEx}
    (h : getTermEx p e = some tm) (hv : tm.var = none) : e.isConst = true := by
  unfold getTermEx at h
  repeat' (split at h)
  all_goals (first | (simp at h; done) | skip)
  all_goals (simp at h; subst h; simp [Ex.isConst] at hv ⊢)

theorem getTermEx_mul_var {p : Bool} {t : Nat} {l r : Ex} {tm : TermEx}
    (h : getTermEx p (.bin t .mul l r) = some tm) : ∃ x, tm.var = some x := by
  cases hv : tm.var with
  | none => have := getTermEx_var_none h hv; simp [Ex.isConst] at this
  | some x => exact ⟨x, rfl⟩

theorem vmStep_var {n : Ex} {ty : VMType} {ln rn : Ex} {lt rt : TermEx}
    {wrap : List Rat → Ex → Ex}
    (h : vmStep n = some (ty, (ln, lt), (rn, rt), wrap)) : ∃ x, lt.var = some x := by
  unfold vmStep at h
  split at h
  rotate_left
  · simp at h
  rename_i t l r
  simp only at h
  split at h
  · rename_i hclr
    simp at h
    subst h
    split at hclr
    rotate_left
    · simp at hclr
    rename_i keep lr _ _ _
    split at hclr
    rotate_left
    · simp at hclr
    rename_i clt rt' hl hr
    split at hclr
    rotate_left
    · simp at hclr
    rename_i hv
    simp at hclr
    obtain ⟨-, ⟨rfl, rfl⟩, ⟨rfl, rfl⟩, rfl⟩ := hclr
    simp at hv
    obtain ⟨x, hx⟩ := getTermEx_mul_var hr
    exact ⟨x, by rw [hv]; exact hx⟩
  · split at h
    · simp at h
    · rename_i lt' hl
      split at h
      · simp at h
      · rename_i hne
        have hlt : ∃ x, lt'.var = some x := by
          cases hv : lt'.var with
          | none => simp [hv] at hne
          | some x => exact ⟨x, rfl⟩
        split at h
        · split at h
          · simp at h
          · split at h
            · simp at h
            · simp at h
              obtain ⟨-, ⟨rfl, rfl⟩, ⟨rfl, rfl⟩, rfl⟩ := h
              exact hlt
        · split at h
          rotate_left
          · simp at h
          split at h
          · simp at h
          · split at h
            · simp at h
            · split at h
              · simp at h
              · simp at h
                obtain ⟨-, ⟨rfl, rfl⟩, ⟨rfl, rfl⟩, rfl⟩ := h
                exact hlt

theorem vmApply_total {k : Ctx} {n : Ex} (hc : vmCan n = true) :
    ∃ res, vmApply k n = .ok res := by
  unfold vmCan at hc
  unfold vmApply
  cases hs : vmStep n with
  | none => simp [hs] at hc
  | some p =>
    obtain ⟨ty, ⟨ln, lt⟩, ⟨rn, rt⟩, wrap⟩ := p
    obtain ⟨x, hx⟩ := vmStep_var hs
    simp only
    rw [hx]
    exact ⟨_, rfl⟩

/-! ### Balanced move -/

theorem splitRoot_none {k : Ctx} (h : splitRoot k = none) : k = [] := by
  induction k with
  | nil => rfl
  | cons f fs ih =>
    cases fs with
    | nil => simp [splitRoot] at h
    | cons g gs =>
      simp only [splitRoot] at h
      split at h
      · simp at h
      · rename_i hn
        have := ih hn
        simp at this

/-- the innermost frame survives `splitRoot` unless it is the root frame itself -/
theorem splitRoot_head {f : Frame} {fs inner : Ctx} {rootF : Frame}
    (h : splitRoot (f :: fs) = some (inner, rootF)) :
    (fs = [] ∧ inner = [] ∧ rootF = f) ∨ (∃ inner', inner = f :: inner') := by
  cases fs with
  | nil =>
    simp [splitRoot] at h
    obtain ⟨rfl, rfl⟩ := h
    exact Or.inl ⟨rfl, rfl, rfl⟩
  | cons g gs =>
    simp only [splitRoot] at h
    split at h
    · simp at h
      obtain ⟨rfl, rfl⟩ := h
      exact Or.inr ⟨_, rfl⟩
    · simp at h

theorem bmType_addition {k : Ctx} {n : Ex} (h : bmType k n = some .addition) :
    parentIs .add k = true ∧ parentIs .eq k = false := by
  unfold bmType at h
  split at h
  · simp at h
  · simp only at h
    cases n <;> split_ifs at h <;> simp_all [Ex.isConst]

theorem bmApply_total {k : Ctx} {n : Ex} (hc : bmCan k n = true) :
    ∃ res, bmApply k n = .ok res := by
  unfold bmCan at hc
  cases hty : bmType k n with
  | none => simp [hty] at hc
  | some ty =>
    cases hsr : splitRoot k with
    | none =>
      unfold bmType at hty
      rw [hsr] at hty
      simp at hty
    | some p =>
      obtain ⟨inner, rootF⟩ := p
      obtain ⟨hroot, -, -⟩ := bmType_spec hty hsr
      unfold bmApply
      rw [hty, hsr]
      simp only
      cases ty with
      | constOfMultiply =>
        simp only
        cases rootF with
        | un t o => simp [Frame.isOp] at hroot
        | binL rt ro r => exact ⟨_, rfl⟩
        | binR rt ro l => exact ⟨_, rfl⟩
      | addition =>
        simp only
        obtain ⟨hadd, hneq⟩ := bmType_addition hty
        cases k with
        | nil => simp [splitRoot] at hsr
        | cons f fs =>
          rcases splitRoot_head hsr with ⟨-, -, rfl⟩ | ⟨inner', rfl⟩
          · simp [parentIs] at hneq
            rw [hneq] at hroot
            simp at hroot
          · have hf : ∃ res, removeAddend (f :: inner') = some res := by
              cases f with
              | binL t o r => exact ⟨_, rfl⟩
              | binR t o l => exact ⟨_, rfl⟩
              | un t o => simp [parentIs, Frame.isOp] at hadd
            obtain ⟨⟨inner'', sib⟩, hrem⟩ := hf
            rw [hrem]
            simp only
            cases rootF with
            | un t o => simp [Frame.isOp] at hroot
            | binL rt ro r => exact ⟨_, rfl⟩
            | binR rt ro l => exact ⟨_, rfl⟩

/-! ### Dispatch -/

theorem applyRule_total {r : Rule} (hr : r ≠ .constants) {k : Ctx} {n : Ex}
    (hc : canApply r k n = true) : ∃ res, applyRule r k n = .ok res := by
  cases r with
  | associative => exact asApply_total hc
  | commutative p => exact csApply_total hc
  | constants => exact absurd rfl hr
  | factorOut c => exact dfApply_total hc
  | distribute => exact dmApply_total hc
  | inverse => exact miApply_total hc
  | restate => exact rsApply_total hc
  | variableMultiply => exact vmApply_total hc
  | balancedMove => exact bmApply_total hc

end Mathy
