/-
`get_sub_terms` never hits one of its assertions on an expression without an equation node
(lemmas for Props/C16SubTerms.lean).
-/
import Mathy.Model.SubTerms
namespace Mathy
namespace ST

/-- no equation node anywhere in the tree -/
def NoEqNode : Ex → Bool
  | .const .. => true
  | .var .. => true
  | .un _ _ c => NoEqNode c
  | .bin _ o l r => o != .eq && NoEqNode l && NoEqNode r

/-- what may follow a leaf in the in-order list: a binary operator other than `=` -/
def okAfterLeaf (b : Ex) : Prop := b.isAddSub = true ∨ b.isMulDivPow = true

/-- every leaf of the list is followed by nothing or by a binary operator other than `=` -/
def GoodAdj : List Ex → Prop
  | [] => True
  | [_] => True
  | a :: b :: rest => (a.isLeaf = true → okAfterLeaf b) ∧ GoodAdj (b :: rest)

theorem GoodAdj.tail {a : Ex} {l : List Ex} (h : GoodAdj (a :: l)) : GoodAdj l := by
  cases l with
  | nil => trivial
  | cons b rest => exact h.2

/-- loop invariant: `current` followed by the remaining nodes is a well-formed suffix -/
def Inv (cur : Option Ex) (nodes : List Ex) : Prop :=
  match cur with
  | some c => GoodAdj (c :: nodes)
  | none => nodes = []

def size (cur : Option Ex) (nodes : List Ex) : Nat := nodes.length + (if cur.isSome then 1 else 0)

theorem inv_pop {l : List Ex} (h : GoodAdj l) : Inv (popNode l).1 (popNode l).2 := by
  cases l with
  | nil => rfl
  | cons x xs => exact h

theorem size_pop (l : List Ex) : size (popNode l).1 (popNode l).2 = l.length := by
  cases l <;> simp [popNode, size]

theorem okAfterLeaf_bin (t : Nat) (o : Bop) (l r : Ex) (ho : (o != .eq) = true) : okAfterLeaf (.bin t o l r) := by
  cases o <;> simp_all [okAfterLeaf, Ex.isAddSub, Bop.isAddSub', Ex.isMulDivPow, Ex.isOp]

theorem goodAdj_append {l1 l2 : List Ex} {x : Ex} (h1 : GoodAdj l1) (hx : okAfterLeaf x)
    (h2 : GoodAdj (x :: l2)) : GoodAdj (l1 ++ x :: l2) := by
  induction l1 with
  | nil => exact h2
  | cons a l1 ih =>
    cases l1 with
    | nil => exact ⟨fun _ => hx, h2⟩
    | cons b rest => exact ⟨h1.1, ih h1.2⟩

theorem goodAdj_cons_nonleaf {x : Ex} {l : List Ex} (hx : x.isLeaf = false) (h : GoodAdj l) : GoodAdj (x :: l) := by
  cases l with
  | nil => trivial
  | cons b rest => exact ⟨fun hl => by simp [hx] at hl, h⟩

theorem goodAdj_inorder (e : Ex) (h : NoEqNode e = true) : GoodAdj (inorderNodes e) := by
  induction e with
  | const t v => trivial
  | var t x => trivial
  | un t o c ih =>
    simp only [NoEqNode] at h
    exact goodAdj_cons_nonleaf rfl (ih h)
  | bin t o l r ihl ihr =>
    simp only [NoEqNode, Bool.and_eq_true] at h
    obtain ⟨⟨ho, hl⟩, hr⟩ := h
    exact goodAdj_append (ihl hl) (okAfterLeaf_bin t o l r ho) (goodAdj_cons_nonleaf rfl (ihr hr))

/-- after a leaf: the assertion cannot fail, the invariant is kept and nothing is un-consumed -/
theorem afterLeaf_ok {a : Ex} {nodes : List Ex} (ha : a.isLeaf = true) (h : GoodAdj (a :: nodes)) :
    afterLeaf (popNode nodes).1 (popNode nodes).2 ≠ some none ∧
    ∀ c ns, afterLeaf (popNode nodes).1 (popNode nodes).2 = some (some (c, ns)) →
      Inv c ns ∧ size c ns ≤ nodes.length := by
  cases nodes with
  | nil =>
    refine ⟨by simp [afterLeaf, popNode, optIs], ?_⟩
    intro c ns hc
    simp [afterLeaf, popNode, optIs] at hc
    obtain ⟨rfl, rfl⟩ := hc
    exact ⟨rfl, by simp [size]⟩
  | cons b rest =>
    have hb := h.1 ha
    have hbr : GoodAdj (b :: rest) := h.2
    have hpop : popNode (b :: rest) = (some b, rest) := rfl
    rw [hpop]
    simp only [afterLeaf, optIs]
    by_cases hadd : b.isAddSub = true
    · simp [hadd]
    · have hmdp : b.isMulDivPow = true := by
        rcases hb with hb | hb
        · exact absurd hb hadd
        · exact hb
      simp only [hadd, Bool.false_eq_true, if_false, Option.isNone_some, Bool.false_or, hmdp, Bool.not_true]
      by_cases hp : Ex.isOp .pow b = true
      · simp only [hp, if_true]
        refine ⟨by simp, ?_⟩
        intro c ns hc
        simp at hc
        obtain ⟨rfl, rfl⟩ := hc
        exact ⟨hbr, by simp [size]⟩
      · simp only [hp, Bool.false_eq_true, if_false]
        refine ⟨by simp, ?_⟩
        intro c ns hc
        have hc' : popNode rest = (c, ns) := by simpa using hc
        have h1 := inv_pop hbr.tail
        have h2 := size_pop rest
        rw [hc'] at h1 h2
        exact ⟨h1, by simp at h2 ⊢; omega⟩

/-- coefficient / variable step -/
theorem takeLeaf_ok (leaf : Ex → Bool) (hleaf : ∀ e, leaf e = true → e.isLeaf = true)
    {cur : Option Ex} {nodes : List Ex} (h : Inv cur nodes) :
    takeLeaf leaf cur nodes ≠ some none ∧
    ∀ t c ns, takeLeaf leaf cur nodes = some (some (t, c, ns)) →
      Inv c ns ∧ size c ns ≤ size cur nodes ∧ (t.isSome = true → size c ns < size cur nodes) ∧
      (t.isNone = true → c = cur ∧ ns = nodes) := by
  unfold takeLeaf
  by_cases hl : optIs leaf cur = true
  · obtain ⟨a, rfl⟩ : ∃ a, cur = some a := by
      cases cur with
      | none => simp [optIs] at hl
      | some a => exact ⟨a, rfl⟩
    have ha : a.isLeaf = true := hleaf a (by simpa [optIs] using hl)
    obtain ⟨h1, h2⟩ := afterLeaf_ok ha h
    simp only [hl, if_true]
    cases hal : afterLeaf (popNode nodes).1 (popNode nodes).2 with
    | none => simp
    | some r =>
      cases r with
      | none => exact absurd hal h1
      | some p =>
        obtain ⟨c', ns'⟩ := p
        obtain ⟨hi, hs⟩ := h2 c' ns' hal
        refine ⟨by simp, ?_⟩
        intro t c ns heq
        simp at heq
        obtain ⟨rfl, rfl, rfl⟩ := heq
        refine ⟨hi, ?_, ?_, ?_⟩
        · simp [size] at hs ⊢; omega
        · intro _; simp [size] at hs ⊢; omega
        · intro hn; simp at hn
  · simp only [hl, Bool.false_eq_true, if_false]
    refine ⟨by simp, ?_⟩
    intro t c ns heq
    simp at heq
    obtain ⟨rfl, rfl, rfl⟩ := heq
    exact ⟨h, Nat.le_refl _, by intro hh; simp at hh, fun _ => ⟨rfl, rfl⟩⟩

theorem isConst_leaf (e : Ex) (h : e.isConst = true) : e.isLeaf = true := by cases e <;> simp_all [Ex.isConst, Ex.isLeaf]
theorem isVar_leaf (e : Ex) (h : e.isVar = true) : e.isLeaf = true := by cases e <;> simp_all [Ex.isVar, Ex.isLeaf]

theorem inv_pop_pop {l : List Ex} (h : GoodAdj l) :
    Inv (popNode (popNode l).2).1 (popNode (popNode l).2).2 := by
  cases l with
  | nil => rfl
  | cons x xs => exact inv_pop h.tail

theorem size_pop_pop (l : List Ex) : size (popNode (popNode l).2).1 (popNode (popNode l).2).2 ≤ l.length := by
  cases l with
  | nil => simp [popNode, size]
  | cons x xs => have := size_pop xs; simp [popNode] at this ⊢; omega

/-- one iteration: no assertion fails, the invariant is kept, the work left strictly decreases -/
theorem step_ok {cur : Ex} {nodes : List Ex} (h : Inv (some cur) nodes) :
    subTermsStep cur nodes ≠ .raised ∧
    ∀ c ns t, subTermsStep cur nodes = .next c ns t → Inv c ns ∧ size c ns < size (some cur) nodes := by
  unfold subTermsStep
  by_cases hneg : cur.isUn .neg = true
  · simp only [hneg, if_true]
    refine ⟨by simp, ?_⟩
    intro c ns t heq
    simp at heq
    obtain ⟨rfl, rfl, -⟩ := heq
    exact ⟨inv_pop (GoodAdj.tail h), by have := size_pop nodes; simp [size] at this ⊢; omega⟩
  · simp only [hneg, Bool.false_eq_true, if_false]
    obtain ⟨hc1, hc2⟩ := takeLeaf_ok Ex.isConst isConst_leaf h
    cases h1 : takeLeaf Ex.isConst (some cur) nodes with
    | none => simp
    | some r1 =>
      cases r1 with
      | none => exact absurd h1 hc1
      | some p1 =>
        obtain ⟨tConst, cur1, nodes1⟩ := p1
        obtain ⟨hi1, hs1, hlt1, hsame1⟩ := hc2 tConst cur1 nodes1 h1
        obtain ⟨hv1, hv2⟩ := takeLeaf_ok Ex.isVar isVar_leaf hi1
        simp only []
        cases h2 : takeLeaf Ex.isVar cur1 nodes1 with
        | none => simp
        | some r2 =>
          cases r2 with
          | none => exact absurd h2 hv1
          | some p2 =>
            obtain ⟨tVar, cur2, nodes2⟩ := p2
            obtain ⟨hi2, hs2, hlt2, hsame2⟩ := hv2 tVar cur2 nodes2 h2
            simp only []
            -- exponent
            by_cases hp : optIs (Ex.isOp .pow) cur2 = true
            · obtain ⟨b, rfl⟩ : ∃ b, cur2 = some b := by
                cases cur2 with
                | none => simp [optIs] at hp
                | some b => exact ⟨b, rfl⟩
              have hg : GoodAdj nodes2 := GoodAdj.tail hi2
              have hinv := inv_pop_pop hg
              have hsz := size_pop_pop nodes2
              simp only [hp, if_true]
              have hsz2 : size (some b) nodes2 = nodes2.length + 1 := by simp [size]
              split
              · split
                · refine ⟨by simp, ?_⟩
                  intro c ns t heq
                  simp at heq
                  obtain ⟨rfl, rfl, -⟩ := heq
                  refine ⟨?_, ?_⟩
                  · cases hpp : popNode (popNode nodes2).2 with
                    | mk c2 ns2 =>
                      rw [hpp] at hinv
                      cases c2 with
                      | none => simp [Inv] at hinv; subst hinv; rfl
                      | some x => exact inv_pop (GoodAdj.tail hinv)
                  · have := size_pop (popNode (popNode nodes2).2).2
                    simp [size] at this hsz hs1 hs2 ⊢
                    omega
                · simp
              · refine ⟨by simp, ?_⟩
                intro c ns t heq
                simp at heq
                obtain ⟨rfl, rfl, -⟩ := heq
                exact ⟨hinv, by simp [size] at hsz hs1 hs2 ⊢; omega⟩
            · simp only [hp, Bool.false_eq_true, if_false]
              cases tConst with
              | some tc =>
                simp only [Option.isNone_some, Bool.false_and, Bool.false_eq_true, if_false]
                refine ⟨by simp, ?_⟩
                intro c ns t heq
                simp at heq
                obtain ⟨rfl, rfl, -⟩ := heq
                exact ⟨hi2, by have := hlt1 rfl; omega⟩
              | none =>
                cases tVar with
                | some tv =>
                  simp only [Option.isNone_some, Bool.and_false, Bool.false_eq_true, if_false]
                  refine ⟨by simp, ?_⟩
                  intro c ns t heq
                  simp at heq
                  obtain ⟨rfl, rfl, -⟩ := heq
                  exact ⟨hi2, by have := hlt2 rfl; omega⟩
                | none =>
                  obtain ⟨e1c, e1n⟩ := hsame1 rfl
                  obtain ⟨e2c, e2n⟩ := hsame2 rfl
                  simp only [Option.isNone_none, Bool.and_self, if_true, e2c, e2n, e1c, e1n]
                  split
                  · refine ⟨by simp, ?_⟩
                    intro c ns t heq
                    simp at heq
                    obtain ⟨rfl, rfl, -⟩ := heq
                    exact ⟨inv_pop (GoodAdj.tail h), by have := size_pop nodes; simp [size] at this ⊢; omega⟩
                  · simp

/-- the loop never reports a failed assertion (and never runs out of fuel) -/
theorem loop_ok : ∀ (fuel : Nat) (cur : Option Ex) (nodes : List Ex) (acc : List (Option Ex × Option Ex × Option Ex)),
    Inv cur nodes → size cur nodes < fuel → subTermsLoop fuel cur nodes acc ≠ .raised := by
  intro fuel
  induction fuel with
  | zero => intro cur nodes acc _ hs; omega
  | succ fuel ih =>
    intro cur nodes acc hinv hs
    cases cur with
    | none => simp [subTermsLoop]
    | some c =>
      obtain ⟨h1, h2⟩ := step_ok hinv
      simp only [subTermsLoop]
      cases hstep : subTermsStep c nodes with
      | raised => exact absurd hstep h1
      | notTerms => simp
      | next c' ns t =>
        obtain ⟨hi, hlt⟩ := h2 c' ns t hstep
        cases t with
        | none => exact ih c' ns acc hi (by omega)
        | some tr => exact ih c' ns (tr :: acc) hi (by omega)

end ST
end Mathy
