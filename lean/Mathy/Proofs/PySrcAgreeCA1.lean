/-
`ConstantsSimplifyRule.get_type` vs `caType` on products of products `(ll * lr) * r`, left factor
of the inner product: const.  Exhaustive case analysis on the constructors the two functions inspect
(proof text produced by a script; every case closes by `rfl`).
-/
import Mathy.Proofs.PySrcAgreeCA
namespace Mathy.SrcAgree
open Mathy.Py Mathy.Gen.Src

theorem ca_pp_const_const (k : Ctx) (t lt : Nat) (llt : Nat) (llv : Rat) (lrt : Nat) (lrv : Rat) (r : Ex) :
    CAAgree k (.bin t .mul (.bin lt .mul (.const llt llv) (.const lrt lrv)) r) := by
  unfold CAAgree
  rcases r with ⟨_, _⟩ | ⟨_, _⟩ | ⟨_, _, _⟩ | ⟨_, ro, rl, rr⟩ <;> try rfl
  all_goals (try (cases ro <;> try rfl))
  all_goals (try (rcases rl with ⟨_, _⟩ | ⟨_, _⟩ | ⟨_, _, _⟩ | ⟨_, rlo, rll, rlr⟩ <;> try rfl))
  all_goals (try (cases rlo <;> try rfl))
  all_goals (try (cases rll <;> rfl))

theorem ca_pp_const_var (k : Ctx) (t lt : Nat) (llt : Nat) (llv : Rat) (lrt : Nat) (lrx : Char) (r : Ex) :
    CAAgree k (.bin t .mul (.bin lt .mul (.const llt llv) (.var lrt lrx)) r) := by
  unfold CAAgree
  rcases r with ⟨_, _⟩ | ⟨_, _⟩ | ⟨_, _, _⟩ | ⟨_, ro, rl, rr⟩ <;> try rfl
  all_goals (try (cases ro <;> try rfl))
  all_goals (try (rcases rl with ⟨_, _⟩ | ⟨_, _⟩ | ⟨_, _, _⟩ | ⟨_, rlo, rll, rlr⟩ <;> try rfl))
  all_goals (try (cases rlo <;> try rfl))
  all_goals (try (cases rll <;> rfl))

theorem ca_pp_const_un (k : Ctx) (t lt : Nat) (llt : Nat) (llv : Rat) (lrt : Nat) (lro : Uop) (lrc : Ex) (r : Ex) :
    CAAgree k (.bin t .mul (.bin lt .mul (.const llt llv) (.un lrt lro lrc)) r) := by
  unfold CAAgree
  rcases r with ⟨_, _⟩ | ⟨_, _⟩ | ⟨_, _, _⟩ | ⟨_, ro, rl, rr⟩ <;> try rfl
  all_goals (try (cases ro <;> try rfl))
  all_goals (try (rcases rl with ⟨_, _⟩ | ⟨_, _⟩ | ⟨_, _, _⟩ | ⟨_, rlo, rll, rlr⟩ <;> try rfl))
  all_goals (try (cases rlo <;> try rfl))
  all_goals (try (cases rll <;> rfl))

theorem ca_pp_const_bin_add (k : Ctx) (t lt : Nat) (llt : Nat) (llv : Rat) (lrt : Nat) (lrl lrr r : Ex) :
    CAAgree k (.bin t .mul (.bin lt .mul (.const llt llv) (.bin lrt .add lrl lrr)) r) := by
  unfold CAAgree
  cases lrl
  all_goals (
    rcases r with ⟨_, _⟩ | ⟨_, _⟩ | ⟨_, _, _⟩ | ⟨_, ro, rl, rr⟩ <;> try rfl
    all_goals (try (cases ro <;> try rfl))
    all_goals (try (rcases rl with ⟨_, _⟩ | ⟨_, _⟩ | ⟨_, _, _⟩ | ⟨_, rlo, rll, rlr⟩ <;> try rfl))
    all_goals (try (cases rlo <;> try rfl))
    all_goals (try (cases rll <;> rfl))
    )

theorem ca_pp_const_bin_sub (k : Ctx) (t lt : Nat) (llt : Nat) (llv : Rat) (lrt : Nat) (lrl lrr r : Ex) :
    CAAgree k (.bin t .mul (.bin lt .mul (.const llt llv) (.bin lrt .sub lrl lrr)) r) := by
  unfold CAAgree
  cases lrl
  all_goals (
    rcases r with ⟨_, _⟩ | ⟨_, _⟩ | ⟨_, _, _⟩ | ⟨_, ro, rl, rr⟩ <;> try rfl
    all_goals (try (cases ro <;> try rfl))
    all_goals (try (rcases rl with ⟨_, _⟩ | ⟨_, _⟩ | ⟨_, _, _⟩ | ⟨_, rlo, rll, rlr⟩ <;> try rfl))
    all_goals (try (cases rlo <;> try rfl))
    all_goals (try (cases rll <;> rfl))
    )

theorem ca_pp_const_bin_mul (k : Ctx) (t lt : Nat) (llt : Nat) (llv : Rat) (lrt : Nat) (lrl lrr r : Ex) :
    CAAgree k (.bin t .mul (.bin lt .mul (.const llt llv) (.bin lrt .mul lrl lrr)) r) := by
  unfold CAAgree
  cases lrl
  all_goals (
    rcases r with ⟨_, _⟩ | ⟨_, _⟩ | ⟨_, _, _⟩ | ⟨_, ro, rl, rr⟩ <;> try rfl
    all_goals (try (cases ro <;> try rfl))
    all_goals (try (rcases rl with ⟨_, _⟩ | ⟨_, _⟩ | ⟨_, _, _⟩ | ⟨_, rlo, rll, rlr⟩ <;> try rfl))
    all_goals (try (cases rlo <;> try rfl))
    all_goals (try (cases rll <;> rfl))
    )

theorem ca_pp_const_bin_div (k : Ctx) (t lt : Nat) (llt : Nat) (llv : Rat) (lrt : Nat) (lrl lrr r : Ex) :
    CAAgree k (.bin t .mul (.bin lt .mul (.const llt llv) (.bin lrt .div lrl lrr)) r) := by
  unfold CAAgree
  cases lrl
  all_goals (
    rcases r with ⟨_, _⟩ | ⟨_, _⟩ | ⟨_, _, _⟩ | ⟨_, ro, rl, rr⟩ <;> try rfl
    all_goals (try (cases ro <;> try rfl))
    all_goals (try (rcases rl with ⟨_, _⟩ | ⟨_, _⟩ | ⟨_, _, _⟩ | ⟨_, rlo, rll, rlr⟩ <;> try rfl))
    all_goals (try (cases rlo <;> try rfl))
    all_goals (try (cases rll <;> rfl))
    )

theorem ca_pp_const_bin_pow (k : Ctx) (t lt : Nat) (llt : Nat) (llv : Rat) (lrt : Nat) (lrl lrr r : Ex) :
    CAAgree k (.bin t .mul (.bin lt .mul (.const llt llv) (.bin lrt .pow lrl lrr)) r) := by
  unfold CAAgree
  cases lrl
  all_goals (
    rcases r with ⟨_, _⟩ | ⟨_, _⟩ | ⟨_, _, _⟩ | ⟨_, ro, rl, rr⟩ <;> try rfl
    all_goals (try (cases ro <;> try rfl))
    all_goals (try (rcases rl with ⟨_, _⟩ | ⟨_, _⟩ | ⟨_, _, _⟩ | ⟨_, rlo, rll, rlr⟩ <;> try rfl))
    all_goals (try (cases rlo <;> try rfl))
    all_goals (try (cases rll <;> rfl))
    )

theorem ca_pp_const_bin_eq (k : Ctx) (t lt : Nat) (llt : Nat) (llv : Rat) (lrt : Nat) (lrl lrr r : Ex) :
    CAAgree k (.bin t .mul (.bin lt .mul (.const llt llv) (.bin lrt .eq lrl lrr)) r) := by
  unfold CAAgree
  cases lrl
  all_goals (
    rcases r with ⟨_, _⟩ | ⟨_, _⟩ | ⟨_, _, _⟩ | ⟨_, ro, rl, rr⟩ <;> try rfl
    all_goals (try (cases ro <;> try rfl))
    all_goals (try (rcases rl with ⟨_, _⟩ | ⟨_, _⟩ | ⟨_, _, _⟩ | ⟨_, rlo, rll, rlr⟩ <;> try rfl))
    all_goals (try (cases rlo <;> try rfl))
    all_goals (try (cases rll <;> rfl))
    )

theorem ca_pp_const (k : Ctx) (t lt : Nat) (llt : Nat) (llv : Rat) (lr r : Ex) :
    CAAgree k (.bin t .mul (.bin lt .mul (.const llt llv) lr) r) := by
  rcases lr with ⟨lrt, lrv⟩ | ⟨lrt, lrx⟩ | ⟨lrt, lro, lrc⟩ | ⟨lrt, lro, lrl, lrr⟩
  · exact ca_pp_const_const ..
  · exact ca_pp_const_var ..
  · exact ca_pp_const_un ..
  · cases lro
    · exact ca_pp_const_bin_add ..
    · exact ca_pp_const_bin_sub ..
    · exact ca_pp_const_bin_mul ..
    · exact ca_pp_const_bin_div ..
    · exact ca_pp_const_bin_pow ..
    · exact ca_pp_const_bin_eq ..


end Mathy.SrcAgree
