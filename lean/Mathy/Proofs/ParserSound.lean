/-
Soundness of the parser model with respect to the grammar of `Spec/Grammar.lean`.
-/
import Mathy.Spec.Grammar
namespace Mathy

theorem parseToks_sound (body : List Tok) (e : Ex) (hb : ∀ t ∈ body, t.type ≠ .eof)
    (h : parseToks (body ++ [eofTok]) = .ok e) : G.EqualE body e := by
  sorry

end Mathy
