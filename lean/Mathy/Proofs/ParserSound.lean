/-
Soundness of the parser model with respect to the grammar of `Spec/Grammar.lean`.
-/
import Mathy.Spec.Grammar
namespace Mathy
namespace PS

/-- no end marker among the tokens -/
def NoEof (ts : List Tok) : Prop := ∀ t ∈ ts, t.type ≠ .eof

@[simp] theorem noEof_nil : NoEof [] := by simp [NoEof]
@[simp] theorem noEof_cons (t : Tok) (ts : List Tok) :
    NoEof (t :: ts) ↔ t.type ≠ .eof ∧ NoEof ts := by simp [NoEof]
@[simp] theorem noEof_append (a b : List Tok) : NoEof (a ++ b) ↔ NoEof a ∧ NoEof b := by
  simp only [NoEof, List.mem_append]
  constructor
  · intro h; exact ⟨fun t ht => h t (Or.inl ht), fun t ht => h t (Or.inr ht)⟩
  · rintro ⟨h1, h2⟩ t (ht | ht)
    · exact h1 t ht
    · exact h2 t ht

theorem eat_ok {ty : TT} {ts ts' : List Tok} (h : eat ty ts = .ok ts') :
    ∃ t, ts = t :: ts' ∧ t.type = ty ∧ t.type ≠ .eof := by
  unfold eat at h
  split at h
  · simp at h
  · rename_i h1
    cases ts with
    | nil => simp [advance] at h
    | cons t tl =>
      simp only [advance] at h
      split at h
      · simp at h
      · rename_i h2
        simp [headType] at h1
        injection h with h; subst h
        exact ⟨t, rfl, h1, by simpa using h2⟩

/-- `inp` splits into consumed tokens (none of them the end marker) satisfying `P`, and `rest` -/
def Consumes (inp rest : List Tok) (P : List Tok → Prop) : Prop :=
  ∃ ts, inp = ts ++ rest ∧ NoEof ts ∧ P ts

theorem endsClosed_append (a : List Tok) {b : List Tok} (hb : b ≠ []) :
    G.endsClosed (a ++ b) = G.endsClosed b := by
  unfold G.endsClosed
  rw [List.getLast?_append, List.getLast?_eq_some_getLast hb]
  rfl

theorem ne_nil_of_endsClosed {b : List Tok} (h : G.endsClosed b = true) : b ≠ [] := by
  rintro rfl; simp [G.endsClosed] at h

theorem endsClosed_append_of (a : List Tok) {b : List Tok} (h : G.endsClosed b = true) :
    G.endsClosed (a ++ b) = true := by
  rw [endsClosed_append a (ne_nil_of_endsClosed h), h]

theorem endsClosed_cons_of (t : Tok) {b : List Tok} (h : G.endsClosed b = true) :
    G.endsClosed (t :: b) = true := endsClosed_append_of [t] h

theorem primSeq_ne_nil {ts : List Tok} {es : List Ex} (h : G.PrimSeq ts es) : es ≠ [] := by
  cases h <;> simp

/-- the simultaneous soundness statement at fuel `n` -/
structure IH (n : Nat) : Prop where
  add : ∀ inp e rest, parseAdd n inp = .ok (e, rest) →
    Consumes inp rest (fun ts => G.AddE ts e)
  addL : ∀ acc inp e rest, addLoop n acc inp = .ok (e, rest) →
    Consumes inp rest (fun ts => G.AddLoop acc ts e)
  mult : ∀ inp e rest, parseMult n inp = .ok (e, rest) →
    Consumes inp rest (fun ts => G.MultE ts e ∧ isMultTok (headType rest) = false)
  multL : ∀ acc inp e rest, multLoop n acc inp = .ok (e, rest) →
    Consumes inp rest (fun ts => G.MultLoop acc ts e ∧ isMultTok (headType rest) = false)
  exp : ∀ inp e rest, parseExponent n inp = .ok (e, rest) →
    Consumes inp rest (fun ts => G.ExpE ts e)
  unary : ∀ inp e rest, parseUnary n inp = .ok (e, rest) →
    Consumes inp rest (fun ts => G.UnaryE ts e ∧
      (headType rest = .exponent → G.endsClosed ts = true))
  fl : ∀ acc inp rev rest, factorsLoop n acc inp = .ok (rev, rest) →
    Consumes inp rest (fun ts => ∃ es, G.PrimSeq ts es ∧ rev = es.reverse ++ acc)
  factors : ∀ inp e rest, parseFactors n inp = .ok (e, rest) →
    Consumes inp rest (fun ts => G.Factors ts e ∧
      (headType rest = .exponent → G.endsClosed ts = true))
  fn : ∀ inp e rest, headType inp = .function → parseFunction n inp = .ok (e, rest) →
    Consumes inp rest (fun ts => G.Prim ts e)

theorem ih_zero : IH 0 := by
  constructor <;> intros <;> simp_all [parseAdd, addLoop, parseMult, multLoop, parseExponent,
    parseUnary, factorsLoop, parseFactors, parseFunction]

section step
variable {n : Nat} (ih : IH n)
include ih

theorem add_step (inp : List Tok) (e : Ex) (rest : List Tok)
    (h : parseAdd (n + 1) inp = .ok (e, rest)) :
    Consumes inp rest (fun ts => G.AddE ts e) := by
  rw [parseAdd] at h
  split at h
  · simp at h
  split at h
  · simp at h
  rename_i e0 mid h1
  obtain ⟨ts, rfl, hn, hp, -⟩ := ih.mult _ _ _ h1
  obtain ⟨ts', rfl, hn', hp'⟩ := ih.addL _ _ _ _ h
  exact ⟨ts ++ ts', by simp, by simp [*], .mk hp hp'⟩

theorem addL_step (acc : Ex) (inp : List Tok) (e : Ex) (rest : List Tok)
    (h : addLoop (n + 1) acc inp = .ok (e, rest)) :
    Consumes inp rest (fun ts => G.AddLoop acc ts e) := by
  rw [addLoop] at h
  split at h
  · rename_i hop
    split at h
    · simp at h
    rename_i mid heat
    obtain ⟨t, rfl, ht, hte⟩ := eat_ok heat
    split at h
    rotate_left
    · simp at h
    split at h
    · simp at h
    rename_i r mid' h1
    obtain ⟨ts, rfl, hn, hp, -⟩ := ih.mult _ _ _ h1
    obtain ⟨ts', rfl, hn', hp'⟩ := ih.addL _ _ _ _ h
    simp only [headType] at hop hp' ht
    simp only [isAddTok, Bool.or_eq_true, beq_iff_eq] at hop
    rcases hop with hop | hop
    · refine ⟨t :: ts ++ ts', by simp, by simp [*], ?_⟩
      simp only [hop] at hp'
      exact .plus t hop hp hp'
    · refine ⟨t :: ts ++ ts', by simp, by simp [*], ?_⟩
      simp only [hop] at hp'
      exact .minus t hop hp hp'
  · injection h with h; injection h with h1 h2; subst h1; subst h2
    exact ⟨[], by simp, by simp, .done _⟩

theorem mult_step (inp : List Tok) (e : Ex) (rest : List Tok)
    (h : parseMult (n + 1) inp = .ok (e, rest)) :
    Consumes inp rest (fun ts => G.MultE ts e ∧ isMultTok (headType rest) = false) := by
  rw [parseMult] at h
  split at h
  · simp at h
  split at h
  · simp at h
  rename_i e0 mid h1
  obtain ⟨ts, rfl, hn, hp⟩ := ih.exp _ _ _ h1
  obtain ⟨ts', rfl, hn', hp', hm⟩ := ih.multL _ _ _ _ h
  exact ⟨ts ++ ts', by simp, by simp [*], .mk hp hp', hm⟩

theorem multL_step (acc : Ex) (inp : List Tok) (e : Ex) (rest : List Tok)
    (h : multLoop (n + 1) acc inp = .ok (e, rest)) :
    Consumes inp rest (fun ts => G.MultLoop acc ts e ∧ isMultTok (headType rest) = false) := by
  rw [multLoop] at h
  split at h
  · rename_i hop
    split at h
    · simp at h
    rename_i mid heat
    obtain ⟨t, rfl, ht, hte⟩ := eat_ok heat
    split at h
    rotate_left
    · simp at h
    split at h
    · simp at h
    rename_i r mid' h1
    simp only [headType] at hop ht h1 h
    simp only [isMultTok, Bool.or_eq_true, beq_iff_eq] at hop
    rcases hop with hop | hop
    · simp only [hop] at h1 h
      simp only [show (TT.multiply == TT.divide) = false from rfl] at h1
      simp only [Bool.false_eq_true, if_false, beq_self_eq_true, if_true] at h1 h
      obtain ⟨ts, rfl, hn, hp, hm⟩ := ih.mult _ _ _ h1
      cases n with
      | zero => simp [multLoop] at h
      | succ m =>
        rw [multLoop] at h
        simp only [hm, Bool.false_eq_true, if_false] at h
        injection h with h; injection h with h1 h2; subst h1; subst h2
        exact ⟨t :: ts, by simp, by simp [*], .mul t hop hp, hm⟩
    · simp only [hop] at h1 h
      simp only [show (TT.divide == TT.multiply) = false from rfl] at h
      simp only [Bool.false_eq_true, if_false, beq_self_eq_true, if_true] at h1 h
      obtain ⟨ts, rfl, hn, hp⟩ := ih.exp _ _ _ h1
      obtain ⟨ts', rfl, hn', hp', hm⟩ := ih.multL _ _ _ _ h
      exact ⟨t :: ts ++ ts', by simp, by simp [*], .div t hop hp hp', hm⟩
  · rename_i hop
    injection h with h; injection h with h1 h2; subst h1; subst h2
    exact ⟨[], by simp, by simp, .done _, by simpa using hop⟩

theorem exp_step (inp : List Tok) (e : Ex) (rest : List Tok)
    (h : parseExponent (n + 1) inp = .ok (e, rest)) :
    Consumes inp rest (fun ts => G.ExpE ts e) := by
  rw [parseExponent] at h
  split at h
  · simp at h
  split at h
  · simp at h
  rename_i b mid h1
  obtain ⟨ts, rfl, hn, hp, hc⟩ := ih.unary _ _ _ h1
  split at h
  · rename_i hx
    simp only [isExpTok, beq_iff_eq] at hx
    split at h
    · simp at h
    rename_i mid' heat
    obtain ⟨t, rfl, ht, hte⟩ := eat_ok heat
    split at h
    · simp at h
    split at h
    · simp at h
    rename_i u rest' h2
    obtain ⟨us, rfl, hn', hp', -⟩ := ih.unary _ _ _ h2
    injection h with h; injection h with h1 h2; subst h1; subst h2
    exact ⟨ts ++ t :: us, by simp, by simp [*], .pow t ht hp (hc hx) hp'⟩
  · injection h with h; injection h with h1 h2; subst h1; subst h2
    exact ⟨ts, rfl, hn, .unary hp⟩

theorem fn_step (inp : List Tok) (e : Ex) (rest : List Tok) (hf : headType inp = .function)
    (h : parseFunction (n + 1) inp = .ok (e, rest)) :
    Consumes inp rest (fun ts => G.Prim ts e) := by
  rw [parseFunction] at h
  split at h
  · simp at h
  rename_i m1 heat1
  obtain ⟨f, rfl, hft, hfe⟩ := eat_ok heat1
  split at h
  · simp at h
  rename_i m2 heat2
  obtain ⟨o, rfl, hot, hoe⟩ := eat_ok heat2
  split at h
  · simp at h
  rename_i a m3 h1
  obtain ⟨ts, rfl, hn, hp⟩ := ih.add _ _ _ h1
  split at h
  · simp at h
  rename_i m4 heat3
  obtain ⟨c, rfl, hct, hce⟩ := eat_ok heat3
  injection h with h; injection h with h1 h2; subst h1; subst h2
  simp only [headType] at hf
  exact ⟨f :: o :: ts ++ [c], by simp, by simp [*], .fn f o c hf hot hct hp⟩

theorem fl_step (acc : List Ex) (inp : List Tok) (rev : List Ex) (rest : List Tok)
    (h : factorsLoop (n + 1) acc inp = .ok (rev, rest)) :
    Consumes inp rest (fun ts => ∃ es, G.PrimSeq ts es ∧ rev = es.reverse ++ acc) := by
  rw [factorsLoop.eq_def] at h
  simp only at h
  split at h
  · simp at h
  rename_i f mid hstep
  have hprim : Consumes inp mid (fun ts => G.Prim ts f) := by
    split at hstep
    · rename_i v tl
      split at hstep
      · simp at hstep
      rename_i m heat
      obtain ⟨t, heq, ht, hte⟩ := eat_ok heat
      cases heq
      injection hstep with hstep; injection hstep with h1 h2; subst h1; subst h2
      exact ⟨[⟨.variable, v⟩], by simp, by simp, .var _ rfl⟩
    · exact ih.fn _ _ _ rfl hstep
    · split at hstep
      · simp at hstep
      rename_i m heat
      obtain ⟨o, heq, hot, hoe⟩ := eat_ok heat
      cases heq
      split at hstep
      · simp at hstep
      rename_i a m3 h1
      obtain ⟨ts, rfl, hn, hp⟩ := ih.add _ _ _ h1
      split at hstep
      · simp at hstep
      rename_i m4 heat3
      obtain ⟨c, rfl, hct, hce⟩ := eat_ok heat3
      injection hstep with hstep; injection hstep with h1 h2; subst h1; subst h2
      exact ⟨_ :: ts ++ [c], by simp, by simp [*], .paren _ c hot hct hp⟩
    · simp at hstep
  obtain ⟨ts, rfl, hn, hp⟩ := hprim
  split at h
  · obtain ⟨ts', rfl, hn', es, hps, hrev⟩ := ih.fl _ _ _ _ h
    exact ⟨ts ++ ts', by simp, by simp [*], f :: es, .cons hp hps, by simp [hrev]⟩
  · injection h with h; injection h with h1 h2; subst h1; subst h2
    exact ⟨ts, rfl, hn, [f], .one hp, by simp⟩

theorem factors_step (inp : List Tok) (e : Ex) (rest : List Tok)
    (h : parseFactors (n + 1) inp = .ok (e, rest)) :
    Consumes inp rest (fun ts => G.Factors ts e ∧
      (headType rest = .exponent → G.endsClosed ts = true)) := by
  rw [parseFactors] at h
  split at h
  · simp at h
  rename_i rev mid hfl
  obtain ⟨ts, rfl, hn, es, hps, hrev⟩ := ih.fl _ _ _ _ hfl
  simp only [List.append_nil] at hrev
  split at h
  · simp at h
  rename_i last before
  have hes : es = before.reverse ++ [last] := by
    have := congrArg List.reverse hrev
    simpa using this.symm
  subst hes
  simp only at h
  split at h
  · simp at h
  rename_i last' rest' hpow
  split at h
  · simp at h
  rename_i f0 fs hrv
  injection h with h; injection h with h1 h2; subst h1; subst h2
  simp only [List.reverse_cons] at hrv
  split at hpow
  · rename_i hx
    split at hpow
    · simp at hpow
    rename_i m heat
    obtain ⟨x, rfl, hxt, hxe⟩ := eat_ok heat
    split at hpow
    · simp at hpow
    split at hpow
    · simp at hpow
    rename_i u rest'' h2
    obtain ⟨us, rfl, hn', hu, hc⟩ := ih.unary _ _ _ h2
    injection hpow with hpow; injection hpow with h1 h2; subst h1; subst h2
    exact ⟨ts ++ x :: us, by simp, by simp [*], .pow x hxt hps hu hrv,
      fun hh => endsClosed_append_of _ (endsClosed_cons_of _ (hc hh))⟩
  · rename_i hx
    injection hpow with hpow; injection hpow with h1 h2; subst h1; subst h2
    rw [hrv] at hps
    refine ⟨ts, rfl, hn, .plain hps, fun hh => ?_⟩
    simp [isExpTok, hh] at hx

theorem unary_step (inp : List Tok) (e : Ex) (rest : List Tok)
    (h : parseUnary (n + 1) inp = .ok (e, rest)) :
    Consumes inp rest (fun ts => G.UnaryE ts e ∧
      (headType rest = .exponent → G.endsClosed ts = true)) := by
  rw [parseUnary] at h
  split at h
  · simp at h
  rename_i ts1 hneg
  split at h
  · simp at h
  simp only at h
  split at h
  · simp at h
  rename_i c negate ts2 hwc
  generalize (headType inp == TT.minus) = neg0 at hneg hwc
  split at hwc
  · -- a leading literal
    rename_i v tl hffp
    split at hwc
    · simp at hwc
    rename_i q hq
    split at hwc
    · simp at hwc
    rename_i ts' heat
    obtain ⟨c0, heq, hc0, hc0e⟩ := eat_ok heat
    cases heq
    injection hwc with hwc; injection hwc with a hwc; injection hwc with b d
    subst a; subst b; subst d
    have hlit : G.Lit ⟨.constant, v⟩ q := ⟨rfl, hq⟩
    simp only [Bool.false_eq_true, if_false] at h
    generalize hce : Ex.const 0 (if neg0 = true then -q else q) = ce at h
    have hd : (tl = rest ∧ e = ce) ∨
        (∃ b, tl = b :: rest ∧ b.type = .factorial ∧ b.type ≠ .eof ∧ e = .un 0 .fact ce) ∨
        (∃ fs f, tl = fs ++ rest ∧ NoEof fs ∧ G.Factors fs f ∧
          (headType rest = .exponent → G.endsClosed fs = true) ∧ e = .bin 0 .mul ce f) := by
      split at h
      · split at h
        · split at h
          · simp at h
          rename_i m heat2
          obtain ⟨b, rfl, hbt, hbe⟩ := eat_ok heat2
          injection h with h; injection h with h1 h2; subst h1; subst h2
          exact Or.inr (Or.inl ⟨b, rfl, hbt, hbe, rfl⟩)
        · split at h
          · simp at h
          rename_i f m hf
          obtain ⟨fs, rfl, hn, hp, hc⟩ := ih.factors _ _ _ hf
          injection h with h; injection h with h1 h2; subst h1; subst h2
          exact Or.inr (Or.inr ⟨fs, f, rfl, hn, hp, hc, rfl⟩)
      · injection h with h; injection h with h1 h2; subst h1; subst h2
        exact Or.inl ⟨rfl, rfl⟩
    clear h
    cases neg0
    · simp only [Bool.false_eq_true, if_false] at hneg hce
      injection hneg with hneg; subst hneg; subst hce
      rcases hd with ⟨rfl, rfl⟩ | ⟨b, rfl, hbt, hbe, rfl⟩ | ⟨fs, f, rfl, hn, hp, hc, rfl⟩
      · exact ⟨[_], rfl, by simp, .lit _ q hlit, fun _ => by simp [G.endsClosed]⟩
      · exact ⟨[_, b], rfl, by simp [*], .fact _ b q hlit hbt,
          fun _ => by simp [G.endsClosed, hbt]⟩
      · exact ⟨_ :: fs, rfl, by simp [*], .litFactors _ q hlit hp,
          fun hh => endsClosed_cons_of _ (hc hh)⟩
    · simp only [if_true] at hneg hce
      obtain ⟨m, rfl, hmt, hme⟩ := eat_ok hneg
      subst hce
      rcases hd with ⟨rfl, rfl⟩ | ⟨b, rfl, hbt, hbe, rfl⟩ | ⟨fs, f, rfl, hn, hp, hc, rfl⟩
      · exact ⟨[m, _], rfl, by simp [*], .negLit m _ q hmt hlit, fun _ => by simp [G.endsClosed]⟩
      · exact ⟨[m, _, b], rfl, by simp [*], .negFact m _ b q hmt hlit hbt,
          fun _ => by simp [G.endsClosed, hbt]⟩
      · exact ⟨m :: _ :: fs, rfl, by simp [*], .negLitFactors m _ q hmt hlit hp,
          fun hh => endsClosed_cons_of _ (endsClosed_cons_of _ (hc hh))⟩
  · -- no literal
    injection hwc with hwc; injection hwc with a hwc; injection hwc with b d
    subst a; subst b; subst d
    simp only at h
    split at h
    rotate_left
    · simp at h
    split at h
    · simp at h
    rename_i f m hf
    obtain ⟨fs, rfl, hn, hp, hc⟩ := ih.factors _ _ _ hf
    injection h with h; injection h with h1 h2; subst h1; subst h2
    cases neg0
    · simp only [Bool.false_eq_true, if_false] at hneg ⊢
      injection hneg with hneg; subst hneg
      exact ⟨fs, rfl, hn, .factors hp, hc⟩
    · simp only [if_true] at hneg ⊢
      obtain ⟨m, rfl, hmt, hme⟩ := eat_ok hneg
      exact ⟨m :: fs, rfl, by simp [*], .negFactors m hmt hp,
        fun hh => endsClosed_cons_of _ (hc hh)⟩

end step

theorem ih_all : ∀ n, IH n
  | 0 => ih_zero
  | n + 1 =>
    have ih := ih_all n
    { add := add_step ih, addL := addL_step ih, mult := mult_step ih, multL := multL_step ih,
      exp := exp_step ih, unary := unary_step ih, fl := fl_step ih, factors := factors_step ih,
      fn := fn_step ih }

theorem equalLoop_sound : ∀ (n : Nat) (acc : Ex) (inp : List Tok) (e : Ex) (rest : List Tok),
    equalLoop n acc inp = .ok (e, rest) → Consumes inp rest (fun ts => G.EqLoop acc ts e)
  | 0, _, _, _, _, h => by simp [equalLoop] at h
  | n + 1, acc, inp, e, rest, h => by
    rw [equalLoop] at h
    split at h
    · split at h
      · simp at h
      rename_i mid heat
      obtain ⟨t, rfl, ht, hte⟩ := eat_ok heat
      split at h
      rotate_left
      · simp at h
      split at h
      · simp at h
      rename_i r mid' h1
      obtain ⟨ts, rfl, hn, hp⟩ := (ih_all n).add _ _ _ h1
      obtain ⟨ts', rfl, hn', hp'⟩ := equalLoop_sound n _ _ _ _ h
      exact ⟨t :: ts ++ ts', by simp, by simp [*], .eq t ht hp hp'⟩
    · injection h with h; injection h with h1 h2; subst h1; subst h2
      exact ⟨[], by simp, by simp, .done _⟩

theorem parseEqual_sound (n : Nat) (inp : List Tok) (e : Ex) (rest : List Tok)
    (h : parseEqual n inp = .ok (e, rest)) : Consumes inp rest (fun ts => G.EqualE ts e) := by
  cases n with
  | zero => simp [parseEqual] at h
  | succ n =>
    rw [parseEqual] at h
    split at h
    · simp at h
    split at h
    · simp at h
    rename_i e0 mid h1
    obtain ⟨ts, rfl, hn, hp⟩ := (ih_all n).add _ _ _ h1
    obtain ⟨ts', rfl, hn', hp'⟩ := equalLoop_sound n _ _ _ _ h
    exact ⟨ts ++ ts', by simp, by simp [*], .mk hp hp'⟩

/-- the consumed tokens of a complete parse are exactly the body -/
theorem body_eq_of_split {x : Tok} (hx : x.type = .eof) :
    ∀ (body ts rest : List Tok), NoEof body → NoEof ts → headType rest = .eof →
      body ++ [x] = ts ++ rest → ts = body
  | [], ts, rest, _, hts, _, h => by
    cases ts with
    | nil => rfl
    | cons t ts' =>
      simp only [List.nil_append, List.cons_append, List.cons.injEq] at h
      obtain ⟨rfl, -⟩ := h
      exact absurd hx (hts _ (List.mem_cons_self ..))
  | y :: body', ts, rest, hb, hts, hr, h => by
    cases ts with
    | nil =>
      simp only [List.nil_append] at h
      subst h
      simp only [List.cons_append, headType] at hr
      exact absurd hr (hb _ (List.mem_cons_self ..))
    | cons t ts' =>
      simp only [List.cons_append, List.cons.injEq] at h
      obtain ⟨rfl, h⟩ := h
      simp only [noEof_cons] at hb hts
      rw [body_eq_of_split hx body' ts' rest hb.2 hts.2 hr h]

end PS

theorem parseToks_sound (body : List Tok) (e : Ex) (hb : ∀ t ∈ body, t.type ≠ .eof)
    (h : parseToks (body ++ [eofTok]) = .ok e) : G.EqualE body e := by
  unfold parseToks at h
  split at h
  · simp at h
  split at h
  · simp at h
  rename_i e' rest hp
  split at h
  rotate_left
  · simp at h
  rename_i hr
  injection h with h; subst h
  obtain ⟨ts, hsplit, hn, hE⟩ := PS.parseEqual_sound _ _ _ _ hp
  have := PS.body_eq_of_split (x := eofTok) rfl body ts rest hb hn (by simpa using hr) hsplit
  subst this
  exact hE

end Mathy
