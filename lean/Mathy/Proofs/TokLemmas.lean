/-
Helper lemmas about the tokenizer model (`Model/Tok.lean`): fuel independence, unfolding
equations and an induction principle following the tokenizer's recursion.
-/
import Mathy.Model.Tok
import Mathlib.Tactic.SplitIfs
import Mathlib.Data.List.Basic
namespace Mathy

/-- body tokens with the canonical fuel -/
def tb (pad : Bool) (s : List Char) : Except Char (List Tok) := tokenizeAux pad (s.length + 1) s

theorem length_dropWhile_le {α : Type} (p : α → Bool) (l : List α) :
    (l.dropWhile p).length ≤ l.length := (List.dropWhile_sublist p).length_le

theorem exceptMatch_eq_map {α β ε : Type} (r : Except ε α) (f : α → β) :
    (match r with | .ok ts => Except.ok (f ts) | .error e => .error e) = r.map f := by
  cases r <;> rfl

theorem tokenizeAux_succ_cons (pad : Bool) (fuel : Nat) (c : Char) (cs : List Char) :
    tokenizeAux pad (fuel + 1) (c :: cs) =
      if isNumber c then
        (tokenizeAux pad fuel (cs.dropWhile isNumber)).map
          (fun ts => ⟨.constant, c :: cs.takeWhile isNumber⟩ :: ts)
      else if isAlpha c then
        (tokenizeAux pad fuel (cs.dropWhile isAlpha)).map
          (fun ts => alphaToks (c :: cs.takeWhile isAlpha) ++ ts)
      else match operatorTok pad c with
        | none => .error c
        | some t => (tokenizeAux pad fuel cs).map (fun ts => t ++ ts) := by
  rw [tokenizeAux]
  split_ifs with h1 h2
  · simp only [List.takeWhile, List.dropWhile, h1]
    generalize tokenizeAux pad fuel _ = r
    cases r <;> rfl
  · simp only [List.takeWhile, List.dropWhile, h2]
    generalize tokenizeAux pad fuel _ = r
    cases r <;> rfl
  · cases operatorTok pad c with
    | none => rfl
    | some t =>
      generalize tokenizeAux pad fuel _ = r
      cases r <;> rfl

theorem tokenizeAux_nil (pad : Bool) (fuel : Nat) : tokenizeAux pad fuel [] = .ok [] := by
  cases fuel <;> rfl

theorem tokenizeAux_fuel (pad : Bool) : ∀ (f1 f2 : Nat) (s : List Char),
    s.length < f1 → s.length < f2 → tokenizeAux pad f1 s = tokenizeAux pad f2 s := by
  intro f1
  induction f1 with
  | zero => intro f2 s h; omega
  | succ f1 ih =>
    intro f2 s h1 h2
    cases f2 with
    | zero => omega
    | succ f2 =>
      cases s with
      | nil => rfl
      | cons c cs =>
        simp only [List.length_cons] at h1 h2
        rw [tokenizeAux_succ_cons, tokenizeAux_succ_cons]
        have hn := length_dropWhile_le isNumber cs
        have ha := length_dropWhile_le isAlpha cs
        rw [ih f2 (cs.dropWhile isNumber) (by omega) (by omega),
          ih f2 (cs.dropWhile isAlpha) (by omega) (by omega),
          ih f2 cs (by omega) (by omega)]

theorem tb_nil (pad : Bool) : tb pad [] = .ok [] := rfl

theorem tb_number (pad : Bool) (c : Char) (cs : List Char) (h : isNumber c = true) :
    tb pad (c :: cs) = (tb pad (cs.dropWhile isNumber)).map
      (fun ts => ⟨.constant, c :: cs.takeWhile isNumber⟩ :: ts) := by
  have hn := length_dropWhile_le isNumber cs
  unfold tb
  rw [List.length_cons, tokenizeAux_succ_cons, if_pos h,
    tokenizeAux_fuel pad (cs.length + 1) ((cs.dropWhile isNumber).length + 1) _
      (by omega) (by omega)]

theorem tb_alpha (pad : Bool) (c : Char) (cs : List Char) (hn : isNumber c = false)
    (h : isAlpha c = true) :
    tb pad (c :: cs) = (tb pad (cs.dropWhile isAlpha)).map
      (fun ts => alphaToks (c :: cs.takeWhile isAlpha) ++ ts) := by
  have hl := length_dropWhile_le isAlpha cs
  unfold tb
  rw [List.length_cons, tokenizeAux_succ_cons, if_neg (by simp [hn]), if_pos h,
    tokenizeAux_fuel pad (cs.length + 1) ((cs.dropWhile isAlpha).length + 1) _
      (by omega) (by omega)]

theorem tb_op_some (pad : Bool) (c : Char) (cs : List Char) (t : List Tok)
    (hn : isNumber c = false) (ha : isAlpha c = false) (ho : operatorTok pad c = some t) :
    tb pad (c :: cs) = (tb pad cs).map (fun ts => t ++ ts) := by
  unfold tb
  rw [List.length_cons, tokenizeAux_succ_cons, if_neg (by simp [hn]), if_neg (by simp [ha]), ho]

theorem tb_op_none (pad : Bool) (c : Char) (cs : List Char)
    (hn : isNumber c = false) (ha : isAlpha c = false) (ho : operatorTok pad c = none) :
    tb pad (c :: cs) = .error c := by
  unfold tb
  rw [List.length_cons, tokenizeAux_succ_cons, if_neg (by simp [hn]), if_neg (by simp [ha]), ho]

/-- induction following the tokenizer's recursion -/
theorem tok_induction {P : List Char → Prop} (nil : P [])
    (num : ∀ c cs, isNumber c = true → P (cs.dropWhile isNumber) → P (c :: cs))
    (alpha : ∀ c cs, isNumber c = false → isAlpha c = true → P (cs.dropWhile isAlpha) →
      P (c :: cs))
    (op : ∀ c cs, isNumber c = false → isAlpha c = false → P cs → P (c :: cs)) :
    ∀ s, P s := by
  intro s
  generalize hn : s.length = n
  induction n using Nat.strongRecOn generalizing s with
  | _ n ih =>
    cases s with
    | nil => exact nil
    | cons c cs =>
      simp only [List.length_cons] at hn
      have h1 := length_dropWhile_le isNumber cs
      have h2 := length_dropWhile_le isAlpha cs
      cases hnum : isNumber c with
      | true => exact num c cs hnum (ih _ (by omega) _ rfl)
      | false =>
        cases halpha : isAlpha c with
        | true => exact alpha c cs hnum halpha (ih _ (by omega) _ rfl)
        | false => exact op c cs hnum halpha (ih _ (by omega) _ rfl)

/-! ### `Except.map` -/

theorem map_eq_ok_iff {α β ε : Type} (f : α → β) (r : Except ε α) (y : β) :
    r.map f = .ok y ↔ ∃ x, r = .ok x ∧ y = f x := by
  cases r with
  | error e => simp [Except.map]
  | ok x =>
    simp only [Except.map, Except.ok.injEq, exists_eq_left']
    exact eq_comm

theorem map_eq_error_iff {α β ε : Type} (f : α → β) (r : Except ε α) (e : ε) :
    r.map f = .error e ↔ r = .error e := by
  cases r <;> simp [Except.map]

/-! ### maximal runs -/

theorem takeWhile_dropWhile_run {α : Type} (p : α → Bool) (run rest : List α)
    (hrun : ∀ c ∈ run, p c = true) (hrest : ∀ c, rest.head? = some c → p c = false) :
    (run ++ rest).takeWhile p = run ∧ (run ++ rest).dropWhile p = rest := by
  induction run with
  | nil =>
    cases rest with
    | nil => simp
    | cons d ds =>
      have := hrest d rfl
      simp [this]
  | cons a as ih =>
    have ha := hrun a (by simp)
    have := ih (fun c hc => hrun c (by simp [hc]))
    simp [ha, this]

theorem find?_dropWhile {α : Type} (p q : α → Bool) (l : List α)
    (h : ∀ x, q x = true → p x = false) : (l.dropWhile q).find? p = l.find? p := by
  induction l with
  | nil => rfl
  | cons a as ih =>
    cases hq : q a with
    | true => simp [List.dropWhile, hq, h a hq, ih]
    | false => simp [List.dropWhile, hq]

/-! ### token classes -/

/-- digits and dots are not letters -/
theorem isAlpha_of_isNumber (c : Char) (h : isNumber c = true) : isAlpha c = false := by
  simp only [isNumber, isAlpha, Bool.or_eq_true, Bool.and_eq_true, beq_iff_eq, decide_eq_true_eq,
    Bool.or_eq_false_iff, Bool.and_eq_false_iff, decide_eq_false_iff_not, Char.le_def, UInt32.le_iff_toNat_le, Char.ext_iff, ← UInt32.toNat_inj] at h ⊢
  have e1 : '.'.val.toNat = 46 := by decide
  have e2 : '0'.val.toNat = 48 := by decide
  have e3 : '9'.val.toNat = 57 := by decide
  have e4 : 'a'.val.toNat = 97 := by decide
  have e5 : 'z'.val.toNat = 122 := by decide
  have e6 : 'A'.val.toNat = 65 := by decide
  have e7 : 'Z'.val.toNat = 90 := by decide
  rw [e1, e2, e3] at h
  rw [e4, e5, e6, e7]
  omega

theorem variableToks_values (run : List Char) :
    ((run.map fun c => (⟨.variable, [c]⟩ : Tok)).map (·.value)).flatten = run := by
  induction run with
  | nil => rfl
  | cons a as ih => simpa using ih

theorem alphaToks_values (run : List Char) : ((alphaToks run).map (·.value)).flatten = run := by
  unfold alphaToks
  split_ifs
  · simp
  · exact variableToks_values run

theorem alphaToks_type (run : List Char) :
    ∀ t ∈ alphaToks run, t.type = .function ∨ t.type = .variable := by
  unfold alphaToks
  split_ifs
  · simp
  · intro t ht
    simp only [List.mem_map] at ht
    obtain ⟨c, _, rfl⟩ := ht
    exact Or.inr rfl

theorem operatorTok_false (c : Char) :
    operatorTok false c = (operatorTok true c).map (fun ts => ts.filter (fun t => t.type != .pad)) := by
  simp only [operatorTok, Bool.false_eq_true, ↓reduceIte]
  split_ifs <;> simp

theorem operatorTok_isSome (pad : Bool) (c : Char) :
    (operatorTok pad c).isSome = (operatorTok true c).isSome := by
  cases pad with
  | true => rfl
  | false => rw [operatorTok_false]; simp

theorem operatorTok_not_eof (pad : Bool) (c : Char) (t : List Tok) (h : operatorTok pad c = some t) :
    ∀ x ∈ t, x.type ≠ .eof := by
  unfold operatorTok at h
  split_ifs at h <;> simp at h <;> subst h <;> cases pad <;> simp

/-! ### errors -/

/-- supported alphabet (same as `supported` in `Props/C11.lean`) -/
def sup (c : Char) : Bool := isNumber c || isAlpha c || (operatorTok true c).isSome

theorem tb_error_iff (pad : Bool) (s : List Char) (e : Char) :
    tb pad s = .error e ↔ s.find? (fun d => !sup d) = some e := by
  induction s using tok_induction with
  | nil => simp [tb_nil]
  | num c cs h ih =>
    rw [tb_number pad c cs h, map_eq_error_iff, ih,
      find?_dropWhile _ _ _ (by intro x hx; simp [sup, hx])]
    simp [List.find?, sup, h]
  | alpha c cs hn h ih =>
    rw [tb_alpha pad c cs hn h, map_eq_error_iff, ih,
      find?_dropWhile _ _ _ (by intro x hx; simp [sup, hx])]
    simp [List.find?, sup, h]
  | op c cs hn ha ih =>
    cases ho : operatorTok pad c with
    | none =>
      have h1 : (operatorTok true c).isSome = false := by
        rw [← operatorTok_isSome pad, ho]; rfl
      rw [tb_op_none pad c cs hn ha ho]
      simp [List.find?, sup, hn, ha, h1]
    | some t =>
      have h1 : (operatorTok true c).isSome = true := by
        rw [← operatorTok_isSome pad, ho]; rfl
      rw [tb_op_some pad c cs t hn ha ho, map_eq_error_iff, ih]
      simp [List.find?, sup, h1]

theorem find?_not_eq_some_iff {α : Type} (p : α → Bool) (l : List α) (c : α) :
    l.find? (fun d => !p d) = some c ↔
      ∃ pre post, l = pre ++ c :: post ∧ (∀ d ∈ pre, p d = true) ∧ p c = false := by
  rw [List.find?_eq_some_iff_append]
  constructor
  · rintro ⟨hc, pre, post, rfl, hpre⟩
    exact ⟨pre, post, rfl, fun d hd => by simpa using hpre d hd, by simpa using hc⟩
  · rintro ⟨pre, post, rfl, hpre, hc⟩
    exact ⟨by simpa using hc, pre, post, rfl, fun d hd => by simpa using hpre d hd⟩

/-! ### no end marker inside the body -/

theorem tb_not_eof (pad : Bool) (s : List Char) :
    ∀ body, tb pad s = .ok body → ∀ t ∈ body, t.type ≠ .eof := by
  induction s using tok_induction with
  | nil =>
    intro body h
    rw [tb_nil] at h
    cases h
    simp
  | num c cs h ih =>
    intro body hb
    rw [tb_number pad c cs h, map_eq_ok_iff] at hb
    obtain ⟨ts, hts, rfl⟩ := hb
    intro t ht
    rcases List.mem_cons.1 ht with rfl | ht
    · simp
    · exact ih ts hts t ht
  | alpha c cs hn h ih =>
    intro body hb
    rw [tb_alpha pad c cs hn h, map_eq_ok_iff] at hb
    obtain ⟨ts, hts, rfl⟩ := hb
    intro t ht
    rcases List.mem_append.1 ht with ht | ht
    · rcases alphaToks_type _ t ht with h' | h' <;> simp [h']
    · exact ih ts hts t ht
  | op c cs hn ha ih =>
    intro body hb
    cases ho : operatorTok pad c with
    | none => rw [tb_op_none pad c cs hn ha ho] at hb; cases hb
    | some t0 =>
      rw [tb_op_some pad c cs t0 hn ha ho, map_eq_ok_iff] at hb
      obtain ⟨ts, hts, rfl⟩ := hb
      intro t ht
      rcases List.mem_append.1 ht with ht | ht
      · exact operatorTok_not_eof pad c t0 ho t ht
      · exact ih ts hts t ht

/-! ### padding -/

theorem tb_nopad (s : List Char) :
    tb false s = (tb true s).map (fun ts => ts.filter (fun t => t.type != .pad)) := by
  induction s using tok_induction with
  | nil => rfl
  | num c cs h ih =>
    rw [tb_number false c cs h, tb_number true c cs h, ih]
    cases tb true (List.dropWhile isNumber cs) <;> simp [Except.map]
  | alpha c cs hn h ih =>
    rw [tb_alpha false c cs hn h, tb_alpha true c cs hn h, ih]
    have hf : (alphaToks (c :: List.takeWhile isAlpha cs)).filter (fun t => t.type != .pad) =
        alphaToks (c :: List.takeWhile isAlpha cs) := by
      rw [List.filter_eq_self]
      intro t ht
      rcases alphaToks_type _ t ht with h' | h' <;> simp [h']
    cases tb true (List.dropWhile isAlpha cs) <;> simp [Except.map, hf]
  | op c cs hn ha ih =>
    cases ho : operatorTok true c with
    | none =>
      have ho' : operatorTok false c = none := by rw [operatorTok_false, ho]; rfl
      rw [tb_op_none false c cs hn ha ho', tb_op_none true c cs hn ha ho]
      rfl
    | some t =>
      have ho' : operatorTok false c = some (t.filter (fun t => t.type != .pad)) := by
        rw [operatorTok_false, ho]; rfl
      rw [tb_op_some false c cs _ hn ha ho', tb_op_some true c cs t hn ha ho, ih]
      cases tb true cs <;> simp [Except.map]

end Mathy
