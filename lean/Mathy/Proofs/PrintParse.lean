/-
Printing then parsing (property C04): every printed tree is derivable in the documented grammar
(`Spec/Grammar.lean`) with a tree that evaluates identically and has the same variables.

The printer's parenthesisation depends on the context only through one outer pair of
parentheses (`printToks_ctx`); the grammatical level of the un-parenthesised text is a function
of the root of the tree (`lvl`).
-/
import Mathy.Model.Print
import Mathy.Proofs.Eval
import Mathy.Spec.Grammar
namespace Mathy
namespace PP
open G

set_option maxHeartbeats 1000000

/-! ### the side conditions (copies of the definitions of `Props/C04.lean`) -/

def NoEq : Ex → Bool
  | .const .. => true
  | .var .. => true
  | .un _ .abs _ => false
  | .un _ .fact c => c.isConst
  | .un _ _ c => NoEq c
  | .bin _ .eq _ _ => false
  | .bin _ _ l r => NoEq l && NoEq r

/-- the formatter round-trips on `|v|` -/
def LitOk (nt : Rat → List Char) (v : Rat) : Prop :=
  parseNumber (nt (if v < 0 then -v else v)) = some (if v < 0 then -v else v)

def NumOk (nt : Rat → List Char) : Ex → Prop
  | .const _ v => LitOk nt v
  | .var .. => True
  | .un _ _ c => NumOk nt c
  | .bin _ _ l r => NumOk nt l ∧ NumOk nt r

/-! ### the semantic relation -/

/-- same evaluation at every assignment, same variables -/
def Rel (e e' : Ex) : Prop := EvalEq e e' ∧ ∀ c, c ∈ e'.vars ↔ c ∈ e.vars

theorem Rel.bin {l l' r r' : Ex} (t t' : Nat) (o : Bop) (hl : Rel l l') (hr : Rel r r') :
    Rel (.bin t o l r) (.bin t' o l' r') :=
  ⟨fun env => by simp [eval, hl.1 env, hr.1 env], fun c => by simp [Ex.vars, hl.2 c, hr.2 c]⟩

theorem Rel.un {c c' : Ex} (t t' : Nat) (o : Uop) (h : Rel c c') : Rel (.un t o c) (.un t' o c') :=
  ⟨fun env => by simp [eval, h.1 env], fun x => by simp [Ex.vars, h.2 x]⟩

theorem Rel.const (t : Nat) (v : Rat) : Rel (.const t v) (.const 0 v) :=
  ⟨fun _ => rfl, fun _ => Iff.rfl⟩

theorem Rel.var (t : Nat) (x : Char) : Rel (.var t x) (.var 0 x) :=
  ⟨fun _ => rfl, fun _ => Iff.rfl⟩

/-! ### parentheses, context -/

@[simp] theorem parens_true (ts : List Tok) :
    parens true ts = tk .openParen "(" :: ts ++ [tk .closeParen ")"] := rfl
@[simp] theorem parens_false (ts : List Tok) : parens false ts = ts := rfl

theorem selfParens_none (o : Bop) : selfParens o none = false := rfl

/-- whether the context puts the printed node into parentheses -/
def wrapCtx (ctx : Option (Bop × Side)) : Ex → Bool
  | .bin _ .pow _ _ => false
  | e@(.bin _ o _ _) => !isCompactProduct e && selfParens o ctx
  | _ => false

theorem printToks_ctx (nt : Rat → List Char) (ctx : Option (Bop × Side)) (e : Ex) :
    printToks nt ctx e = parens (wrapCtx ctx e) (printToks nt none e) := by
  cases e with
  | const t v => simp [printToks, wrapCtx]
  | var t v => simp [printToks, wrapCtx]
  | un t o c => cases o <;> simp [printToks, wrapCtx]
  | bin t o l r =>
    cases o <;> simp only [printToks, wrapCtx, selfParens_none] <;>
      first | (split <;> simp_all) | simp

/-! ### lifting derivations -/

theorem prim_paren {ts : List Tok} {e : Ex} (h : AddE ts e) : Prim (parens true ts) e :=
  Prim.paren _ _ rfl rfl h

theorem prim_factors {ts : List Tok} {e : Ex} (h : Prim ts e) : Factors ts e := by
  have := Factors.plain (PrimSeq.one h)
  simpa [product] using this

theorem exp_mult {ts : List Tok} {e : Ex} (h : ExpE ts e) : MultE ts e := by
  simpa using MultE.mk h (MultLoop.done _)

theorem mult_add {ts : List Tok} {e : Ex} (h : MultE ts e) : AddE ts e := by
  simpa using AddE.mk h (AddLoop.done _)

theorem prim_unary {ts : List Tok} {e : Ex} (h : Prim ts e) : UnaryE ts e :=
  .factors (prim_factors h)

/-- grammatical level of a printed tree -/
inductive Lvl where
  | prim | factors | closed | unary | exp | mult | add
  deriving DecidableEq, Repr

def Der : Lvl → List Tok → Ex → Prop
  | .prim, ts, e => Prim ts e
  | .factors, ts, e => Factors ts e
  | .closed, ts, e => UnaryE ts e ∧ endsClosed ts = true
  | .unary, ts, e => UnaryE ts e
  | .exp, ts, e => ExpE ts e
  | .mult, ts, e => MultE ts e
  | .add, ts, e => AddE ts e

def Lvl.leFactors : Lvl → Bool | .prim | .factors => true | _ => false
def Lvl.leUnary : Lvl → Bool | .prim | .factors | .closed | .unary => true | _ => false
def Lvl.leExp : Lvl → Bool | .mult | .add => false | _ => true
def Lvl.leMult : Lvl → Bool | .add => false | _ => true

theorem Der.toFactors {ts : List Tok} {e : Ex} :
    ∀ {k : Lvl}, k.leFactors = true → Der k ts e → Factors ts e
  | .prim, _, h => prim_factors h
  | .factors, _, h => h
  | .closed, hk, _ => by simp [Lvl.leFactors] at hk
  | .unary, hk, _ => by simp [Lvl.leFactors] at hk
  | .exp, hk, _ => by simp [Lvl.leFactors] at hk
  | .mult, hk, _ => by simp [Lvl.leFactors] at hk
  | .add, hk, _ => by simp [Lvl.leFactors] at hk

theorem Der.toUnary {ts : List Tok} {e : Ex} :
    ∀ {k : Lvl}, k.leUnary = true → Der k ts e → UnaryE ts e
  | .prim, _, h => prim_unary h
  | .factors, _, h => .factors h
  | .closed, _, h => h.1
  | .unary, _, h => h
  | .exp, hk, _ => by simp [Lvl.leUnary] at hk
  | .mult, hk, _ => by simp [Lvl.leUnary] at hk
  | .add, hk, _ => by simp [Lvl.leUnary] at hk

theorem Der.toExp {ts : List Tok} {e : Ex} :
    ∀ {k : Lvl}, k.leExp = true → Der k ts e → ExpE ts e
  | .prim, _, h => .unary (prim_unary h)
  | .factors, _, h => .unary (.factors h)
  | .closed, _, h => .unary h.1
  | .unary, _, h => .unary h
  | .exp, _, h => h
  | .mult, hk, _ => by simp [Lvl.leExp] at hk
  | .add, hk, _ => by simp [Lvl.leExp] at hk

theorem Der.toMult {ts : List Tok} {e : Ex} :
    ∀ {k : Lvl}, k.leMult = true → Der k ts e → MultE ts e
  | .prim, _, h => exp_mult (.unary (prim_unary h))
  | .factors, _, h => exp_mult (.unary (.factors h))
  | .closed, _, h => exp_mult (.unary h.1)
  | .unary, _, h => exp_mult (.unary h)
  | .exp, _, h => exp_mult h
  | .mult, _, h => h
  | .add, hk, _ => by simp [Lvl.leMult] at hk

theorem Der.toAdd {ts : List Tok} {e : Ex} : ∀ {k : Lvl}, Der k ts e → AddE ts e
  | .add, h => h
  | .prim, h => mult_add (Der.toMult (k := .prim) rfl h)
  | .factors, h => mult_add (Der.toMult (k := .factors) rfl h)
  | .closed, h => mult_add (Der.toMult (k := .closed) rfl h)
  | .unary, h => mult_add (Der.toMult (k := .unary) rfl h)
  | .exp, h => mult_add (Der.toMult (k := .exp) rfl h)
  | .mult, h => mult_add (Der.toMult (k := .mult) rfl h)

/-- the level of the text printed for a tree that has no binary parent -/
def lvl : Ex → Lvl
  | .const .. => .closed
  | .var .. => .prim
  | .un _ .neg _ => .unary
  | .un _ .fact _ => .closed
  | .un _ .sgn _ => .prim
  | .un _ .abs _ => .prim
  | .bin _ .pow l _ => if l.isConst || l.isUn .fact then .exp else .factors
  | .bin _ .add _ _ => .add
  | .bin _ .sub _ _ => .add
  | .bin _ .eq _ _ => .add
  | e@(.bin _ _ _ _) => if isCompactProduct e then .unary else .mult

/-! ### appending to sums and equation chains -/

theorem addLoop_snoc_plus (p : Tok) (hp : p.type = .plus) {us : List Tok} {b : Ex}
    (hb : MultE us b) :
    ∀ {acc : Ex} {ts : List Tok} {e : Ex}, AddLoop acc ts e →
      AddLoop acc (ts ++ p :: us) (.bin 0 .add e b)
  | _, _, _, .done acc => by simpa using AddLoop.plus p hp hb (AddLoop.done _)
  | _, _, _, .plus q hq hm hl => by
      have := addLoop_snoc_plus p hp hb hl
      simpa [List.append_assoc] using AddLoop.plus q hq hm this
  | _, _, _, .minus q hq hm hl => by
      have := addLoop_snoc_plus p hp hb hl
      simpa [List.append_assoc] using AddLoop.minus q hq hm this

theorem addLoop_snoc_minus (p : Tok) (hp : p.type = .minus) {us : List Tok} {b : Ex}
    (hb : MultE us b) :
    ∀ {acc : Ex} {ts : List Tok} {e : Ex}, AddLoop acc ts e →
      AddLoop acc (ts ++ p :: us) (.bin 0 .sub e b)
  | _, _, _, .done acc => by simpa using AddLoop.minus p hp hb (AddLoop.done _)
  | _, _, _, .plus q hq hm hl => by
      have := addLoop_snoc_minus p hp hb hl
      simpa [List.append_assoc] using AddLoop.plus q hq hm this
  | _, _, _, .minus q hq hm hl => by
      have := addLoop_snoc_minus p hp hb hl
      simpa [List.append_assoc] using AddLoop.minus q hq hm this

theorem addE_plus {ts us : List Tok} {a b : Ex} (ha : AddE ts a) (hb : MultE us b) :
    AddE (ts ++ opTok .add :: us) (.bin 0 .add a b) := by
  cases ha with
  | mk h0 hl =>
    have := AddE.mk h0 (addLoop_snoc_plus (opTok .add) rfl hb hl)
    simpa [List.append_assoc] using this

theorem addE_minus {ts us : List Tok} {a b : Ex} (ha : AddE ts a) (hb : MultE us b) :
    AddE (ts ++ opTok .sub :: us) (.bin 0 .sub a b) := by
  cases ha with
  | mk h0 hl =>
    have := AddE.mk h0 (addLoop_snoc_minus (opTok .sub) rfl hb hl)
    simpa [List.append_assoc] using this

theorem eqLoop_append {acc mid fin : Ex} {ts us : List Tok} (h1 : EqLoop acc ts mid)
    (h2 : EqLoop mid us fin) : EqLoop acc (ts ++ us) fin := by
  induction h1 with
  | done acc => simpa using h2
  | eq q hq ha _ ih =>
    have := EqLoop.eq q hq ha (ih h2)
    simpa [List.append_assoc] using this

theorem eqLoop_one {acc r : Ex} {us : List Tok} (hr : AddE us r) :
    EqLoop acc (opTok .eq :: us) (.bin 0 .eq acc r) := by
  simpa using EqLoop.eq (opTok .eq) rfl hr (EqLoop.done _)

/-! ### constants -/

theorem const_unary {nt : Rat → List Char} {v : Rat} (h : LitOk nt v) :
    UnaryE (constToks nt v) (.const 0 v) := by
  unfold constToks
  unfold LitOk at h
  by_cases hv : v < 0
  · simp only [if_pos hv] at h ⊢
    have := UnaryE.negLit (tk .minus "-") ⟨.constant, nt (-v)⟩ (-v) rfl ⟨rfl, h⟩
    rwa [neg_neg] at this
  · simp only [if_neg hv] at h ⊢
    exact UnaryE.lit ⟨.constant, nt v⟩ v ⟨rfl, h⟩

theorem const_closed (nt : Rat → List Char) (v : Rat) : endsClosed (constToks nt v) = true := by
  unfold constToks
  split <;> rfl

theorem const_fact {nt : Rat → List Char} {v : Rat} (h : LitOk nt v) :
    UnaryE (constToks nt v ++ [tk .factorial "!"]) (.un 0 .fact (.const 0 v)) := by
  unfold constToks
  unfold LitOk at h
  by_cases hv : v < 0
  · simp only [if_pos hv] at h ⊢
    have := UnaryE.negFact (tk .minus "-") ⟨.constant, nt (-v)⟩ (tk .factorial "!") (-v) rfl
      ⟨rfl, h⟩ rfl
    rwa [neg_neg] at this
  · simp only [if_neg hv] at h ⊢
    exact UnaryE.fact ⟨.constant, nt v⟩ (tk .factorial "!") v ⟨rfl, h⟩ rfl

theorem fact_closed (ts : List Tok) : endsClosed (ts ++ [tk .factorial "!"]) = true := by
  simp [endsClosed, tk]

theorem const_factors {nt : Rat → List Char} {v : Rat} (h : LitOk nt v) {fs : List Tok} {f : Ex}
    (hf : Factors fs f) : UnaryE (constToks nt v ++ fs) (.bin 0 .mul (.const 0 v) f) := by
  unfold constToks
  unfold LitOk at h
  by_cases hv : v < 0
  · simp only [if_pos hv] at h ⊢
    have := UnaryE.negLitFactors (tk .minus "-") ⟨.constant, nt (-v)⟩ (-v) rfl ⟨rfl, h⟩ hf
    rwa [neg_neg] at this
  · simp only [if_neg hv] at h ⊢
    exact UnaryE.litFactors ⟨.constant, nt v⟩ v ⟨rfl, h⟩ hf

theorem neg_const {nt : Rat → List Char} {v : Rat} (h : LitOk nt v) (hv : ¬ v < 0) :
    UnaryE (tk .minus "-" :: constToks nt v) (.const 0 (-v)) := by
  unfold constToks
  unfold LitOk at h
  simp only [if_neg hv] at h ⊢
  exact UnaryE.negLit (tk .minus "-") ⟨.constant, nt v⟩ v rfl ⟨rfl, h⟩

theorem neg_const_factors {nt : Rat → List Char} {v : Rat} (h : LitOk nt v) (hv : ¬ v < 0)
    {fs : List Tok} {f : Ex} (hf : Factors fs f) :
    UnaryE (tk .minus "-" :: (constToks nt v ++ fs)) (.bin 0 .mul (.const 0 (-v)) f) := by
  unfold constToks
  unfold LitOk at h
  simp only [if_neg hv] at h ⊢
  exact UnaryE.negLitFactors (tk .minus "-") ⟨.constant, nt v⟩ v rfl ⟨rfl, h⟩ hf

/-! ### which contexts wrap which trees -/

@[simp] theorem compact_add (t : Nat) (l r : Ex) : isCompactProduct (.bin t .add l r) = false := rfl
@[simp] theorem compact_sub (t : Nat) (l r : Ex) : isCompactProduct (.bin t .sub l r) = false := rfl
@[simp] theorem compact_div (t : Nat) (l r : Ex) : isCompactProduct (.bin t .div l r) = false := rfl
@[simp] theorem compact_pow (t : Nat) (l r : Ex) : isCompactProduct (.bin t .pow l r) = false := rfl
@[simp] theorem compact_eq (t : Nat) (l r : Ex) : isCompactProduct (.bin t .eq l r) = false := rfl
@[simp] theorem compact_un (t : Nat) (o : Uop) (c : Ex) : isCompactProduct (.un t o c) = false := rfl
@[simp] theorem compact_const (t : Nat) (v : Rat) : isCompactProduct (.const t v) = false := rfl
@[simp] theorem compact_var (t : Nat) (x : Char) : isCompactProduct (.var t x) = false := rfl

macro "ctx_simp" : tactic =>
  `(tactic| simp_all [wrapCtx, lvl, selfParens, Bop.priority, Bop.isAddSub, Bop.isMulDiv,
      Lvl.leExp, Lvl.leMult, Lvl.leUnary, Lvl.leFactors, Ex.isOp, Ex.isConst, Ex.isUn,
      powerBaseNeedsParens, negateNeedsParens])

theorem wrap_eqctx (s : Side) (c : Ex) : wrapCtx (some (.eq, s)) c = false := by
  cases c with
  | bin t o l r => cases o <;> cases s <;> ctx_simp
  | _ => rfl

theorem ctx_exp {ctx : Option (Bop × Side)}
    (hctx : ctx = some (.mul, .left) ∨ ctx = some (.div, .left) ∨ ctx = some (.div, .right))
    (c : Ex) (hw : wrapCtx ctx c = false) : (lvl c).leExp = true := by
  cases c with
  | const t v => rfl
  | var t x => rfl
  | un t o c => cases o <;> rfl
  | bin t o l r =>
    rcases hctx with rfl | rfl | rfl <;>
      (cases o with
       | mul => cases hc : isCompactProduct (.bin t .mul l r) <;> ctx_simp
       | pow => simp only [lvl]; split <;> rfl
       | _ => ctx_simp)

theorem ctx_mult {ctx : Option (Bop × Side)}
    (hctx : ctx = some (.mul, .right) ∨ ctx = some (.add, .right) ∨ ctx = some (.sub, .right))
    (c : Ex) (hw : wrapCtx ctx c = false) : (lvl c).leMult = true := by
  cases c with
  | const t v => rfl
  | var t x => rfl
  | un t o c => cases o <;> rfl
  | bin t o l r =>
    rcases hctx with rfl | rfl | rfl <;>
      (cases o with
       | mul => cases hc : isCompactProduct (.bin t .mul l r) <;> ctx_simp
       | pow => simp only [lvl]; split <;> rfl
       | _ => ctx_simp)

theorem ctx_powR (c : Ex) (hw : wrapCtx (some (.pow, .right)) c = false)
    (hp : c.isOp .pow = false) : (lvl c).leUnary = true := by
  cases c with
  | const t v => rfl
  | var t x => rfl
  | un t o c => cases o <;> rfl
  | bin t o l r =>
    cases o with
    | mul => cases hc : isCompactProduct (.bin t .mul l r) <;> ctx_simp
    | pow => simp [Ex.isOp] at hp
    | _ => ctx_simp

theorem isOp_pow_wrap (ctx : Option (Bop × Side)) (c : Ex) (hp : c.isOp .pow = true) :
    wrapCtx ctx c = false := by
  cases c with
  | bin t o l r => cases o <;> simp [Ex.isOp] at hp; rfl
  | _ => rfl

theorem pbnp_true (ctx : Option (Bop × Side)) (l : Ex) (h : powerBaseNeedsParens l = true) :
    wrapCtx ctx l = false ∧ (l.isConst || l.isUn .fact) = false := by
  cases l with
  | const t v => simp [powerBaseNeedsParens, Ex.isUn, Ex.isOp, isCompactProduct] at h
  | var t x => simp [powerBaseNeedsParens, Ex.isUn, Ex.isOp, isCompactProduct] at h
  | un t o c => cases o <;> simp_all [powerBaseNeedsParens, Ex.isUn, Ex.isOp, isCompactProduct, wrapCtx, Ex.isConst]
  | bin t o l r =>
    refine ⟨?_, by simp [Ex.isConst, Ex.isUn]⟩
    cases o <;> simp_all [powerBaseNeedsParens, Ex.isUn, Ex.isOp, wrapCtx]

theorem wrap_not_closed (ctx : Option (Bop × Side)) (l : Ex) (h : wrapCtx ctx l = true) :
    (l.isConst || l.isUn .fact) = false := by
  cases l with
  | bin t o l r => simp [Ex.isConst, Ex.isUn]
  | _ => simp [wrapCtx] at h

theorem ctx_powL (l : Ex) (hp : powerBaseNeedsParens l = false)
    (hw : wrapCtx (some (.pow, .left)) l = false) :
    (lvl l = .prim ∧ (l.isConst || l.isUn .fact) = false) ∨
    (lvl l = .closed ∧ (l.isConst || l.isUn .fact) = true) := by
  cases l with
  | const t v => right; simp [lvl, Ex.isConst]
  | var t x => left; simp [lvl, Ex.isConst, Ex.isUn]
  | un t o c => cases o <;> simp_all [lvl, Ex.isConst, Ex.isUn, powerBaseNeedsParens]
  | bin t o l r =>
    exfalso
    cases o with
    | mul => cases hc : isCompactProduct (.bin t .mul l r) <;> ctx_simp
    | _ => ctx_simp

theorem nnp_false (c : Ex) (h : negateNeedsParens c = false) :
    (lvl c).leFactors = true ∨ (∃ t v, c = .const t v ∧ ¬ v < 0) ∨
    (∃ t t1 q r0, c = .bin t .mul (.const t1 q) r0 ∧ isCompactProduct c = true ∧ ¬ q < 0) := by
  cases c with
  | const t v => right; left; exact ⟨t, v, rfl, by simpa [negateNeedsParens] using h⟩
  | var t x => left; rfl
  | un t o c => cases o <;> simp_all [negateNeedsParens, lvl, Lvl.leFactors]
  | bin t o l r =>
    cases o with
    | pow => left; simp_all [negateNeedsParens, lvl, Lvl.leFactors]
    | mul =>
      cases l with
      | const t1 q =>
        right; right
        refine ⟨t, t1, q, r, rfl, ?_⟩
        simp only [negateNeedsParens] at h
        split at h <;> simp_all
      | _ => simp [negateNeedsParens] at h
    | _ => simp [negateNeedsParens] at h

theorem compact_form (t : Nat) (l r : Ex) (h : isCompactProduct (.bin t .mul l r) = true) :
    ∃ t1 q, l = .const t1 q ∧ (lvl r).leFactors = true ∧
      wrapCtx (some (.mul, .right)) r = false := by
  cases l with
  | const t1 q =>
    refine ⟨t1, q, rfl, ?_⟩
    cases r with
    | var t2 x => exact ⟨rfl, rfl⟩
    | bin t2 o a b =>
      cases o <;> first | (simp [isCompactProduct] at h; done) | skip
      cases a <;> first | (simp [isCompactProduct] at h; done) | skip
      simp [lvl, Lvl.leFactors, wrapCtx, Ex.isConst, Ex.isUn]
    | _ => simp [isCompactProduct] at h
  | _ => simp [isCompactProduct] at h

theorem compact_false_of_ne_mul (t : Nat) (o : Bop) (l r : Ex) (ho : o ≠ .mul) :
    isCompactProduct (.bin t o l r) = false := by
  cases o <;> first | rfl | exact absurd rfl ho


/-! ### operands -/

section
variable (nt : Rat → List Char)

theorem operand_add (ctx : Option (Bop × Side)) {c c' : Ex}
    (hd : Der (lvl c) (printToks nt none c) c') : AddE (printToks nt ctx c) c' := by
  rw [printToks_ctx]
  cases hw : wrapCtx ctx c
  · exact hd.toAdd
  · exact mult_add (exp_mult (.unary (prim_unary (prim_paren hd.toAdd))))

theorem operand_mult {ctx : Option (Bop × Side)}
    (hctx : ctx = some (.mul, .right) ∨ ctx = some (.add, .right) ∨ ctx = some (.sub, .right))
    {c c' : Ex} (hd : Der (lvl c) (printToks nt none c) c') : MultE (printToks nt ctx c) c' := by
  rw [printToks_ctx]
  cases hw : wrapCtx ctx c
  · exact hd.toMult (ctx_mult hctx c hw)
  · exact exp_mult (.unary (prim_unary (prim_paren hd.toAdd)))

theorem operand_exp {ctx : Option (Bop × Side)}
    (hctx : ctx = some (.mul, .left) ∨ ctx = some (.div, .left) ∨ ctx = some (.div, .right))
    {c c' : Ex} (hd : Der (lvl c) (printToks nt none c) c') : ExpE (printToks nt ctx c) c' := by
  rw [printToks_ctx]
  cases hw : wrapCtx ctx c
  · exact hd.toExp (ctx_exp hctx c hw)
  · exact .unary (prim_unary (prim_paren hd.toAdd))

/-- the exponent of a power prints as a unary expression -/
theorem operand_exponent {r r' : Ex} (hd : Der (lvl r) (printToks nt none r) r') :
    UnaryE (parens (r.isOp .pow) (printToks nt (some (.pow, .right)) r)) r' := by
  rw [printToks_ctx]
  cases hp : r.isOp .pow
  · cases hw : wrapCtx (some (.pow, .right)) r
    · exact hd.toUnary (ctx_powR r hw hp)
    · exact prim_unary (prim_paren hd.toAdd)
  · rw [isOp_pow_wrap _ r hp]
    exact prim_unary (prim_paren hd.toAdd)

/-- the base of a power prints as a primary, or as a literal / factorial of a literal -/
theorem operand_base {l l' : Ex} (hd : Der (lvl l) (printToks nt none l) l') :
    ((l.isConst || l.isUn .fact) = false →
      Prim (parens (powerBaseNeedsParens l) (printToks nt (some (.pow, .left)) l)) l') ∧
    ((l.isConst || l.isUn .fact) = true →
      UnaryE (parens (powerBaseNeedsParens l) (printToks nt (some (.pow, .left)) l)) l' ∧
      endsClosed (parens (powerBaseNeedsParens l) (printToks nt (some (.pow, .left)) l)) = true) := by
  rw [printToks_ctx]
  cases hp : powerBaseNeedsParens l
  · cases hw : wrapCtx (some (.pow, .left)) l
    · rcases ctx_powL l hp hw with ⟨hl, hc⟩ | ⟨hl, hc⟩
      · rw [hl] at hd
        exact ⟨fun _ => hd, fun h => (by rw [hc] at h; cases h)⟩
      · rw [hl] at hd
        exact ⟨fun h => (by rw [hc] at h; cases h), fun _ => hd⟩
    · have hc := wrap_not_closed _ l hw
      exact ⟨fun _ => prim_paren hd.toAdd, fun h => (by rw [hc] at h; cases h)⟩
  · obtain ⟨hw, hc⟩ := pbnp_true (some (.pow, .left)) l hp
    rw [hw]
    exact ⟨fun _ => prim_paren hd.toAdd, fun h => (by rw [hc] at h; cases h)⟩

/-! ### the main induction -/

/-- for a compact product `q·f` the re-parsed tree is a product of the literal and a factor -/
def Extra (e e' : Ex) : Prop :=
  ∀ t t1 q r0, e = .bin t .mul (.const t1 q) r0 → isCompactProduct e = true →
    ∃ f, e' = .bin 0 .mul (.const 0 q) f ∧ Factors (printToks nt none r0) f ∧ Rel r0 f

theorem Extra.of_not_compact {e e' : Ex} (h : isCompactProduct e = false) : Extra nt e e' :=
  fun _ _ _ _ _ hc => by rw [h] at hc; cases hc

theorem evalEq_neg_const (t t1 : Nat) (v : Rat) :
    EvalEq (.un t .neg (.const t1 v)) (.const 0 (-v)) := fun _ => rfl

theorem evalEq_neg_mul (t t1 t2 : Nat) (q : Rat) (f f' : Ex) (h : EvalEq f f') :
    EvalEq (.un t .neg (.bin t1 .mul (.const t2 q) f)) (.bin 0 .mul (.const 0 (-q)) f') := by
  intro env
  simp only [eval, ← h env]
  cases eval env f with
  | error b => rfl
  | ok a => simp [Res.bin, Res.un, evalBop, evalUop]

theorem main (e : Ex) (hne : NoEq e = true) (hn : NumOk nt e) :
    ∃ e', Rel e e' ∧ Der (lvl e) (printToks nt none e) e' ∧ Extra nt e e' := by
  induction e with
  | const t v =>
    exact ⟨.const 0 v, Rel.const t v, ⟨const_unary hn, const_closed nt v⟩,
      Extra.of_not_compact nt rfl⟩
  | var t x =>
    exact ⟨.var 0 x, Rel.var t x, Prim.var ⟨.variable, [x]⟩ rfl, Extra.of_not_compact nt rfl⟩
  | un t o c ih =>
    cases o with
    | abs => simp [NoEq] at hne
    | fact =>
      cases c with
      | const t1 v =>
        refine ⟨.un 0 .fact (.const 0 v), Rel.un _ _ _ (Rel.const t1 v), ?_,
          Extra.of_not_compact nt rfl⟩
        exact ⟨const_fact hn, fact_closed _⟩
      | _ => simp [NoEq, Ex.isConst] at hne
    | sgn =>
      obtain ⟨c', hrel, hder, -⟩ := ih (by simpa [NoEq] using hne) hn
      refine ⟨.un 0 .sgn c', Rel.un _ _ _ hrel, ?_, Extra.of_not_compact nt rfl⟩
      exact Prim.fn (tk .function "sgn") _ _ rfl rfl rfl hder.toAdd
    | neg =>
      obtain ⟨c', hrel, hder, hex⟩ := ih (by simpa [NoEq] using hne) hn
      simp only [lvl, Der, printToks]
      cases hp : negateNeedsParens c
      · rcases nnp_false c hp with hf | ⟨t1, v, rfl, hv⟩ | ⟨t1, t2, q, r0, rfl, hc, hq⟩
        · exact ⟨.un 0 .neg c', Rel.un _ _ _ hrel,
            UnaryE.negFactors _ rfl (hder.toFactors hf), Extra.of_not_compact nt rfl⟩
        · refine ⟨.const 0 (-v), ⟨evalEq_neg_const _ _ _, fun _ => Iff.rfl⟩, ?_,
            Extra.of_not_compact nt rfl⟩
          exact neg_const hn hv
        · obtain ⟨f, rfl, hf, hrf⟩ := hex _ _ _ _ rfl hc
          obtain ⟨t3, q', hl, hlf, hwr⟩ := compact_form _ _ _ hc
          have hpr : printToks nt none (.bin t1 .mul (.const t2 q) r0)
              = constToks nt q ++ printToks nt none r0 := by
            have h1 : printToks nt (some (.mul, .right)) r0 = printToks nt none r0 := by
              rw [printToks_ctx, hwr]; rfl
            simp only [printToks, hc, if_true, h1]
          refine ⟨.bin 0 .mul (.const 0 (-q)) f, ⟨?_, ?_⟩, ?_, Extra.of_not_compact nt rfl⟩
          · exact evalEq_neg_mul _ _ _ _ _ _ hrf.1
          · intro x
            have := hrel.2 x
            simpa [Ex.vars] using this
          · rw [hpr]
            exact neg_const_factors hn.1 hq hf
      · refine ⟨.un 0 .neg c', Rel.un _ _ _ hrel, ?_, Extra.of_not_compact nt rfl⟩
        exact UnaryE.negFactors _ rfl (prim_factors (prim_paren hder.toAdd))
  | bin t o l r ihl ihr =>
    cases o with
    | eq => simp [NoEq] at hne
    | add =>
      simp only [NoEq, Bool.and_eq_true] at hne
      obtain ⟨l', hlr, hld, -⟩ := ihl hne.1 hn.1
      obtain ⟨r', hrr, hrd, -⟩ := ihr hne.2 hn.2
      refine ⟨.bin 0 .add l' r', Rel.bin _ _ _ hlr hrr, ?_, Extra.of_not_compact nt rfl⟩
      have hpr : printToks nt none (.bin t .add l r) = printToks nt (some (.add, .left)) l ++
          opTok .add :: printToks nt (some (.add, .right)) r := by
        simp [printToks, selfParens_none]
      simp only [lvl, Der]
      rw [hpr]
      exact addE_plus (operand_add nt _ hld) (operand_mult nt (Or.inr (Or.inl rfl)) hrd)
    | sub =>
      simp only [NoEq, Bool.and_eq_true] at hne
      obtain ⟨l', hlr, hld, -⟩ := ihl hne.1 hn.1
      obtain ⟨r', hrr, hrd, -⟩ := ihr hne.2 hn.2
      refine ⟨.bin 0 .sub l' r', Rel.bin _ _ _ hlr hrr, ?_, Extra.of_not_compact nt rfl⟩
      have hpr : printToks nt none (.bin t .sub l r) = printToks nt (some (.sub, .left)) l ++
          opTok .sub :: printToks nt (some (.sub, .right)) r := by
        simp [printToks, selfParens_none]
      simp only [lvl, Der]
      rw [hpr]
      exact addE_minus (operand_add nt _ hld) (operand_mult nt (Or.inr (Or.inr rfl)) hrd)
    | div =>
      simp only [NoEq, Bool.and_eq_true] at hne
      obtain ⟨l', hlr, hld, -⟩ := ihl hne.1 hn.1
      obtain ⟨r', hrr, hrd, -⟩ := ihr hne.2 hn.2
      refine ⟨.bin 0 .div l' r', Rel.bin _ _ _ hlr hrr, ?_, Extra.of_not_compact nt rfl⟩
      have hpr : printToks nt none (.bin t .div l r) = printToks nt (some (.div, .left)) l ++
          opTok .div :: printToks nt (some (.div, .right)) r := by
        simp [printToks, selfParens_none]
      have hl : lvl (.bin t .div l r) = .mult := by simp [lvl]
      rw [hl, hpr]
      have := MultE.mk (operand_exp nt (Or.inr (Or.inl rfl)) hld)
        (MultLoop.div (opTok .div) rfl (operand_exp nt (Or.inr (Or.inr rfl)) hrd) (MultLoop.done _))
      simpa [Der] using this
    | mul =>
      simp only [NoEq, Bool.and_eq_true] at hne
      obtain ⟨r', hrr, hrd, -⟩ := ihr hne.2 hn.2
      cases hc : isCompactProduct (.bin t .mul l r)
      · obtain ⟨l', hlr, hld, -⟩ := ihl hne.1 hn.1
        refine ⟨.bin 0 .mul l' r', Rel.bin _ _ _ hlr hrr, ?_, Extra.of_not_compact nt hc⟩
        have hpr : printToks nt none (.bin t .mul l r) = printToks nt (some (.mul, .left)) l ++
            opTok .mul :: printToks nt (some (.mul, .right)) r := by
          simp [printToks, selfParens_none, hc]
        have hl : lvl (.bin t .mul l r) = .mult := by simp [lvl, hc]
        rw [hl, hpr]
        exact MultE.mk (operand_exp nt (Or.inl rfl) hld)
          (MultLoop.mul (opTok .mul) rfl (operand_mult nt (Or.inl rfl) hrd))
      · obtain ⟨t1, q, rfl, hlf, hwr⟩ := compact_form _ _ _ hc
        have hpr : printToks nt none (.bin t .mul (.const t1 q) r)
            = constToks nt q ++ printToks nt none r := by
          have h1 : printToks nt (some (.mul, .right)) r = printToks nt none r := by
            rw [printToks_ctx, hwr]; rfl
          simp only [printToks, hc, if_true, h1]
        have hl : lvl (.bin t .mul (.const t1 q) r) = .unary := by simp [lvl, hc]
        refine ⟨.bin 0 .mul (.const 0 q) r', Rel.bin _ _ _ (Rel.const _ _) hrr, ?_, ?_⟩
        · rw [hl, hpr]
          exact const_factors hn.1 (hrd.toFactors hlf)
        · intro t' t1' q' r0' heq _
          cases heq
          exact ⟨r', rfl, hrd.toFactors hlf, hrr⟩
    | pow =>
      simp only [NoEq, Bool.and_eq_true] at hne
      obtain ⟨l', hlr, hld, -⟩ := ihl hne.1 hn.1
      obtain ⟨r', hrr, hrd, -⟩ := ihr hne.2 hn.2
      refine ⟨.bin 0 .pow l' r', Rel.bin _ _ _ hlr hrr, ?_, Extra.of_not_compact nt rfl⟩
      have hE := operand_exponent nt hrd
      obtain ⟨hB1, hB2⟩ := operand_base nt hld
      simp only [printToks, lvl]
      cases hb : (l.isConst || l.isUn .fact)
      · simp only [Bool.false_eq_true, if_false, Der]
        have := Factors.pow (init := []) (tk .exponent "^") rfl (PrimSeq.one (hB1 hb)) hE rfl
        simpa [product] using this
      · simp only [if_true, Der]
        exact ExpE.pow (tk .exponent "^") rfl (hB2 hb).1 (hB2 hb).2 hE

end


/-! ### equation chains -/

/-- left-nested equation chains (what the parser produces) -/
def PrintableL : Ex → Bool
  | .bin _ .eq l r => PrintableL l && NoEq r
  | e => NoEq e

/-- equations anywhere along the top chain -/
def Printable : Ex → Bool
  | .bin _ .eq l r => Printable l && Printable r
  | e => NoEq e

section
variable (nt : Rat → List Char)

theorem print_eq (t : Nat) (l r : Ex) :
    printToks nt none (.bin t .eq l r) =
      printToks nt none l ++ opTok .eq :: printToks nt none r := by
  have h1 : printToks nt (some (.eq, .left)) l = printToks nt none l := by
    rw [printToks_ctx, wrap_eqctx]; rfl
  have h2 : printToks nt (some (.eq, .right)) r = printToks nt none r := by
    rw [printToks_ctx, wrap_eqctx]; rfl
  simp [printToks, selfParens_none, h1, h2]

theorem EqualE.inv {ts : List Tok} {e : Ex} (h : EqualE ts e) :
    ∃ ts0 ts1 e0, ts = ts0 ++ ts1 ∧ AddE ts0 e0 ∧ EqLoop e0 ts1 e := by
  cases h with
  | mk h0 hl => exact ⟨_, _, _, rfl, h0, hl⟩

theorem equalE_of_add {ts : List Tok} {e : Ex} (h : AddE ts e) : EqualE ts e := by
  simpa using EqualE.mk h (EqLoop.done _)

theorem equalE_append {ts us : List Tok} {a b : Ex} (h : EqualE ts a) (hl : EqLoop a us b) :
    EqualE (ts ++ us) b := by
  obtain ⟨ts0, ts1, e0, rfl, h0, hl0⟩ := EqualE.inv h
  have := EqualE.mk h0 (eqLoop_append hl0 hl)
  simpa [List.append_assoc] using this

theorem noeq_add (e : Ex) (hne : NoEq e = true) (hn : NumOk nt e) :
    ∃ e', Rel e e' ∧ AddE (printToks nt none e) e' := by
  obtain ⟨e', hrel, hder, -⟩ := main nt e hne hn
  exact ⟨e', hrel, hder.toAdd⟩

/-- left-nested chains re-parse to a tree with the same evaluation -/
theorem chainL (e : Ex) (hp : PrintableL e = true) (hn : NumOk nt e) :
    ∃ e', Rel e e' ∧ EqualE (printToks nt none e) e' := by
  induction e with
  | const t v =>
    obtain ⟨e', hrel, ha⟩ := noeq_add nt _ hp hn
    exact ⟨e', hrel, equalE_of_add ha⟩
  | var t x =>
    obtain ⟨e', hrel, ha⟩ := noeq_add nt _ hp hn
    exact ⟨e', hrel, equalE_of_add ha⟩
  | un t o c _ =>
    obtain ⟨e', hrel, ha⟩ := noeq_add nt _ hp hn
    exact ⟨e', hrel, equalE_of_add ha⟩
  | bin t o l r ihl _ =>
    by_cases ho : o = .eq
    · subst ho
      simp only [PrintableL, Bool.and_eq_true] at hp
      obtain ⟨l', hlr, hle⟩ := ihl hp.1 hn.1
      obtain ⟨r', hrr, hra⟩ := noeq_add nt r hp.2 hn.2
      refine ⟨.bin 0 .eq l' r', Rel.bin _ _ _ hlr hrr, ?_⟩
      rw [print_eq]
      exact equalE_append hle (eqLoop_one hra)
    · have hp' : NoEq (.bin t o l r) = true := by
        cases o <;> first | exact absurd rfl ho | exact hp
      obtain ⟨e', hrel, ha⟩ := noeq_add nt _ hp' hn
      exact ⟨e', hrel, equalE_of_add ha⟩

/-- `e'` has a value exactly where `e` has, the same one -/
def WR (e e' : Ex) : Prop := ∀ env v, eval env e = .ok v ↔ eval env e' = .ok v

theorem eval_eq_ok (env : Env) (t : Nat) (a b : Ex) (v : Rat) :
    eval env (.bin t .eq a b) = .ok v ↔ eval env a = .ok v ∧ eval env b = .ok v := by
  simp only [eval]
  cases eval env a <;> cases eval env b <;> simp [Res.bin, evalBop]
  rename_i x y
  by_cases hxy : x = y
  · subst hxy; simp
  · simp [hxy]
    intro h1 h2
    exact hxy (h1.trans h2.symm)

/-- arbitrary chains: the first component is the tree read for the whole text, the second
continues a chain whose left part `acc` has been read already -/
theorem chain (e : Ex) (hp : Printable e = true) (hn : NumOk nt e) :
    (∃ e', EqualE (printToks nt none e) e' ∧ WR e e' ∧ ∀ c, c ∈ e'.vars ↔ c ∈ e.vars) ∧
    (∀ acc : Ex, ∃ e'', EqLoop acc (opTok .eq :: printToks nt none e) e'' ∧
      (∀ env v, eval env e'' = .ok v ↔ eval env acc = .ok v ∧ eval env e = .ok v) ∧
      ∀ c, c ∈ e''.vars ↔ c ∈ acc.vars ∨ c ∈ e.vars) := by
  have base : ∀ e : Ex, NoEq e = true → NumOk nt e →
      (∃ e', EqualE (printToks nt none e) e' ∧ WR e e' ∧ ∀ c, c ∈ e'.vars ↔ c ∈ e.vars) ∧
      (∀ acc : Ex, ∃ e'', EqLoop acc (opTok .eq :: printToks nt none e) e'' ∧
        (∀ env v, eval env e'' = .ok v ↔ eval env acc = .ok v ∧ eval env e = .ok v) ∧
        ∀ c, c ∈ e''.vars ↔ c ∈ acc.vars ∨ c ∈ e.vars) := by
    intro e hne hn
    obtain ⟨e', hrel, ha⟩ := noeq_add nt e hne hn
    refine ⟨⟨e', equalE_of_add ha, fun env v => by rw [hrel.1 env], hrel.2⟩, fun acc => ?_⟩
    refine ⟨.bin 0 .eq acc e', eqLoop_one ha, fun env v => ?_, fun c => ?_⟩
    · rw [eval_eq_ok, hrel.1 env]
    · simp [Ex.vars, hrel.2 c]
  induction e with
  | const t v => exact base _ hp hn
  | var t x => exact base _ hp hn
  | un t o c _ => exact base _ hp hn
  | bin t o l r ihl ihr =>
    by_cases ho : o = .eq
    · subst ho
      simp only [Printable, Bool.and_eq_true] at hp
      obtain ⟨⟨l', hle, hlw, hlv⟩, hlacc⟩ := ihl hp.1 hn.1
      obtain ⟨-, hracc⟩ := ihr hp.2 hn.2
      rw [print_eq]
      refine ⟨?_, fun acc => ?_⟩
      · obtain ⟨r'', hrl, hrs, hrv⟩ := hracc l'
        refine ⟨r'', equalE_append hle hrl, fun env v => ?_, fun c => ?_⟩
        · rw [eval_eq_ok, hrs env v, hlw env v]
        · rw [hrv c, hlv c]; simp [Ex.vars]
      · obtain ⟨l'', hll, hls, hlv'⟩ := hlacc acc
        obtain ⟨r'', hrl, hrs, hrv⟩ := hracc l''
        refine ⟨r'', ?_, fun env v => ?_, fun c => ?_⟩
        · have := eqLoop_append hll hrl
          simpa [List.append_assoc] using this
        · rw [hrs env v, hls env v, eval_eq_ok, and_assoc]
        · rw [hrv c, hlv' c]; simp [Ex.vars, or_assoc]
    · have hp' : NoEq (.bin t o l r) = true := by
        cases o <;> first | exact absurd rfl ho | exact hp
      exact base _ hp' hn

/-! ### printed tokens are never the end marker -/

def OkT (ts : List Tok) : Prop := ∀ t ∈ ts, t.type ≠ .eof

theorem OkT.nil : OkT [] := fun _ h => by cases h

theorem OkT.cons {a : Tok} {ts : List Tok} (ha : a.type ≠ .eof) (h : OkT ts) : OkT (a :: ts) := by
  intro t ht
  rcases List.mem_cons.mp ht with rfl | ht
  · exact ha
  · exact h t ht

theorem OkT.append {ts us : List Tok} (h1 : OkT ts) (h2 : OkT us) : OkT (ts ++ us) := by
  intro t ht
  rcases List.mem_append.mp ht with ht | ht
  · exact h1 t ht
  · exact h2 t ht

theorem OkT.parens {ts : List Tok} (b : Bool) (h : OkT ts) : OkT (parens b ts) := by
  cases b
  · exact h
  · exact OkT.cons (by decide) (OkT.append h (OkT.cons (by decide) OkT.nil))

theorem okT_const (v : Rat) : OkT (constToks nt v) := by
  unfold constToks
  split
  · exact OkT.cons (by decide) (OkT.cons (by simp) OkT.nil)
  · exact OkT.cons (by simp) OkT.nil

theorem opTok_ne_eof (o : Bop) : (opTok o).type ≠ .eof := by cases o <;> decide

theorem noeof (e : Ex) : ∀ ctx, OkT (printToks nt ctx e) := by
  induction e with
  | const t v => intro ctx; simpa [printToks] using okT_const nt v
  | var t x => intro ctx; simpa [printToks] using OkT.cons (a := ⟨.variable, [x]⟩) (by simp) OkT.nil
  | un t o c ih =>
    intro ctx
    cases o <;> simp only [printToks]
    · exact OkT.cons (by decide) (OkT.parens _ (ih _))
    · exact OkT.append (ih _) (OkT.cons (by decide) OkT.nil)
    · exact OkT.cons (by decide) (OkT.parens _ (ih _))
    · exact OkT.cons (by decide) (OkT.parens _ (ih _))
  | bin t o l r ihl ihr =>
    intro ctx
    have h1 : ∀ o' : Bop, OkT (printToks nt (some (o', .left)) l ++
        opTok o' :: printToks nt (some (o', .right)) r) :=
      fun o' => OkT.append (ihl _) (OkT.cons (opTok_ne_eof o') (ihr _))
    cases o <;> simp only [printToks] <;>
      first
      | (split
         · exact OkT.append (ihl _) (ihr _)
         · exact OkT.parens _ (h1 _))
      | exact OkT.append (OkT.parens _ (ihl _)) (OkT.cons (by decide) (OkT.parens _ (ihr _)))

end

end PP
end Mathy
