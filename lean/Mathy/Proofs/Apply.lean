/-
From the per-rule lemmas to `applyRule` / `applyAt`: focus/plug, node search.
-/
import Mathy.Proofs.RulesSound
import Mathy.Proofs.VMSound
import Mathy.Proofs.DFSound
import Mathy.Proofs.BMSound
namespace Mathy

theorem focusesAux_plug (k0 : Ctx) (e : Ex) :
    ∀ p ∈ focusesAux k0 e, plug p.1 p.2 = plug k0 e := by
  induction e generalizing k0 with
  | const t v => intro p hp; simp [focusesAux] at hp; subst hp; rfl
  | var t x => intro p hp; simp [focusesAux] at hp; subst hp; rfl
  | un t o c ih =>
    intro p hp
    simp only [focusesAux, List.mem_cons] at hp
    rcases hp with rfl | hp
    · rfl
    · rw [ih _ p hp]; rfl
  | bin t o l r ihl ihr =>
    intro p hp
    simp only [focusesAux, List.mem_append, List.mem_cons] at hp
    rcases hp with hp | rfl | hp
    · rw [ihl _ p hp]; rfl
    · rfl
    · rw [ihr _ p hp]; rfl

/-- the focus at index `i` plugged back into its context is the tree itself -/
theorem focusAt_plug {t : Ex} {i : Nat} {k : Ctx} {n : Ex} (h : focusAt t i = some (k, n)) :
    plug k n = t := by
  unfold focusAt focuses at h
  have hm : (k, n) ∈ focusesAux [] t := List.mem_of_getElem? h
  exact focusesAux_plug [] t (k, n) hm

/-- a balanced move is only ever applicable inside an equation -/
theorem bmType_root_eq {k : Ctx} {n : Ex} {ty : BMType} (h : bmType k n = some ty) :
    (plug k n).isOp .eq = true := by
  cases hs : splitRoot k with
  | none => unfold bmType at h; rw [hs] at h; simp at h
  | some p =>
    obtain ⟨inner, rootF⟩ := p
    obtain ⟨hroot, -, -⟩ := bmType_spec h hs
    rw [plug_splitRoot hs]
    cases rootF <;> simp_all [Frame.fill, Frame.isOp, Ex.isOp]

/-- every rule except the balanced move refines the value of the whole tree -/
theorem applyRule_refines {r : Rule} {k k' : Ctx} {n n' : Ex} (hr : r ≠ .balancedMove)
    (hc : canApply r k n = true) (h : applyRule r k n = .ok (k', n')) :
    Refines (plug k n) (plug k' n') := by
  cases r with
  | associative => exact asApply_sound hc h
  | commutative p => exact csApply_sound hc h
  | constants => exact caApply_sound h
  | factorOut c => exact dfApply_sound h
  | distribute => exact dmApply_sound h
  | inverse => exact miApply_sound h
  | restate => exact rsApply_sound h
  | variableMultiply => exact vmApply_sound h
  | balancedMove => exact absurd rfl hr

/-- every rule preserves truth (equations: holds / does not hold) -/
theorem applyRule_holds {r : Rule} {k k' : Ctx} {n n' : Ex}
    (hc : canApply r k n = true) (h : applyRule r k n = .ok (k', n')) :
    HoldsRefines (plug k n) (plug k' n') := by
  by_cases hr : r = .balancedMove
  · subst hr; exact bmApply_sound h
  · exact (applyRule_refines hr hc h).holds

/-- membership in `findNodes` -/
theorem mem_findNodes {r : Rule} {t : Ex} {i : Nat} :
    i ∈ findNodes r t ↔ ∃ k n, focusAt t i = some (k, n) ∧ canApply r k n = true := by
  unfold findNodes focusAt
  simp only [List.mem_map, List.mem_filter, List.mem_zipIdx_iff_getElem?]
  constructor
  · rintro ⟨⟨⟨k, n⟩, j⟩, ⟨hj, hc⟩, rfl⟩
    exact ⟨k, n, by simpa using hj, hc⟩
  · rintro ⟨k, n, hf, hc⟩
    exact ⟨((k, n), i), ⟨by simpa using hf, hc⟩, rfl⟩

end Mathy
