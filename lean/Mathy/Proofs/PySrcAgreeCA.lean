/-
`ConstantsSimplifyRule.get_type` (translated from the live source) agrees with the model's `caType`.
-/
import Mathy.Proofs.PySrcAgree
namespace Mathy.SrcAgree
open Mathy.Py Mathy.Gen.Src

/-- the strings `ConstantsSimplifyRule.get_type` returns -/
def CAType.pyName : CAType → String
  | .simple => "simple"
  | .negationSimple => "negation_simple"
  | .simpleVarMult => "simple_var_multiply"
  | .chainedRight => "chained_right"
  | .chainedRightLeft => "chained_right_left"
  | .chainedRightLeftLeft => "chained_right_left_left"
  | .chainedLeftLeftRight => "chained_left_left_right"
  | .chainedRightDeep => "chained_right_deep"

/-- the statement for one tree -/
def CAAgree (k : Ctx) (n : Ex) : Prop :=
  (ConstantsSimplifyRule_get_type (some ⟨k, n⟩)).map (·.1) = (caType n).map CAType.pyName

theorem ca_leaf_un (k : Ctx) (t : Nat) (uo : Uop) (c : Ex) : CAAgree k (.un t uo c) := by
  unfold CAAgree
  cases uo <;> try rfl
  rcases c with ⟨_, _⟩ | ⟨_, _⟩ | ⟨_, _, _⟩ | ⟨_, co, cl, cr⟩ <;> try rfl
  cases co <;> cases cl <;> cases cr <;> rfl

theorem ca_left_const_shallow (k : Ctx) (t : Nat) (o : Bop) (lt : Nat) (lv : Rat) (r : Ex)
    (h : ∀ rt ro rlt rlo rll rlr rr, r ≠ .bin rt ro (.bin rlt rlo rll rlr) rr) :
    CAAgree k (.bin t o (.const lt lv) r) := by
  unfold CAAgree
  rcases r with ⟨_, _⟩ | ⟨_, _⟩ | ⟨_, _, _⟩ | ⟨_, ro, rl, rr⟩
  · cases o <;> rfl
  · cases o <;> rfl
  · cases o <;> rfl
  · rcases rl with ⟨_, _⟩ | ⟨_, _⟩ | ⟨_, _, _⟩ | ⟨_, rlo, rll, rlr⟩
    · cases o <;> cases ro <;> rfl
    · cases o <;> cases ro <;> rfl
    · cases o <;> cases ro <;> rfl
    · exact absurd rfl (h _ _ _ _ _ _ _)

theorem ca_left_const_deep (k : Ctx) (t : Nat) (o : Bop) (lt : Nat) (lv : Rat) (rt : Nat) (ro : Bop)
    (rlt : Nat) (rlo : Bop) (rll rlr rr : Ex) :
    CAAgree k (.bin t o (.const lt lv) (.bin rt ro (.bin rlt rlo rll rlr) rr)) := by
  unfold CAAgree
  cases o <;> cases ro <;> cases rlo <;> cases rll <;> rfl

theorem ca_left_var (k : Ctx) (t : Nat) (o : Bop) (lt : Nat) (lx : Char) (r : Ex) :
    CAAgree k (.bin t o (.var lt lx) r) := by
  unfold CAAgree
  cases o <;> cases r <;> rfl

theorem ca_left_un (k : Ctx) (t : Nat) (o : Bop) (lt : Nat) (luo : Uop) (lc r : Ex) :
    CAAgree k (.bin t o (.un lt luo lc) r) := by
  unfold CAAgree
  cases o <;> cases r <;> rfl

theorem gen_none_of (node : Ref)
    (h1 : isinstance (Ref.left node) [.ConstantExpression] = false)
    (h2 : (isinstance node [.MultiplyExpression] && isinstance (Ref.left node) [.MultiplyExpression]) = false)
    (h3 : isinstance node [.NegateExpression] = false) :
    ConstantsSimplifyRule_get_type node = none := by
  simp [ConstantsSimplifyRule_get_type, h1, h2, h3]

theorem caStep_left_bin_other (t : Nat) (o : Bop) (lt : Nat) (lo : Bop) (ll lr r : Ex)
    (h : ¬ (o = .mul ∧ lo = .mul)) : caStep (.bin t o (.bin lt lo ll lr) r) = none := by
  unfold caStep
  split <;> first | rfl | (exfalso; simp_all)

/-- the left operand is a binary node but the node is not a product of a product: no arrangement -/
theorem ca_left_bin_other (k : Ctx) (t : Nat) (o : Bop) (lt : Nat) (lo : Bop) (ll lr r : Ex)
    (h : ¬ (o = .mul ∧ lo = .mul)) : CAAgree k (.bin t o (.bin lt lo ll lr) r) := by
  unfold CAAgree caType
  rw [caStep_left_bin_other t o lt lo ll lr r h, gen_none_of]
  · rfl
  · rfl
  · cases o <;> cases lo <;> first | exact absurd ⟨rfl, rfl⟩ h | rfl
  · rfl

end Mathy.SrcAgree
